(* C10, part 6 — pair convergence: one leader L and one follower F of the same term in a
   deterministic lock-step schedule.  See the header of Props/C10.v for what is assumed
   and what is proved. *)
From RV Require Import Base.Prelude Base.IdSet Base.IdSetProofs M.Util M.UtilProofs M.Proto
  M.MemStorage M.MemStorageProofs M.Inflights M.InflightsProofs M.Progress M.RaftLog
  M.RaftLogProofs M.RaftLogProofsOps M.RaftLogProofsSlice M.RaftLogProofsHistory M.Quorum
  M.ConfChange M.Msg M.Raft M.RaftProofs M.RaftProofsC15 M.RaftProofsC09 M.RaftProofsC10.
From RecordUpdate Require Import RecordSet.
Import RecordSetNotations.

Local Open Scope N_scope.

(* ================================================================== *)
(* 6.1 logical logs: the leader's log and a follower's log that agrees *)
(*     with it up to a frontier                                        *)
(* ================================================================== *)

(* what we need of the leader's logical log *)
Record LeaderLog (LL : LL) : Prop := mkLeaderLog {
  lg_wf : ll_wf LL;
  lg_nz : forall e, In e (ll_ents LL) -> e_term e <> 0;
  lg_bound : ll_last LL < u64_max
}.

Lemma ll_get_in L i e : ll_get L i = Some e -> In e (ll_ents L).
Proof.
  unfold ll_get. destruct (i <=? ll_base L); [discriminate|]. apply nth_error_In.
Qed.

Lemma leader_term_in_range LL i :
  LeaderLog LL -> ll_base LL < i <= ll_last LL ->
  exists e, ll_get LL i = Some e /\ ll_term LL i = SOk (e_term e) /\ e_term e <> 0 /\ e_index e = i.
Proof.
  intros HL Hi. destruct (proj2 (ll_get_some_iff LL i) Hi) as [e He].
  exists e. split; [exact He|]. split.
  - unfold ll_term. destruct ((i <? ll_base LL) || (ll_last LL <? i)) eqn:E.
    { apply orb_prop in E. lia. }
    destruct (i =? ll_base LL) eqn:E2; [lia|]. rewrite He. reflexivity.
  - split; [apply (lg_nz LL HL); eapply ll_get_in; exact He|].
    apply (ll_get_index LL i e (lg_wf LL HL) He).
Qed.

Lemma term_beyond_last L i : ll_last L < i -> ll_term L i = SOk 0.
Proof.
  intros H. unfold ll_term. destruct (ll_last L <? i) eqn:E; [|lia]. rewrite orb_true_r. reflexivity.
Qed.

(* the follower's logical log FL agrees with the leader's on [lo, a] and disagrees at
   every later index of the leader's log (a is the exact agreement frontier) *)
Record Agree (LL FL : LL) (lo a : N) : Prop := mkAgree {
  ag_lo : lo <= a;
  ag_lastL : a <= ll_last LL;
  ag_lastF : a <= ll_last FL;
  ag_eq : forall i, lo <= i <= a -> ll_term FL i = ll_term LL i;
  ag_ne : forall i, a < i <= ll_last LL -> ll_term FL i <> ll_term LL i
}.

(* entries taken from the leader's log *)
Definition from_leader (LL : LL) (ents : list entry) : Prop :=
  forall e, In e ents -> ll_get LL (e_index e) = Some e.

Lemma from_leader_range LL p k :
  ll_wf LL -> ll_base LL <= p ->
  from_leader LL (firstn k (ll_range LL (p + 1) (ll_last LL + 1))).
Proof.
  intros Hw Hp e He. apply In_firstn_in in He. apply In_nth_error in He. destruct He as [j Hj].
  unfold ll_range in Hj.
  assert (Hlen : (j < N.to_nat (ll_last LL + 1 - (p + 1)))%nat).
  { destruct (Nat.lt_ge_cases j (N.to_nat (ll_last LL + 1 - (p + 1)))) as [H|H]; [exact H|].
    exfalso. assert (Hn : nth_error (firstn (N.to_nat (ll_last LL + 1 - (p + 1)))
               (skipn (N.to_nat (p + 1 - ll_base LL - 1)) (ll_ents LL))) j = None).
    { apply nth_error_None. rewrite firstn_length. lia. }
    congruence. }
  rewrite nth_error_firstn_lt in Hj by exact Hlen.
  rewrite nth_error_skipn' in Hj.
  pose proof (contig_nth _ _ _ _ Hw Hj) as Hidx.
  unfold ll_get. destruct (e_index e <=? ll_base LL) eqn:E; [lia|].
  rewrite <- Hj. f_equal. lia.
Qed.

(* the conflict search of maybe_append over a batch of leader entries: nothing conflicts
   up to the frontier, and the first entry beyond it does *)
Lemma find_conflict_agree LL FL lo a : LeaderLog LL -> Agree LL FL lo a -> ll_base LL <= lo ->
  forall ents j,
    contiguous_from j ents -> from_leader LL ents -> lo < j -> j <= a + 1 ->
    ll_find_conflict FL ents = if j + N.of_nat (length ents) <=? a + 1 then 0 else a + 1.
Proof.
  intros HL HA Hb. induction ents as [|e rest IH]; intros j Hc Hf Hlo Hja; cbn [ll_find_conflict length].
  - destruct (j + N.of_nat 0 <=? a + 1) eqn:E; [reflexivity|lia].
  - destruct Hc as [Hi Hc].
    assert (Hge : ll_get LL (e_index e) = Some e) by (apply Hf; left; reflexivity).
    assert (Hin : ll_base LL < e_index e <= ll_last LL).
    { apply ll_get_some_iff. eauto. }
    destruct (leader_term_in_range LL (e_index e) HL Hin) as (e' & He' & Ht & Hnz & _).
    rewrite Hge in He'. inversion He'; subst e'.
    destruct (N.eq_dec j (a + 1)) as [Hj|Hj].
    + (* the frontier is crossed here *)
      assert (Hm : ll_match FL (e_index e) (e_term e) = false).
      { unfold ll_match. pose proof (ag_ne LL FL lo a HA (e_index e) ltac:(lia)) as Hne.
        rewrite Ht in Hne. destruct (ll_term FL (e_index e)) as [t'|er]; cbn; [|reflexivity].
        apply N.eqb_neq. congruence. }
      rewrite Hm. destruct (j + N.of_nat (S (length rest)) <=? a + 1) eqn:E; [lia|]. lia.
    + assert (Hm : ll_match FL (e_index e) (e_term e) = true).
      { unfold ll_match. rewrite (ag_eq LL FL lo a HA (e_index e)) by lia. rewrite Ht. cbn.
        apply N.eqb_refl. }
      rewrite Hm. rewrite (IH (j + 1)); try assumption; try lia.
      * destruct (j + 1 + N.of_nat (length rest) <=? a + 1) eqn:E1;
          destruct (j + N.of_nat (S (length rest)) <=? a + 1) eqn:E2; try reflexivity; lia.
      * intros x Hx. apply Hf. right. exact Hx.
Qed.

Lemma nth_error_from_leader LL ents j k e :
  ll_wf LL -> contiguous_from j ents -> from_leader LL ents -> nth_error ents k = Some e ->
  ll_get LL (j + N.of_nat k) = Some e.
Proof.
  intros Hw Hc Hf Hn. pose proof (contig_nth _ _ _ _ Hc Hn) as Hi.
  rewrite <- Hi. apply Hf. eapply nth_error_In. exact Hn.
Qed.

(* after accepting a batch of leader entries that starts at or below the frontier, the
   follower's log agrees up to the end of the batch (or the old frontier, if larger) and
   has nothing of the leader's beyond it *)
Lemma agree_after_append LL FL lo a p ents :
  LeaderLog LL -> Agree LL FL lo a -> ll_base LL <= lo -> ll_wf FL -> ll_base FL <= a ->
  lo <= p <= a ->
  contiguous_from (p + 1) ents -> from_leader LL ents ->
  p + N.of_nat (length ents) <= ll_last LL ->
  Agree LL (ll_maybe_append FL p ents) lo (N.max a (p + N.of_nat (length ents))) /\
  ll_find_conflict FL ents = (if p + N.of_nat (length ents) <=? a then 0 else a + 1).
Proof.
  intros HL HA Hb HwF HbF Hp Hc Hf Hlen.
  pose proof (find_conflict_agree LL FL lo a HL HA Hb ents (p + 1) Hc Hf ltac:(lia) ltac:(lia)) as Hci.
  assert (Hci' : ll_find_conflict FL ents = (if p + N.of_nat (length ents) <=? a then 0 else a + 1)).
  { rewrite Hci. destruct (p + 1 + N.of_nat (length ents) <=? a + 1) eqn:E1;
      destruct (p + N.of_nat (length ents) <=? a) eqn:E2; try reflexivity; lia. }
  split; [|exact Hci'].
  unfold ll_maybe_append. rewrite Hci'.
  destruct (p + N.of_nat (length ents) <=? a) eqn:E.
  - change (0 =? 0) with true. cbv iota. rewrite N.max_l by lia. exact HA.
  - destruct (a + 1 =? 0) eqn:E0; [lia|].
    rewrite N.max_r by lia.
    pose proof (ag_lo _ _ _ _ HA) as A1. pose proof (ag_lastL _ _ _ _ HA) as A2.
    pose proof (ag_lastF _ _ _ _ HA) as A3.
    (* the appended suffix *)
    set (k := N.to_nat (a + 1 - (p + 1))).
    assert (Hk : (k < length ents)%nat) by (subst k; lia).
    destruct (skipn k ents) as [|e0 suf] eqn:Esk.
    { exfalso. assert (length (skipn k ents) = 0%nat) by (rewrite Esk; reflexivity).
      rewrite skipn_length in H. lia. }
    assert (Hcs : contiguous_from (a + 1) (e0 :: suf)).
    { rewrite <- Esk. replace (a + 1) with (p + 1 + N.of_nat k) by (subst k; lia).
      apply contig_skipn. exact Hc. }
    assert (He0 : e_index e0 = a + 1) by (destruct Hcs; assumption).
    assert (Hslen : length (e0 :: suf) = (length ents - k)%nat).
    { rewrite <- Esk. apply skipn_length. }
    unfold ll_append. rewrite He0.
    set (FL' := mkLL (ll_base FL) (ll_bterm FL)
                     (firstn (N.to_nat (a + 1 - ll_base FL - 1)) (ll_ents FL) ++ e0 :: suf)).
    assert (Hlast' : ll_last FL' = p + N.of_nat (length ents)).
    { unfold ll_last, FL'. cbn [ll_base ll_ents]. rewrite app_length, firstn_length, Hslen.
      unfold ll_last in A3. subst k. lia. }
    (* terms of FL' *)
    assert (Hlow : forall i, i <= a -> ll_term FL' i = ll_term FL i).
    { intros i Hi. unfold ll_term. rewrite Hlast'. change (ll_base FL') with (ll_base FL).
      change (ll_bterm FL') with (ll_bterm FL).
      destruct (i <? ll_base FL) eqn:E1; cbn [orb]; [reflexivity|].
      destruct (p + N.of_nat (length ents) <? i) eqn:E2; [lia|].
      destruct (ll_last FL <? i) eqn:E3; [lia|].
      destruct (i =? ll_base FL) eqn:E4; [reflexivity|].
      assert (Hg : ll_get FL' i = ll_get FL i).
      { pose proof (ll_get_append_below FL e0 suf i ltac:(lia) ltac:(lia)) as Hga.
        unfold ll_append in Hga. rewrite He0 in Hga. exact Hga. }
      rewrite Hg. reflexivity. }
    assert (Hmid : forall i, a < i <= p + N.of_nat (length ents) -> ll_term FL' i = ll_term LL i).
    { intros i Hi.
      assert (Hg : ll_get FL' i = ll_get LL i).
      { unfold ll_get at 1. change (ll_base FL') with (ll_base FL).
        destruct (i <=? ll_base FL) eqn:E1; [lia|].
        unfold FL'. cbn [ll_ents].
        rewrite nth_error_app2 by (rewrite firstn_length; unfold ll_last in A3; lia).
        rewrite firstn_length.
        replace (N.to_nat (i - ll_base FL - 1) -
                 Nat.min (N.to_nat (a + 1 - ll_base FL - 1)) (length (ll_ents FL)))%nat
          with (N.to_nat (i - (a + 1))) by (unfold ll_last in A3; lia).
        destruct (nth_error (e0 :: suf) (N.to_nat (i - (a + 1)))) as [e|] eqn:En.
        - rewrite <- Esk in En. rewrite nth_error_skipn' in En.
          pose proof (nth_error_from_leader LL ents (p + 1) _ e (lg_wf LL HL) Hc Hf En) as Hl.
          rewrite <- Hl. f_equal. subst k. lia.
        - apply nth_error_None in En. rewrite Hslen in En. subst k. lia. }
      destruct (leader_term_in_range LL i HL ltac:(lia)) as (e & He & Ht & _).
      rewrite Ht. unfold ll_term. rewrite Hlast'. change (ll_base FL') with (ll_base FL).
      destruct (i <? ll_base FL) eqn:E1; [lia|].
      destruct (p + N.of_nat (length ents) <? i) eqn:E2; [lia|]. cbn [orb].
      destruct (i =? ll_base FL) eqn:E3; [lia|]. rewrite Hg, He. reflexivity. }
    constructor.
    + lia.
    + exact Hlen.
    + rewrite Hlast'. lia.
    + intros i Hi. destruct (N.le_gt_cases i a) as [Hia|Hia].
      * rewrite Hlow by exact Hia. apply (ag_eq _ _ _ _ HA). lia.
      * apply Hmid. lia.
    + intros i Hi. rewrite (term_beyond_last FL' i) by (rewrite Hlast'; lia).
      destruct (leader_term_in_range LL i HL ltac:(lia)) as (e & _ & Ht & Hnz & _).
      rewrite Ht. intros Heq. inversion Heq. congruence.
Qed.

(* ================================================================== *)
(* the schedule                                                        *)
(* ================================================================== *)

(* a node handles a list of messages in order *)
Fixpoint steps (r : raft) (ms : list msg) : Res raft :=
  match ms with
  | [] => Ok r
  | m :: t => x <- step r m ;; steps (fst x) t
  end.

(* the messages of a queue addressed to [id] *)
Definition to_peer (id : N) (ms : list msg) : list msg := filter (fun m => m_to m =? id) ms.

(* one lock-step round between a leader L and a follower F:
   1. every message L has queued for F is delivered to F, in order (L's queue is then
      emptied: what it holds for other peers is of no concern here);
   2. every reply F has queued for L is delivered to L, in order (F's queue is emptied);
   3. both nodes tick once.
   Persistence is not modelled: at this level (Raft, below RawNode) replies are queued
   at once, and nothing in the exchange reads [persisted]. *)
Definition pair_round (L F : raft) : Res (raft * raft) :=
  F1 <- steps F (to_peer (r_id F) (r_msgs L)) ;;
  L1 <- steps (L <| r_msgs := [] |>) (to_peer (r_id L) (r_msgs F1)) ;;
  L2 <- tick L1 ;;
  F2 <- tick (F1 <| r_msgs := [] |>) ;;
  Ok (fst L2, fst F2).

Fixpoint rounds (n : nat) (L F : raft) : Res (raft * raft) :=
  match n with
  | O => Ok (L, F)
  | S k => x <- pair_round L F ;; rounds k (fst x) (snd x)
  end.

(* ================================================================== *)
(* 6.2 the follower                                                    *)
(* ================================================================== *)

Section Pair.

(* LL: the leader's logical log (constant during the run: nothing is proposed);
   T: the common term; l, f: the two ids; lo: the index from which the leader's log is
   retained and the follower is known to agree (the initial [matched]) *)
Variables (LL : LL) (T l f lo : N) (rw : bool).
Hypothesis HLL : LeaderLog LL.
Hypothesis Hlo : ll_base LL <= lo.
Hypothesis HloT : exists t, ll_term LL lo = SOk t.
Hypothesis HT : T <> 0.
Hypothesis Hlf : l <> f.

Lemma leader_term_from_lo i : lo <= i <= ll_last LL -> exists t, ll_term LL i = SOk t.
Proof.
  intros Hi. destruct (N.eq_dec i lo) as [->|Hne]; [exact HloT|].
  destruct (leader_term_in_range LL i HLL ltac:(lia)) as (e & _ & Ht & _). eauto.
Qed.

(* a MsgAppend of the leader that reflects its log *)
Definition snd_app (m : msg) : Prop :=
  m_type m = MsgAppend /\ m_term m = T /\ m_from m = l /\ m_to m = f /\
  lo <= m_index m <= ll_last LL /\
  ll_term LL (m_index m) = SOk (m_log_term m) /\
  exists k, m_entries m = firstn k (ll_range LL (m_index m + 1) (ll_last LL + 1)).

(* a MsgHeartbeat of the leader whose commit index is at most b *)
Definition snd_hb (b : N) (m : msg) : Prop :=
  m_type m = MsgHeartbeat /\ m_term m = T /\ m_from m = l /\ m_to m = f /\
  m_commit m <= b /\ m_context m = [].

Definition qmsg_ok (b : N) (m : msg) : Prop := snd_app m \/ snd_hb b m.

(* a response of the follower that is truthful at frontier b *)
Definition resp_ok (b : N) (m : msg) : Prop :=
  m_term m = T /\ m_from m = f /\ m_to m = l /\
  ((m_type m = MsgHeartbeatResponse /\ m_context m = []) \/
   (m_type m = MsgAppendResponse /\ m_reject m = false /\ m_index m <= b) \/
   (m_type m = MsgAppendResponse /\ m_reject m = true /\ m_request_snapshot m = 0 /\
    b < m_index m)).

(* [rep] answers the append [m] *)
Definition answers (m rep : msg) : Prop :=
  m_type rep = MsgAppendResponse /\
  ((m_reject rep = false /\
    (m_index rep = m_index m + N.of_nat (length (m_entries m)) \/ m_index m < m_index rep)) \/
   (m_reject rep = true /\ m_index rep = m_index m)).

Record FInv (a : N) (F : raft) : Prop := mkFInv {
  fi_state : r_state F = Follower;
  fi_term : r_term F = T;
  fi_id : r_id F = f;
  fi_rep : RepInv rw (r_log F);
  fi_snapreq : r_pending_request_snapshot F = 0;
  fi_agree : Agree LL (abs (r_log F)) lo a;
  fi_commit : committed (r_log F) <= a
}.

(* nothing but log, queue, election counter and leader id differs *)
Definition follower_frame (F F' : raft) : Prop :=
  F' = F <| r_log := r_log F' |> <| r_msgs := r_msgs F' |>
         <| r_election_elapsed := r_election_elapsed F' |> <| r_leader_id := r_leader_id F' |>.

Ltac red_log :=
  repeat match goal with
  | |- context [r_log (?x <| r_msgs := ?y |>)] => change (r_log (x <| r_msgs := y |>)) with (r_log x)
  | |- context [r_log (?x <| r_log := ?y |>)] => change (r_log (x <| r_log := y |>)) with y
  end.

Lemma snd_app_entries m :
  snd_app m ->
  contiguous_from (m_index m + 1) (m_entries m) /\ from_leader LL (m_entries m) /\
  nz_terms (m_entries m) /\
  m_index m + N.of_nat (length (m_entries m)) <= ll_last LL.
Proof.
  intros (_ & _ & _ & _ & Hi & _ & k & Hk). rewrite Hk.
  split.
  { apply contig_firstn. apply ll_range_contig; [apply (lg_wf LL HLL)|]. unfold ll_first. lia. }
  assert (Hf : from_leader LL (firstn k (ll_range LL (m_index m + 1) (ll_last LL + 1)))).
  { apply from_leader_range; [apply (lg_wf LL HLL)|lia]. }
  split; [exact Hf|]. split.
  - apply Forall_forall. intros e He. apply (lg_nz LL HLL). eapply ll_get_in. apply Hf. exact He.
  - rewrite firstn_length. rewrite ll_range_length by (unfold ll_first; lia). lia.
Qed.

(* handle_append_entries on a sound append *)
Lemma follower_handles_append a r m r' :
  RepInv rw (r_log r) -> r_pending_request_snapshot r = 0 ->
  Agree LL (abs (r_log r)) lo a -> committed (r_log r) <= a ->
  r_term r = T -> r_id r = f ->
  snd_app m -> handle_append_entries r m = Ok r' ->
  exists a' rep,
    a <= a' /\ RepInv rw (r_log r') /\ Agree LL (abs (r_log r')) lo a' /\
    committed (r_log r') <= a' /\
    r' = r <| r_log := r_log r' |> <| r_msgs := r_msgs r ++ [rep] |> /\
    resp_ok a' rep /\ answers m rep.
Proof.
  intros HI Hq HA Hc Ht Hid Hs H.
  pose proof (snd_app_entries m Hs) as (Ec & Ef & Enz & Elen).
  destruct Hs as (Sty & Stm & Sfr & Sto & Sidx & Sterm & _).
  unfold handle_append_entries in H. rewrite Hq in H.
  change (0 =? INVALID_INDEX) with true in H. cbn [negb] in H.
  destruct (m_index m <? committed (r_log r)) eqn:Ecm.
  - (* below the follower's commit index: answer with the commit index *)
    rewrite send_plain in H by reflexivity. inversion H; subst r'; clear H.
    exists a. eexists. split; [lia|]. split; [exact HI|]. split; [exact HA|]. split; [exact Hc|].
    split; [destruct r; reflexivity|]. split.
    + unfold resp_ok. cbn. split; [exact Ht|]. split; [exact Hid|]. split; [exact Sfr|].
      right. left. split; [reflexivity|]. split; [reflexivity|]. exact Hc.
    + unfold answers. cbn. split; [reflexivity|]. left. split; [reflexivity|]. right. lia.
  - destruct (N.le_gt_cases (m_index m) a) as [Hle|Hgt].
    + (* at or below the frontier: accepted *)
      assert (Hmatch : ll_match (abs (r_log r)) (m_index m) (m_log_term m) = true).
      { unfold ll_match. rewrite (ag_eq _ _ _ _ HA) by lia. rewrite Sterm. cbn. apply N.eqb_refl. }
      pose proof (base_le_committed rw _ HI) as Hbase.
      destruct (agree_after_append LL (abs (r_log r)) lo a (m_index m) (m_entries m) HLL HA Hlo
                  (abs_wf rw _ HI) ltac:(lia) ltac:(lia) Ec Ef Elen) as [HA' Hci].
      destruct (maybe_append_ok rw (r_log r) (m_index m) (m_log_term m) (m_commit m) (m_entries m)
                  HI Ec Enz) as (l' & Hok & HI' & Habs & Hcm' & _).
      { left. pose proof (ag_lastF _ _ _ _ HA). lia. }
      { pose proof (lg_bound LL HLL). lia. }
      { exact Hmatch. }
      { cbv zeta. rewrite Hci. destruct (_ <=? a); [left; reflexivity|right; lia]. }
      rewrite Hok in H. cbn [bind] in H.
      rewrite send_plain in H by reflexivity. inversion H; subst r'; clear H.
      exists (N.max a (m_index m + N.of_nat (length (m_entries m)))). eexists.
      split; [lia|]. red_log.
      split; [exact HI'|]. split; [rewrite Habs; exact HA'|]. split; [rewrite Hcm'; lia|].
      split; [destruct r; reflexivity|]. split.
      * unfold resp_ok. cbn. split; [exact Ht|]. split; [exact Hid|]. split; [exact Sfr|].
        right. left. split; [reflexivity|]. split; [reflexivity|]. lia.
      * unfold answers. cbn. split; [reflexivity|]. left. split; [reflexivity|]. left. reflexivity.
    + (* beyond the frontier: rejected with a hint, the log is untouched *)
      assert (Hmatch : ll_match (abs (r_log r)) (m_index m) (m_log_term m) = false).
      { unfold ll_match. pose proof (ag_ne _ _ _ _ HA (m_index m) ltac:(lia)) as Hne.
        rewrite Sterm in Hne. destruct (ll_term (abs (r_log r)) (m_index m)); cbn; [|reflexivity].
        apply N.eqb_neq. congruence. }
      assert (H' : handle_append_entries r m = Ok r').
      { unfold handle_append_entries. rewrite Hq. change (0 =? INVALID_INDEX) with true. cbn [negb].
        rewrite Ecm. exact H. }
      destruct (follower_reject_hint rw r m r' HI Hq ltac:(lia) Hmatch H') as (hi & ht & -> & _).
      exists a. eexists. split; [lia|]. red_log.
      split; [exact HI|]. split; [exact HA|]. split; [exact Hc|].
      split; [destruct r; reflexivity|]. split.
      * unfold resp_ok. cbn. split; [exact Ht|]. split; [exact Hid|]. split; [exact Sfr|].
        right. right. split; [reflexivity|]. split; [reflexivity|]. split; [reflexivity|]. exact Hgt.
      * unfold answers. cbn. split; [reflexivity|]. right. auto.
Qed.

(* handle_heartbeat on a sound heartbeat *)
Lemma follower_handles_heartbeat a r m r' :
  RepInv rw (r_log r) -> r_pending_request_snapshot r = 0 ->
  Agree LL (abs (r_log r)) lo a -> committed (r_log r) <= a ->
  r_term r = T -> r_id r = f ->
  snd_hb a m -> handle_heartbeat r m = Ok r' ->
  exists rep,
    RepInv rw (r_log r') /\ abs (r_log r') = abs (r_log r) /\ committed (r_log r') <= a /\
    r' = r <| r_log := r_log r' |> <| r_msgs := r_msgs r ++ [rep] |> /\
    resp_ok a rep /\ m_type rep = MsgHeartbeatResponse.
Proof.
  intros HI Hq HA Hc Ht Hid (Sty & Stm & Sfr & Sto & Scm & Sctx) H.
  unfold handle_heartbeat in H.
  destruct (commit_to_ok rw (r_log r) (m_commit m) HI) as (l' & Hok & HI' & Habs & Hcm & _).
  { pose proof (ag_lastF _ _ _ _ HA). lia. }
  rewrite Hok in H. cbn [bind] in H.
  change (r_pending_request_snapshot (r <| r_log := l' |>)) with (r_pending_request_snapshot r) in H.
  rewrite Hq in H. change (0 =? INVALID_INDEX) with true in H. cbn [negb] in H.
  rewrite send_plain in H by reflexivity. inversion H; subst r'; clear H.
  eexists. red_log. split; [exact HI'|]. split; [exact Habs|]. split; [lia|].
  split; [destruct r; reflexivity|]. split; [|reflexivity].
  unfold resp_ok. cbn. split; [exact Ht|]. split; [exact Hid|]. split; [exact Sfr|].
  left. split; [reflexivity|exact Sctx].
Qed.

(* Raft::step of a follower on a same-term MsgAppend / MsgHeartbeat *)
Lemma step_follower_same_term F m :
  r_state F = Follower -> r_term F = T -> m_term m = T ->
  (m_type m = MsgAppend ->
   step F m = (r' <- handle_append_entries
                       (F <| r_election_elapsed := 0 |> <| r_leader_id := m_from m |>) m ;;
               Ok (r', E_OK))) /\
  (m_type m = MsgHeartbeat ->
   step F m = (r' <- handle_heartbeat
                       (F <| r_election_elapsed := 0 |> <| r_leader_id := m_from m |>) m ;;
               Ok (r', E_OK))).
Proof.
  intros Hs Ht Hm. unfold step. rewrite Hm, Ht.
  assert (E0 : (T =? 0) = false) by (apply N.eqb_neq; exact HT). rewrite E0, N.ltb_irrefl.
  cbn [bind]. rewrite Hs. split; intros Hty; rewrite Hty.
  - change (MsgAppend =? MsgHup) with false. change (MsgAppend =? MsgRequestVote) with false.
    change (MsgAppend =? MsgRequestPreVote) with false. cbn [orb].
    unfold step_follower. rewrite Hty. reflexivity.
  - change (MsgHeartbeat =? MsgHup) with false. change (MsgHeartbeat =? MsgRequestVote) with false.
    change (MsgHeartbeat =? MsgRequestPreVote) with false. cbn [orb].
    unfold step_follower. rewrite Hty. reflexivity.
Qed.

(* one message of the leader handled by the follower *)
Lemma follower_step a F m F' c :
  FInv a F -> qmsg_ok a m -> step F m = Ok (F', c) ->
  exists a' rep,
    a <= a' /\ FInv a' F' /\ follower_frame F F' /\ r_election_elapsed F' = 0 /\
    r_msgs F' = r_msgs F ++ [rep] /\ resp_ok a' rep /\
    (snd_app m -> answers m rep) /\
    (snd_hb a m -> m_type rep = MsgHeartbeatResponse).
Proof.
  intros [Fs Ft Fi Fr Fq Fa Fc] Hm H.
  set (F1 := F <| r_election_elapsed := 0 |> <| r_leader_id := m_from m |>) in *.
  destruct Hm as [Hm|Hm].
  - pose proof Hm as (Sty & Stm & _).
    destruct (step_follower_same_term F m Fs Ft Stm) as [E _]. rewrite (E Sty) in H. clear E.
    fold F1 in H. inv_bind H. inversion H; subst x c; clear H.
    destruct (follower_handles_append a F1 m F' Fr Fq Fa Fc Ft Fi Hm Hx)
      as (a' & rep & Hle & HI' & HA' & Hc' & Heq & Hr & Hans).
    exists a', rep. split; [exact Hle|]. split.
    { constructor; [rewrite Heq; exact Fs|rewrite Heq; exact Ft|rewrite Heq; exact Fi|exact HI'|
                    rewrite Heq; exact Fq|exact HA'|exact Hc']. }
    split; [rewrite Heq; unfold follower_frame, F1; destruct F; reflexivity|].
    split; [rewrite Heq; reflexivity|]. split; [rewrite Heq; reflexivity|].
    split; [exact Hr|]. split; [intros _; exact Hans|].
    intros (Sty' & _). rewrite Sty in Sty'. discriminate Sty'.
  - pose proof Hm as (Sty & Stm & _).
    destruct (step_follower_same_term F m Fs Ft Stm) as [_ E]. rewrite (E Sty) in H. clear E.
    fold F1 in H. inv_bind H. inversion H; subst x c; clear H.
    destruct (follower_handles_heartbeat a F1 m F' Fr Fq Fa Fc Ft Fi Hm Hx)
      as (rep & HI' & Habs & Hc' & Heq & Hr & Hty).
    exists a, rep. split; [lia|]. split.
    { constructor; [rewrite Heq; exact Fs|rewrite Heq; exact Ft|rewrite Heq; exact Fi|exact HI'|
                    rewrite Heq; exact Fq|rewrite Habs; exact Fa|exact Hc']. }
    split; [rewrite Heq; unfold follower_frame, F1; destruct F; reflexivity|].
    split; [rewrite Heq; reflexivity|]. split; [rewrite Heq; reflexivity|].
    split; [exact Hr|]. split; [|intros _; exact Hty].
    intros (Sty' & _). rewrite Sty in Sty'. discriminate Sty'.
Qed.


(* ================================================================== *)
(* 6.3 the leader                                                      *)
(* ================================================================== *)

(* l0: the leader's log at the start; LL is its abstraction.  During the run only the
   commit index of the leader's log moves (same_ents) *)
Variables (rwl : bool) (l0 : raft_log).
Hypothesis Hl0 : RepInv rwl l0.
Hypothesis Habs0 : abs l0 = LL.

Lemma same_ents_lookups lg :
  same_ents l0 lg ->
  (forall i, RaftLog.term lg i = Ok (ll_term LL i)) /\
  last_index lg = ll_last LL /\
  (forall i mx, ll_first LL <= i ->
     log_entries lg i mx =
     Ok (SOk (if ll_last LL <? i then [] else ll_slice LL i (ll_last LL + 1) mx))).
Proof.
  intros (A & B & _).
  assert (Ht : forall i, RaftLog.term lg i = RaftLog.term l0 i).
  { intros i. unfold RaftLog.term, first_index, last_index. rewrite A, B. reflexivity. }
  assert (Hl : last_index lg = last_index l0) by (unfold last_index; rewrite A, B; reflexivity).
  assert (He : forall i mx, log_entries lg i mx = log_entries l0 i mx).
  { intros i mx. unfold log_entries. rewrite Hl. unfold slice, must_check_outofbounds, first_index,
      store_entries. rewrite Hl, A, B. reflexivity. }
  split; [intros i; rewrite Ht, (term_abs rwl l0 i Hl0), Habs0; reflexivity|].
  split; [rewrite Hl, (abs_last rwl l0 Hl0), Habs0; reflexivity|].
  intros i mx Hi. rewrite He, (log_entries_abs rwl l0 i mx Hl0) by (rewrite Habs0; exact Hi).
  rewrite Habs0. reflexivity.
Qed.

(* Inflights.add keeps the capacity settings *)
Lemma add_cap s x s' : Inflights.add s x = Ok s' -> incoming_cap s = None ->
  incoming_cap s' = None /\ cap s' = cap s.
Proof.
  unfold Inflights.add. intros H Hn. destruct (full s); [discriminate|].
  inv_bind H. rename x0 into s1.
  assert (H1 : incoming_cap s1 = None /\ cap s1 = cap s).
  { destruct (allocated s); [inversion Hx; subst; auto|].
    destruct (negb (count s =? 0)%nat); [discriminate|].
    destruct (negb (start s =? 0)%nat); [discriminate|].
    rewrite Hn in Hx. inversion Hx; subst. cbn. auto. }
  destruct (length (buffer s1) <? _)%nat; [discriminate|]. inversion H; subst. cbn. exact H1.
Qed.

Lemma free_to_cap s to s' : Inflights.free_to s to = Ok s' -> incoming_cap s = None ->
  incoming_cap s' = None /\ cap s' = cap s.
Proof.
  unfold Inflights.free_to. intros H Hn. destruct (count s =? 0)%nat; [inversion H; subst; auto|].
  inv_bind H. destruct (to <? x); [inversion H; subst; auto|].
  inv_bind H. destruct x0 as [i ix]. rewrite Hn in H.
  destruct (count s - i =? 0)%nat; inversion H; subst; cbn; auto.
Qed.

Lemma free_first_one_cap s s' : Inflights.free_first_one s = Ok s' -> incoming_cap s = None ->
  incoming_cap s' = None /\ cap s' = cap s.
Proof.
  unfold Inflights.free_first_one. intros H Hn. destruct (0 <? count s)%nat; [|inversion H; subst; auto].
  inv_bind H. eapply free_to_cap; eassumption.
Qed.

(* without batching, maybe_send_append appends at most one message, addressed to [to] *)
Lemma maybe_send_append_nobatch r to pr ae r' pr' b :
  r_batch_append r = false -> maybe_send_append r to pr ae = Ok (r', pr', b) ->
  exists new, r' = r <| r_msgs := r_msgs r ++ new |> /\ Forall (fun x => m_to x = to) new.
Proof.
  intros Hb H. unfold maybe_send_append in H.
  assert (Hnil : r = r <| r_msgs := r_msgs r ++ [] |>) by (rewrite app_nil_r; destruct r; reflexivity).
  destruct (is_paused pr). { inversion H; subst. exists []. auto. }
  assert (Hsnap :
    (x <- prepare_send_snapshot r (msg_default <| m_to := to |>) pr to ;;
     match x with
     | None => Ok (r, pr, false)
     | Some (m', pr1) => r1 <- send r m' ;; Ok (r1, pr1, true)
     end) = Ok (r', pr', b) ->
    exists new, r' = r <| r_msgs := r_msgs r ++ new |> /\ Forall (fun x => m_to x = to) new).
  { intros H2. apply send_snapshot_branch in H2.
    destruct H2 as [(_ & -> & _)|(_ & _ & sn & _ & _ & _ & ->)].
    - exists []. auto.
    - eexists. split; [reflexivity|]. constructor; [reflexivity|constructor]. }
  destruct (negb (pending_request_snapshot pr =? INVALID_INDEX)). { apply Hsnap. exact H. }
  inv_bind H. case_if H. { inversion H; subst. exists []. auto. }
  case_if H; [discriminate|]. inv_bind H.
  destruct x0 as [t|et]; destruct x as [ents|ee].
  - rewrite Hb in H. cbn [bind] in H.
    inv_bind H. destruct x as [m' pr2]. inv_bind H. inversion H; subst; clear H.
    match goal with Hp : prepare_send_entries _ _ _ _ _ = Ok _ |- _ =>
      rewrite prepare_send_entries_eq in Hp by (apply N.eqb_neq; exact E0);
      inv_bind Hp; inversion Hp; subst; clear Hp end.
    match goal with Hs : send _ _ = Ok _ |- _ =>
      rewrite send_plain in Hs by reflexivity; inversion Hs; subst; clear Hs end.
    eexists. split; [reflexivity|]. constructor; [reflexivity|constructor].
  - destruct ee; try (apply Hsnap; exact H). inversion H; subst. exists []. auto.
  - apply Hsnap. exact H.
  - destruct ee; try (apply Hsnap; exact H). inversion H; subst. exists []. auto.
Qed.

(* the leader's bookkeeping for the follower: what the run preserves *)
Record PrInv (b : N) (pr : progress) : Prop := mkPrInv {
  pi_state : pr_state pr = Probe \/ pr_state pr = Replicate;
  pi_lo : lo <= matched pr;
  pi_b : matched pr <= b;
  pi_next : matched pr < next_idx pr;
  pi_nextL : next_idx pr <= ll_last LL + 1;
  pi_snapreq : pending_request_snapshot pr = 0;
  pi_icap : incoming_cap (ins pr) = None;
  pi_cap : (0 < cap (ins pr))%nat
}.

(* the part of the progress that the measure depends on: state, matched, and (while
   probing) next_idx *)
Definition pkey (pr : progress) : pstate * N * N :=
  (pr_state pr, matched pr, match pr_state pr with Probe => next_idx pr | _ => 0 end).

Lemma last_map_index (ents : list entry) d :
  e_index (List.last ents d) = List.last (map e_index ents) (e_index d).
Proof.
  induction ents as [|a t IH]; [reflexivity|]. destruct t as [|b t']; [reflexivity|].
  change (List.last (a :: b :: t') d) with (List.last (b :: t') d).
  change (List.last (map e_index (a :: b :: t')) (e_index d))
    with (List.last (map e_index (b :: t')) (e_index d)). exact IH.
Qed.

(* what the leader reads from its log for a progress that satisfies PrInv *)
Lemma leader_reads b r pr :
  same_ents l0 (r_log r) -> PrInv b pr ->
  exists t ents k,
    RaftLog.term (r_log r) (next_idx pr - 1) = Ok (SOk t) /\ ll_term LL (next_idx pr - 1) = SOk t /\
    log_entries (r_log r) (next_idx pr) (Some (r_max_msg_size r)) = Ok (SOk ents) /\
    ents = firstn k (ll_range LL (next_idx pr) (ll_last LL + 1)) /\
    contiguous_from (next_idx pr) ents /\
    next_idx pr + N.of_nat (length ents) <= ll_last LL + 1 /\
    (next_idx pr <= ll_last LL -> ents <> []) /\
    (ll_last LL < next_idx pr -> ents = []).
Proof.
  intros Hse [P1 P2 P3 P4 P5 P6 P7 P8].
  destruct (same_ents_lookups _ Hse) as (Lt & Ll & Le).
  destruct (leader_term_from_lo (next_idx pr - 1) ltac:(lia)) as [t Ht].
  exists t.
  assert (Hfirst : ll_first LL <= next_idx pr) by (unfold ll_first; lia).
  rewrite (Le _ (Some (r_max_msg_size r)) Hfirst).
  destruct (ll_last LL <? next_idx pr) eqn:E.
  - exists [], 0%nat. split; [rewrite Lt, Ht; reflexivity|]. split; [exact Ht|].
    split; [reflexivity|]. split; [reflexivity|]. split; [exact I|]. cbn [length].
    split; [lia|]. split; [intros; lia|reflexivity].
  - unfold ll_slice, limit_size.
    destruct (limit_size_spec entry_size (ll_range LL (next_idx pr) (ll_last LL + 1))
                (Some (r_max_msg_size r))) as ((k & Hk & Hp) & Hne & _).
    assert (Hrl : length (ll_range LL (next_idx pr) (ll_last LL + 1)) =
                  N.to_nat (ll_last LL + 1 - next_idx pr)) by (apply ll_range_length; lia).
    eexists. exists k. split; [rewrite Lt, Ht; reflexivity|]. split; [exact Ht|].
    split; [reflexivity|]. split; [exact Hp|]. rewrite Hp.
    split; [apply contig_firstn; apply ll_range_contig; [apply (lg_wf LL HLL)|exact Hfirst]|].
    split; [rewrite firstn_length; lia|]. split; [|intros; lia].
    intros _. rewrite <- Hp. apply Hne. intros Hnil. rewrite Hnil in Hrl. cbn in Hrl. lia.
Qed.

Lemma maybe_send_append_nothing r to pr :
  is_paused pr = false -> pending_request_snapshot pr = 0 ->
  log_entries (r_log r) (next_idx pr) (Some (r_max_msg_size r)) = Ok (SOk []) ->
  maybe_send_append r to pr false = Ok (r, pr, false).
Proof.
  intros Hp Hq He. unfold maybe_send_append. rewrite Hp, Hq.
  change (0 =? INVALID_INDEX) with true. cbn [negb]. rewrite He. reflexivity.
Qed.

(* maybe_send_append for the follower under PrInv: at most one sound MsgAppend, probing
   exactly next_idx - 1; the key of the progress is untouched *)
Lemma leader_send_append b r pr ae r' pr' sent :
  same_ents l0 (r_log r) -> r_batch_append r = false -> r_term r = T -> r_id r = l ->
  PrInv b pr -> maybe_send_append r f pr ae = Ok (r', pr', sent) ->
  PrInv b pr' /\ pkey pr' = pkey pr /\
  (sent = false -> r' = r /\ pr' = pr) /\
  (sent = true -> exists x, r' = r <| r_msgs := r_msgs r ++ [x] |> /\ snd_app x /\
      m_index x = next_idx pr - 1 /\
      (next_idx pr <= ll_last LL -> m_entries x <> []) /\
      (ae = false -> m_entries x <> [])) /\
  (is_paused pr = false -> ae = true \/ next_idx pr <= ll_last LL -> sent = true).
Proof.
  intros Hse Hb Ht Hid HP H.
  destruct (is_paused pr) eqn:Ep.
  { rewrite maybe_send_append_paused in H by exact Ep. inversion H; subst.
    split; [exact HP|]. split; [reflexivity|]. split; [auto|]. split; [discriminate|]. discriminate. }
  destruct (leader_reads b r pr Hse HP) as (t & ents & k & R1 & R2 & R3 & R4 & R5 & R6 & R7 & R8).
  pose proof HP as [P1 P2 P3 P4 P5 P6 P7 P8].
  destruct ents as [|e0 et] eqn:Eents.
  - destruct ae.
    + (* an empty append *)
      rewrite (maybe_send_append_entries r f pr true [] t Ep P6 R3 ltac:(left; reflexivity)
                 ltac:(lia) R1 Hb) in H.
      cbn [bind] in H. inversion H; subst r' pr' sent; clear H.
      split; [exact HP|]. split; [reflexivity|]. split; [discriminate|]. split; [|auto].
      intros _. eexists. split; [reflexivity|]. split.
      * unfold snd_app, app_msg. cbn.
        split; [reflexivity|]. split; [exact Ht|]. split; [exact Hid|]. split; [reflexivity|].
        split; [lia|]. split; [exact R2|]. exists 0%nat. reflexivity.
      * split; [reflexivity|]. split; [|discriminate]. intros Hle. exfalso. apply (R7 Hle). reflexivity.
    + rewrite (maybe_send_append_nothing r f pr Ep P6 R3) in H. inversion H; subst.
      split; [exact HP|]. split; [reflexivity|]. split; [auto|]. split; [discriminate|].
      intros _ [Hc|Hc]; [discriminate|]. exfalso. apply (R7 Hc). reflexivity.
  - rewrite <- Eents in *.
    assert (Hne : ents <> []) by (rewrite Eents; discriminate).
    rewrite (maybe_send_append_entries r f pr ae ents t Ep P6 R3 ltac:(right; exact Hne)
               ltac:(lia) R1 Hb) in H.
    assert (Hup : match ents with [] => Ok pr | _ :: _ => update_state pr (e_index (List.last ents entry_default)) end
                  = update_state pr (e_index (List.last ents entry_default))).
    { rewrite Eents. reflexivity. }
    rewrite Hup in H. clear Hup. inv_bind H. inversion H; subst r' pr' sent; clear H.
    assert (Hlast : e_index (List.last ents entry_default) = next_idx pr + N.of_nat (length ents) - 1).
    { rewrite last_map_index. apply contig_last; assumption. }
    assert (HP' : PrInv b x /\ pkey x = pkey pr).
    { unfold update_state in Hx. destruct (pr_state pr) eqn:Es.
      - inversion Hx; subst x. split; [constructor; cbn; auto|]. unfold pkey. cbn. rewrite Es. reflexivity.
      - inv_bind Hx. inversion Hx; subst x. destruct (add_cap _ _ _ Hx0 P7) as [C1 C2].
        split.
        + constructor; cbn; auto; try lia; try (rewrite C2; exact P8).
        + unfold pkey. cbn. rewrite Es. reflexivity.
      - discriminate. }
    destruct HP' as [HP' Hk].
    split; [exact HP'|]. split; [exact Hk|]. split; [discriminate|]. split; [|auto].
    intros _. eexists. split; [reflexivity|]. split.
    + unfold snd_app, app_msg. cbn.
      split; [reflexivity|]. split; [exact Ht|]. split; [exact Hid|]. split; [reflexivity|].
      split; [lia|]. split; [exact R2|]. exists k.
      replace (next_idx pr - 1 + 1) with (next_idx pr) by lia. exact R4.
    + split; [reflexivity|]. split; intros _; exact Hne.
Qed.

(* --- frames for the leader --- *)

(* only the log (in fact only its commit index), the progress map and the queue differ *)
Definition lfr (r r' : raft) : Prop :=
  r' = r <| r_log := r_log r' |> <| r_prs := r_prs r' |> <| r_msgs := r_msgs r' |> /\
  same_ents (r_log r) (r_log r').

Lemma lfr_refl r : lfr r r.
Proof. split; [destruct r; reflexivity|apply same_ents_refl]. Qed.

Lemma lfr_trans a b c : lfr a b -> lfr b c -> lfr a c.
Proof.
  intros [H1 S1] [H2 S2]. split; [|eapply same_ents_trans; eassumption].
  rewrite H2. rewrite H1 at 1. destruct a; reflexivity.
Qed.

Lemma msgs_only_lfr r r' : msgs_only r r' -> lfr r r'.
Proof.
  unfold msgs_only. intros H. split.
  - rewrite H. destruct r; reflexivity.
  - rewrite H. apply same_ents_refl.
Qed.

Lemma put_pr_lfr r id p : lfr r (put_pr r id p).
Proof. split; [unfold put_pr; destruct r; reflexivity|apply same_ents_refl]. Qed.

(* new messages are appended, and those addressed to the follower are sound appends *)
Definition mext (r r' : raft) : Prop :=
  exists new, r_msgs r' = r_msgs r ++ new /\ Forall (fun x => m_to x = f -> snd_app x) new.

Lemma mext_refl r : mext r r.
Proof. exists []. rewrite app_nil_r. auto. Qed.

Lemma mext_trans a b c : mext a b -> mext b c -> mext a c.
Proof.
  intros (n1 & E1 & F1) (n2 & E2 & F2). exists (n1 ++ n2). split.
  - rewrite E2, E1, app_assoc. reflexivity.
  - apply Forall_app. auto.
Qed.

Lemma mext_same r r' : r_msgs r' = r_msgs r -> mext r r'.
Proof. intros H. exists []. rewrite app_nil_r. auto. Qed.

(* the static part of the leader invariant *)
Record LCore (L : raft) : Prop := mkLCore {
  lc_state : r_state L = Leader;
  lc_term : r_term L = T;
  lc_id : r_id L = l;
  lc_log : same_ents l0 (r_log L);
  lc_batch : r_batch_append L = false;
  lc_transfer : r_lead_transferee L = None;
  lc_cq : r_check_quorum L = false;
  lc_ro : ro_queue (r_read_only L) = []
}.

Lemma lfr_LCore r r' : lfr r r' -> LCore r -> LCore r'.
Proof.
  intros [H S] [C1 C2 C3 C4 C5 C6 C7 C8]. rewrite H.
  constructor; cbn; auto. rewrite H in S. cbn in S. eapply same_ents_trans; eassumption.
Qed.

(* one sub-operation of a leader handler, seen from the follower's progress *)
Definition lstep (b : N) (r : raft) (pr : progress) (r' : raft) (pr' : progress) : Prop :=
  lfr r r' /\ mext r r' /\ get_pr r' f = Some pr' /\ PrInv b pr' /\ pkey pr' = pkey pr.

Lemma lstep_trans b r1 p1 r2 p2 r3 p3 :
  lstep b r1 p1 r2 p2 -> lstep b r2 p2 r3 p3 -> lstep b r1 p1 r3 p3.
Proof.
  intros (A1 & A2 & A3 & A4 & A5) (B1 & B2 & B3 & B4 & B5).
  split; [eapply lfr_trans; eassumption|]. split; [eapply mext_trans; eassumption|].
  split; [exact B3|]. split; [exact B4|congruence].
Qed.

Lemma lstep_refl b r pr : get_pr r f = Some pr -> PrInv b pr -> lstep b r pr r pr.
Proof. intros. split; [apply lfr_refl|]. split; [apply mext_refl|]. auto. Qed.

Lemma send_append_to_lstep b r pr id r' :
  LCore r -> get_pr r f = Some pr -> PrInv b pr -> send_append_to r id = Ok r' ->
  exists pr', lstep b r pr r' pr'.
Proof.
  intros HC Hg HP H. unfold send_append_to in H.
  destruct (get_pr r id) as [pid|] eqn:Hgi; [|discriminate].
  inv_bind H. destruct x as [[r1 p1] sent]. inversion H; subst r'; clear H.
  destruct (N.eq_dec id f) as [->|Hne].
  - rewrite Hg in Hgi. inversion Hgi; subst pid; clear Hgi.
    destruct (leader_send_append b r pr true r1 p1 sent (lc_log _ HC) (lc_batch _ HC) (lc_term _ HC)
                (lc_id _ HC) HP Hx) as (HP1 & Hk & Hf & Ht & _).
    exists p1. split.
    { eapply lfr_trans; [|apply put_pr_lfr]. apply msgs_only_lfr.
      apply maybe_send_append_facts in Hx. apply Hx. }
    split.
    { destruct sent.
      - destruct (Ht eq_refl) as (x & -> & Hs & _). exists [x]. split; [reflexivity|].
        constructor; [intros _; exact Hs|constructor].
      - destruct (Hf eq_refl) as [-> _]. apply mext_same. reflexivity. }
    split; [apply get_pr_put_same|]. split; [exact HP1|exact Hk].
  - destruct (maybe_send_append_nobatch r id pid true r1 p1 sent (lc_batch _ HC) Hx) as (new & -> & Hto).
    exists pr. split.
    { eapply lfr_trans; [|apply put_pr_lfr]. apply msgs_only_lfr. apply msgs_only_set. }
    split.
    { exists new. split; [reflexivity|]. eapply Forall_impl; [|exact Hto].
      intros x Hx1 Hx2. cbn in Hx1. congruence. }
    split; [rewrite get_pr_put_other by congruence; exact Hg|]. split; [exact HP|reflexivity].
Qed.

Lemma for_each_peer_lstep b (g : raft -> N -> Res raft) :
  (forall r pr id r', LCore r -> get_pr r f = Some pr -> PrInv b pr -> g r id = Ok r' ->
                      exists pr', lstep b r pr r' pr') ->
  forall ids self r pr r',
    LCore r -> get_pr r f = Some pr -> PrInv b pr -> for_each_peer ids self g r = Ok r' ->
    exists pr', lstep b r pr r' pr'.
Proof.
  intros Hg. induction ids as [|id rest IH]; intros self r pr r' HC Hgp HP H.
  { inversion H; subst. exists pr. apply lstep_refl; assumption. }
  cbn [for_each_peer] in H. destruct (id =? self). { eapply IH; eassumption. }
  inv_bind H. destruct (Hg _ _ _ _ HC Hgp HP Hx) as (p1 & S1).
  pose proof S1 as (A1 & _ & A3 & A4 & _).
  destruct (IH self x p1 r' (lfr_LCore _ _ A1 HC) A3 A4 H) as (p2 & S2).
  exists p2. eapply lstep_trans; eassumption.
Qed.

Lemma bcast_append_lstep b r pr r' :
  LCore r -> get_pr r f = Some pr -> PrInv b pr -> bcast_append r = Ok r' ->
  exists pr', lstep b r pr r' pr'.
Proof.
  unfold bcast_append. intros HC Hg HP H.
  eapply (for_each_peer_lstep b send_append_to); try eassumption.
  intros. eapply send_append_to_lstep; eassumption.
Qed.

Lemma send_append_aggressively_loop_lstep b fuel : forall r pr r' pr',
  LCore r -> PrInv b pr ->
  send_append_aggressively_loop fuel r f pr = Ok (r', pr') ->
  msgs_only r r' /\ mext r r' /\ PrInv b pr' /\ pkey pr' = pkey pr.
Proof.
  induction fuel as [|fu IH]; intros r pr r' pr' HC HP H; [discriminate|].
  cbn [send_append_aggressively_loop] in H. inv_bind H. destruct x as [[r1 p1] sent].
  destruct (leader_send_append b r pr false r1 p1 sent (lc_log _ HC) (lc_batch _ HC) (lc_term _ HC)
              (lc_id _ HC) HP Hx) as (HP1 & Hk & Hf & Ht & _).
  pose proof (maybe_send_append_facts _ _ _ _ _ _ _ Hx) as (Hmo & _).
  destruct sent.
  - destruct (Ht eq_refl) as (x & E & Hs & _).
    assert (HC1 : LCore r1) by (eapply lfr_LCore; [apply msgs_only_lfr; exact Hmo|exact HC]).
    destruct (IH _ _ _ _ HC1 HP1 H) as (B1 & B2 & B3 & B4).
    split; [eapply msgs_only_trans; eassumption|]. split.
    { eapply mext_trans; [|exact B2]. exists [x]. rewrite E. split; [reflexivity|].
      constructor; [intros _; exact Hs|constructor]. }
    split; [exact B3|congruence].
  - inversion H; subst r' pr'. destruct (Hf eq_refl) as [-> ->].
    split; [apply msgs_only_refl|]. split; [apply mext_refl|]. auto.
Qed.

Lemma send_append_aggressively_lstep b r pr r' :
  LCore r -> get_pr r f = Some pr -> PrInv b pr -> send_append_aggressively r f = Ok r' ->
  exists pr', lstep b r pr r' pr'.
Proof.
  intros HC Hg HP H. unfold send_append_aggressively in H. rewrite Hg in H.
  inv_bind H. destruct x as [r1 p1]. inversion H; subst r'; clear H.
  destruct (send_append_aggressively_loop_lstep b _ _ _ _ _ HC HP Hx) as (B1 & B2 & B3 & B4).
  exists p1. split; [eapply lfr_trans; [apply msgs_only_lfr; exact B1|apply put_pr_lfr]|].
  split; [destruct B2 as (new & E & Fo); exists new; split; [exact E|exact Fo]|].
  split; [apply get_pr_put_same|]. auto.
Qed.

Lemma maybe_commit_lstep b r pr r' cm :
  LCore r -> get_pr r f = Some pr -> PrInv b pr -> maybe_commit r = Ok (r', cm) ->
  lstep b r pr r' pr.
Proof.
  intros HC Hg HP H. unfold maybe_commit in H. inv_bind H. destruct x as [l' b'].
  apply log_maybe_commit_same_ents in Hx.
  assert (Hl : lfr r (r <| r_log := l' |>)).
  { split; [destruct r; reflexivity|exact Hx]. }
  destruct b'.
  - destruct (get_pr r (r_id r)) as [ps|] eqn:Hgs.
    2:{ inversion H; subst r' cm; clear H.
        split; [exact Hl|]. split; [apply mext_same; reflexivity|]. split; [exact Hg|]. auto. }
    inversion H; subst r' cm; clear H.
    split; [eapply lfr_trans; [exact Hl|apply put_pr_lfr]|]. split; [apply mext_same; reflexivity|].
    split.
    { rewrite get_pr_put_other.
      - exact Hg.
      - change (r_id (r <| r_log := l' |>)) with (r_id r). rewrite (lc_id _ HC). congruence. }
    auto.
  - inversion H; subst r' cm; clear H.
    split; [exact Hl|]. split; [apply mext_same; reflexivity|]. split; [exact Hg|]. auto.
Qed.

(* the tail of handle_append_response after a successful, advancing acknowledgement *)
Lemma ack_tail_lstep b r pr m op r' :
  LCore r -> get_pr r f = Some pr -> PrInv b pr -> m_from m = f ->
  ack_tail r m op = Ok r' -> exists pr', lstep b r pr r' pr'.
Proof.
  intros HC Hg HP Hfrom H. unfold ack_tail in H. rewrite Hfrom in H.
  inv_bind H. destruct x as [r1 cmt].
  pose proof (maybe_commit_lstep b _ _ _ _ HC Hg HP Hx) as S1.
  pose proof S1 as (A1 & _ & A3 & A4 & _). pose proof (lfr_LCore _ _ A1 HC) as HC1.
  inv_bind H. rename x into r2.
  assert (S2 : exists p2, lstep b r1 pr r2 p2).
  { destruct cmt.
    - destruct (should_bcast_commit r1).
      + eapply bcast_append_lstep; eassumption.
      + inversion Hx0; subst. exists pr. apply lstep_refl; assumption.
    - destruct op.
      + eapply send_append_to_lstep; eassumption.
      + inversion Hx0; subst. exists pr. apply lstep_refl; assumption. }
  destruct S2 as (p2 & S2). pose proof S2 as (B1 & _ & B3 & B4 & _).
  pose proof (lfr_LCore _ _ B1 HC1) as HC2.
  inv_bind H. rename x into r3.
  destruct (send_append_aggressively_lstep b _ _ _ HC2 B3 B4 Hx1) as (p3 & S3).
  pose proof S3 as (C1 & _). pose proof (lfr_LCore _ _ C1 HC2) as HC3.
  rewrite (lc_transfer _ HC3) in H. inversion H; subst r'.
  exists p3. eapply lstep_trans; [exact S1|]. eapply lstep_trans; eassumption.
Qed.

(* --- the measure --- *)

(* lexicographic: distance of [matched] to the leader's last index, then (probing) the
   distance of next_idx to matched, with Replicate above every Probe value *)
Definition mu (pr : progress) : N :=
  (ll_last LL - matched pr) * (ll_last LL + 3) +
  match pr_state pr with Probe => next_idx pr - matched pr | _ => ll_last LL + 2 end.

Lemma mu_key p q : pkey p = pkey q -> mu p = mu q.
Proof.
  unfold pkey, mu. intros H. injection H as H1 H2 H3. rewrite H1 in H3 |- *. rewrite H2.
  destruct (pr_state q); try reflexivity. rewrite H3. reflexivity.
Qed.

Lemma mu_bound b pr : PrInv b pr -> b <= ll_last LL ->
  mu pr <= (ll_last LL - matched pr) * (ll_last LL + 3) + (ll_last LL + 2).
Proof.
  intros [P1 P2 P3 P4 P5 P6 P7 P8] Hb. unfold mu. destruct (pr_state pr); lia.
Qed.

Lemma mu_lt_matched b p q :
  PrInv b q -> b <= ll_last LL -> matched p < matched q -> mu q < mu p.
Proof.
  intros HQ Hb Hm. pose proof (mu_bound b q HQ Hb) as Hq. pose proof HQ as [_ _ Q3 _ _ _ _ _].
  unfold mu at 2.
  assert (Hk : (ll_last LL - matched q) * (ll_last LL + 3) + (ll_last LL + 3)
               <= (ll_last LL - matched p) * (ll_last LL + 3)).
  { replace ((ll_last LL - matched q) * (ll_last LL + 3) + (ll_last LL + 3))
      with ((ll_last LL - matched q + 1) * (ll_last LL + 3)) by lia.
    apply N.mul_le_mono_r. lia. }
  lia.
Qed.

(* an append in flight that is bound to change the key when it is answered *)
Definition obl (pr : progress) (x : msg) : Prop :=
  snd_app x /\ matched pr <= m_index x /\
  (matched pr < m_index x \/ m_entries x <> []) /\
  (pr_state pr = Probe -> next_idx pr - 1 = m_index x).

Lemma pkey_inv p q : pkey p = pkey q ->
  pr_state p = pr_state q /\ matched p = matched q /\ (pr_state p = Probe -> next_idx p = next_idx q).
Proof.
  unfold pkey. intros H. injection H as H1 H2 H3. split; [exact H1|]. split; [exact H2|].
  intros Hs. rewrite <- H1, Hs in H3. exact H3.
Qed.

Lemma obl_key p q x : pkey p = pkey q -> obl p x -> obl q x.
Proof.
  intros H (A & B & C0 & D). destruct (pkey_inv _ _ H) as (H1 & H2 & H3).
  unfold obl. rewrite <- H2. split; [exact A|]. split; [exact B|]. split; [exact C0|].
  intros Hs. rewrite <- H1 in Hs. rewrite <- (H3 Hs). exact (D Hs).
Qed.

(* Raft::step of a leader on a same-term response *)
Lemma step_leader_same_term L m :
  r_state L = Leader -> r_term L = T -> m_term m = T ->
  (m_type m = MsgAppendResponse ->
   step L m = (r' <- handle_append_response L m ;; Ok (r', E_OK))) /\
  (m_type m = MsgHeartbeatResponse ->
   step L m = (r' <- handle_heartbeat_response L m ;; Ok (r', E_OK))).
Proof.
  intros Hs Ht Hm. unfold step. rewrite Hm, Ht.
  assert (E0 : (T =? 0) = false) by (apply N.eqb_neq; exact HT). rewrite E0, N.ltb_irrefl.
  cbn [bind]. rewrite Hs. split; intros Hty; rewrite Hty.
  - change (MsgAppendResponse =? MsgHup) with false.
    change (MsgAppendResponse =? MsgRequestVote) with false.
    change (MsgAppendResponse =? MsgRequestPreVote) with false. cbn [orb].
    unfold step_leader. rewrite Hty. reflexivity.
  - change (MsgHeartbeatResponse =? MsgHup) with false.
    change (MsgHeartbeatResponse =? MsgRequestVote) with false.
    change (MsgHeartbeatResponse =? MsgRequestPreVote) with false. cbn [orb].
    unfold step_leader. rewrite Hty. reflexivity.
Qed.

Lemma ack_pr_PrInv b pr cmt : PrInv b pr -> PrInv b (ack_pr pr cmt) /\ pkey (ack_pr pr cmt) = pkey pr.
Proof.
  intros [P1 P2 P3 P4 P5 P6 P7 P8].
  pose proof (ack_pr_fields pr cmt) as (A1 & A2 & A3 & A4 & A5 & A6 & A7 & A8 & _).
  split.
  - constructor; rewrite ?A3, ?A4, ?A5, ?A6, ?A8; assumption.
  - unfold pkey. rewrite A3, A4, A5. reflexivity.
Qed.

Lemma hb_pr_PrInv b pr cmt : PrInv b pr -> PrInv b (hb_pr pr cmt) /\ pkey (hb_pr pr cmt) = pkey pr.
Proof.
  intros [P1 P2 P3 P4 P5 P6 P7 P8].
  pose proof (hb_pr_fields pr cmt) as (A1 & A2 & A3 & A4 & A5 & A6 & A7 & A8 & _).
  split.
  - constructor; rewrite ?A3, ?A4, ?A5, ?A6, ?A8; assumption.
  - unfold pkey. rewrite A3, A4, A5. reflexivity.
Qed.

(* an advancing acknowledgement *)
Lemma acked_pr_PrInv b pr idx pr2 :
  PrInv b pr -> b <= ll_last LL -> matched pr < idx -> idx <= b ->
  acked_pr pr idx = Ok pr2 ->
  PrInv b pr2 /\ matched pr2 = idx /\ mu pr2 < mu pr.
Proof.
  intros HP Hb Hm Hi H. pose proof HP as [P1 P2 P3 P4 P5 P6 P7 P8].
  pose proof (acked_pr_fields pr idx pr2 Hm H) as (F1 & F2 & F3 & F4).
  pose proof (maybe_update_fields pr idx Hm) as (U1 & U2 & U3 & U4 & U5 & U6 & U7 & U8).
  assert (HP2 : PrInv b pr2).
  { unfold acked_pr in H. cbv zeta in H. rewrite U4 in H.
    remember (fst (maybe_update pr idx)) as p1 eqn:E1. clear E1.
    destruct P1 as [Es|Es]; rewrite Es in H, F4.
    - assert (H2 : become_replicate p1 = pr2) by (inversion H; reflexivity). clear H.
      destruct F4 as (G1 & G2 & G3).
      constructor.
      + right. exact G1.
      + rewrite F1. lia.
      + rewrite F1. lia.
      + rewrite F1. lia.
      + rewrite G2. lia.
      + rewrite <- H2. cbn. rewrite U7. exact P6.
      + rewrite G3. reflexivity.
      + rewrite G3. cbn. rewrite P7. exact P8.
    - inv_bind H. assert (H2 : set_ins p1 x = pr2) by (inversion H; reflexivity). clear H.
      destruct F4 as (G1 & G2 & G3).
      rewrite U5 in Hx. destruct (free_to_cap _ _ _ Hx P7) as [C1 C2].
      constructor.
      + right. exact G1.
      + rewrite F1. lia.
      + rewrite F1. lia.
      + rewrite F1. lia.
      + rewrite G2. lia.
      + rewrite <- H2. cbn. rewrite U7. exact P6.
      + rewrite <- H2. cbn. exact C1.
      + rewrite <- H2. cbn. rewrite C2. exact P8. }
  split; [exact HP2|]. split; [exact F1|].
  apply (mu_lt_matched b); [exact HP2|exact Hb|lia].
Qed.

Lemma maybe_update_noop pr idx :
  idx <= matched pr -> matched pr < next_idx pr -> fst (maybe_update pr idx) = pr.
Proof.
  intros H1 H2. unfold maybe_update.
  destruct (matched pr <? idx) eqn:E; [lia|].
  destruct (next_idx pr <? idx + 1) eqn:E2; [lia|]. reflexivity.
Qed.

(* MAIN building block, leader side: one truthful response of the follower *)
Lemma leader_step_resp b L pr m L' c :
  LCore L -> get_pr L f = Some pr -> PrInv b pr -> b <= ll_last LL ->
  resp_ok b m -> step L m = Ok (L', c) ->
  exists pr', lfr L L' /\ mext L L' /\ get_pr L' f = Some pr' /\ PrInv b pr' /\
    matched pr <= matched pr' /\ (mu pr' < mu pr \/ pkey pr' = pkey pr) /\
    (m_type m = MsgAppendResponse -> m_reject m = false -> m_index m <= matched pr') /\
    (m_type m = MsgAppendResponse -> m_reject m = true ->
       (pr_state pr = Replicate \/ next_idx pr - 1 = m_index m) -> mu pr' < mu pr) /\
    (m_type m = MsgHeartbeatResponse -> matched pr < ll_last LL ->
       exists x, r_msgs L' = r_msgs L ++ [x] /\ obl pr' x).
Proof.
  intros HC Hg HP Hb (Rt & Rf & Rto & Rk) H.
  destruct (step_leader_same_term L m (lc_state _ HC) (lc_term _ HC) Rt) as [EA EH].
  pose proof HP as [P1 P2 P3 P4 P5 P6 P7 P8].
  destruct Rk as [(Hty & Hctx)|[(Hty & Hrej & Hidx)|(Hty & Hrej & Hrs & Hidx)]].
  - (* heartbeat response *)
    rewrite (EH Hty) in H. inv_bind H. inversion H; subst x c; clear H.
    rewrite heartbeat_response_eq, Rf, Hg in Hx.
    inv_bind Hx. rename x into pr1.
    destruct (hb_pr_PrInv b pr (m_commit m) HP) as [HPh Hkh].
    pose proof (hb_pr_fields pr (m_commit m)) as (A1 & A2 & A3 & A4 & A5 & A6 & A7 & A8 & _).
    pose proof (hb_window_fields _ _ Hx0) as (W1 & W2 & W3 & W4 & W5 & W6 & W7 & W8 & W9 & W10).
    assert (HP1 : PrInv b pr1 /\ pkey pr1 = pkey pr /\ is_paused pr1 = false).
    { destruct (pstate_eqb (pr_state (hb_pr pr (m_commit m))) Replicate
                && full (ins (hb_pr pr (m_commit m)))) eqn:E.
      - apply andb_prop in E. destruct E as [E1 E2].
        assert (Es : pr_state (hb_pr pr (m_commit m)) = Replicate)
          by (destruct (pr_state (hb_pr pr (m_commit m))); cbn in E1; congruence).
        pose proof (W10 Es E2) as Hfree.
        destruct (free_first_one_cap _ _ Hfree ltac:(rewrite A6; exact P7)) as [C1 C2].
        destruct (free_first_one_unfull _ _ Hfree E2 ltac:(rewrite A6; exact P7)
                    ltac:(rewrite A6; exact P8)) as [Hnf _].
        split; [|split].
        + constructor; rewrite ?W3, ?W4, ?W5, ?W7, ?A3, ?A4, ?A5, ?A8; auto.
          rewrite C2, A6. exact P8.
        + unfold pkey. rewrite W3, W4, W5. exact Hkh.
        + unfold is_paused. rewrite W5, Es. exact Hnf.
      - assert (Heq : pr1 = hb_pr pr (m_commit m)).
        { apply W9. apply andb_false_iff in E. destruct E as [E|E]; [left|right; exact E].
          destruct (pr_state (hb_pr pr (m_commit m))); cbn in E; congruence. }
        subst pr1. split; [exact HPh|]. split; [exact Hkh|].
        unfold is_paused. rewrite A5.
        destruct P1 as [Es|Es]; rewrite Es; [exact A1|].
        rewrite A5, Es in E. cbn [pstate_eqb andb] in E. exact E. }
    destruct HP1 as (HP1 & Hk1 & Hnp).
    assert (Htail : forall r1, hb_ro_tail r1 m = Ok r1).
    { intros r1. unfold hb_ro_tail. rewrite Hctx. rewrite orb_true_r. reflexivity. }
    inv_bind Hx. rewrite Htail in Hx. inversion Hx; subst x; clear Hx.
    match goal with Hs : (if hb_wants_send _ _ then _ else _) = Ok _ |- _ => rename Hs into Hx end.
    destruct (same_ents_lookups _ (lc_log _ HC)) as (_ & Ll & _).
    unfold hb_wants_send in Hx. rewrite Ll in Hx.
    assert (Hq1 : pending_request_snapshot pr1 = 0) by (apply (pi_snapreq _ _ HP1)).
    rewrite Hq1 in Hx. change (negb (0 =? INVALID_INDEX)) with false in Hx. rewrite orb_false_r in Hx.
    assert (Hm1 : matched pr1 = matched pr) by (rewrite W3; exact A3).
    rewrite Hm1 in Hx.
    destruct (matched pr <? ll_last LL) eqn:Elt.
    + inv_bind Hx. destruct x as [[r1 p1] sent]. inversion Hx; subst L'; clear Hx.
      match goal with Hs : maybe_send_append _ _ _ _ = Ok _ |- _ => rename Hs into Hsd end.
      destruct (leader_send_append b L pr1 true r1 p1 sent (lc_log _ HC) (lc_batch _ HC)
                  (lc_term _ HC) (lc_id _ HC) HP1 Hsd) as (HPp & Hkp & _ & Hs & Hsent).
      assert (sent = true) by (apply Hsent; [exact Hnp|left; reflexivity]). subst sent.
      destruct (Hs eq_refl) as (x & -> & Sx & Ix & Ne & _).
      exists p1.
      split; [eapply lfr_trans; [apply msgs_only_lfr; apply msgs_only_set|apply put_pr_lfr]|].
      split; [exists [x]; split; [reflexivity|]; constructor; [intros _; exact Sx|constructor]|].
      split; [apply get_pr_put_same|]. split; [exact HPp|].
      assert (Hkk : pkey p1 = pkey pr) by congruence.
      split; [inversion Hkk; lia|]. split; [right; exact Hkk|].
      split; [intros E; rewrite Hty in E; discriminate E|].
      split; [intros E; rewrite Hty in E; discriminate E|].
      intros _ _. exists x. split; [reflexivity|].
      apply (obl_key pr1); [congruence|].
      pose proof HP1 as [Q1 Q2 Q3 Q4 Q5 Q6 Q7 Q8].
      split; [exact Sx|]. split; [lia|]. split.
      * destruct (N.eq_dec (next_idx pr1) (matched pr1 + 1)) as [En|En]; [|left; lia].
        right. apply Ne. apply N.ltb_lt in Elt. lia.
      * intros _. symmetry. exact Ix.
    + inversion Hx; subst L'; clear Hx. exists pr1.
      split; [apply put_pr_lfr|]. split; [apply mext_same; reflexivity|].
      split; [apply get_pr_put_same|]. split; [exact HP1|]. split; [lia|].
      split; [right; exact Hk1|].
      split; [intros E; rewrite Hty in E; discriminate E|].
      split; [intros E; rewrite Hty in E; discriminate E|].
      intros _ Hlt. apply N.ltb_ge in Elt. lia.
  - (* acknowledgement *)
    rewrite (EA Hty) in H. inv_bind H. inversion H; subst x c; clear H.
    rewrite <- Rf in Hg. rewrite (append_ack_eq L m pr Hg Hrej) in Hx. cbv zeta in Hx. rewrite Rf in Hg.
    destruct (ack_pr_PrInv b pr (m_commit m) HP) as [HPa Hka].
    pose proof (ack_pr_fields pr (m_commit m)) as (A1 & A2 & A3 & A4 & A5 & A6 & A7 & A8 & _).
    destruct (matched pr <? m_index m) eqn:Elt.
    + apply N.ltb_lt in Elt. inv_bind Hx. rename x into pr2.
      destruct (acked_pr_PrInv b _ _ _ HPa Hb ltac:(rewrite A3; exact Elt) Hidx Hx0) as (HP2 & Hm2 & Hmu2).
      rewrite (mu_key _ _ Hka) in Hmu2.
      rewrite Rf in Hx.
      assert (HC2 : LCore (put_pr L f pr2)) by (eapply lfr_LCore; [apply put_pr_lfr|exact HC]).
      destruct (ack_tail_lstep b _ pr2 m _ L' HC2 (get_pr_put_same _ _ _) HP2 Rf Hx)
        as (pr' & S1 & S2 & S3 & S4 & S5).
      exists pr'.
      split; [eapply lfr_trans; [apply put_pr_lfr|exact S1]|].
      split; [eapply mext_trans; [apply mext_same; reflexivity|exact S2]|].
      split; [exact S3|]. split; [exact S4|].
      assert (Hm' : matched pr' = m_index m) by (inversion S5; congruence).
      split; [lia|]. split; [left; rewrite (mu_key _ _ S5); exact Hmu2|].
      split; [intros _ _; lia|].
      split; [intros _ E; congruence|].
      intros E; rewrite Hty in E; discriminate E.
    + apply N.ltb_ge in Elt.
      rewrite maybe_update_noop in Hx by (rewrite ?A3, ?A4; lia).
      inversion Hx; subst L'; clear Hx.
      exists (ack_pr pr (m_commit m)). rewrite Rf.
      split; [apply put_pr_lfr|]. split; [apply mext_same; reflexivity|].
      split; [apply get_pr_put_same|]. split; [exact HPa|]. split; [lia|].
      split; [right; exact Hka|]. split; [intros _ _; lia|].
      split; [intros _ E; congruence|].
      intros E; rewrite Hty in E; discriminate E.
  - (* rejection *)
    rewrite (EA Hty) in H. inv_bind H. inversion H; subst x c; clear H.
    rewrite <- Rf in Hg.
    destruct (reject_npi L m) as [npi|s] eqn:Enpi.
    2:{ rewrite (append_reject_eq L m pr Hg Hrej), Enpi in Hx. discriminate. }
    destruct (ack_pr_PrInv b pr (m_commit m) HP) as [HPa Hka].
    destruct P1 as [Es|Es].
    + (* probing *)
      destruct (reject_repairs_next_probe L m pr npi Hg Hrej Hrs ltac:(congruence) Enpi) as [Hns Hst].
      destruct (N.eq_dec (next_idx pr - 1) (m_index m)) as [Eq|Ne].
      * assert (Hn0 : next_idx pr <> 0) by lia.
        rewrite (Hns (conj Hn0 Eq)) in Hx. rewrite Rf in Hx, Hg.
        set (pr2 := repaired_probe pr (m_commit m) (m_index m) npi) in *.
        pose proof (repaired_next_bounds pr (m_index m) npi Hn0 Eq) as (B1 & B2 & B3 & B4 & _).
        assert (B3' : repaired_next pr (m_index m) npi < next_idx pr) by (apply B3; lia).
        assert (HP2 : PrInv b pr2).
        { subst pr2. unfold repaired_probe. constructor; cbn; auto; lia. }
        assert (Hmu2 : mu pr2 < mu pr).
        { unfold mu. subst pr2. unfold repaired_probe. cbn. rewrite Es. lia. }
        assert (HC2 : LCore (put_pr L f pr2)) by (eapply lfr_LCore; [apply put_pr_lfr|exact HC]).
        destruct (send_append_to_lstep b _ pr2 f L' HC2 (get_pr_put_same _ _ _) HP2 Hx)
          as (pr' & S1 & S2 & S3 & S4 & S5).
        exists pr'.
        split; [eapply lfr_trans; [apply put_pr_lfr|exact S1]|].
        split; [eapply mext_trans; [apply mext_same; reflexivity|exact S2]|].
        split; [exact S3|]. split; [exact S4|].
        assert (Hm' : matched pr' = matched pr) by (inversion S5; subst pr2; cbn in *; congruence).
        split; [lia|]. split; [left; rewrite (mu_key _ _ S5); exact Hmu2|].
        split; [intros _ E; congruence|].
        split; [intros _ _ _; rewrite (mu_key _ _ S5); exact Hmu2|].
        intros E; rewrite Hty in E; discriminate E.
      * rewrite (Hst (or_intror Ne)) in Hx. inversion Hx; subst L'; clear Hx. rewrite Rf in *.
        exists (ack_pr pr (m_commit m)).
        split; [apply put_pr_lfr|]. split; [apply mext_same; reflexivity|].
        split; [apply get_pr_put_same|]. split; [exact HPa|].
        pose proof (ack_pr_fields pr (m_commit m)) as (_ & _ & A3 & _).
        split; [lia|]. split; [right; exact Hka|].
        split; [intros _ E; congruence|].
        split; [intros _ _ [E|E]; congruence|].
        intros E; rewrite Hty in E; discriminate E.
    + (* replicating: the rejected index is above matched, so the rejection is not stale *)
      destruct (reject_repairs_next_replicate L m pr npi Hg Hrej Hrs Es Enpi) as [Hns _].
      rewrite (Hns ltac:(lia)) in Hx. rewrite Rf in Hx, Hg.
      set (pr2 := repaired_replicate pr (m_commit m)) in *.
      assert (HP2 : PrInv b pr2).
      { subst pr2. unfold repaired_replicate. constructor; cbn; auto; try lia;
          try (rewrite P7; exact P8); try (rewrite P7; reflexivity). }
      assert (Hmu2 : mu pr2 < mu pr).
      { unfold mu. subst pr2. unfold repaired_replicate. cbn. rewrite Es. lia. }
      assert (HC2 : LCore (put_pr L f pr2)) by (eapply lfr_LCore; [apply put_pr_lfr|exact HC]).
      destruct (send_append_to_lstep b _ pr2 f L' HC2 (get_pr_put_same _ _ _) HP2 Hx)
        as (pr' & S1 & S2 & S3 & S4 & S5).
      exists pr'.
      split; [eapply lfr_trans; [apply put_pr_lfr|exact S1]|].
      split; [eapply mext_trans; [apply mext_same; reflexivity|exact S2]|].
      split; [exact S3|]. split; [exact S4|].
      assert (Hm' : matched pr' = matched pr) by (inversion S5; subst pr2; cbn in *; congruence).
      split; [lia|]. split; [left; rewrite (mu_key _ _ S5); exact Hmu2|].
      split; [intros _ E; congruence|].
      split; [intros _ _ _; rewrite (mu_key _ _ S5); exact Hmu2|].
      intros E; rewrite Hty in E; discriminate E.
Qed.

(* ================================================================== *)
(* 6.4 sequences of messages                                           *)
(* ================================================================== *)

(* responses produced while the follower's frontier moves from a to c: each one is
   truthful at the frontier reached when it was produced *)
Inductive resp_chain : N -> list msg -> N -> Prop :=
| rc_nil a : resp_chain a [] a
| rc_cons a b c m ms : a <= b -> resp_ok b m -> resp_chain b ms c -> resp_chain a (m :: ms) c.

Lemma resp_chain_le a ms c : resp_chain a ms c -> a <= c.
Proof. induction 1; lia. Qed.

Lemma qmsg_ok_mono a a' m : a <= a' -> qmsg_ok a m -> qmsg_ok a' m.
Proof.
  intros Hle [H|(A & B & C0 & D & E & G)]; [left; exact H|right]. unfold snd_hb. repeat split; auto. lia.
Qed.

Lemma follower_frame_refl F : follower_frame F F.
Proof. unfold follower_frame. destruct F; reflexivity. Qed.

Lemma follower_frame_trans A B C : follower_frame A B -> follower_frame B C -> follower_frame A C.
Proof.
  unfold follower_frame. intros H1 H2. rewrite H2. rewrite H1 at 1. destruct A; reflexivity.
Qed.

(* the follower handles a queue of leader messages *)
Lemma follower_steps : forall q a F F',
  FInv a F -> Forall (qmsg_ok a) q -> steps F q = Ok F' ->
  exists a' resps,
    a <= a' /\ FInv a' F' /\ follower_frame F F' /\
    r_msgs F' = r_msgs F ++ resps /\ resp_chain a resps a' /\
    (q <> [] -> r_election_elapsed F' = 0) /\
    (q = [] -> F' = F) /\
    (forall x, In x q -> snd_app x -> exists rep, In rep resps /\ answers x rep) /\
    (forall x, In x q -> m_type x = MsgHeartbeat ->
       exists rep, In rep resps /\ m_type rep = MsgHeartbeatResponse).
Proof.
  induction q as [|m rest IH]; intros a F F' HF Hq H; cbn [steps] in H.
  - inversion H; subst F'. exists a, []. split; [lia|]. split; [exact HF|].
    split; [apply follower_frame_refl|]. split; [rewrite app_nil_r; reflexivity|].
    split; [constructor|]. split; [congruence|]. split; [reflexivity|].
    split; intros x [].
  - inv_bind H. destruct x as [F1 c1]. cbn [fst] in H.
    inversion Hq as [|? ? Hm Hrest]; subst.
    destruct (follower_step a F m F1 c1 HF Hm Hx)
      as (a1 & rep & L1 & HF1 & Fr1 & E1 & M1 & R1 & An1 & Hb1).
    assert (Hrest1 : Forall (qmsg_ok a1) rest).
    { eapply Forall_impl; [|exact Hrest]. intros y. apply qmsg_ok_mono. exact L1. }
    destruct (IH a1 F1 F' HF1 Hrest1 H)
      as (a2 & resps & L2 & HF2 & Fr2 & M2 & Ch2 & E2 & _ & An2 & Hb2).
    exists a2, (rep :: resps). split; [lia|]. split; [exact HF2|].
    split; [eapply follower_frame_trans; eassumption|].
    split; [rewrite M2, M1, <- app_assoc; reflexivity|].
    split; [econstructor; [exact L1|exact R1|exact Ch2]|].
    split.
    { intros _. destruct rest as [|m2 rest2].
      - cbn [steps] in H. inversion H; subst F'. exact E1.
      - apply E2. discriminate. }
    split; [discriminate|].
    split.
    + intros x [->|Hin] Hs.
      * exists rep. split; [left; reflexivity|apply An1; exact Hs].
      * destruct (An2 x Hin Hs) as (r2 & I2 & A2). exists r2. split; [right; exact I2|exact A2].
    + intros x [->|Hin] Hty.
      * exists rep. split; [left; reflexivity|]. apply Hb1.
        destruct Hm as [(Sty & _)|Hh]; [rewrite Sty in Hty; discriminate Hty|exact Hh].
      * destruct (Hb2 x Hin Hty) as (r2 & I2 & A2). exists r2. split; [right; exact I2|exact A2].
Qed.

Lemma PrInv_mono b b' pr : b <= b' -> PrInv b pr -> PrInv b' pr.
Proof. intros Hle [P1 P2 P3 P4 P5 P6 P7 P8]. constructor; auto. lia. Qed.

Lemma mu_le_of_step p q : (mu q < mu p \/ pkey q = pkey p) -> mu q <= mu p.
Proof. intros [H|H]; [lia|]. rewrite (mu_key _ _ H). lia. Qed.

(* the leader handles the follower's replies *)
Lemma leader_steps : forall resps b0 b1,
  resp_chain b0 resps b1 -> b1 <= ll_last LL ->
  forall L pr L', LCore L -> get_pr L f = Some pr -> PrInv b0 pr -> steps L resps = Ok L' ->
  exists pr' new,
    lfr L L' /\ r_msgs L' = r_msgs L ++ new /\ Forall (fun x => m_to x = f -> snd_app x) new /\
    get_pr L' f = Some pr' /\ PrInv b1 pr' /\
    matched pr <= matched pr' /\ (mu pr' < mu pr \/ pkey pr' = pkey pr) /\
    (forall rep, In rep resps -> m_type rep = MsgAppendResponse -> m_reject rep = false ->
       m_index rep <= matched pr') /\
    (forall rep, In rep resps -> m_type rep = MsgAppendResponse -> m_reject rep = true ->
       (pr_state pr = Replicate \/ next_idx pr - 1 = m_index rep) -> mu pr' < mu pr) /\
    ((exists rep, In rep resps /\ m_type rep = MsgHeartbeatResponse) -> matched pr < ll_last LL ->
       mu pr' < mu pr \/ exists x, In x new /\ obl pr' x).
Proof.
  induction 1 as [a|a b c m ms Hab Hm Hch IH]; intros Hc L pr L' HC Hg HP H; cbn [steps] in H.
  - inversion H; subst L'. exists pr, []. split; [apply lfr_refl|].
    split; [rewrite app_nil_r; reflexivity|]. split; [constructor|]. split; [exact Hg|].
    split; [exact HP|]. split; [lia|]. split; [right; reflexivity|].
    split; [intros rep []|]. split; [intros rep []|]. intros (rep & [] & _).
  - inv_bind H. destruct x as [L1 c1]. cbn [fst] in H.
    pose proof (resp_chain_le _ _ _ Hch) as Hbc.
    destruct (leader_step_resp b L pr m L1 c1 HC Hg (PrInv_mono _ _ _ Hab HP) ltac:(lia) Hm Hx)
      as (pr1 & S1 & S2 & S3 & S4 & S5 & S6 & S7 & S8 & S9).
    destruct S2 as (new1 & N1 & N2).
    destruct (IH Hc L1 pr1 L' (lfr_LCore _ _ S1 HC) S3 S4 H)
      as (pr' & new2 & T1 & T2 & T3 & T4 & T5 & T6 & T7 & T8 & T9 & T10).
    pose proof (mu_le_of_step _ _ S6) as Hle1. pose proof (mu_le_of_step _ _ T7) as Hle2.
    exists pr', (new1 ++ new2).
    split; [eapply lfr_trans; eassumption|].
    split; [rewrite T2, N1, app_assoc; reflexivity|].
    split; [apply Forall_app; auto|]. split; [exact T4|]. split; [exact T5|]. split; [lia|].
    split.
    { destruct S6 as [S6|S6]; [left; lia|]. destruct T7 as [T7|T7].
      - left. rewrite <- (mu_key _ _ S6). exact T7.
      - right. congruence. }
    split.
    { intros rep [->|Hin] Hty Hrj.
      - specialize (S7 Hty Hrj). lia.
      - apply T8; assumption. }
    split.
    { intros rep [->|Hin] Hty Hrj Hcond.
      - specialize (S8 Hty Hrj Hcond). lia.
      - destruct S6 as [S6|S6]; [lia|].
        destruct (pkey_inv _ _ S6) as (K1 & K2 & K3).
        rewrite <- (mu_key _ _ S6). apply (T9 rep Hin Hty Hrj).
        destruct Hcond as [Hcond|Hcond]; [left; congruence|].
        destruct (pi_state _ _ S4) as [Es|Es]; [right|left; exact Es].
        rewrite (K3 Es). exact Hcond. }
    intros (rep & [->|Hin] & Hty) Hlt.
    + destruct (S9 Hty Hlt) as (x & Ex & Ox).
      assert (Hnew1 : new1 = [x]).
      { rewrite N1 in Ex. apply app_inv_head in Ex. exact Ex. }
      destruct T7 as [T7|T7]; [left; lia|].
      right. exists x. split; [subst new1; apply in_or_app; left; left; reflexivity|].
      eapply obl_key; [symmetry; exact T7|exact Ox].
    + destruct S6 as [S6|S6]; [left; lia|].
      destruct (pkey_inv _ _ S6) as (K1 & K2 & K3).
      destruct (T10 (ex_intro _ rep (conj Hin Hty)) ltac:(lia)) as [Hd|(x & Ix & Ox)].
      * left. rewrite <- (mu_key _ _ S6). exact Hd.
      * right. exists x. split; [apply in_or_app; right; exact Ix|exact Ox].
Qed.

(* ================================================================== *)
(* 6.5 ticks                                                           *)
(* ================================================================== *)

Lemma pget_some_in m id p : pget m id = Some p -> In id (pids m).
Proof.
  induction m as [|[k q] t IH]; cbn [pget pids map fst]; [discriminate|].
  destruct (k =? id) eqn:E; [apply N.eqb_eq in E; left; exact E|]. intros H. right. apply IH. exact H.
Qed.

Lemma hb_msg_to r ctx id : m_to (hb_msg r ctx id) = id.
Proof. unfold hb_msg. destruct ctx; reflexivity. Qed.

Lemma leader_beat b X pr L2 hr hr' :
  LCore X -> get_pr X f = Some pr -> PrInv b pr -> beat_phase X hr = Ok (L2, hr') ->
  LCore L2 /\ get_pr L2 f = Some pr /\ r_heartbeat_timeout L2 = r_heartbeat_timeout X /\
  exists new, r_msgs L2 = r_msgs X ++ new /\ Forall (fun x => m_to x = f -> snd_hb b x) new /\
    (r_heartbeat_timeout X <= r_heartbeat_elapsed X ->
       r_heartbeat_elapsed L2 = 0 /\ exists x, In x new /\ m_to x = f /\ m_type x = MsgHeartbeat) /\
    (r_heartbeat_elapsed X < r_heartbeat_timeout X ->
       r_heartbeat_elapsed L2 = r_heartbeat_elapsed X /\ new = []).
Proof.
  intros HC Hg HP H. unfold beat_phase in H.
  destruct (r_heartbeat_timeout X <=? r_heartbeat_elapsed X) eqn:E.
  - rewrite bcast_heartbeat_eq in H. cbn [bind] in H.
    set (X0 := X <| r_heartbeat_elapsed := 0 |>) in *.
    assert (Hctx : ro_last_pending_request_ctx (r_read_only X0) = None).
    { unfold ro_last_pending_request_ctx. change (r_read_only X0) with (r_read_only X).
      rewrite (lc_ro _ HC). reflexivity. }
    rewrite Hctx in H. change (r_id X0) with (r_id X) in H. change (r_prs X0) with (r_prs X) in H.
    change (r_msgs X0) with (r_msgs X) in H.
    inversion H; subst L2 hr'; clear H.
    split.
    { destruct HC as [C1 C2 C3 C4 C5 C6 C7 C8]. constructor; cbn; auto. }
    split; [exact Hg|]. split; [reflexivity|].
    eexists. split; [reflexivity|].
    assert (Hhb : snd_hb b (hb_msg X0 None f)).
    { unfold snd_hb, hb_msg. change (get_pr X0 f) with (get_pr X f). rewrite Hg. cbn.
      split; [reflexivity|]. split; [apply (lc_term _ HC)|]. split; [apply (lc_id _ HC)|].
      split; [reflexivity|]. split; [pose proof (pi_b _ _ HP); lia|reflexivity]. }
    split.
    { apply Forall_forall. intros x Hx Hto. apply in_map_iff in Hx. destruct Hx as (id & <- & _).
      rewrite hb_msg_to in Hto. subst id. exact Hhb. }
    split.
    + intros _. split; [reflexivity|]. exists (hb_msg X0 None f).
      split; [|split; [apply hb_msg_to|reflexivity]].
      apply in_map. apply filter_In. split.
      * unfold get_pr in Hg. eapply pget_some_in. exact Hg.
      * rewrite (lc_id _ HC). apply negb_true_iff. apply N.eqb_neq. congruence.
    + intros Hlt. apply N.leb_le in E. lia.
  - inversion H; subst L2 hr'; clear H. split; [exact HC|]. split; [exact Hg|]. split; [reflexivity|].
    exists []. split; [rewrite app_nil_r; reflexivity|]. split; [constructor|].
    split; [intros Hle; apply N.leb_gt in E; lia|]. intros _. auto.
Qed.

(* one tick of the leader *)
Lemma leader_tick b L pr L2 hr :
  LCore L -> get_pr L f = Some pr -> PrInv b pr -> tick L = Ok (L2, hr) ->
  LCore L2 /\ get_pr L2 f = Some pr /\ r_heartbeat_timeout L2 = r_heartbeat_timeout L /\
  exists new, r_msgs L2 = r_msgs L ++ new /\ Forall (fun x => m_to x = f -> snd_hb b x) new /\
    (r_heartbeat_timeout L <= r_heartbeat_elapsed L + 1 ->
       r_heartbeat_elapsed L2 = 0 /\ exists x, In x new /\ m_to x = f /\ m_type x = MsgHeartbeat) /\
    (r_heartbeat_elapsed L + 1 < r_heartbeat_timeout L ->
       r_heartbeat_elapsed L2 = r_heartbeat_elapsed L + 1 /\ new = []).
Proof.
  intros HC Hg HP H. pose proof HC as [C1 C2 C3 C4 C5 C6 C7 C8].
  destruct (N.lt_ge_cases (r_election_elapsed L + 1) (r_election_timeout L)) as [He|He].
  - rewrite (leader_heartbeats L C1 He) in H.
    assert (HCX : LCore (ticked L)) by (constructor; cbn; auto).
    apply (leader_beat b (ticked L) pr L2 false hr HCX Hg HP H).
  - rewrite (checkquorum_stepdown L C1 He), C7 in H.
    assert (HCX : LCore (after_check L false)) by (constructor; cbn; auto).
    apply (leader_beat b (after_check L false) pr L2 false hr HCX Hg HP H).
Qed.

(* one tick of the follower while its election timer is not due *)
Lemma follower_tick a F F2 hr :
  FInv a F ->
  r_promotable F = false \/ r_election_elapsed F + 1 < r_randomized_election_timeout F ->
  tick F = Ok (F2, hr) ->
  F2 = F <| r_election_elapsed := r_election_elapsed F + 1 |> /\ FInv a F2.
Proof.
  intros HF Hw H. rewrite tick_election_waits in H.
  - inversion H; subst F2 hr. split; [reflexivity|].
    destruct HF as [F1 F3 F4 F5 F6 F7 F8]. constructor; cbn; auto.
  - rewrite (fi_state _ _ HF). discriminate.
  - destruct Hw as [Hw|Hw]; [right; exact Hw|left; exact Hw].
Qed.

(* ================================================================== *)
(* 6.6 one round                                                       *)
(* ================================================================== *)

Lemma to_peer_all id ms : Forall (fun x => m_to x = id) ms -> to_peer id ms = ms.
Proof.
  induction 1 as [|x t Hx Ht IH]; cbn [to_peer filter]; [reflexivity|].
  rewrite Hx, N.eqb_refl. unfold to_peer in IH. rewrite IH. reflexivity.
Qed.

Lemma Forall_to_peer id (P : msg -> Prop) ms :
  Forall (fun x => m_to x = id -> P x) ms -> Forall P (to_peer id ms).
Proof.
  intros H. apply Forall_forall. intros x Hx. unfold to_peer in Hx. apply filter_In in Hx.
  destruct Hx as [Hin Hto]. apply N.eqb_eq in Hto. rewrite Forall_forall in H. apply H; assumption.
Qed.

Lemma In_to_peer id x ms : In x ms -> m_to x = id -> In x (to_peer id ms).
Proof. intros H1 H2. unfold to_peer. apply filter_In. split; [exact H1|]. apply N.eqb_eq. exact H2. Qed.

Lemma resp_chain_to a ms c : resp_chain a ms c -> Forall (fun x => m_to x = l) ms.
Proof. induction 1; constructor; auto. destruct H0 as (_ & _ & Hto & _). exact Hto. Qed.

(* the invariant at the round boundaries; Hb is the leader's heartbeat_timeout *)
Record PairInv (Hb a : N) (L F : raft) : Prop := mkPairInv {
  pv_core : LCore L;
  pv_pr : exists pr, get_pr L f = Some pr /\ PrInv a pr;
  pv_F : FInv a F;
  pv_Fq : r_msgs F = [];
  pv_q : Forall (qmsg_ok a) (to_peer f (r_msgs L));
  pv_H : r_heartbeat_timeout L = Hb;
  pv_timer : r_promotable F = false \/
             (Hb + 1 < r_randomized_election_timeout F /\
              (to_peer f (r_msgs L) = [] ->
               r_election_elapsed F + (Hb - r_heartbeat_elapsed L) + 1
                 < r_randomized_election_timeout F))
}.

Lemma lfr_fields r r' : lfr r r' ->
  r_heartbeat_timeout r' = r_heartbeat_timeout r /\ r_heartbeat_elapsed r' = r_heartbeat_elapsed r.
Proof. intros [H _]. rewrite H. split; reflexivity. Qed.

Lemma follower_frame_fields A B : follower_frame A B ->
  r_promotable B = r_promotable A /\
  r_randomized_election_timeout B = r_randomized_election_timeout A /\ r_id B = r_id A.
Proof. unfold follower_frame. intros H. rewrite H. repeat split; reflexivity. Qed.

Lemma pair_round_inv Hb a L F L' F' pr :
  PairInv Hb a L F -> get_pr L f = Some pr -> pair_round L F = Ok (L', F') ->
  exists a' pr', a <= a' /\ PairInv Hb a' L' F' /\ get_pr L' f = Some pr' /\
    matched pr <= matched pr' /\ (mu pr' < mu pr \/ pkey pr' = pkey pr) /\
    ((exists x, In x (to_peer f (r_msgs L)) /\ obl pr x) -> mu pr' < mu pr) /\
    ((exists x, In x (to_peer f (r_msgs L)) /\ m_type x = MsgHeartbeat) ->
       matched pr < ll_last LL ->
       mu pr' < mu pr \/ exists x, In x (to_peer f (r_msgs L')) /\ obl pr' x) /\
    (Hb <= r_heartbeat_elapsed L + 1 ->
       exists x, In x (to_peer f (r_msgs L')) /\ m_type x = MsgHeartbeat) /\
    (r_heartbeat_elapsed L + 1 < Hb -> r_heartbeat_elapsed L' = r_heartbeat_elapsed L + 1).
Proof.
  intros [HC (pr0 & Hg0 & HP) HF HFq Hq HH Htm] Hg H.
  rewrite Hg in Hg0. inversion Hg0; subst pr0; clear Hg0.
  unfold pair_round in H. rewrite (fi_id _ _ HF), (lc_id _ HC) in H.
  set (Q := to_peer f (r_msgs L)) in *.
  inv_bind H. rename x into F1. inv_bind H. rename x into L1. inv_bind H. destruct x as [L2 hrl].
  inv_bind H. destruct x as [F2 hrf]. cbn [fst] in H. inversion H; subst L' F'; clear H.
  (* the follower *)
  destruct (follower_steps Q a F F1 HF Hq Hx)
    as (a1 & resps & La & HF1 & Fr1 & M1 & Ch & E1 & Eq1 & An & Hbr).
  rewrite HFq in M1. cbn [app] in M1.
  destruct (follower_frame_fields _ _ Fr1) as (Fp & Fra & Fid).
  pose proof (ag_lastL _ _ _ _ (fi_agree _ _ HF1)) as Ha1.
  (* the leader *)
  rewrite M1, (to_peer_all l resps (resp_chain_to _ _ _ Ch)) in Hx0.
  set (L0 := L <| r_msgs := [] |>) in *.
  assert (HC0 : LCore L0) by (destruct HC; constructor; cbn; auto).
  destruct (leader_steps resps a a1 Ch Ha1 L0 pr L1 HC0 Hg HP Hx0)
    as (pr1 & new & S1 & S2 & S3 & S4 & S5 & S6 & S7 & S8 & S9 & S10).
  cbn [app] in S2. change (r_msgs L0) with (@nil msg) in S2. cbn [app] in S2.
  pose proof (lfr_LCore _ _ S1 HC0) as HC1.
  destruct (lfr_fields _ _ S1) as [Ht1 He1].
  change (r_heartbeat_timeout L0) with (r_heartbeat_timeout L) in Ht1.
  change (r_heartbeat_elapsed L0) with (r_heartbeat_elapsed L) in He1.
  destruct (leader_tick a1 L1 pr1 L2 hrl HC1 S4 S5 Hx1)
    as (HC2 & Hg2 & Ht2 & hbs & M2 & Hhbs & Hfire & Hquiet).
  rewrite S2 in M2. rewrite Ht1, HH in Ht2, Hfire, Hquiet. rewrite He1 in Hfire, Hquiet.
  (* the follower's tick *)
  set (F1c := F1 <| r_msgs := [] |>) in *.
  assert (HF1c : FInv a1 F1c) by (destruct HF1; constructor; cbn; auto).
  assert (Hwait : r_promotable F1c = false \/
                  r_election_elapsed F1c + 1 < r_randomized_election_timeout F1c).
  { change (r_promotable F1c) with (r_promotable F1).
    change (r_election_elapsed F1c) with (r_election_elapsed F1).
    change (r_randomized_election_timeout F1c) with (r_randomized_election_timeout F1).
    rewrite Fp, Fra. destruct Htm as [Htm|[Htm1 Htm2]]; [left; exact Htm|right].
    destruct Q as [|q0 qt] eqn:EQ.
    - rewrite (Eq1 eq_refl). specialize (Htm2 eq_refl). lia.
    - rewrite E1 by discriminate. lia. }
  destruct (follower_tick a1 F1c F2 hrf HF1c Hwait Hx2) as [EF2 HF2].
  exists a1, pr1. split; [exact La|]. split.
  { constructor.
    - exact HC2.
    - exists pr1. auto.
    - exact HF2.
    - rewrite EF2. reflexivity.
    - rewrite M2. apply Forall_to_peer. apply Forall_app. split.
      + eapply Forall_impl; [|exact S3]. intros x Hx' Hto. left. apply Hx'. exact Hto.
      + eapply Forall_impl; [|exact Hhbs]. intros x Hx' Hto. right. apply Hx'. exact Hto.
    - exact Ht2.
    - rewrite EF2. cbn [r_promotable r_randomized_election_timeout r_election_elapsed].
      change (r_promotable (F1c <| r_election_elapsed := r_election_elapsed F1c + 1 |>))
        with (r_promotable F1).
      change (r_randomized_election_timeout (F1c <| r_election_elapsed := r_election_elapsed F1c + 1 |>))
        with (r_randomized_election_timeout F1).
      change (r_election_elapsed (F1c <| r_election_elapsed := r_election_elapsed F1c + 1 |>))
        with (r_election_elapsed F1 + 1).
      rewrite Fp, Fra. destruct Htm as [Htm|[Htm1 Htm2]]; [left; exact Htm|right].
      split; [exact Htm1|]. intros Hempty.
      (* no heartbeat was queued in this tick *)
      assert (Hnf : r_heartbeat_elapsed L + 1 < Hb).
      { destruct (N.lt_ge_cases (r_heartbeat_elapsed L + 1) Hb) as [Hlt|Hge]; [exact Hlt|].
        destruct (Hfire Hge) as (_ & x & Ix & Tx & _). exfalso.
        assert (Hin : In x (to_peer f (r_msgs L2))).
        { apply In_to_peer; [rewrite M2; apply in_or_app; right; exact Ix|exact Tx]. }
        rewrite Hempty in Hin. destruct Hin. }
      destruct (Hquiet Hnf) as [Eh2 _]. rewrite Eh2.
      destruct Q as [|q0 qt] eqn:EQ.
      + rewrite (Eq1 eq_refl). specialize (Htm2 eq_refl). lia.
      + rewrite E1 by discriminate. lia. }
  split; [exact Hg2|]. split; [exact S6|]. split; [exact S7|].
  split.
  { (* an obligation in the queue is discharged *)
    intros (x & Ix & (Sx & O1 & O2 & O3)).
    destruct (An x Ix Sx) as (rep & Irep & (Rty & [(Rrj & Ridx)|(Rrj & Ridx)])).
    - specialize (S8 rep Irep Rty Rrj).
      apply (mu_lt_matched a1); [exact S5|exact Ha1|].
      destruct Ridx as [Ridx|Ridx]; [|lia].
      destruct O2 as [O2|O2]; [lia|].
      destruct (m_entries x); [congruence|]. cbn [length] in Ridx. lia.
    - apply (S9 rep Irep Rty Rrj). destruct (pi_state _ _ HP) as [Es|Es]; [right|left; exact Es].
      rewrite Ridx. apply O3. exact Es. }
  split.
  { (* a heartbeat in the queue creates an obligation *)
    intros (x & Ix & Tx) Hlt. destruct (Hbr x Ix Tx) as (rep & Irep & Rty).
    destruct (S10 (ex_intro _ rep (conj Irep Rty)) Hlt) as [Hd|(y & Iy & Oy)]; [left; exact Hd|].
    right. exists y. split; [|exact Oy].
    apply In_to_peer; [rewrite M2; apply in_or_app; left; exact Iy|].
    destruct Oy as ((_ & _ & _ & Hto & _) & _). exact Hto. }
  split.
  { intros Hge. destruct (Hfire Hge) as (_ & x & Ix & Tx & Ty). exists x. split; [|exact Ty].
    apply In_to_peer; [rewrite M2; apply in_or_app; right; exact Ix|exact Tx]. }
  intros Hlt. apply (Hquiet Hlt).
Qed.

(* ================================================================== *)
(* 6.7 convergence                                                     *)
(* ================================================================== *)

Lemma rounds_split k : forall j L F,
  rounds (k + j) L F = (x <- rounds k L F ;; rounds j (fst x) (snd x)).
Proof.
  induction k as [|k IH]; intros j L F; cbn [rounds Nat.add]; [reflexivity|].
  destruct (pair_round L F) as [[L1 F1]|s]; cbn [bind fst snd]; [apply IH|reflexivity].
Qed.

Lemma mu_pos b pr : PrInv b pr -> 1 <= mu pr.
Proof.
  intros [P1 P2 P3 P4 P5 P6 P7 P8]. unfold mu.
  generalize ((ll_last LL - matched pr) * (ll_last LL + 3)). intros X.
  destruct (pr_state pr); lia.
Qed.

Lemma mu_big b pr : PrInv b pr -> matched pr < ll_last LL -> ll_last LL + 3 <= mu pr.
Proof.
  intros [P1 P2 P3 P4 P5 P6 P7 P8] Hlt. unfold mu.
  assert ((ll_last LL + 3) * 1 <= (ll_last LL - matched pr) * (ll_last LL + 3)).
  { rewrite N.mul_comm. apply N.mul_le_mono_r. lia. }
  lia.
Qed.

(* any number of rounds keeps the invariant; matched never decreases, the measure never
   increases *)
Lemma rounds_mono n : forall Hb a L F pr L' F',
  PairInv Hb a L F -> get_pr L f = Some pr -> rounds n L F = Ok (L', F') ->
  exists a' pr', a <= a' /\ PairInv Hb a' L' F' /\ get_pr L' f = Some pr' /\
    matched pr <= matched pr' /\ mu pr' <= mu pr.
Proof.
  induction n as [|n IH]; intros Hb a L F pr L' F' HI Hg H; cbn [rounds] in H.
  - inversion H; subst L' F'. exists a, pr. split; [lia|]. split; [exact HI|]. split; [exact Hg|]. lia.
  - inv_bind H. destruct x as [L1 F1]. cbn [fst snd] in H.
    destruct (pair_round_inv Hb a L F L1 F1 pr HI Hg Hx) as (a1 & pr1 & La & HI1 & Hg1 & Hm1 & Hmu1 & _).
    destruct (IH Hb a1 L1 F1 pr1 L' F' HI1 Hg1 H) as (a2 & pr2 & La2 & HI2 & Hg2 & Hm2 & Hmu2).
    exists a2, pr2. split; [lia|]. split; [exact HI2|]. split; [exact Hg2|].
    pose proof (mu_le_of_step _ _ Hmu1). lia.
Qed.

Lemma PairInv_matched_le Hb a L F pr :
  PairInv Hb a L F -> get_pr L f = Some pr -> PrInv a pr /\ a <= ll_last LL.
Proof.
  intros HI Hg. destruct (pv_pr _ _ _ _ HI) as (pr0 & Hg0 & HP). rewrite Hg in Hg0.
  inversion Hg0; subst pr0. split; [exact HP|].
  apply (ag_lastL _ _ _ _ (fi_agree _ _ (pv_F _ _ _ _ HI))).
Qed.

(* three rounds from the tick that fires the heartbeat: the measure goes down *)
Lemma progress_after_fire Hb a L F pr L' F' :
  PairInv Hb a L F -> get_pr L f = Some pr -> matched pr < ll_last LL ->
  Hb <= r_heartbeat_elapsed L + 1 ->
  rounds 3 L F = Ok (L', F') ->
  exists a' pr', PairInv Hb a' L' F' /\ get_pr L' f = Some pr' /\ mu pr' < mu pr.
Proof.
  intros HI Hg Hlt Hfire H. cbn [rounds] in H.
  inv_bind H. destruct x as [L1 F1]. cbn [fst snd] in H.
  inv_bind H. destruct x as [L2 F2]. cbn [fst snd] in H.
  inv_bind H. destruct x as [L3 F3]. cbn [fst snd] in H. inversion H; subst L' F'; clear H.
  destruct (pair_round_inv Hb a L F L1 F1 pr HI Hg Hx)
    as (a1 & pr1 & _ & HI1 & Hg1 & Hm1 & Hmu1 & _ & _ & Hq1 & _).
  pose proof (mu_le_of_step _ _ Hmu1) as Hle1.
  destruct (pair_round_inv Hb a1 L1 F1 L2 F2 pr1 HI1 Hg1 Hx0)
    as (a2 & pr2 & _ & HI2 & Hg2 & Hm2 & Hmu2 & _ & Hhb2 & _).
  pose proof (mu_le_of_step _ _ Hmu2) as Hle2.
  destruct (pair_round_inv Hb a2 L2 F2 L3 F3 pr2 HI2 Hg2 Hx1)
    as (a3 & pr3 & _ & HI3 & Hg3 & Hm3 & Hmu3 & Hobl3 & _).
  pose proof (mu_le_of_step _ _ Hmu3) as Hle3.
  exists a3, pr3. split; [exact HI3|]. split; [exact Hg3|].
  destruct (PairInv_matched_le _ _ _ _ _ HI1 Hg1) as [HP1 Ha1].
  destruct (N.lt_ge_cases (matched pr1) (ll_last LL)) as [Hlt1|Hge1].
  - destruct (Hhb2 (Hq1 Hfire) Hlt1) as [Hd|Hob]; [lia|].
    specialize (Hobl3 Hob). lia.
  - (* matched already reached the end in the first round *)
    pose proof (mu_lt_matched a1 pr pr1 HP1 Ha1 ltac:(lia)). lia.
Qed.

(* d more rounds before the firing tick *)
Lemma progress_within d : forall Hb a L F pr L' F',
  PairInv Hb a L F -> get_pr L f = Some pr -> matched pr < ll_last LL ->
  Hb <= r_heartbeat_elapsed L + 1 + N.of_nat d ->
  rounds (d + 3) L F = Ok (L', F') ->
  exists a' pr', PairInv Hb a' L' F' /\ get_pr L' f = Some pr' /\ mu pr' < mu pr.
Proof.
  induction d as [|d IH]; intros Hb a L F pr L' F' HI Hg Hlt Hd H.
  - apply (progress_after_fire Hb a L F pr L' F' HI Hg Hlt); [cbn in Hd; lia|exact H].
  - destruct (N.lt_ge_cases (r_heartbeat_elapsed L + 1) Hb) as [Hq|Hf].
    + (* quiet round first *)
      change (S d + 3)%nat with (S (d + 3)) in H. cbn [rounds] in H.
      inv_bind H. destruct x as [L1 F1]. cbn [fst snd] in H.
      destruct (pair_round_inv Hb a L F L1 F1 pr HI Hg Hx)
        as (a1 & pr1 & _ & HI1 & Hg1 & Hm1 & Hmu1 & _ & _ & _ & Hh1).
      pose proof (mu_le_of_step _ _ Hmu1) as Hle1. specialize (Hh1 Hq).
      destruct (PairInv_matched_le _ _ _ _ _ HI1 Hg1) as [HP1 Ha1].
      destruct (N.lt_ge_cases (matched pr1) (ll_last LL)) as [Hlt1|Hge1].
      * destruct (IH Hb a1 L1 F1 pr1 L' F' HI1 Hg1 Hlt1 ltac:(lia) H) as (a' & pr' & A & B & C0).
        exists a', pr'. split; [exact A|]. split; [exact B|]. lia.
      * destruct (rounds_mono _ Hb a1 L1 F1 pr1 L' F' HI1 Hg1 H) as (a' & pr' & _ & A & B & _ & C0).
        exists a', pr'. split; [exact A|]. split; [exact B|].
        pose proof (mu_lt_matched a1 pr pr1 HP1 Ha1 ltac:(lia)). lia.
    + (* the heartbeat fires at once: three rounds suffice, the rest only helps *)
      replace (S d + 3)%nat with (3 + S d)%nat in H by lia. rewrite rounds_split in H.
      inv_bind H. destruct x as [L1 F1]. cbn [fst snd] in H.
      destruct (progress_after_fire Hb a L F pr L1 F1 HI Hg Hlt Hf Hx) as (a1 & pr1 & HI1 & Hg1 & Hmu1).
      destruct (rounds_mono _ Hb a1 L1 F1 pr1 L' F' HI1 Hg1 H) as (a' & pr' & _ & A & B & _ & C0).
      exists a', pr'. split; [exact A|]. split; [exact B|]. lia.
Qed.

(* once matched has reached the leader's last index it stays there *)
Lemma converged_stays n Hb a L F pr L' F' :
  PairInv Hb a L F -> get_pr L f = Some pr -> matched pr = ll_last LL ->
  rounds n L F = Ok (L', F') ->
  exists a' pr', PairInv Hb a' L' F' /\ get_pr L' f = Some pr' /\ matched pr' = ll_last LL.
Proof.
  intros HI Hg Hm H.
  destruct (rounds_mono n Hb a L F pr L' F' HI Hg H) as (a' & pr' & _ & A & B & C0 & _).
  exists a', pr'. split; [exact A|]. split; [exact B|].
  destruct (PairInv_matched_le _ _ _ _ _ A B) as [HP' Ha']. pose proof (pi_b _ _ HP'). lia.
Qed.

(* the convergence argument: every Hb + 2 rounds the measure goes down *)
Lemma pair_converges_measure n : forall Hb a L F pr N L' F',
  PairInv Hb a L F -> get_pr L f = Some pr -> 1 <= Hb -> mu pr <= N.of_nat n ->
  (N.to_nat (Hb + 2) * n <= N)%nat ->
  rounds N L F = Ok (L', F') ->
  exists a' pr', PairInv Hb a' L' F' /\ get_pr L' f = Some pr' /\ matched pr' = ll_last LL.
Proof.
  induction n as [|n IH]; intros Hb a L F pr N L' F' HI Hg HH Hmu HN H.
  - destruct (PairInv_matched_le _ _ _ _ _ HI Hg) as [HP _]. pose proof (mu_pos _ _ HP). lia.
  - destruct (PairInv_matched_le _ _ _ _ _ HI Hg) as [HP Ha].
    destruct (N.eq_dec (matched pr) (ll_last LL)) as [Hm|Hm].
    { eapply converged_stays; eassumption. }
    assert (Hlt : matched pr < ll_last LL) by (pose proof (pi_b _ _ HP); lia).
    set (d := N.to_nat (Hb - 1 - r_heartbeat_elapsed L)).
    assert (Hk : (d + 3 <= N.to_nat (Hb + 2))%nat) by (subst d; lia).
    assert (HN' : (d + 3 <= N)%nat) by lia.
    replace N with ((d + 3) + (N - (d + 3)))%nat in H by lia. rewrite rounds_split in H.
    inv_bind H. destruct x as [L1 F1]. cbn [fst snd] in H.
    destruct (progress_within d Hb a L F pr L1 F1 HI Hg Hlt ltac:(subst d; lia) Hx)
      as (a1 & pr1 & HI1 & Hg1 & Hmu1).
    apply (IH Hb a1 L1 F1 pr1 (N - (d + 3))%nat L' F' HI1 Hg1 HH); [lia| |exact H].
    nia.
Qed.

End Pair.

(* ================================================================== *)
(* 6.8 the theorem                                                     *)
(* ================================================================== *)

(* the bound on the measure: a function of the leader's last index and of matched *)
Definition pair_measure_bound (last m : N) : N := (last - m) * (last + 3) + (last + 2).

(* MAIN 6 (pair_convergence).  Hypotheses, all on the state at the start:
   leader L (role Leader, term T <> 0) with a well-formed log (RepInv) whose entries have
   non-zero terms, no batching, no pending leader transfer, check_quorum off, no pending
   read-index request, heartbeat_timeout >= 1, and nothing queued for F;
   L's Progress for F is Probe or Replicate - paused or not, any window contents -, with
   matched < next_idx <= last_index + 1, no snapshot request, a window without a
   pending capacity change and of positive capacity; L still holds its log from [matched]
   on (no compaction beyond what F has acknowledged);
   follower F (role Follower, same term, well-formed log, no snapshot request pending,
   empty queue) whose log agrees with L's on [matched, a] and with no entry of L's log
   above a (a is the exact agreement frontier; F may hold any other entries above a), and
   commit index <= a; F's election timer is not due before the first heartbeat
   (or F is not promotable).
   Conclusion: if N >= (heartbeat_timeout + 2) * pair_measure_bound (last_index L) matched
   rounds of the lock-step schedule [pair_round] run without a panic, then L's Progress for
   F has matched = last_index L, F's log agrees with L's up to last_index L, L is still
   leader and F still follower of term T. *)
Theorem pair_convergence :
  forall (L F : raft) (rwl rwf : bool) (pr : progress) (a : N) (N0 : nat) (L' F' : raft),
  (* the leader *)
  r_state L = Leader -> r_term L <> 0 -> r_id L <> r_id F ->
  RepInv rwl (r_log L) -> (forall e, In e (ll_ents (abs (r_log L))) -> e_term e <> 0) ->
  r_batch_append L = false -> r_lead_transferee L = None -> r_check_quorum L = false ->
  ro_queue (r_read_only L) = [] -> 1 <= r_heartbeat_timeout L ->
  to_peer (r_id F) (r_msgs L) = [] ->
  (* the leader's bookkeeping for the follower *)
  get_pr L (r_id F) = Some pr -> (pr_state pr = Probe \/ pr_state pr = Replicate) ->
  matched pr < next_idx pr -> next_idx pr <= last_index (r_log L) + 1 ->
  pending_request_snapshot pr = 0 ->
  incoming_cap (ins pr) = None -> (0 < cap (ins pr))%nat ->
  ll_base (abs (r_log L)) <= matched pr ->
  (exists t, ll_term (abs (r_log L)) (matched pr) = SOk t) ->
  (* the follower *)
  r_state F = Follower -> r_term F = r_term L -> RepInv rwf (r_log F) ->
  r_pending_request_snapshot F = 0 -> r_msgs F = [] ->
  Agree (abs (r_log L)) (abs (r_log F)) (matched pr) a -> committed (r_log F) <= a ->
  (r_promotable F = false \/
   r_election_elapsed F + r_heartbeat_timeout L + 1 < r_randomized_election_timeout F) ->
  (* the run *)
  (N.to_nat (r_heartbeat_timeout L + 2) *
   N.to_nat (pair_measure_bound (last_index (r_log L)) (matched pr)) <= N0)%nat ->
  rounds N0 L F = Ok (L', F') ->
  exists pr',
    get_pr L' (r_id F) = Some pr' /\ matched pr' = last_index (r_log L) /\
    last_index (r_log L') = last_index (r_log L) /\
    Agree (abs (r_log L)) (abs (r_log F')) (matched pr) (last_index (r_log L)) /\
    r_state L' = Leader /\ r_term L' = r_term L /\ r_state F' = Follower /\ r_term F' = r_term L.
Proof.
  intros L F rwl rwf pr a N0 L' F' Ls Lt Lid Lrep Lnz Lb Ltr Lcq Lro LH Lq
         Pg Pst Pn PnL Pq Pic Pcap Pbase Pterm Fs Ft Frep Fq Fm Fag Fc Ftimer HN Hrun.
  set (LL0 := abs (r_log L)) in *.
  pose proof (abs_last rwl _ Lrep) as Hlast. fold LL0 in Hlast.
  assert (HLL : LeaderLog LL0).
  { constructor; [apply (abs_wf rwl _ Lrep)|exact Lnz|apply (ri_bound rwl _ Lrep)]. }
  assert (HI : PairInv LL0 (r_term L) (r_id L) (r_id F) (matched pr) rwf (r_log L)
                       (r_heartbeat_timeout L) a L F).
  { constructor.
    - constructor; auto. apply same_ents_refl.
    - exists pr. split; [exact Pg|].
      constructor; [exact Pst|lia|apply (ag_lo _ _ _ _ Fag)|exact Pn|rewrite <- Hlast; exact PnL|
                    exact Pq|exact Pic|exact Pcap].
    - constructor; auto.
    - exact Fm.
    - rewrite Lq. constructor.
    - reflexivity.
    - destruct Ftimer as [Ft1|Ft1]; [left; exact Ft1|right]. split; [lia|]. intros _. lia. }
  assert (Hmu : mu LL0 pr <= N.of_nat (N.to_nat (pair_measure_bound (last_index (r_log L)) (matched pr)))).
  { destruct (pv_pr _ _ _ _ _ _ _ _ _ _ _ HI) as (pr0 & Hg0 & HP). rewrite Pg in Hg0.
    inversion Hg0; subst pr0.
    pose proof (mu_bound LL0 (r_term L) (r_id L) (r_id F) (matched pr) Pbase Lt Lid a pr HP
                  (ag_lastL _ _ _ _ Fag)) as Hb.
    unfold pair_measure_bound. rewrite Hlast. lia. }
  destruct (pair_converges_measure LL0 (r_term L) (r_id L) (r_id F) (matched pr) rwf HLL Pbase Pterm
              Lt Lid rwl (r_log L) Lrep eq_refl _ (r_heartbeat_timeout L) a L F pr N0 L' F'
              HI Pg LH Hmu HN Hrun) as (a' & pr' & HI' & Hg' & Hm').
  exists pr'. split; [exact Hg'|]. split; [rewrite Hlast; exact Hm'|].
  pose proof (pv_core _ _ _ _ _ _ _ _ _ _ _ HI') as HC'.
  pose proof (pv_F _ _ _ _ _ _ _ _ _ _ _ HI') as HF'.
  split.
  { rewrite Hlast. destruct (lc_log _ _ _ _ HC') as (A & B & _). unfold last_index in *.
    rewrite A, B. exact Hlast. }
  split.
  { rewrite Hlast.
    destruct (pv_pr _ _ _ _ _ _ _ _ _ _ _ HI') as (pr0 & Hg0 & HP'). rewrite Hg' in Hg0.
    inversion Hg0; subst pr0.
    pose proof (fi_agree _ _ _ _ _ _ _ HF') as Hag'.
    pose proof (pi_b _ _ _ _ HP'). pose proof (ag_lastL _ _ _ _ Hag').
    replace (ll_last LL0) with a' by lia. exact Hag'. }
  split; [apply (lc_state _ _ _ _ HC')|]. split; [apply (lc_term _ _ _ _ HC')|].
  split; [apply (fi_state _ _ _ _ _ _ _ HF')|apply (fi_term _ _ _ _ _ _ _ HF')].
Qed.

(* ================================================================== *)
(* example pair (used by the non-vacuity Examples of Props/C10.v)      *)
(* ================================================================== *)

Definition xp_ent (i t : N) : entry := mkEntry 0 t i [] [].
Definition xp_cs : conf_state := mkCS [1; 2] [] [] [] false.
(* leader 1, term 2: entries 1..5 with terms 1,1,2,2,2 *)
Definition xp_storeL : MemStorage.mem :=
  mkMem (mkHS 2 1 0) xp_cs [xp_ent 1 1; xp_ent 2 1; xp_ent 3 2; xp_ent 4 2; xp_ent 5 2] 0 0
        false false None.
(* follower 2: entries 1..3 with terms 1,1,1 - entry 3 diverges from the leader's *)
Definition xp_storeF : MemStorage.mem :=
  mkMem (mkHS 2 1 0) xp_cs [xp_ent 1 1; xp_ent 2 1; xp_ent 3 1] 0 0 false false None.
Definition xp_logL : raft_log := mkLog xp_storeL (u_new 6) 0 5 0 0.
Definition xp_logF : raft_log := mkLog xp_storeF (u_new 4) 0 3 0 0.

(* the leader tracks the follower as a PAUSED probe at next_idx 5 (matched 0): without the
   heartbeat-response mechanism nothing would ever be sent *)
Definition xp_prs (pf : progress) : tracker :=
  mkTr [(1, mkPr 5 6 Replicate false 0 0 true (Inflights.new 256) 0 0); (2, pf)]
       (mkConf [1; 2] [] [] [] false) [] 256 false.
Definition xp_pr_probe : progress := mkPr 0 5 Probe true 0 0 false (Inflights.new 256) 0 0.
(* ... or as Replicate with a FULL window (capacity 2, two stale indexes in flight) and an
   optimistic next_idx *)
Definition xp_pr_repl : progress :=
  mkPr 0 6 Replicate false 0 0 false (mkInf 0 2 [4; 5] 2 None true) 0 0.

Definition xp_L (pf : progress) : raft :=
  mkRaft 2 1 1 [] xp_logL 256 1000 0 Leader true 1 None 0 (ro_new 0) 0 0
         false false false false false 2 10 15 10 20 0%Z u64_max 0 5 u64_max
         (xp_prs pf) [] [] None.
Definition xp_F : raft :=
  mkRaft 2 1 2 [] xp_logF 256 1000 0 Follower true 1 None 0 (ro_new 0) 0 0
         false false false false false 2 10 15 10 20 0%Z u64_max 0 0 u64_max
         (xp_prs xp_pr_probe) [] [] None.

Lemma xp_storeL_inv : SInv xp_storeL.
Proof. unfold MemStorageProofs.RepInv, next_of, first_of, xp_storeL, u64_max. cbn. repeat split; lia. Qed.
Lemma xp_storeF_inv : SInv xp_storeF.
Proof. unfold MemStorageProofs.RepInv, next_of, first_of, xp_storeF, u64_max. cbn. repeat split; lia. Qed.

Lemma xp_logL_inv : RepInv false xp_logL.
Proof.
  destruct (log_new_ok xp_storeL 0 xp_storeL_inv eq_refl) as (lg & Hl & Hr & _).
  assert (E : log_new xp_storeL 0 = Ok xp_logL) by reflexivity.
  rewrite E in Hl. inversion Hl; subst lg. exact Hr.
Qed.
Lemma xp_logF_inv : RepInv false xp_logF.
Proof.
  destruct (log_new_ok xp_storeF 0 xp_storeF_inv eq_refl) as (lg & Hl & Hr & _).
  assert (E : log_new xp_storeF 0 = Ok xp_logF) by reflexivity.
  rewrite E in Hl. inversion Hl; subst lg. exact Hr.
Qed.

Lemma xp_agree : Agree (abs xp_logL) (abs xp_logF) 0 2.
Proof.
  constructor.
  - lia.
  - vm_compute. discriminate.
  - vm_compute. discriminate.
  - intros i Hi. assert (E : i = 0 \/ i = 1 \/ i = 2) by lia.
    destruct E as [->|[->| ->]]; reflexivity.
  - intros i Hi. assert (E : i = 3 \/ i = 4 \/ i = 5).
    { assert (Hl : ll_last (abs xp_logL) = 5) by reflexivity. rewrite Hl in Hi. lia. }
    destruct E as [->|[->| ->]]; vm_compute; discriminate.
Qed.

(* the hypotheses of pair_convergence hold of the example pair, for both initial
   Progress values; 188 = (heartbeat_timeout + 2) * pair_measure_bound 5 0 *)
Lemma xp_nz : forall e, In e (ll_ents (abs xp_logL)) -> e_term e <> 0.
Proof.
  intros e He. vm_compute in He.
  repeat (destruct He as [<-|He]; [vm_compute; discriminate|]). destruct He.
Qed.

Ltac xp_side :=
  first [ exact xp_logL_inv | exact xp_logF_inv | exact xp_nz | exact xp_agree
        | reflexivity
        | (vm_compute; discriminate)
        | (vm_compute; reflexivity)
        | (vm_compute; lia)
        | (left; reflexivity) | (right; reflexivity)
        | (right; vm_compute; reflexivity)
        | (exists 0; reflexivity) ].

Lemma xp_converges_probe L' F' :
  rounds 188 (xp_L xp_pr_probe) xp_F = Ok (L', F') ->
  exists pr', get_pr L' 2 = Some pr' /\ matched pr' = 5 /\
    Agree (abs xp_logL) (abs (r_log F')) 0 5 /\ r_state L' = Leader /\ r_state F' = Follower.
Proof.
  intros Hrun.
  pose proof (fun H1 H2 H3 H4 H5 H6 H7 H8 H9 H10 H11 H12 H13 H14 H15 H16 H17 H18 H19 H20 H21 H22
                  H23 H24 H25 H26 H27 H28 H29 =>
    pair_convergence (xp_L xp_pr_probe) xp_F false false xp_pr_probe 2 188 L' F'
      H1 H2 H3 H4 H5 H6 H7 H8 H9 H10 H11 H12 H13 H14 H15 H16 H17 H18 H19 H20 H21 H22 H23 H24 H25
      H26 H27 H28 H29 Hrun) as X.
  clear Hrun.
  destruct X as (pr' & A & B & _ & D & E & _ & G & _); try xp_side.
  exists pr'. auto.
Qed.

Lemma xp_converges_repl L' F' :
  rounds 188 (xp_L xp_pr_repl) xp_F = Ok (L', F') ->
  exists pr', get_pr L' 2 = Some pr' /\ matched pr' = 5 /\
    Agree (abs xp_logL) (abs (r_log F')) 0 5 /\ r_state L' = Leader /\ r_state F' = Follower.
Proof.
  intros Hrun.
  pose proof (fun H1 H2 H3 H4 H5 H6 H7 H8 H9 H10 H11 H12 H13 H14 H15 H16 H17 H18 H19 H20 H21 H22
                  H23 H24 H25 H26 H27 H28 H29 =>
    pair_convergence (xp_L xp_pr_repl) xp_F false false xp_pr_repl 2 188 L' F'
      H1 H2 H3 H4 H5 H6 H7 H8 H9 H10 H11 H12 H13 H14 H15 H16 H17 H18 H19 H20 H21 H22 H23 H24 H25
      H26 H27 H28 H29 Hrun) as X.
  clear Hrun.
  destruct X as (pr' & A & B & _ & D & E & _ & G & _); try xp_side.
  exists pr'. auto.
Qed.

(* and the run does not panic: the conclusion is reached, computed *)
Lemma xp_run_probe :
  exists L' F' pr', rounds 188 (xp_L xp_pr_probe) xp_F = Ok (L', F') /\
    get_pr L' 2 = Some pr' /\ matched pr' = 5 /\ pr_state pr' = Replicate /\
    last_index (r_log F') = 5 /\ committed (r_log F') = 5.
Proof. vm_compute. do 3 eexists. repeat split; reflexivity. Qed.

Lemma xp_run_repl :
  exists L' F' pr', rounds 188 (xp_L xp_pr_repl) xp_F = Ok (L', F') /\
    get_pr L' 2 = Some pr' /\ matched pr' = 5 /\ pr_state pr' = Replicate /\
    last_index (r_log F') = 5 /\ committed (r_log F') = 5.
Proof. vm_compute. do 3 eexists. repeat split; reflexivity. Qed.
