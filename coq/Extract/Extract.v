From RV Require Import Base.Prelude Run.RunInflights Run.RunQuorum Run.RunMemStorage Run.RunConfChange Run.RunRaftLog Run.RunNode Run.RunPElection Run.RunPLog Run.RunPRead.
From Coq Require Import Extraction ExtrOcamlBasic.
Extraction Language OCaml.
Extraction "model.ml" run_inflights run_quorum run_memstorage run_confchange run_raftlog run_node run_pelection run_plog run_pread N.of_nat N.to_nat N.div_eucl N.mul N.add.
