From RV Require Import Base.Prelude Run.RunInflights Run.RunQuorum Run.RunRaftLog.
From Coq Require Import Extraction ExtrOcamlBasic.
Extraction Language OCaml.
Set Extraction Output Directory "../ocaml".
Extraction "model.ml" run_inflights run_quorum run_raftlog N.of_nat N.to_nat N.div_eucl N.mul N.add.
