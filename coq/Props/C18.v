(* C18 — Inflights window is a bounded FIFO under resizing.
   Only pinned statements; proofs live in M/InflightsProofs.v. *)
From RV Require Import Base.Prelude M.Inflights M.InflightsProofs.

(* Every operation, from every state satisfying the representation invariant
   (add only when not full), succeeds, keeps the invariant and commutes with
   the bounded-FIFO specification [sstep] under the abstraction [abs_state]. *)
Theorem C18_step_refines :
  forall s o, Inv s -> (forall x, o = OAdd x -> full s = false) ->
    exists s', step s o = Ok s' /\ Inv s' /\ abs_state s' = sstep (abs_state s) o.
Proof. exact step_refines. Qed.
Print Assumptions C18_step_refines.

(* Every history from every initial capacity: the run never panics, count and
   fullness match the FIFO model, and the tracked sequence is the model's. *)
Theorem C18_history :
  forall c ops, valid_hist (snew c) ops ->
    exists s, run (new c) ops = Ok s /\ Inv s /\
              abs_state s = fold_left sstep ops (snew c) /\
              count s = length (q (fold_left sstep ops (snew c))) /\
              full s = sfull (fold_left sstep ops (snew c)).
Proof. exact inflights_history. Qed.
Print Assumptions C18_history.

(* add on a full window is the documented panic, nothing else *)
Theorem C18_add_full_panics :
  forall s x, full s = true -> add s x = Panic site_add_full.
Proof. exact add_full_panics. Qed.
Print Assumptions C18_add_full_panics.

(* freeing removes exactly the longest prefix not greater than [to] *)
Theorem C18_free_to_prefix :
  forall f to, exists removed,
    q f = removed ++ q (sstep f (OFreeTo to)) /\
    Forall (fun b => (b <= to)%N) removed /\
    match q (sstep f (OFreeTo to)) with [] => True | b :: _ => (to < b)%N end.
Proof. exact free_to_prefix. Qed.
Print Assumptions C18_free_to_prefix.

(* with indexes added in increasing order free_first_one pops exactly the head *)
Theorem C18_free_first_pops :
  forall f, incr (q f) -> q (sstep f OFreeFirst) = tl (q f).
Proof. exact free_first_pops. Qed.
Print Assumptions C18_free_first_pops.

Theorem C18_incr_preserved :
  forall f o, incr (q f) ->
    match o with OAdd x => forall b, In b (q f) -> (b < x)%N | _ => True end ->
    incr (q (sstep f o)).
Proof. exact incr_preserved. Qed.
Print Assumptions C18_incr_preserved.

(* a reduced capacity governs fullness at once and becomes the capacity no
   later than when the window drains *)
Theorem C18_shrink_governs_full :
  forall f c, c < fcap f -> length (q f) <= fcap f ->
    sfull (sstep f (OSetCap c)) = (c <=? length (q f)).
Proof. exact shrink_governs_full. Qed.
Print Assumptions C18_shrink_governs_full.

Theorem C18_shrink_applied_on_drain :
  forall f c o, pending f = Some c ->
    (o = OReset \/ (exists to, o = OFreeTo to) \/ o = OFreeFirst) ->
    q (sstep f o) = [] -> q f <> [] ->
    fcap (sstep f o) = c /\ pending (sstep f o) = None.
Proof. exact shrink_applied_on_drain. Qed.
Print Assumptions C18_shrink_applied_on_drain.

(* no tracked index is lost, duplicated or reordered by resizing / releasing *)
Theorem C18_no_loss_set_cap : forall f c, q (sstep f (OSetCap c)) = q f.
Proof. exact no_loss_set_cap. Qed.
Print Assumptions C18_no_loss_set_cap.

Theorem C18_no_loss_maybe_free : forall f, sstep f OMaybeFree = f.
Proof. exact no_loss_maybe_free. Qed.
Print Assumptions C18_no_loss_maybe_free.

Theorem C18_add_appends : forall f x, q (sstep f (OAdd x)) = q f ++ [x].
Proof. exact add_appends. Qed.
Print Assumptions C18_add_appends.

(* non-vacuity: a wrapped ring with a pending smaller capacity *)
Theorem C18_nonvacuous :
  exists s, run (new 3) [OAdd 1%N; OAdd 2%N; OAdd 3%N; OFreeTo 2%N; OAdd 4%N; OSetCap 2] = Ok s
            /\ start s = 2 /\ count s = 2 /\ abs s = [3%N; 4%N] /\ incoming_cap s = Some 2
            /\ full s = true.
Proof. exact inv_wrapped_example. Qed.
Print Assumptions C18_nonvacuous.
