From RV Require Import Base.Prelude.
