(* C19: MemStorage honours the Storage contract.  Pinned statements only. *)
From RV Require Import Base.Prelude M.Util M.UtilProofs M.MemStorage M.MemStorageProofs.

Local Open Scope N_scope.

(* ---- limit_size ---- *)
Theorem C19_limit_size_spec :
  forall {A} (sz : A -> N) (l : list A) (max : option N),
    let r := limit_size_by sz l max in
    (exists k, (k <= length l)%nat /\ r = firstn k l)
    /\ (l <> [] -> r <> [])
    /\ (max = None \/ max = Some NO_LIMIT \/ (length l <= 1)%nat -> r = l)
    /\ (head_pos sz l ->
        forall m, max = Some m ->
          (m <> NO_LIMIT -> total_size sz r <= m \/ length r = 1%nat)
          /\ ((length r < length l)%nat -> m < total_size sz (firstn (S (length r)) l))).
Proof. exact @limit_size_spec. Qed.
Print Assumptions C19_limit_size_spec.

Theorem C19_entry_size_pos : forall e, e_index e <> 0 -> 0 < entry_size e.
Proof. exact entry_size_pos. Qed.
Print Assumptions C19_entry_size_pos.

(* ---- invariant, refinement of every operation ---- *)
Theorem C19_new_RepInv : RepInv new.
Proof. exact new_RepInv. Qed.
Print Assumptions C19_new_RepInv.

Theorem C19_mem_refines : forall m o,
    RepInv m -> spre (abs m) o ->
    exists m' r, step m o = Ok (m', r) /\ RepInv m' /\ abs m' = spec_step (abs m) o.
Proof. exact mem_refines. Qed.
Print Assumptions C19_mem_refines.

(* a non-trivial state meeting the hypotheses (compacted prefix, snapshot point, entries) *)
Example C19_ex_state :
  RepInv ex_state /\ commit_ok (abs ex_state) /\ snap_index ex_state + 1 < first_of ex_state.
Proof. exact ex_state_RepInv. Qed.
Print Assumptions C19_ex_state.

Theorem C19_append_ok : forall m n0 t,
    RepInv m ->
    contiguous_from (e_index n0) (n0 :: t) ->
    first_of m <= e_index n0 <= next_of m ->
    e_index n0 + N.of_nat (length (n0 :: t)) <= u64_max ->
    let m' := set_entries m
                (firstn (N.to_nat (e_index n0 - first_of m)) (entries m) ++ n0 :: t) in
    append m (n0 :: t) = Ok m' /\ RepInv m' /\ first_of m' = first_of m.
Proof. exact append_ok. Qed.
Print Assumptions C19_append_ok.

Theorem C19_append_panics_compacted : forall m n0 t,
    RepInv m -> e_index n0 < first_of m ->
    append m (n0 :: t) = Panic site_append_compacted.
Proof. exact append_panics_compacted. Qed.
Print Assumptions C19_append_panics_compacted.

Theorem C19_append_panics_gap : forall m n0 t,
    RepInv m -> next_of m < e_index n0 ->
    append m (n0 :: t) = Panic site_append_gap.
Proof. exact append_panics_gap. Qed.
Print Assumptions C19_append_panics_gap.

Theorem C19_compact_noop : forall m ci,
    RepInv m -> ci <= first_of m -> compact m ci = Ok m.
Proof. exact compact_noop. Qed.
Print Assumptions C19_compact_noop.

Theorem C19_compact_ok : forall m ci,
    RepInv m -> first_of m < ci -> ci < next_of m ->
    let m' := set_entries m (skipn (N.to_nat (ci - first_of m)) (entries m)) in
    compact m ci = Ok m' /\ RepInv m' /\ first_of m' = ci.
Proof. exact compact_ok. Qed.
Print Assumptions C19_compact_ok.

Theorem C19_compact_panics : forall m ci,
    RepInv m -> next_of m < ci -> compact m ci = Panic site_compact_oob.
Proof. exact compact_panics. Qed.
Print Assumptions C19_compact_panics.

Theorem C19_apply_snapshot_ok : forall m s,
    RepInv m -> first_of m <= s_index s -> s_index s < u64_max ->
    apply_snapshot m s = Ok (apply_snapshot_result m s, SOk tt)
    /\ RepInv (apply_snapshot_result m s).
Proof. exact apply_snapshot_ok. Qed.
Print Assumptions C19_apply_snapshot_ok.

Theorem C19_apply_snapshot_out_of_date : forall m s,
    RepInv m -> s_index s < first_of m ->
    apply_snapshot m s = Ok (m, SErr SnapshotOutOfDate).
Proof. exact apply_snapshot_out_of_date. Qed.
Print Assumptions C19_apply_snapshot_out_of_date.

Theorem C19_commit_to_ok : forall m i,
    RepInv m -> first_of m <= i < next_of m ->
    exists e, entry_at m i = Some e
      /\ commit_to m i = Ok (set_hs m (mkHS (e_term e) (hs_vote (hs m)) i)).
Proof. exact commit_to_ok. Qed.
Print Assumptions C19_commit_to_ok.

Theorem C19_commit_to_panics : forall m i,
    RepInv m -> ~ (first_of m <= i < next_of m) ->
    commit_to m i = Panic site_commit_to_assert.
Proof. exact commit_to_panics. Qed.
Print Assumptions C19_commit_to_panics.

(* ---- queries ---- *)
Theorem C19_first_index_spec : forall m,
    RepInv m -> storage_first_index m = Ok (sp_first (abs m)).
Proof. exact first_index_spec. Qed.
Print Assumptions C19_first_index_spec.

Theorem C19_last_index_spec : forall m,
    RepInv m -> storage_last_index m + 1 = sp_next (abs m).
Proof. exact last_index_spec. Qed.
Print Assumptions C19_last_index_spec.

Theorem C19_entry_at_index : forall m i e,
    RepInv m -> entry_at m i = Some e -> e_index e = i.
Proof. exact entry_at_index. Qed.
Print Assumptions C19_entry_at_index.

Theorem C19_entry_at_some_iff : forall m i,
    (exists e, entry_at m i = Some e) <-> first_of m <= i < next_of m.
Proof. exact entry_at_some_iff. Qed.
Print Assumptions C19_entry_at_some_iff.

Theorem C19_term_spec : forall m i,
    RepInv m ->
    storage_term m i =
    Ok (if i =? snap_index m then SOk (snap_term m)
        else if i <? first_of m then SErr Compacted
        else match entry_at m i with
             | Some e => SOk (e_term e)
             | None => SErr Unavailable
             end).
Proof. exact term_spec. Qed.
Print Assumptions C19_term_spec.

Theorem C19_term_unavailable : forall m i,
    RepInv m -> next_of m <= i -> storage_term m i = Ok (SErr Unavailable).
Proof. exact term_unavailable. Qed.
Print Assumptions C19_term_unavailable.

Theorem C19_term_entry : forall m i,
    RepInv m -> first_of m <= i < next_of m ->
    exists e, entry_at m i = Some e /\ e_index e = i
              /\ storage_term m i = Ok (SOk (e_term e)).
Proof. exact term_entry. Qed.
Print Assumptions C19_term_entry.

Theorem C19_range_of_spec : forall m lo hi,
    RepInv m -> first_of m <= lo -> lo <= hi -> hi <= next_of m ->
    contiguous_from lo (range_of m lo hi)
    /\ length (range_of m lo hi) = N.to_nat (hi - lo)
    /\ (forall i, lo <= i < hi ->
          nth_error (range_of m lo hi) (N.to_nat (i - lo)) = entry_at m i).
Proof. exact range_of_spec. Qed.
Print Assumptions C19_range_of_spec.

Theorem C19_entries_spec : forall m lo hi max ctx,
    RepInv m ->
    first_of m <= lo -> lo <= hi -> hi <= next_of m ->
    trig_log m && can_async ctx = false ->
    exists r, storage_entries m lo hi max ctx = Ok (m, SOk r)
      /\ (exists k, (k <= length (range_of m lo hi))%nat /\ r = firstn k (range_of m lo hi))
      /\ (lo < hi -> r <> [])
      /\ (max = None \/ max = Some NO_LIMIT \/ hi <= lo + 1 -> r = range_of m lo hi)
      /\ (forall mx, max = Some mx ->
            (mx <> NO_LIMIT -> total_size entry_size r <= mx \/ length r = 1%nat)
            /\ ((length r < length (range_of m lo hi))%nat ->
                mx < total_size entry_size (firstn (S (length r)) (range_of m lo hi)))).
Proof. exact entries_spec. Qed.
Print Assumptions C19_entries_spec.

Theorem C19_entries_compacted : forall m lo hi max ctx,
    RepInv m -> lo < first_of m ->
    storage_entries m lo hi max ctx = Ok (m, SErr Compacted).
Proof. exact entries_compacted. Qed.
Print Assumptions C19_entries_compacted.

Theorem C19_entries_oob_panics : forall m lo hi max ctx,
    RepInv m -> first_of m <= lo -> next_of m < hi ->
    storage_entries m lo hi max ctx = Panic site_entries_oob.
Proof. exact entries_oob_panics. Qed.
Print Assumptions C19_entries_oob_panics.

Theorem C19_entries_log_unavailable : forall m lo hi max ctx,
    RepInv m -> first_of m <= lo -> hi <= next_of m ->
    trig_log m && can_async ctx = true ->
    storage_entries m lo hi max ctx
    = Ok (set_ge_ctx m (Some ctx), SErr LogTemporarilyUnavailable).
Proof. exact entries_log_unavailable. Qed.
Print Assumptions C19_entries_log_unavailable.

Theorem C19_entries_panics_iff : forall m lo hi max ctx,
    RepInv m ->
    ((exists s, storage_entries m lo hi max ctx = Panic s)
     <-> first_of m <= lo
         /\ (next_of m < hi
             \/ (trig_log m && can_async ctx = false /\ hi < lo))).
Proof. exact entries_panics_iff. Qed.
Print Assumptions C19_entries_panics_iff.

(* the store holding no entries (the entries[0] panic fixed by /repo 9c2e6d6) *)
Theorem C19_entries_empty_store : forall m lo hi max ctx,
    RepInv m -> entries m = [] ->
    first_of m <= lo -> lo <= hi -> hi <= next_of m ->
    trig_log m && can_async ctx = false ->
    storage_entries m lo hi max ctx = Ok (m, SOk []).
Proof. exact entries_empty_store. Qed.
Print Assumptions C19_entries_empty_store.

Theorem C19_entries_empty_range : forall m lo max ctx,
    RepInv m -> first_of m <= lo <= next_of m ->
    trig_log m && can_async ctx = false ->
    storage_entries m lo lo max ctx = Ok (m, SOk []).
Proof. exact entries_empty_range. Qed.
Print Assumptions C19_entries_empty_range.

Theorem C19_entries_entries0_never : forall m lo hi max ctx,
    RepInv m -> storage_entries m lo hi max ctx <> Panic site_entries_entries0.
Proof. exact entries_entries0_never. Qed.
Print Assumptions C19_entries_entries0_never.

(* ---- snapshot ---- *)
Theorem C19_make_snapshot_ok_iff : forall m,
    RepInv m -> ((exists s, make_snapshot m = Ok s) <-> commit_ok (abs m)).
Proof. exact make_snapshot_ok_iff. Qed.
Print Assumptions C19_make_snapshot_ok_iff.

Theorem C19_snapshot_spec : forall m req to,
    RepInv m -> commit_ok (abs m) ->
    (trig_snap m = true ->
       storage_snapshot m req to
       = Ok (set_trig_snap m false, SErr SnapshotTemporarilyUnavailable))
    /\ (trig_snap m = false ->
        exists s t, storage_snapshot m req to = Ok (m, SOk s)
          /\ storage_term m (hs_commit (hs m)) = Ok (SOk t)
          /\ s_term s = t
          /\ s_cs s = cs m
          /\ s_index s = N.max (hs_commit (hs m)) req
          /\ req <= s_index s).
Proof. exact snapshot_spec. Qed.
Print Assumptions C19_snapshot_spec.

(* ---- histories ---- *)
Theorem C19_history_refines : forall ops m,
    RepInv m -> spres (abs m) ops ->
    exists m', run m ops = Ok m' /\ RepInv m'
               /\ abs m' = fold_left spec_step ops (abs m).
Proof. exact history_refines. Qed.
Print Assumptions C19_history_refines.

Theorem C19_history_from_new : forall ops,
    spres spec_new ops ->
    exists m, run new ops = Ok m /\ RepInv m
      /\ abs m = fold_left spec_step ops spec_new
      /\ spec_wf (abs m)
      /\ storage_first_index m = Ok (sp_first (abs m))
      /\ storage_last_index m + 1 = sp_next (abs m)
      /\ (forall i, storage_term m i = Ok (spec_term (abs m) i))
      /\ (forall lo hi max ctx,
            sp_first (abs m) <= lo -> lo <= hi ->
            hi <= sp_next (abs m) -> trig_log m && can_async ctx = false ->
            storage_entries m lo hi max ctx
            = Ok (m, SOk (limit_size (spec_range (abs m) lo hi) max))).
Proof. exact history_from_new. Qed.
Print Assumptions C19_history_from_new.

Theorem C19_commit_ok_step : forall s o,
    commit_ok s -> spre s o -> spre_commit s o -> commit_ok (spec_step s o).
Proof. exact commit_ok_step. Qed.
Print Assumptions C19_commit_ok_step.

Theorem C19_history_snapshot : forall ops,
    spres_disciplined spec_new ops ->
    exists m, run new ops = Ok m /\ RepInv m
      /\ abs m = fold_left spec_step ops spec_new
      /\ commit_ok (abs m)
      /\ forall req to,
           (trig_snap m = true ->
              storage_snapshot m req to
              = Ok (set_trig_snap m false, SErr SnapshotTemporarilyUnavailable))
           /\ (trig_snap m = false ->
               exists s t, storage_snapshot m req to = Ok (m, SOk s)
                 /\ storage_term m (hs_commit (hs m)) = Ok (SOk t)
                 /\ s_term s = t /\ s_cs s = cs m
                 /\ s_index s = N.max (hs_commit (hs m)) req
                 /\ req <= s_index s).
Proof. exact history_snapshot. Qed.
Print Assumptions C19_history_snapshot.

(* a non-trivial history meeting the hypotheses of C19_history_snapshot *)
Example C19_ex_history : spres_disciplined spec_new ex_history.
Proof. exact ex_history_disciplined. Qed.
Print Assumptions C19_ex_history.

(* ---- candidate findings, as theorems about the model ---- *)
Theorem C19_compact_all_rewinds : forall m,
    RepInv m -> entries m <> [] ->
    exists m', compact m (last_index m + 1) = Ok m'
      /\ entries m' = []
      /\ RepInv m'
      /\ first_of m' = snap_index m + 1
      /\ last_index m' = snap_index m
      /\ snap_index m < last_index m.
Proof. exact compact_all_rewinds. Qed.
Print Assumptions C19_compact_all_rewinds.

Theorem C19_term_before_first_after_compact : forall m,
    RepInv m -> snap_index m + 1 < first_of m ->
    storage_term m (first_of m - 1) = Ok (SErr Compacted).
Proof. exact term_before_first_after_compact. Qed.
Print Assumptions C19_term_before_first_after_compact.
