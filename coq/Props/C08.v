(* C08 — ReadIndex (Safe mode) is linearizable.
   Only pinned statements (+ non-vacuity examples); proofs live in M/RaftProofsC08.v.

   Property (properties.jsonl): "With the quorum-checked (Safe) read-only option and unique
   request contexts, every read state returned for a read request carries an index at least as
   large as the highest commit index any node had reached when the request was issued, and it is
   returned only on the node where the request was issued.  A node that has been superseded as
   leader never answers a read that was issued after a newer leader committed entries it does not
   know to be committed."

   NOT PROVED (listed honestly):
   * The cluster-level clause itself, read_index_linearizable of DESIGN.md section 7:
     "idx >= the maximum commit index of ANY node when the request was issued" and
     stale_leader_silent.  It quantifies over executions of several nodes and needs the protocol
     level: leader completeness (LC: the log of the leader of term T holds every entry committed in
     terms <= T; with the own-term commit gate this makes the recorded index dominate every
     commit point of terms <= T), election safety / term monotonicity per node (I1), and the
     quorum-intersection argument (a member of the ack quorum that had seen a term > T could not
     acknowledge a term-T heartbeat: the per-node half of that is C08_heartbeat_ack_only_current_term
     below, the cluster half is not proved).  None of these cross-node facts is proved here.
   * That request contexts are unique is an assumption of the property about the APPLICATION;
     nothing below needs it and nothing below proves what goes wrong without it.  What the
     theorems do show about a reused context: while it is still pending the second request is
     not recorded at all (C08_read_only_spec_add: only the FIRST request with that context is
     ever answered), and the heartbeat round of a request is identified by its context only
     (C08_readindex_served_needs_quorum counts ANY same-term MsgHeartbeatResponse of a tracked
     peer carrying the context), so an ack still in flight from an earlier round with the same
     context would count for the later request: this is where uniqueness is indispensable.
   * Heartbeats with m_term = 0: Raft::step treats a term-0 message as local, so a follower
     acknowledges a term-0 MsgHeartbeat whatever its own term (visible in the disjunct
     "m_term m = 0" of C08_heartbeat_ack_only_current_term).  Real leaders never send one (send stamps the
     leader's term on every heartbeat: C08_hb_list_shape gives m_term = r_term r), and that terms
     of leaders are >= 1 is a protocol-level fact not proved here.
   * A follower with a pending request_snapshot does not acknowledge heartbeats at all (it answers
     with a rejecting MsgAppendResponse): see the second disjunct of C08_heartbeat_echoes_context.
     This can delay, never wrongly release, a read.
   * RoInv (the ReadOnly representation invariant) is proved ESTABLISHED at construction
     (C08_raft_new_no_reads / C08_rn_new_no_reads: a fresh or restarted node has no pending read
     and no read state) and PRESERVED by every API function of the Raft and RawNode models
     (C08_raft_api_gx / C08_rawnode_api_gx).  None of the mechanism theorems 2-8 assumes it (only
     C08_readindex_served_prefix and the advance clauses of read_only_spec do).
   * The single-voter shortcut (item 7) is sound only if the lone voter is the node itself.  The
     real code (fix 6a9ae91, found by the monitor: a leader removed or demoted by a membership
     change whose configuration keeps ONE voter, another node, answered locally with a possibly
     stale commit index) now tests `is_singleton() && self.promotable`, and so does the model
     (C08_singleton_conf_def).  That promotable = "self is a voter of the current configuration"
     is NOT proved here: it is established by post_conf_change, which every configuration change
     (apply_conf_change, restore) and raft_new run - C09_promotable_iff_voter and its corollaries
     in Props/C09.v.  The guard proved here is C08_nonpromotable_safe_never_answers_at_once.

   PROVED (every statement holds for EVERY state r / node n and EVERY message; the only
   hypotheses are those written in each theorem):
   1. read_only_spec: RoInv, its preservation by add_request / recv_ack / advance, advance never
      panics under RoInv, add_request idempotent / appends at the back with acks = [self],
      recv_ack only adds the id to that context's ack set, advance pops exactly the queue prefix
      up to the context and returns the statuses in order (C08_read_only_spec_add, _ack, _advance, _no_panic), plus facts
      about any Ok result of advance that need no invariant (C08_ro_advance_sub).
   2. C08_readindex_requires_own_term_commit.
   3. C08_readindex_safe_records_commit (exact post-state: only read_only and msgs change),
      C08_recorded_entry, C08_hb_list_shape, C08_hb_list_dests, C08_recorded_index_stable;
      C08_nonpromotable_safe_never_answers_at_once (regression guard for fix 6a9ae91);
      C08_raft_new_no_reads, C08_rn_new_no_reads (construction).
   4. C08_readindex_served_needs_quorum, C08_readindex_served_recorded,
      C08_readindex_served_prefix; C08_step_commit_monotone for the WHOLE of step (every role,
      every message), C08_raft_api_gx / C08_rawnode_api_gx: no API function of the Raft or RawNode
      model ever lowers the commit index.
   5. C08_readindex_routing, C08_follower_readindex_forward, C08_follower_readindex_resp, and the
      complete account C08_step_read_origin: through Raft::step a read state appears only
      (a) on a follower that receives MsgReadIndexResp, (b) on a leader answering at once a
      request issued on itself (it is the lone voter, or LeaseBased), (c) on a Safe leader releasing, on a
      quorum of acks, requests that were issued on itself; a MsgReadIndexResp is queued only by a
      leader, addressed to the m_from of the recorded request; C08_step_other_fx: every other
      message type leaves read states alone.  C08_rn_ready_read_states: Ready hands out exactly
      the accumulated read states.  C08_rn_read_index_leader_safe, _follower, _leader_not_ready: RawNode::read_index.
   6. C08_reset_drops_reads (reset, become_follower, become_candidate, become_leader),
      C08_higher_term_drops_reads (through step).
   7. C08_lease_based_no_quorum (contrast: C08 is a statement about Safe only).
   8. C08_heartbeat_echoes_context, C08_heartbeat_ack_only_current_term.
   9. C08_post_conf_change_reads: the re-check after a (possibly quorum-shrinking) membership
      change serves reads only on a quorum of the configuration now in force. *)
From RV Require Import Base.Prelude Base.IdSet M.Util M.Proto M.MemStorage M.Progress M.RaftLog
  M.ConfChange M.Msg M.Raft M.RawNode M.RaftProofs M.RaftProofsC09 M.RaftProofsC08.
From RecordUpdate Require Import RecordSet.
Import RecordSetNotations.
Local Open Scope N_scope.

(* ================================================================== *)
(* 1. read_only_spec *)

(* the representation invariant, spelled out: no duplicate context in the queue, one map entry
   per key, and the keys of the pending map are exactly the queued contexts *)
Theorem C08_RoInv_def :
  forall ro, RoInv ro <->
    (NoDup (ro_queue ro) /\ NoDup (map fst (ro_pending ro)) /\
     (forall c, In c (ro_queue ro) <-> In c (map fst (ro_pending ro)))).
Proof. exact RoInv_def_pin. Qed.
Print Assumptions C08_RoInv_def.

Theorem C08_RoInv_new : forall opt, RoInv (ro_new opt).
Proof. exact RoInv_new. Qed.
Print Assumptions C08_RoInv_new.

(* add_request: idempotent on a pending context; otherwise appended at the back of queue and
   map with the given index and acks = [self]; keeps RoInv *)
Theorem C08_read_only_spec_add :
  forall ro idx req self ro',
  ro_add_request ro idx req self = Ok ro' ->
  (exists e rest, m_entries req = e :: rest /\
    ((exists st, ro_find (ro_pending ro) (e_data e) = Some st /\ ro' = ro) \/
     (ro_find (ro_pending ro) (e_data e) = None /\
      ro' = mkRO (ro_option ro)
                 (ro_pending ro ++ [(e_data e, mkRIS req idx [self])])
                 (ro_queue ro ++ [e_data e])))) /\
  (RoInv ro -> RoInv ro').
Proof. exact read_only_spec_add. Qed.
Print Assumptions C08_read_only_spec_add.

Theorem C08_add_ack_def :
  forall id rs, add_ack id rs = mkRIS (ris_req rs) (ris_index rs) (IdSet.insert id (ris_acks rs)).
Proof. exact add_ack_def_pin. Qed.
Print Assumptions C08_add_ack_def.

(* recv_ack: returns the enlarged ack set of that context (None if it is not pending); only
   the ack set of that context changes; keeps RoInv *)
Theorem C08_read_only_spec_ack :
  forall ro id ctx,
  snd (ro_recv_ack ro id ctx) =
    option_map (fun rs => IdSet.insert id (ris_acks rs)) (ro_find (ro_pending ro) ctx) /\
  ro_option (fst (ro_recv_ack ro id ctx)) = ro_option ro /\
  ro_queue (fst (ro_recv_ack ro id ctx)) = ro_queue ro /\
  map fst (ro_pending (fst (ro_recv_ack ro id ctx))) = map fst (ro_pending ro) /\
  (forall c, ro_find (ro_pending (fst (ro_recv_ack ro id ctx))) c =
             if list_eqb ctx c then option_map (add_ack id) (ro_find (ro_pending ro) ctx)
             else ro_find (ro_pending ro) c) /\
  (RoInv ro -> RoInv (fst (ro_recv_ack ro id ctx))).
Proof. exact read_only_spec_ack. Qed.
Print Assumptions C08_read_only_spec_ack.

(* advance under RoInv: never panics; a context that is not queued changes nothing; a context
   queued after [pre] pops exactly pre ++ [ctx], in order, returns their statuses in order
   (an acknowledged later request releases all earlier ones), removes exactly those from the
   map, and keeps RoInv *)
Theorem C08_read_only_spec_advance :
  forall ro ctx, RoInv ro ->
  (exists x, ro_advance ro ctx = Ok x) /\
  (~ In ctx (ro_queue ro) -> ro_advance ro ctx = Ok (ro, [])) /\
  (forall pre post, ro_queue ro = pre ++ ctx :: post ->
     exists ro' rss, ro_advance ro ctx = Ok (ro', rss) /\
       ro_option ro' = ro_option ro /\ ro_queue ro' = post /\
       map Some rss = map (ro_find (ro_pending ro)) (pre ++ [ctx]) /\
       (forall c, In c (pre ++ [ctx]) -> ro_find (ro_pending ro') c = None) /\
       (forall c, ~ In c (pre ++ [ctx]) -> ro_find (ro_pending ro') c = ro_find (ro_pending ro) c) /\
       RoInv ro').
Proof. exact read_only_spec_advance. Qed.
Print Assumptions C08_read_only_spec_advance.

Theorem C08_read_only_spec_no_panic :
  forall ro ctx, RoInv ro -> ro_advance ro ctx <> Panic site_ro_missing.
Proof. exact ro_advance_never_ro_missing. Qed.
Print Assumptions C08_read_only_spec_no_panic.

Theorem C08_ro_advance_RoInv :
  forall ro ctx ro' rss, ro_advance ro ctx = Ok (ro', rss) -> RoInv ro -> RoInv ro'.
Proof. exact ro_advance_RoInv. Qed.
Print Assumptions C08_ro_advance_RoInv.

(* any Ok result of advance, no invariant assumed: every returned status is an entry of the
   pending map under a queued context, the map only shrinks, the queue loses a prefix of
   exactly as many elements as statuses are returned, and something is returned only if the
   context is queued *)
Theorem C08_ro_advance_sub :
  forall ro ctx ro' rss,
  ro_advance ro ctx = Ok (ro', rss) ->
  ro_option ro' = ro_option ro /\
  (forall st, In st rss -> exists c, In c (ro_queue ro) /\ In (c, st) (ro_pending ro)) /\
  (forall c st, In (c, st) (ro_pending ro') -> In (c, st) (ro_pending ro)) /\
  (rss <> [] -> In ctx (ro_queue ro)) /\
  (exists k, ro_queue ro' = skipn k (ro_queue ro) /\ length rss = k).
Proof. exact ro_advance_sub. Qed.
Print Assumptions C08_ro_advance_sub.

Theorem C08_ro_last_pending_In :
  forall ro c, ro_last_pending_request_ctx ro = Some c -> In c (ro_queue ro).
Proof. exact ro_last_pending_In. Qed.
Print Assumptions C08_ro_last_pending_In.

(* ================================================================== *)
(* 2. the own-term commit gate *)

Theorem C08_readindex_requires_own_term_commit :
  forall r m,
  r_state r = Leader -> m_type m = MsgReadIndex -> m_term m <= r_term r ->
  commit_to_current_term r = Ok false -> step r m = Ok (r, E_OK).
Proof. exact readindex_requires_own_term_commit. Qed.
Print Assumptions C08_readindex_requires_own_term_commit.

Theorem C08_readindex_requires_own_term_commit_leader :
  forall r m,
  m_type m = MsgReadIndex -> commit_to_current_term r = Ok false -> step_leader r m = Ok (r, E_OK).
Proof. exact readindex_requires_own_term_commit_leader. Qed.
Print Assumptions C08_readindex_requires_own_term_commit_leader.

Example C08_own_term_gate_example :
  commit_to_current_term C08Samples.s_leader_old = Ok false /\
  r_term C08Samples.s_leader_old = 2 /\
  step C08Samples.s_leader_old (C08Samples.rd 0 [7]) = Ok (C08Samples.s_leader_old, E_OK).
Proof. vm_compute. repeat split. Qed.

(* ================================================================== *)
(* 3. Safe: the request is recorded with the commit index at issue time *)

Theorem C08_singleton_conf_def :
  forall r, singleton_conf r = match incoming (conf_of r), outgoing (conf_of r) with
                               | [_], [] => r_promotable r
                               | _, _ => false
                               end.
Proof. exact singleton_conf_def_pin. Qed.
Print Assumptions C08_singleton_conf_def.

Theorem C08_ro_after_request_def :
  forall r m ctx,
  ro_after_request r m ctx =
  match ro_find (ro_pending (r_read_only r)) ctx with
  | Some _ => r_read_only r
  | None => mkRO (ro_option (r_read_only r))
                 (ro_pending (r_read_only r) ++ [(ctx, mkRIS m (committed (r_log r)) [r_id r])])
                 (ro_queue (r_read_only r) ++ [ctx])
  end.
Proof. exact ro_after_request_def_pin. Qed.
Print Assumptions C08_ro_after_request_def.

Theorem C08_hb_msg_def :
  forall r ctx to pr,
  hb_msg r ctx to pr =
  mkMsg MsgHeartbeat to (r_id r) (r_term r) 0 0 [] (N.min (matched pr) (committed (r_log r))) 0
        snap_default 0 false 0 (match ctx with Some c => c | None => [] end) 0 0%Z [].
Proof. exact hb_msg_def_pin. Qed.
Print Assumptions C08_hb_msg_def.

Theorem C08_hb_list_def :
  forall r ctx ids,
  hb_list r ctx ids =
  flat_map (fun id => if id =? r_id r then []
                      else match get_pr r id with
                           | Some pr => [hb_msg r ctx id pr]
                           | None => []
                           end) ids.
Proof. exact hb_list_def_pin. Qed.
Print Assumptions C08_hb_list_def.

(* leader, Safe, more than one voter, committed in its own term, local or same-term message:
   the ONLY changes are the ReadOnly bookkeeping (request recorded with the leader's commit
   index and acks = [self], unless that context is already pending) and one heartbeat carrying
   the context per tracked peer other than the leader; term, vote, log, commit index, progress,
   read states, ... are those of r *)
Theorem C08_readindex_safe_records_commit :
  forall r m r' c,
  r_state r = Leader -> m_type m = MsgReadIndex -> (m_term m = 0 \/ m_term m = r_term r) ->
  commit_to_current_term r = Ok true ->
  singleton_conf r = false -> ro_option (r_read_only r) = 0 ->
  step r m = Ok (r', c) ->
  c = E_OK /\ exists e rest, m_entries m = e :: rest /\
    r' = r <| r_read_only := ro_after_request r m (e_data e) |>
           <| r_msgs := r_msgs r ++ hb_list r (Some (e_data e)) (pids (t_progress (r_prs r))) |>.
Proof. exact readindex_safe_records_commit. Qed.
Print Assumptions C08_readindex_safe_records_commit.

(* what is recorded: for a context that was not pending, exactly (request, commit index of the
   leader now, {self}) at the back of the queue; a pending context keeps its old record *)
Theorem C08_recorded_entry :
  forall r m ctx,
  match ro_find (ro_pending (r_read_only r)) ctx with
  | Some st => ro_find (ro_pending (ro_after_request r m ctx)) ctx = Some st
  | None => ro_find (ro_pending (ro_after_request r m ctx)) ctx
              = Some (mkRIS m (committed (r_log r)) [r_id r]) /\
            ro_queue (ro_after_request r m ctx) = ro_queue (r_read_only r) ++ [ctx]
  end.
Proof. exact ro_after_request_find. Qed.
Print Assumptions C08_recorded_entry.

(* every queued heartbeat: type, sender, the leader's term, the context, a tracked destination
   other than the leader, commit = min(matched, committed) *)
Theorem C08_hb_list_shape :
  forall r ctx ids x,
  In x (hb_list r ctx ids) ->
  m_type x = MsgHeartbeat /\ m_from x = r_id r /\ m_term x = r_term r /\
  m_context x = match ctx with Some c => c | None => [] end /\
  In (m_to x) ids /\ m_to x <> r_id r /\
  exists pr, get_pr r (m_to x) = Some pr /\ m_commit x = N.min (matched pr) (committed (r_log r)).
Proof. exact hb_list_shape. Qed.
Print Assumptions C08_hb_list_shape.

(* exactly one per tracked peer other than the leader *)
Theorem C08_hb_list_dests :
  forall r ctx,
  map m_to (hb_list r ctx (pids (t_progress (r_prs r))))
    = filter (fun id => negb (id =? r_id r)) (pids (t_progress (r_prs r))).
Proof. exact hb_list_dests. Qed.
Print Assumptions C08_hb_list_dests.

(* the recorded index and request of any context are never changed by recv_ack *)
Theorem C08_recorded_index_stable :
  forall ro id ctx c,
  option_map ris_index (ro_find (ro_pending (fst (ro_recv_ack ro id ctx))) c)
    = option_map ris_index (ro_find (ro_pending ro) c) /\
  option_map ris_req (ro_find (ro_pending (fst (ro_recv_ack ro id ctx))) c)
    = option_map ris_req (ro_find (ro_pending ro) c).
Proof. exact ro_recv_ack_keeps_index. Qed.
Print Assumptions C08_recorded_index_stable.

Example C08_record_example :
  commit_to_current_term C09Samples.s_leader = Ok true /\
  singleton_conf C09Samples.s_leader = false /\
  exists r', step C09Samples.s_leader (C08Samples.rd 0 [7]) = Ok (r', E_OK) /\
    option_map (fun st => (ris_index st, ris_acks st)) (ro_find (ro_pending (r_read_only r')) [7])
      = Some (3, [1]) /\
    ro_queue (r_read_only r') = [[7]] /\
    map (fun x => (m_type x, m_to x, m_term x, m_context x)) (r_msgs r')
      = [(MsgHeartbeat, 2, 2, [7]); (MsgHeartbeat, 3, 2, [7])] /\
    r_read_states r' = [].
Proof.
  split; [vm_compute; reflexivity|]. split; [vm_compute; reflexivity|].
  eexists. split; [vm_compute; reflexivity|]. vm_compute. repeat split.
Qed.

(* regression guard for fix 6a9ae91: a Safe leader that is not promotable (not a voter: removed
   or demoted by a membership change) never answers a MsgReadIndex at once, whatever its
   configuration - in particular when exactly one voter, another node, remains.  No read state,
   no MsgReadIndexResp: the request is ignored (no own-term commit) or recorded + heartbeats *)
Theorem C08_nonpromotable_safe_never_answers_at_once :
  forall r m r' c,
  r_state r = Leader -> r_promotable r = false -> ro_option (r_read_only r) = 0 ->
  m_type m = MsgReadIndex -> m_term m <= r_term r ->
  step r m = Ok (r', c) ->
  c = E_OK /\ r_read_states r' = r_read_states r /\ rir (r_msgs r') = rir (r_msgs r) /\
  (r' = r \/
   (commit_to_current_term r = Ok true /\ exists e rest, m_entries m = e :: rest /\
      r' = r <| r_read_only := ro_after_request r m (e_data e) |>
             <| r_msgs := r_msgs r ++ hb_list r (Some (e_data e)) (pids (t_progress (r_prs r))) |>)).
Proof. exact nonpromotable_safe_never_answers_at_once. Qed.
Print Assumptions C08_nonpromotable_safe_never_answers_at_once.

Theorem C08_nonpromotable_safe_never_answers_at_once_leader :
  forall r m r' c,
  r_promotable r = false -> ro_option (r_read_only r) = 0 -> m_type m = MsgReadIndex ->
  step_leader r m = Ok (r', c) ->
  c = E_OK /\ r_read_states r' = r_read_states r /\ rir (r_msgs r') = rir (r_msgs r) /\
  ((commit_to_current_term r = Ok false /\ r' = r) \/
   (commit_to_current_term r = Ok true /\ exists e rest, m_entries m = e :: rest /\
      r' = r <| r_read_only := ro_after_request r m (e_data e) |>
             <| r_msgs := r_msgs r ++ hb_list r (Some (e_data e)) (pids (t_progress (r_prs r))) |>)).
Proof. exact nonpromotable_safe_never_answers_at_once_leader. Qed.
Print Assumptions C08_nonpromotable_safe_never_answers_at_once_leader.

Example C08_removed_leader_example :
  (* voters = [1], self = 2 is not a voter, still leader of term 2 with an own-term commit *)
  incoming (conf_of C08Samples.s_removed) = [1] /\ outgoing (conf_of C08Samples.s_removed) = [] /\
  r_id C08Samples.s_removed = 2 /\ r_promotable C08Samples.s_removed = false /\
  commit_to_current_term C08Samples.s_removed = Ok true /\
  singleton_conf C08Samples.s_removed = false /\
  exists r', step C08Samples.s_removed (C08Samples.rd 0 [7]) = Ok (r', E_OK) /\
    r_read_states r' = [] /\ rir (r_msgs r') = [] /\
    ro_queue (r_read_only r') = [[7]] /\
    map (fun x => (m_type x, m_to x, m_context x)) (r_msgs r')
      = [(MsgHeartbeat, 1, [7]); (MsgHeartbeat, 3, [7])].
Proof.
  repeat (split; [vm_compute; reflexivity|]).
  eexists. split; [vm_compute; reflexivity|]. vm_compute. repeat split.
Qed.

(* construction: a fresh node has no pending read and no read state, and RoInv holds *)
Theorem C08_raft_new_no_reads :
  forall c st sa draws r,
  raft_new c st sa draws = Ok (inr r) ->
  r_read_only r = ro_new (c_read_only_option c) /\ RoInv (r_read_only r) /\
  ro_queue (r_read_only r) = [] /\ ro_pending (r_read_only r) = [] /\ r_read_states r = [].
Proof. exact raft_new_no_reads. Qed.
Print Assumptions C08_raft_new_no_reads.

Theorem C08_rn_new_no_reads :
  forall c st sa draws n,
  rn_new c st sa draws = Ok (inr n) ->
  r_read_only (rn_raft n) = ro_new (c_read_only_option c) /\ RoInv (r_read_only (rn_raft n)) /\
  r_read_states (rn_raft n) = [].
Proof. exact rn_new_no_reads. Qed.
Print Assumptions C08_rn_new_no_reads.

(* ================================================================== *)
(* 4. served only on a quorum; the index is the recorded one; commit index monotone *)

Theorem C08_rir_def :
  forall l, rir l = filter (fun x => m_type x =? MsgReadIndexResp) l.
Proof. exact rir_def_pin. Qed.
Print Assumptions C08_rir_def.

Theorem C08_local_req_def :
  forall self req, local_req self req = (m_from req =? INVALID_ID) || (m_from req =? self).
Proof. exact local_req_def_pin. Qed.
Print Assumptions C08_local_req_def.

Theorem C08_rir_msg_def :
  forall r req idx,
  rir_msg r req idx =
  mkMsg MsgReadIndexResp (m_from req) (r_id r) (r_term r) 0 idx (m_entries req) 0 0
        snap_default 0 false 0 [] 0 0%Z [].
Proof. exact rir_msg_def_pin. Qed.
Print Assumptions C08_rir_msg_def.

(* the read states produced for released statuses: one per LOCAL request (from = 0 or self),
   carrying the recorded index and the request's context *)
Theorem C08_rr_states_def :
  forall self rss,
  rr_states self rss =
  flat_map (fun rs => if local_req self (ris_req rs)
                      then match m_entries (ris_req rs) with
                           | e :: _ => [mkRS (ris_index rs) (e_data e)]
                           | [] => []
                           end
                      else []) rss.
Proof. exact rr_states_def_pin. Qed.
Print Assumptions C08_rr_states_def.

(* the responses produced: one MsgReadIndexResp per FORWARDED request, to its sender *)
Theorem C08_rr_msgs_def :
  forall r rss,
  rr_msgs r rss =
  flat_map (fun rs => if local_req (r_id r) (ris_req rs) then []
                      else [rir_msg r (ris_req rs) (ris_index rs)]) rss.
Proof. exact rr_msgs_def_pin. Qed.
Print Assumptions C08_rr_msgs_def.

Theorem C08_hbr_ack_def :
  forall r m, hbr_ack r m = fst (ro_recv_ack (r_read_only r) (m_from m) (m_context m)).
Proof. exact hbr_ack_def_pin. Qed.
Print Assumptions C08_hbr_ack_def.

(* handle_heartbeat_response: the new read states and the new MsgReadIndexResp messages are
   exactly those of the statuses [served]; log (hence commit index), term, role, id untouched;
   and [served] is empty unless: Safe option, non-empty context, tracked sender, context
   pending, and its ack set INCLUDING the sender is a quorum of the current configuration; then
   [served] is what advance releases *)
Theorem C08_readindex_served_needs_quorum :
  forall r m r',
  handle_heartbeat_response r m = Ok r' ->
  exists served,
    r_read_states r' = r_read_states r ++ rr_states (r_id r) served /\
    rir (r_msgs r') = rir (r_msgs r) ++ rr_msgs r served /\
    r_log r' = r_log r /\ r_term r' = r_term r /\ r_state r' = r_state r /\ r_id r' = r_id r /\
    ((served = [] /\ r_read_only r' = r_read_only r /\
      (get_pr r (m_from m) = None \/ ro_option (r_read_only r) <> 0 \/ m_context m = [] \/
       ro_find (ro_pending (r_read_only r)) (m_context m) = None)) \/
     (served = [] /\ r_read_only r' = hbr_ack r m /\
      ro_option (r_read_only r) = 0 /\ m_context m <> [] /\ get_pr r (m_from m) <> None /\
      exists rs, ro_find (ro_pending (r_read_only r)) (m_context m) = Some rs /\
        prs_has_quorum (r_prs r) (IdSet.insert (m_from m) (ris_acks rs)) = false) \/
     (ro_option (r_read_only r) = 0 /\ m_context m <> [] /\ get_pr r (m_from m) <> None /\
      exists rs, ro_find (ro_pending (r_read_only r)) (m_context m) = Some rs /\
        prs_has_quorum (r_prs r) (IdSet.insert (m_from m) (ris_acks rs)) = true /\
        ro_advance (hbr_ack r m) (m_context m) = Ok (r_read_only r', served))).
Proof. exact readindex_served_needs_quorum. Qed.
Print Assumptions C08_readindex_served_needs_quorum.

(* every served status is an entry of the pending map as it was BEFORE the response: same
   request, same recorded index (= the leader's commit index when it was issued, item 3) *)
Theorem C08_readindex_served_recorded :
  forall r m served ro2,
  ro_advance (hbr_ack r m) (m_context m) = Ok (ro2, served) ->
  (forall st, In st served ->
     exists c st0, In c (ro_queue (r_read_only r)) /\ In (c, st0) (ro_pending (r_read_only r)) /\
       ris_req st0 = ris_req st /\ ris_index st0 = ris_index st) /\
  (served <> [] -> In (m_context m) (ro_queue (r_read_only r))) /\
  ro_option ro2 = ro_option (r_read_only r).
Proof. exact readindex_served_recorded. Qed.
Print Assumptions C08_readindex_served_recorded.

(* with RoInv: exactly the queue prefix up to and including the acknowledged context is
   served, in order, each with its recorded (request, index); the rest of the queue stays *)
Theorem C08_readindex_served_prefix :
  forall r m served ro2,
  RoInv (r_read_only r) ->
  ro_advance (hbr_ack r m) (m_context m) = Ok (ro2, served) ->
  In (m_context m) (ro_queue (r_read_only r)) ->
  exists pre post,
    ro_queue (r_read_only r) = pre ++ m_context m :: post /\
    ro_queue ro2 = post /\ RoInv ro2 /\
    map (fun st => Some (ris_req st, ris_index st)) served
      = map (fun c => option_map (fun st => (ris_req st, ris_index st))
                                 (ro_find (ro_pending (r_read_only r)) c)) (pre ++ [m_context m]).
Proof. exact readindex_served_prefix. Qed.
Print Assumptions C08_readindex_served_prefix.

(* Raft::step never lowers the commit index: every role, every message *)
Theorem C08_step_commit_monotone :
  forall r m r' c, step r m = Ok (r', c) -> committed (r_log r) <= committed (r_log r').
Proof. exact step_commit_monotone. Qed.
Print Assumptions C08_step_commit_monotone.

Example C08_serve_example :
  (* two pending reads: [7] issued on the leader, then [8] forwarded by follower 3; the ack of
     follower 2 for the LATER one releases both, each with its recorded index 3 *)
  map fst (ro_pending (r_read_only C08Samples.s2)) = [[7]; [8]] /\
  (exists r', step C08Samples.s2 (C08Samples.hbr 2 [8]) = Ok (r', E_OK) /\
     r_read_states r' = [mkRS 3 [7]] /\
     map (fun x => (m_to x, m_index x, map e_data (m_entries x))) (rir (r_msgs r')) = [(3, 3, [[8]])] /\
     ro_queue (r_read_only r') = [] /\ ro_pending (r_read_only r') = []) /\
  (* the ack for the EARLIER one releases only that one *)
  (exists r', step C08Samples.s2 (C08Samples.hbr 2 [7]) = Ok (r', E_OK) /\
     r_read_states r' = [mkRS 3 [7]] /\ rir (r_msgs r') = [] /\
     ro_queue (r_read_only r') = [[8]]) /\
  (* the leader's own ack is no quorum of {1,2,3}: nothing is served *)
  (exists r', step C08Samples.s1 (C08Samples.hbr 1 [7]) = Ok (r', E_OK) /\
     r_read_states r' = [] /\ rir (r_msgs r') = [] /\ ro_queue (r_read_only r') = [[7]]).
Proof.
  split; [vm_compute; reflexivity|]. split; [|split].
  - eexists. split; [vm_compute; reflexivity|]. vm_compute. repeat split.
  - eexists. split; [vm_compute; reflexivity|]. vm_compute. repeat split.
  - eexists. split; [vm_compute; reflexivity|]. vm_compute. repeat split.
Qed.

Example C08_RoInv_example : RoInv (r_read_only C08Samples.s2).
Proof.
  apply C08_RoInv_def. vm_compute.
  assert (Hnd : NoDup [[7%N]; [8%N]]).
  { constructor; [intros [A|[]]; discriminate|]. constructor; [intros []|constructor]. }
  split; [exact Hnd|]. split; [exact Hnd|]. intros c. split; auto.
Qed.

(* ================================================================== *)
(* 5. routing: a read state appears only where the request was issued *)

(* leader side *)
Theorem C08_readindex_routing :
  forall r req idx r' om,
  handle_ready_read_index r req idx = Ok (r', om) ->
  (local_req (r_id r) req = true /\ om = None /\
   exists e rest, m_entries req = e :: rest /\
     r' = r <| r_read_states := r_read_states r ++ [mkRS idx (e_data e)] |>) \/
  (local_req (r_id r) req = false /\ r' = r /\
   om = Some (msg_default <| m_type := MsgReadIndexResp |> <| m_to := m_from req |>
                <| m_index := idx |> <| m_entries := m_entries req |>) /\
   send r (msg_default <| m_type := MsgReadIndexResp |> <| m_to := m_from req |>
                <| m_index := idx |> <| m_entries := m_entries req |>)
     = Ok (r <| r_msgs := r_msgs r ++ [rir_msg r req idx] |>)).
Proof. exact readindex_routing. Qed.
Print Assumptions C08_readindex_routing.

(* follower side, request: forwarded to the known leader unchanged except m_to (and m_from,
   set to the follower when unset: the answer comes back here); dropped without a leader *)
Theorem C08_follower_readindex_forward :
  forall r m r' c,
  m_type m = MsgReadIndex -> step_follower r m = Ok (r', c) ->
  c = E_OK /\
  ((r_leader_id r = INVALID_ID /\ r' = r) \/
   (r_leader_id r <> INVALID_ID /\ m_term m = 0 /\
    r' = r <| r_msgs := r_msgs r ++
                [if m_from m =? INVALID_ID
                 then m <| m_to := r_leader_id r |> <| m_from := r_id r |>
                 else m <| m_to := r_leader_id r |>] |>)).
Proof. exact follower_readindex_forward_exact. Qed.
Print Assumptions C08_follower_readindex_forward.

(* follower side, answer *)
Theorem C08_follower_readindex_resp :
  forall r m,
  m_type m = MsgReadIndexResp ->
  step_follower r m =
    match m_entries m with
    | [e] =>
        x <- RaftLog.maybe_commit (r_log r) (m_index m) (m_term m) ;;
        Ok (r <| r_read_states := r_read_states r ++ [mkRS (m_index m) (e_data e)] |>
              <| r_log := fst x |>, E_OK)
    | _ => Ok (r, E_OK)
    end.
Proof. exact follower_readindex_resp. Qed.
Print Assumptions C08_follower_readindex_resp.

(* what "nothing else changes" means for a whole step *)
Theorem C08_gx_def :
  forall r r',
  gx r r' <->
  (committed (r_log r) <= committed (r_log r') /\ r_id r' = r_id r /\
   ro_option (r_read_only r') = ro_option (r_read_only r) /\
   (RoInv (r_read_only r) -> RoInv (r_read_only r'))).
Proof. exact gx_def_pin. Qed.
Print Assumptions C08_gx_def.

Theorem C08_fx_def :
  forall r r',
  fx r r' <->
  (committed (r_log r) <= committed (r_log r') /\
   r_read_states r' = r_read_states r /\
   (r_read_only r' = r_read_only r \/ r_read_only r' = ro_new (ro_option (r_read_only r))) /\
   r_id r' = r_id r /\
   filter (fun x => m_type x =? MsgReadIndexResp) (r_msgs r')
     = filter (fun x => m_type x =? MsgReadIndexResp) (r_msgs r)).
Proof. exact fx_def_pin. Qed.
Print Assumptions C08_fx_def.

(* the three ways a read state / a MsgReadIndexResp can come into being *)
Theorem C08_read_origin_def :
  forall r m r' new newm,
  read_origin r m r' new newm <->
  ((new = [] /\ newm = []) \/
   (m_type m = MsgReadIndexResp /\ r_state r = Follower /\ newm = [] /\
    exists e, m_entries m = [e] /\ new = [mkRS (m_index m) (e_data e)]) \/
   (m_type m = MsgReadIndex /\ r_state r = Leader /\ commit_to_current_term r = Ok true /\
    (singleton_conf r = true \/ ro_option (r_read_only r) <> 0) /\
    new = rr_states (r_id r) [mkRIS m (committed (r_log r)) []] /\
    newm = rr_msgs r [mkRIS m (committed (r_log r)) []]) \/
   (m_type m = MsgHeartbeatResponse /\ r_state r = Leader /\
    ro_option (r_read_only r) = 0 /\ m_context m <> [] /\ get_pr r (m_from m) <> None /\
    exists rs served,
      ro_find (ro_pending (r_read_only r)) (m_context m) = Some rs /\
      prs_has_quorum (r_prs r) (IdSet.insert (m_from m) (ris_acks rs)) = true /\
      ro_advance (hbr_ack r m) (m_context m) = Ok (r_read_only r', served) /\
      new = rr_states (r_id r) served /\ newm = rr_msgs r served)).
Proof. exact read_origin_def_pin. Qed.
Print Assumptions C08_read_origin_def.

(* the complete account for Raft::step, every state and every message: commit index monotone,
   option and RoInv kept, and the read states / MsgReadIndexResp messages ADDED by the step are
   of one of the three origins above, evaluated in the state r1 after the term prologue (r
   itself, or r turned follower of the strictly higher term of m) *)
Theorem C08_step_read_origin :
  forall r m r' c,
  step r m = Ok (r', c) ->
  gx r r' /\
  exists r1 new newm,
    (r1 = r \/ (r_term r < m_term m /\ exists l, become_follower r (m_term m) l = Ok r1)) /\
    r_read_states r' = r_read_states r ++ new /\
    rir (r_msgs r') = rir (r_msgs r) ++ newm /\
    read_origin r1 m r' new newm.
Proof. exact step_read_origin. Qed.
Print Assumptions C08_step_read_origin.

(* every message that is not MsgReadIndex / MsgHeartbeatResponse / MsgReadIndexResp *)
Theorem C08_step_other_fx :
  forall r m r' c,
  (m_type m =? MsgReadIndex) || (m_type m =? MsgHeartbeatResponse) || (m_type m =? MsgReadIndexResp) = false ->
  step r m = Ok (r', c) -> fx r r'.
Proof. exact step_other_fx. Qed.
Print Assumptions C08_step_other_fx.

Theorem C08_step_RoInv :
  forall r m r' c,
  step r m = Ok (r', c) ->
  ro_option (r_read_only r') = ro_option (r_read_only r) /\
  (RoInv (r_read_only r) -> RoInv (r_read_only r')).
Proof. exact step_RoInv. Qed.
Print Assumptions C08_step_RoInv.

(* Ready hands the accumulated read states to the application and clears them *)
Theorem C08_rn_ready_read_states :
  forall n n' rd,
  rn_ready n = Ok (n', rd) ->
  rd_read_states rd = r_read_states (rn_raft n) /\ r_read_states (rn_raft n') = [] /\ gxn n n'.
Proof. exact rn_ready_read_states. Qed.
Print Assumptions C08_rn_ready_read_states.

Theorem C08_read_index_msg_def :
  forall rctx,
  read_index_msg rctx =
  msg_default <| m_type := MsgReadIndex |> <| m_entries := [mkEntry EntryNormal 0 0 rctx []] |>.
Proof. exact read_index_msg_def_pin. Qed.
Print Assumptions C08_read_index_msg_def.

(* RawNode::read_index *)
Theorem C08_rn_read_index_leader_safe :
  forall n rctx n',
  let r := rn_raft n in
  r_state r = Leader -> commit_to_current_term r = Ok true ->
  singleton_conf r = false -> ro_option (r_read_only r) = 0 ->
  rn_read_index n rctx = Ok n' ->
  rn_raft n' = r <| r_read_only := ro_after_request r (read_index_msg rctx) rctx |>
                 <| r_msgs := r_msgs r ++ hb_list r (Some rctx) (pids (t_progress (r_prs r))) |>.
Proof. exact rn_read_index_leader_safe. Qed.
Print Assumptions C08_rn_read_index_leader_safe.

Theorem C08_rn_read_index_follower :
  forall n rctx n',
  let r := rn_raft n in
  r_state r = Follower -> rn_read_index n rctx = Ok n' ->
  (r_leader_id r = INVALID_ID /\ rn_raft n' = r) \/
  (r_leader_id r <> INVALID_ID /\
   rn_raft n' = r <| r_msgs := r_msgs r ++
                     [(read_index_msg rctx) <| m_to := r_leader_id r |> <| m_from := r_id r |>] |>).
Proof. exact rn_read_index_follower. Qed.
Print Assumptions C08_rn_read_index_follower.

Theorem C08_rn_read_index_leader_not_ready :
  forall n rctx,
  r_state (rn_raft n) = Leader -> commit_to_current_term (rn_raft n) = Ok false ->
  rn_read_index n rctx = Ok (n <| rn_raft := rn_raft n |>).
Proof. exact rn_read_index_leader_not_ready. Qed.
Print Assumptions C08_rn_read_index_leader_not_ready.

Example C08_routing_example :
  (* follower 1 (leader 2) forwards a local read with from := 1 *)
  (exists r', step C09Samples.s_follower (C08Samples.rd 0 [7]) = Ok (r', E_OK) /\
     map (fun x => (m_type x, m_to x, m_from x, m_term x, map e_data (m_entries x))) (r_msgs r')
       = [(MsgReadIndex, 2, 1, 0, [[7]])] /\
     r_read_states r' = []) /\
  (* ... and gets the read state when the answer arrives *)
  (exists r', step C09Samples.s_follower C08Samples.resp7 = Ok (r', E_OK) /\
     r_read_states r' = [mkRS 3 [7]] /\ r_msgs r' = []).
Proof.
  split; eexists; (split; [vm_compute; reflexivity|]); vm_compute; repeat split.
Qed.

(* ================================================================== *)
(* 6. stepping down / changing term forgets every pending read *)

Theorem C08_reset_drops_reads :
  (forall r t r', reset r t = Ok r' ->
     r_read_only r' = ro_new (ro_option (r_read_only r)) /\ r_read_states r' = r_read_states r) /\
  (forall r t l r', become_follower r t l = Ok r' ->
     r_read_only r' = ro_new (ro_option (r_read_only r)) /\ r_read_states r' = r_read_states r) /\
  (forall r r', become_candidate r = Ok r' ->
     r_read_only r' = ro_new (ro_option (r_read_only r)) /\ r_read_states r' = r_read_states r) /\
  (forall r r', become_leader r = Ok r' ->
     r_read_only r' = ro_new (ro_option (r_read_only r)) /\ r_read_states r' = r_read_states r).
Proof. exact reset_drops_reads_all. Qed.
Print Assumptions C08_reset_drops_reads.

Theorem C08_steps_down_def :
  forall r m,
  steps_down r m =
  negb (((m_type m =? MsgRequestVote) || (m_type m =? MsgRequestPreVote))
        && negb (list_eqb (m_context m) CAMPAIGN_TRANSFER)
        && (r_check_quorum r && negb (r_leader_id r =? INVALID_ID)
            && (r_election_elapsed r <? r_election_timeout r)))
  && negb ((m_type m =? MsgRequestPreVote)
           || ((m_type m =? MsgRequestPreVoteResponse) && negb (m_reject m))).
Proof. exact steps_down_def_pin. Qed.
Print Assumptions C08_steps_down_def.

(* any message of a strictly higher term that makes the node step down (everything except a
   vote request refused under the lease, a pre-vote request, a granted pre-vote response):
   afterwards NO read is pending, no MsgReadIndexResp was queued, and no read state was added
   (except the one a MsgReadIndexResp itself carries to a forwarding follower) *)
Theorem C08_higher_term_drops_reads :
  forall r m r' c,
  r_term r < m_term m -> steps_down r m = true -> step r m = Ok (r', c) ->
  r_read_only r' = ro_new (ro_option (r_read_only r)) /\
  rir (r_msgs r') = rir (r_msgs r) /\
  exists new, r_read_states r' = r_read_states r ++ new /\
    (new = [] \/
     (m_type m = MsgReadIndexResp /\ exists e, m_entries m = [e] /\ new = [mkRS (m_index m) (e_data e)])).
Proof. exact higher_term_drops_reads. Qed.
Print Assumptions C08_higher_term_drops_reads.

Example C08_stepdown_example :
  (* the leader with two pending reads hears a term-3 heartbeat *)
  ro_queue (r_read_only C08Samples.s2) = [[7]; [8]] /\
  exists r', step C08Samples.s2 (C08Samples.hb 2 3 [9]) = Ok (r', E_OK) /\
    r_state r' = Follower /\ r_term r' = 3 /\
    r_read_only r' = ro_new 0 /\ r_read_states r' = [].
Proof.
  split; [vm_compute; reflexivity|]. eexists. split; [vm_compute; reflexivity|].
  vm_compute. repeat split.
Qed.

(* ================================================================== *)
(* 7. contrast: LeaseBased (or the lone voter being this very node) answers at once *)

Theorem C08_lease_based_no_quorum :
  forall r m r' c,
  m_type m = MsgReadIndex -> commit_to_current_term r = Ok true ->
  (singleton_conf r = true \/ ro_option (r_read_only r) <> 0) ->
  step_leader r m = Ok (r', c) ->
  c = E_OK /\ r_read_only r' = r_read_only r /\
  ((m_from m = INVALID_ID \/ m_from m = r_id r) /\
   (exists e rest, m_entries m = e :: rest /\
      r' = r <| r_read_states := r_read_states r ++ [mkRS (committed (r_log r)) (e_data e)] |>)
   \/
   (m_from m <> INVALID_ID /\ m_from m <> r_id r) /\
   r' = r <| r_msgs := r_msgs r ++
            [msg_default <| m_type := MsgReadIndexResp |> <| m_to := m_from m |>
               <| m_index := committed (r_log r) |> <| m_entries := m_entries m |>
               <| m_from := r_id r |> <| m_term := r_term r |>] |>).
Proof. exact lease_based_no_quorum. Qed.
Print Assumptions C08_lease_based_no_quorum.

Example C08_lease_example :
  exists r', step C08Samples.s_leader_lease (C08Samples.rd 0 [7]) = Ok (r', E_OK) /\
    r_read_states r' = [mkRS 3 [7]] /\ r_msgs r' = [] /\ ro_queue (r_read_only r') = [].
Proof. eexists. split; [vm_compute; reflexivity|]. vm_compute. repeat split. Qed.

(* ================================================================== *)
(* 8. heartbeats *)

Theorem C08_hb_resp_def :
  forall r m cmt,
  hb_resp r m cmt =
  mkMsg MsgHeartbeatResponse (m_from m) (r_id r) (r_term r) 0 0 [] cmt 0
        snap_default 0 false 0 (m_context m) 0 0%Z [].
Proof. exact hb_resp_def_pin. Qed.
Print Assumptions C08_hb_resp_def.

(* handle_heartbeat: commit_to(m_commit), then (no request_snapshot pending) exactly one
   MsgHeartbeatResponse to the sender with the SAME context, at the follower's term *)
Theorem C08_heartbeat_echoes_context :
  forall r m r',
  handle_heartbeat r m = Ok r' ->
  exists l', RaftLog.commit_to (r_log r) (m_commit m) = Ok l' /\
    ((r_pending_request_snapshot r = INVALID_INDEX /\
      r' = r <| r_log := l' |> <| r_msgs := r_msgs r ++ [hb_resp r m (committed l')] |>) \/
     (r_pending_request_snapshot r <> INVALID_INDEX /\
      send_request_snapshot (r <| r_log := l' |>) = Ok r')).
Proof. exact handle_heartbeat_exact. Qed.
Print Assumptions C08_heartbeat_echoes_context.

(* through Raft::step, any state, any MsgHeartbeat: every MsgHeartbeatResponse queued echoes
   the context, goes to the sender, and is sent at the node's term after the step, which (for a
   heartbeat that carries a term) IS the heartbeat's term and is >= the node's previous term.
   Hence a node whose term is higher than the heartbeat's never acknowledges it: the fact the
   linearizability argument uses against stale leaders *)
Theorem C08_heartbeat_ack_only_current_term :
  forall r m r' c,
  m_type m = MsgHeartbeat -> step r m = Ok (r', c) ->
  exists new, r_msgs r' = r_msgs r ++ new /\
    forall x, In x new -> m_type x = MsgHeartbeatResponse ->
      m_context x = m_context m /\ m_to x = m_from m /\ m_from x = r_id r /\
      m_term x = r_term r' /\ (m_term m = 0 \/ (r_term r <= m_term m /\ r_term r' = m_term m)).
Proof. exact heartbeat_ack_only_current_term. Qed.
Print Assumptions C08_heartbeat_ack_only_current_term.

(* the explicit form of the lower-term case: at most an empty MsgAppendResponse *)
Theorem C08_lower_term_no_ack :
  forall r m,
  m_term m <> 0 -> m_term m < r_term r ->
  step r m =
    if (r_check_quorum r || r_pre_vote r) && ((m_type m =? MsgHeartbeat) || (m_type m =? MsgAppend)) then
      r' <- send r (new_message (m_from m) MsgAppendResponse None) ;; Ok (r', E_OK)
    else if m_type m =? MsgRequestPreVote then
      r' <- send r ((new_message (m_from m) MsgRequestPreVoteResponse None)
                      <| m_term := r_term r |> <| m_reject := true |>) ;;
      Ok (r', E_OK)
    else Ok (r, E_OK).
Proof. exact step_lower_term. Qed.
Print Assumptions C08_lower_term_no_ack.

Example C08_heartbeat_example :
  (* a term-2 follower: a term-1 heartbeat is ignored, a term-2 one is acknowledged with the
     same context at term 2 *)
  step C09Samples.s_follower (C08Samples.hb 3 1 [7]) = Ok (C09Samples.s_follower, E_OK) /\
  exists r', step C09Samples.s_follower (C08Samples.hb 2 2 [7]) = Ok (r', E_OK) /\
    map (fun x => (m_type x, m_to x, m_term x, m_context x)) (r_msgs r')
      = [(MsgHeartbeatResponse, 2, 2, [7])].
Proof.
  split; [vm_compute; reflexivity|]. eexists. split; [vm_compute; reflexivity|]. vm_compute. reflexivity.
Qed.

(* ================================================================== *)
(* 9. the re-check after a membership change, and the invariants over the whole API *)

(* post_conf_change (run by apply_conf_change and by restore) serves pending reads only if the
   acks recorded for the LAST pending request plus the leader itself are a quorum of the
   configuration NOW in force; the statuses served are again recorded ones *)
Theorem C08_post_conf_change_reads :
  forall r r' cs,
  post_conf_change r = Ok (r', cs) ->
  gx r r' /\
  exists served,
    r_read_states r' = r_read_states r ++ rr_states (r_id r) served /\
    rir (r_msgs r') = rir (r_msgs r) ++ rr_msgs r served /\
    (served = [] \/
     (is_leader r = true /\
      exists ctx rs,
        ro_last_pending_request_ctx (r_read_only r) = Some ctx /\
        ro_find (ro_pending (r_read_only r)) ctx = Some rs /\
        prs_has_quorum (r_prs r) (IdSet.insert (r_id r) (ris_acks rs)) = true /\
        ro_advance (fst (ro_recv_ack (r_read_only r) (r_id r) ctx)) ctx = Ok (r_read_only r', served))).
Proof. exact post_conf_change_reads. Qed.
Print Assumptions C08_post_conf_change_reads.

(* every API function of the Raft model: commit index never lowered, id and read-only option
   kept, RoInv preserved *)
Theorem C08_raft_api_gx :
  (forall r m r' c, step r m = Ok (r', c) -> gx r r') /\
  (forall r r' b, tick r = Ok (r', b) -> gx r r') /\
  (forall r cc r' ocs, raft_apply_conf_change r cc = Ok (r', ocs) -> gx r r') /\
  (forall r r' cs, post_conf_change r = Ok (r', cs) -> gx r r') /\
  (forall r i t r', on_persist_entries r i t = Ok r' -> gx r r') /\
  (forall r i r', on_persist_snap r i = Ok r' -> gx r r') /\
  (forall r app r', commit_apply r app = Ok r' -> gx r r') /\
  (forall r hs r', load_state r hs = Ok r' -> gx r r') /\
  (forall r r' c, request_snapshot r = Ok (r', c) -> gx r r') /\
  (forall r r', ping r = Ok r' -> gx r r') /\
  (forall r t c r', adjust_max_inflight_msgs r t c = Ok r' -> gx r r') /\
  (forall r, gx r (maybe_free_inflight_buffers r)) /\
  (forall r k, gx r (set_max_apply_unpersisted_log_limit r k)) /\
  (forall r e r', enable_group_commit r e = Ok r' -> gx r r') /\
  (forall r ids r', assign_commit_groups r ids = Ok r' -> gx r r').
Proof. exact raft_api_gx. Qed.
Print Assumptions C08_raft_api_gx.

Theorem C08_gxn_def : forall n n', gxn n n' <-> gx (rn_raft n) (rn_raft n').
Proof. exact gxn_def_pin. Qed.
Print Assumptions C08_gxn_def.

(* ... and every function of the RawNode model *)
Theorem C08_rawnode_api_gx :
  (forall n m n' c, rn_step n m = Ok (n', c) -> gxn n n') /\
  (forall n n' b, rn_tick n = Ok (n', b) -> gxn n n') /\
  (forall n n' c, rn_campaign n = Ok (n', c) -> gxn n n') /\
  (forall n ctx data n' c, rn_propose n ctx data = Ok (n', c) -> gxn n n') /\
  (forall n ctx data ty ci n' c, rn_propose_conf_change n ctx data ty ci = Ok (n', c) -> gxn n n') /\
  (forall n cc n' ocs, rn_apply_conf_change n cc = Ok (n', ocs) -> gxn n n') /\
  (forall n n', rn_ping n = Ok n' -> gxn n n') /\
  (forall n n' rd, rn_ready n = Ok (n', rd) -> gxn n n') /\
  (forall n k n', rn_on_persist_ready n k = Ok n' -> gxn n n') /\
  (forall n rd n' lr, rn_advance_append n rd = Ok (n', lr) -> gxn n n') /\
  (forall n rd n', rn_advance_append_async n rd = Ok n' -> gxn n n') /\
  (forall n app n', rn_advance_apply_to n app = Ok n' -> gxn n n') /\
  (forall n n', rn_advance_apply n = Ok n' -> gxn n n') /\
  (forall n rd n' lr, rn_advance n rd = Ok (n', lr) -> gxn n n') /\
  (forall n id n', rn_report_unreachable n id = Ok n' -> gxn n n') /\
  (forall n id f n', rn_report_snapshot n id f = Ok n' -> gxn n n') /\
  (forall n n' c, rn_request_snapshot n = Ok (n', c) -> gxn n n') /\
  (forall n t n', rn_transfer_leader n t = Ok n' -> gxn n n') /\
  (forall n ctx n', rn_read_index n ctx = Ok n' -> gxn n n').
Proof. exact rawnode_api_gx. Qed.
Print Assumptions C08_rawnode_api_gx.

(* ====================================================================== *)
(* Cluster level (abstract protocol P/Read.v).

   The cluster-level clause listed above as not proved is proved here for the abstract
   protocol P/Read.v: the read layer (record a request on a leader that has committed in
   its own term; followers acknowledge a heartbeat echoing the context of a request
   recorded BEFORE the acknowledgement is created, at the request's term; the leader
   answers a request once a quorum, itself included, has acknowledged it or a later
   request of the same leader and term) superposed on the log protocol P/Log.v and the
   election protocol P/Election.v -- every execution: any interleaving with elections,
   replication, commits, persistence, message duplication / delay / reordering, crashes
   and restarts -- for a fixed voter configuration (simple or joint) in which no single
   node is a quorum.  Proofs live in P/ReadProofs.v; that an observed implementation
   trace is an execution of P/Read.v is decided by the acceptor P/ReadAccept.v
   (raccept_trace_reachable).  Membership changes and lease-based reads are not covered.
   (The names of P/*.v shadow those of the model from here on.) *)
From RV Require Import M.Quorum P.Election P.ElectionProofs P.Log P.LogProofs P.LogSafety
  P.Read P.ReadProofs.

(* Every answer (c, t, ctx, idx) carries the index recorded by c for the request ctx of
   term t, and that index is at least every commit point (T, k) that existed when the
   request was recorded ([snap]: the ghost snapshot of the commit points taken by the
   request rule); all of them are of terms <= t. *)
Theorem C08_read_linearizable :
  forall inc out, inc <> [] -> no_single_quorum inc out ->
  forall s c t ctx idx, rreachable inc out s -> In (c, t, ctx, idx) (pr_served s) ->
    exists snap, In (c, t, ctx, idx, snap) (pr_reqs s) /\
      forall T k, In (T, k) snap -> T <= t /\ (k <= idx)%nat.
Proof. exact read_linearizable. Qed.
Print Assumptions C08_read_linearizable.

(* the same for the enabled answer step *)
Theorem C08_read_serve_linearizable :
  forall inc out, inc <> [] -> no_single_quorum inc out ->
  forall s c ctx s', rreachable inc out s -> rrule inc out (RReadServe c ctx) s = Some s' ->
    exists idx snap,
      pr_served s' = (c, p_term (nodes (el (pr_lg s)) c), ctx, idx) :: pr_served s /\
      In (c, p_term (nodes (el (pr_lg s)) c), ctx, idx, snap) (pr_reqs s) /\
      forall T k, In (T, k) snap -> T <= p_term (nodes (el (pr_lg s)) c) /\ (k <= idx)%nat.
Proof. exact read_serve_linearizable. Qed.
Print Assumptions C08_read_serve_linearizable.

(* The property in its own words: if the request ctx is recorded on c in state s0 and
   answered with idx in any later state s, then idx is c's commit index at s0 and is at
   least the commit index of EVERY node at s0. *)
Theorem C08_read_index_ge_commit :
  forall inc out, inc <> [] -> no_single_quorum inc out ->
  forall s0 c ctx s1 s idx, rreachable inc out s0 ->
    rrule inc out (RReadReq c ctx) s0 = Some s1 -> rsteps inc out s1 s ->
    In (c, p_term (nodes (el (pr_lg s0)) c), ctx, idx) (pr_served s) ->
    idx = l_commit (ln (pr_lg s0) c) /\ forall n, (l_commit (ln (pr_lg s0) n) <= idx)%nat.
Proof. exact read_index_ge_commit. Qed.
Print Assumptions C08_read_index_ge_commit.

(* A superseded leader never answers: a request recorded when a commit point of a later
   term already existed is never answered. *)
Theorem C08_stale_leader_silent :
  forall inc out, inc <> [] -> no_single_quorum inc out ->
  forall s r T k, rreachable inc out s -> In r (pr_reqs s) ->
    In (T, k) (rq_snap r) -> rq_t r < T ->
    forall idx, ~ In (rq_c r, rq_t r, rq_ctx r, idx) (pr_served s).
Proof. exact stale_leader_silent. Qed.
Print Assumptions C08_stale_leader_silent.

(* An answer is produced only on the node that recorded the request, while it is up and in
   the leader role (of the term of the request: the answer carries that term). *)
Theorem C08_served_only_at_request_node :
  forall inc out s l s', rrule inc out l s = Some s' ->
    pr_served s' = pr_served s \/
    exists c ctx idx, l = RReadServe c ctx /\
      pr_served s' = (c, p_term (nodes (el (pr_lg s)) c), ctx, idx) :: pr_served s /\
      p_up (nodes (el (pr_lg s)) c) = true /\ p_role (nodes (el (pr_lg s)) c) = PL.
Proof. exact serve_rule. Qed.
Print Assumptions C08_served_only_at_request_node.

(* a run: leader 1 commits index 2 in term 1, a read with context 5 is requested,
   nodes 2 and 3 acknowledge, the read is answered with index 2 *)
Example C08_read_scenario :
  exists s, rrun [1;2;3] [] read_sc rinit = Some s /\
    pr_served s = [(1, 1, 5, 2%nat)] /\ pr_reqs s = [(1, 1, 5, 2%nat, [(1, 2%nat)])].
Proof. exact read_sc_runs. Qed.

(* Without the guard "the acknowledged request is already recorded" (acknowledgements of an
   EARLIER heartbeat round counted for a later request with the same context: non-unique
   contexts) the property is false: an explicit execution in which the partitioned leader 1
   of term 1 answers index 2 for a read issued after node 3 committed index 3 in term 2;
   the guarded rule rejects that execution. *)
Theorem C08_early_ack_unsafe :
  exists s, rrun_early_ack [1;2;3] [] early_ack_attack rinit = Some s /\
    pr_served s = [(1, 1, 5, 2%nat)] /\ l_commit (ln (pr_lg s) 3) = 3%nat /\
    pr_reqs s = [(1, 1, 5, 2%nat, [(2, 3%nat); (1, 2%nat)])].
Proof. exact early_ack_unsafe. Qed.
Print Assumptions C08_early_ack_unsafe.

Theorem C08_guarded_ack_rejects_attack : rrun [1;2;3] [] early_ack_attack rinit = None.
Proof. exact guarded_ack_rejects_attack. Qed.
Print Assumptions C08_guarded_ack_rejects_attack.
