(* C13 — Replication flow control and well-formed append/heartbeat messages.
   Only pinned statements (+ non-vacuity Examples); proofs live in M/RaftProofsC13.v.

   Vocabulary (all defined in M/RaftProofsC13.v, M/InflightsProofs.v, M/MemStorageProofs.v):
     IInv s             InflightsProofs.Inv, the ring-buffer invariant of the window (C18); gives
                        count <= cap and a FIFO view [iabs s] of length [count s]
     PrInv pr           IInv (ins pr)
     RInv r / NInv n    PrInv of every tracked peer of a Raft / RawNode
     LogInv l           store satisfies MemStorageProofs.RepInv and the unstable entries are
                        numbered consecutively from the unstable offset (implied by C14's
                        RaftLogProofs.RepInv: RepInv_LogInv)
     contiguous_from i ents   indexes of ents are i, i+1, ...
     from_log l i ents        the k-th element of ents is the entry log l holds at index i+k
     stamped r m        m with m_from := r_id r, m_term := r_term r (what [send] does)
     snap_msg/app_msg/hb_msg/merged   the exact messages built (all other fields default)

   PROVED (every state r, every input; `f .. = Ok ..` excludes model panics):
   (1) "sends none while paused": is_paused => maybe_send_append returns (r, pr, false) unchanged;
       corollaries Snapshot state / paused Probe / full window in Replicate.
   (2) shape of what one maybe_send_append queues with batching off: exactly one message,
       either a MsgSnapshot (progress becomes Snapshot with pending_snapshot = its index) or a
       MsgAppend with m_index = next_idx-1, m_log_term = the log's term there, m_entries = what
       log_entries returned for (next_idx, max_size_per_msg), m_commit = committed, m_term =
       term, m_from = id, every other field default; the progress is unchanged for an empty
       append, paused in Probe, and in Replicate gets exactly Inflights.add of the last entry
       index and next_idx = last+1.  The node state is otherwise untouched (frame).
   (2') Probe: after an entry-carrying append the progress is paused and any further call sends
       nothing until resumed.  NOTE: an EMPTY append in Probe does not pause (pr' = pr) — the
       DESIGN sentence "after an entry-carrying or empty append" is not what the code does.
   (2'') Replicate: a send is only possible when the window is not full and consumes exactly
       one slot: FIFO view grows by one element, count' = count+1 <= cap, cap unchanged.
   (3) entries of an emitted MsgAppend (batching off, under LogInv): element by element the
       leader's own log entries at m_index+1.., indexes consecutive, and total entry_size <=
       max_size_per_msg unless a single entry (for a limit other than NO_LIMIT); the same
       against C14's abstract log (ll_get/ll_term of RaftLogProofs.abs).
   (3') batching on (after the fix cc6f146 of is_continuous_ents): try_batching rewrites the FIRST
       queued MsgAppend for the peer, keeps its anchor, refreshes its commit, and if that
       message was a slice of the current log (app_wf) the merged one is again.  NOT proved:
       the size clause with batching on (it does not hold by design: merged messages may exceed
       max_size_per_msg), and that every queued MsgAppend is app_wf w.r.t. the CURRENT log
       (needs leader-append-only over the time a message stays queued).
   (4) window invariant: every Progress operation preserves PrInv; update_state on a progress
       that is not paused never panics (in particular not "cannot add into a full inflights")
       and keeps count <= cap; maybe_send_append preserves PrInv (batching on or off) and, under
       PrInv, can only panic in its three reads / next_idx underflow / the two snapshot fatals;
       RInv is preserved by every function of the Raft API and NInv by every RawNode entry
       point incl. runtime window resizing; fresh trackers satisfy it.
       Cross-call counting "unacknowledged entry-carrying appends <= max_inflight_msgs" is
       proved in this form: the window holds at most cap elements at all times (invariant),
       every entry-carrying append sent in Replicate adds exactly one element (2''), none is
       sent when full (1).  NOT proved: that cap = max_inflight_msgs at all times (it is the
       configured value until adjust_max_inflight_msgs changes it; C18 covers resizing), and
       the identification of window elements with messages still unacknowledged by the peer
       across acks/resets (free_to semantics is C18's FIFO theorem; a become_probe/replicate
       reset forgets outstanding appends by design).
   (5) heartbeats: send_heartbeat never panics, queues exactly one MsgHeartbeat with commit =
       min(matched, committed) (<= both) and context = ctx or empty; bcast_heartbeat queues one
       such message per peer and changes nothing else.
   (6) uncommitted size: exact refusal condition, exact effect, consequences (empty payloads
       never refused; one proposal always accepted when nothing is outstanding; otherwise the
       total stays <= max_uncommitted_size); reduce never underflows, never grows, acts on a
       leader only.  NOT proved: `uncommitted_exact` of DESIGN (uncommitted_size = sum of the
       payloads appended in this leadership above commit_since_index) — an execution-level
       accounting invariant.
   (7) MsgPropose on a leader is dropped exactly when: no own progress / transfer pending /
       conf-change decode error / uncommitted-size refusal; a dropped proposal changes nothing
       except possibly pending_conf_index.
   (8) advertised commit indexes, as an invariant over executions: [CInv c r] = the commit
       index is >= c and every queued MsgAppend/MsgHeartbeat has m_commit <= the node's own
       commit index.  Preserved (for every c, which also gives "the commit index never
       decreases") by every function of the Raft API and every RawNode entry point; the
       messages handed out by ready/advance/advance_append satisfy the bound w.r.t. the commit
       index of the state they leave; a node with an empty outbound queue satisfies it.  This
       covers every emission point of these two kinds, wherever it is in the code (also the
       batching rewrite of a queued message).
   NOT proved: the step-level form of (2)/(3) ("every MsgAppend queued by step is a slice of the
   log"): established per emission point (maybe_send_append, try_batching); relating queued
   messages to the log over time needs leader-append-only (C05, P level).  The heartbeat clause
   "m_commit <= follower's acknowledged index" is proved at emission (5), not as a queue
   invariant (matched can be reset by pr_reset while a heartbeat is queued). *)
From RV Require Import Base.Prelude Base.IdSet M.Util M.Proto M.MemStorage M.MemStorageProofs
  M.Inflights M.InflightsProofs M.Progress M.RaftLog M.ConfChange M.Msg M.Raft M.RawNode
  M.RaftProofs M.RaftProofsC13.
From RV Require M.RaftLogProofs.
From RecordUpdate Require Import RecordSet.
Import RecordSetNotations.
Local Open Scope N_scope.

(* ------------------------------------------------------------------ *)
(* (1) nothing is sent while paused *)
Theorem C13_maybe_send_append_paused :
  forall r to pr ae, is_paused pr = true -> maybe_send_append r to pr ae = Ok (r, pr, false).
Proof. exact maybe_send_append_paused. Qed.
Print Assumptions C13_maybe_send_append_paused.

Theorem C13_none_while_snapshot :
  forall r to pr ae, pr_state pr = Snapshot -> maybe_send_append r to pr ae = Ok (r, pr, false).
Proof. exact maybe_send_append_snapshot_state. Qed.
Print Assumptions C13_none_while_snapshot.

Theorem C13_none_while_probe_paused :
  forall r to pr ae, pr_state pr = Probe -> paused pr = true ->
    maybe_send_append r to pr ae = Ok (r, pr, false).
Proof. exact maybe_send_append_probe_paused. Qed.
Print Assumptions C13_none_while_probe_paused.

Theorem C13_none_while_window_full :
  forall r to pr ae, pr_state pr = Replicate -> Inflights.full (ins pr) = true ->
    maybe_send_append r to pr ae = Ok (r, pr, false).
Proof. exact maybe_send_append_window_full. Qed.
Print Assumptions C13_none_while_window_full.

Example C13_ex_snapshot_state_sends_nothing :
  maybe_send_append (ex_raft 1 false []) 2 (ex_pr Snapshot 1 2 false (Inflights.new 2)) true
  = Ok (ex_raft 1 false [], ex_pr Snapshot 1 2 false (Inflights.new 2), false).
Proof. vm_compute. reflexivity. Qed.

(* ------------------------------------------------------------------ *)
(* (2) the shape of what is sent, batching off *)
Theorem C13_maybe_send_append_shape :
  forall r to pr ae r' pr',
  r_batch_append r = false ->
  maybe_send_append r to pr ae = Ok (r', pr', true) ->
  is_paused pr = false /\
  exists m, r' = r <| r_msgs := r_msgs r ++ [m] |> /\
    m_to m = to /\ m_from m = r_id r /\ m_term m = r_term r /\
    ((m = stamped r (snap_msg to (m_snapshot m)) /\ m_type m = MsgSnapshot /\
      recent_active pr = true /\
      raft_snapshot r (pending_request_snapshot pr) to = Ok (SOk (m_snapshot m)) /\
      s_index (m_snapshot m) <> 0 /\
      pr' = become_snapshot pr (s_index (m_snapshot m)) /\
      pr_state pr' = Snapshot /\ pending_snapshot pr' = s_index (m_snapshot m))
     \/
     (m = stamped r (app_msg r to pr (m_log_term m) (m_entries m)) /\ m_type m = MsgAppend /\
      pending_request_snapshot pr = 0 /\ next_idx pr <> 0 /\
      m_index m = next_idx pr - 1 /\
      RaftLog.term (r_log r) (next_idx pr - 1) = Ok (SOk (m_log_term m)) /\
      log_entries (r_log r) (next_idx pr) (Some (r_max_msg_size r)) = Ok (SOk (m_entries m)) /\
      m_commit m = committed (r_log r) /\
      (ae = false -> m_entries m <> []) /\
      (m_entries m = [] -> pr' = pr) /\
      (m_entries m <> [] ->
         (pr_state pr = Probe /\ pr' = pause pr) \/
         (pr_state pr = Replicate /\
          exists i, Inflights.add (ins pr) (last_idx (m_entries m)) = Ok i /\
                    pr' = set_ins (optimistic_update pr (last_idx (m_entries m))) i)))).
Proof. exact maybe_send_append_shape. Qed.
Print Assumptions C13_maybe_send_append_shape.

(* the general case analysis (batching on or off): not sent => nothing changed;
   sent => snapshot, fresh append, or a merge into a queued append *)
Theorem C13_maybe_send_append_cases :
  forall r to pr ae r' pr' b,
  maybe_send_append r to pr ae = Ok (r', pr', b) ->
  (b = false /\ r' = r /\ pr' = pr) \/
  (b = true /\ is_paused pr = false /\
   (sent_snapshot r to pr r' pr' \/ sent_append r to pr ae r' pr' \/ sent_batched r to pr ae r' pr')).
Proof. exact maybe_send_append_cases. Qed.
Print Assumptions C13_maybe_send_append_cases.

Example C13_ex_shape_hypotheses_met :
  r_batch_append (ex_raft 1 false []) = false /\
  exists r' pr', maybe_send_append (ex_raft 1 false []) 2 ex_pr2 true = Ok (r', pr', true) /\
    map m_index (r_msgs r') = [1] /\ map (fun m => map e_index (m_entries m)) (r_msgs r') = [[2]] /\
    Inflights.count (ins pr') = 1%nat /\ next_idx pr' = 3.
Proof.
  split; [reflexivity|]. eexists _, _. split; [vm_compute; reflexivity|].
  vm_compute. repeat split.
Qed.

(* (2') probing *)
Theorem C13_probe_one_outstanding :
  forall r to pr ae r' pr',
  maybe_send_append r to pr ae = Ok (r', pr', true) -> pr_state pr = Probe ->
  (pr' = pr \/ (exists i, pr' = become_snapshot pr i) \/ pr' = pause pr) /\
  (forall m, r_msgs r' = r_msgs r ++ [m] -> m_type m = MsgAppend -> m_entries m <> [] ->
     pr' = pause pr /\
     forall r2 ae2, maybe_send_append r2 to pr' ae2 = Ok (r2, pr', false)).
Proof. exact probe_one_outstanding. Qed.
Print Assumptions C13_probe_one_outstanding.

Example C13_ex_probe_pauses :
  exists r1 p1, maybe_send_append (ex_raft 1 false []) 3 ex_pr3 true = Ok (r1, p1, true) /\
    length (r_msgs r1) = 1%nat /\ paused p1 = true /\
    maybe_send_append r1 3 p1 true = Ok (r1, p1, false).
Proof. eexists _, _. split; [vm_compute; reflexivity|]. vm_compute. repeat split. Qed.

(* (2'') replicating: one slot per entry-carrying append *)
Theorem C13_replicate_one_slot :
  forall r to pr ae r' pr',
  maybe_send_append r to pr ae = Ok (r', pr', true) -> pr_state pr = Replicate -> PrInv pr ->
  Inflights.full (ins pr) = false /\
  (pr' = pr \/ (exists i, pr' = become_snapshot pr i) \/
   exists last, iabs (ins pr') = iabs (ins pr) ++ [last] /\
     Inflights.count (ins pr') = S (Inflights.count (ins pr)) /\
     (Inflights.count (ins pr') <= Inflights.cap (ins pr'))%nat /\
     Inflights.cap (ins pr') = Inflights.cap (ins pr) /\
     next_idx pr' = last + 1 /\ pr_state pr' = Replicate /\ matched pr' = matched pr).
Proof. exact replicate_one_slot. Qed.
Print Assumptions C13_replicate_one_slot.

(* window of 2, max_size_per_msg 1 (one entry per append): two appends fill it, the third call sends nothing *)
Example C13_ex_window_fills :
  exists r1 p1 r2 p2,
    maybe_send_append (ex_raft 1 false []) 2 ex_pr2 true = Ok (r1, p1, true) /\
    maybe_send_append r1 2 p1 true = Ok (r2, p2, true) /\
    Inflights.full (ins p2) = true /\ length (r_msgs r2) = 2%nat /\
    maybe_send_append r2 2 p2 true = Ok (r2, p2, false).
Proof.
  eexists _, _, _, _. split; [vm_compute; reflexivity|]. split; [vm_compute; reflexivity|].
  vm_compute. repeat split.
Qed.

(* ------------------------------------------------------------------ *)
(* (3) the entries are a size-limited slice of the leader's own log *)
Theorem C13_log_entries_spec :
  forall l i mx ents,
  LogInv l -> log_entries l i (Some mx) = Ok (SOk ents) ->
  contiguous_from i ents /\ from_log l i ents /\
  (i <> 0 -> mx <> NO_LIMIT -> total_size entry_size ents <= mx \/ length ents = 1%nat).
Proof. exact log_entries_spec. Qed.
Print Assumptions C13_log_entries_spec.

Theorem C13_append_entries_contiguous :
  forall r to pr ae r' pr' m,
  LogInv (r_log r) -> r_batch_append r = false ->
  maybe_send_append r to pr ae = Ok (r', pr', true) ->
  r_msgs r' = r_msgs r ++ [m] -> m_type m = MsgAppend ->
  contiguous_from (m_index m + 1) (m_entries m) /\
  from_log (r_log r) (m_index m + 1) (m_entries m) /\
  (r_max_msg_size r <> NO_LIMIT ->
     total_size entry_size (m_entries m) <= r_max_msg_size r \/ length (m_entries m) = 1%nat).
Proof. exact append_entries_contiguous. Qed.
Print Assumptions C13_append_entries_contiguous.

(* against C14's abstraction of the RaftLog *)
Theorem C13_append_entries_abs :
  forall rw r to pr ae r' pr' m,
  RaftLogProofs.RepInv rw (r_log r) -> r_batch_append r = false ->
  maybe_send_append r to pr ae = Ok (r', pr', true) ->
  r_msgs r' = r_msgs r ++ [m] -> m_type m = MsgAppend ->
  RaftLogProofs.ll_term (RaftLogProofs.abs (r_log r)) (m_index m) = SOk (m_log_term m) /\
  (RaftLogProofs.ll_first (RaftLogProofs.abs (r_log r)) <= m_index m + 1 ->
   forall k e, nth_error (m_entries m) k = Some e ->
     RaftLogProofs.ll_get (RaftLogProofs.abs (r_log r)) (m_index m + 1 + N.of_nat k) = Some e).
Proof. exact append_entries_abs. Qed.
Print Assumptions C13_append_entries_abs.

Theorem C13_RepInv_LogInv :
  forall rw l, RaftLogProofs.RepInv rw l -> LogInv l.
Proof. exact RepInv_LogInv. Qed.
Print Assumptions C13_RepInv_LogInv.

(* the example log (3 stored entries + 1 unstable) satisfies the hypothesis; with a
   1000-byte limit the append spans the store/unstable boundary: entries 2,3,4 *)
Example C13_ex_LogInv : LogInv (r_log (ex_raft 1000 false [])).
Proof. exact ex_LogInv. Qed.

Example C13_ex_append_spans_unstable :
  exists r' pr', maybe_send_append (ex_raft 1000 false []) 2 ex_pr2 true = Ok (r', pr', true) /\
    map (fun m => map e_index (m_entries m)) (r_msgs r') = [[2; 3; 4]].
Proof. eexists _, _. split; [vm_compute; reflexivity|]. vm_compute. reflexivity. Qed.

(* (3') batching *)
Theorem C13_try_batching_contiguous :
  forall r to msgs pr ents msgs' pr' lo,
  try_batching r to msgs pr ents = Ok (msgs', pr', true) ->
  contiguous_from lo ents -> from_log (r_log r) lo ents ->
  exists pre m post, msgs = pre ++ m :: post /\ Forall (not_app_to to) pre /\
    m_type m = MsgAppend /\ m_to m = to /\
    msgs' = pre ++ merged r m ents :: post /\
    m_index (merged r m ents) = m_index m /\ m_log_term (merged r m ents) = m_log_term m /\
    m_commit (merged r m ents) = committed (r_log r) /\
    (ents <> [] -> contiguous_from (m_index m + 1) (m_entries m) ->
       lo = m_index m + 1 + N.of_nat (length (m_entries m)) /\
       contiguous_from (m_index m + 1) (m_entries (merged r m ents))) /\
    (app_wf (r_log r) m -> app_wf (r_log r) (merged r m ents)).
Proof. exact try_batching_contiguous. Qed.
Print Assumptions C13_try_batching_contiguous.

Theorem C13_maybe_send_append_batched_wf :
  forall r to pr ae r' pr',
  LogInv (r_log r) -> sent_batched r to pr ae r' pr' ->
  exists pre m post ents, r_msgs r = pre ++ m :: post /\ Forall (not_app_to to) pre /\
    m_type m = MsgAppend /\ m_to m = to /\
    r' = r <| r_msgs := pre ++ merged r m ents :: post |> /\
    log_entries (r_log r) (next_idx pr) (Some (r_max_msg_size r)) = Ok (SOk ents) /\
    m_commit (merged r m ents) = committed (r_log r) /\
    (ents <> [] -> contiguous_from (m_index m + 1) (m_entries m) ->
       next_idx pr = m_index m + 1 + N.of_nat (length (m_entries m)) /\
       contiguous_from (m_index m + 1) (m_entries (merged r m ents))) /\
    (app_wf (r_log r) m -> app_wf (r_log r) (merged r m ents)).
Proof. exact maybe_send_append_batched_wf. Qed.
Print Assumptions C13_maybe_send_append_batched_wf.

(* batching on: the second call merges entry 3 into the queued append holding entry 2;
   an empty queued append anchored elsewhere is NOT merged into (fresh message instead) *)
Example C13_ex_batching_merges :
  exists r1 p1 r2 p2,
    maybe_send_append (ex_raft 1 true []) 2 ex_pr2 true = Ok (r1, p1, true) /\
    maybe_send_append r1 2 p1 true = Ok (r2, p2, true) /\
    map (fun m => (m_index m, map e_index (m_entries m))) (r_msgs r2) = [(1, [2; 3])] /\
    Inflights.count (ins p2) = 2%nat.
Proof.
  eexists _, _, _, _. split; [vm_compute; reflexivity|]. split; [vm_compute; reflexivity|].
  vm_compute. split; reflexivity.
Qed.

Example C13_ex_batching_respects_anchor :
  let queued := stamped (ex_raft 1 true []) (app_msg (ex_raft 1 true []) 2 (ex_pr Replicate 1 5 false (Inflights.new 2)) 1 []) in
  m_index queued = 4 /\ m_entries queued = [] /\
  exists r1 p1, maybe_send_append (ex_raft 1 true [queued]) 2 ex_pr2 true = Ok (r1, p1, true) /\
    map (fun m => (m_index m, map e_index (m_entries m))) (r_msgs r1) = [(4, []); (1, [2])].
Proof.
  cbv zeta. split; [reflexivity|]. split; [reflexivity|].
  eexists _, _. split; [vm_compute; reflexivity|]. vm_compute. reflexivity.
Qed.

(* ------------------------------------------------------------------ *)
(* (4) the window invariant *)
Theorem C13_progress_ops_preserve :
  (forall n c, PrInv (pr_new n c)) /\
  forall p, PrInv p ->
    (forall st, PrInv (reset_state p st)) /\ (forall n, PrInv (pr_reset p n)) /\
    PrInv (become_probe p) /\ PrInv (become_replicate p) /\ (forall i, PrInv (become_snapshot p i)) /\
    PrInv (snapshot_failure p) /\ PrInv (resume p) /\ PrInv (pause p) /\
    (forall n, PrInv (fst (maybe_update p n))) /\ (forall c, PrInv (update_committed p c)) /\
    (forall n, PrInv (optimistic_update p n)) /\
    (forall rej hint rs, PrInv (fst (maybe_decr_to p rej hint rs))) /\
    (forall last p', update_state p last = Ok p' -> PrInv p') /\
    (forall to i, Inflights.free_to (ins p) to = Ok i -> PrInv (set_ins p i)) /\
    (forall i, Inflights.free_first_one (ins p) = Ok i -> PrInv (set_ins p i)) /\
    (forall c i, Inflights.set_cap (ins p) c = Ok i -> PrInv (set_ins p i)) /\
    PrInv (set_ins p (Inflights.maybe_free_buffer (ins p))).
Proof. exact progress_ops_preserve_PrInv. Qed.
Print Assumptions C13_progress_ops_preserve.

(* update_state is only reached when not paused: then it cannot panic *)
Theorem C13_update_state_ok :
  forall pr last,
  PrInv pr -> is_paused pr = false ->
  exists pr', update_state pr last = Ok pr' /\ PrInv pr' /\
    (pr_state pr = Probe -> pr' = pause pr) /\
    (pr_state pr = Replicate ->
       iabs (ins pr') = iabs (ins pr) ++ [last] /\
       Inflights.count (ins pr') = S (Inflights.count (ins pr)) /\
       (Inflights.count (ins pr') <= Inflights.cap (ins pr'))%nat /\
       Inflights.cap (ins pr') = Inflights.cap (ins pr) /\
       next_idx pr' = last + 1 /\ pr_state pr' = Replicate /\ matched pr' = matched pr).
Proof. exact update_state_ok. Qed.
Print Assumptions C13_update_state_ok.

Theorem C13_update_state_not_add_full :
  forall pr last, is_paused pr = false -> update_state pr last <> Panic Inflights.site_add_full.
Proof. exact update_state_not_add_full. Qed.
Print Assumptions C13_update_state_not_add_full.

Theorem C13_maybe_send_append_PrInv :
  forall r to pr ae r' pr' b,
  PrInv pr -> maybe_send_append r to pr ae = Ok (r', pr', b) -> PrInv pr'.
Proof. exact maybe_send_append_PrInv. Qed.
Print Assumptions C13_maybe_send_append_PrInv.

(* batching on or off: no panic of maybe_send_append comes from the window *)
Theorem C13_maybe_send_append_panic_causes :
  forall r to pr ae s,
  PrInv pr -> maybe_send_append r to pr ae = Panic s ->
  raft_snapshot r (pending_request_snapshot pr) to = Panic s
  \/ s = site_snapshot_err \/ s = site_snapshot_empty
  \/ log_entries (r_log r) (next_idx pr) (Some (r_max_msg_size r)) = Panic s
  \/ s = site_next_idx_underflow
  \/ RaftLog.term (r_log r) (next_idx pr - 1) = Panic s.
Proof. exact maybe_send_append_panic_causes. Qed.
Print Assumptions C13_maybe_send_append_panic_causes.

Theorem C13_window_inv_raft_api :
  (forall r m r' c, step r m = Ok (r', c) -> RInv r -> RInv r') /\
  (forall r r' b, tick r = Ok (r', b) -> RInv r -> RInv r') /\
  (forall r cc r' o, raft_apply_conf_change r cc = Ok (r', o) -> RInv r -> RInv r') /\
  (forall r i t r', on_persist_entries r i t = Ok r' -> RInv r -> RInv r') /\
  (forall r i r', on_persist_snap r i = Ok r' -> RInv r -> RInv r') /\
  (forall r a r', commit_apply r a = Ok r' -> RInv r -> RInv r') /\
  (forall r ents, RInv r -> RInv (reduce_uncommitted_size r ents)) /\
  (forall r hs r', load_state r hs = Ok r' -> RInv r -> RInv r') /\
  (forall r r' c, request_snapshot r = Ok (r', c) -> RInv r -> RInv r') /\
  (forall r r', ping r = Ok r' -> RInv r -> RInv r') /\
  (forall r target c r', adjust_max_inflight_msgs r target c = Ok r' -> RInv r -> RInv r') /\
  (forall r, RInv r -> RInv (maybe_free_inflight_buffers r)) /\
  (forall r lim, RInv r -> RInv (set_max_apply_unpersisted_log_limit r lim)) /\
  (forall r e r', enable_group_commit r e = Ok r' -> RInv r -> RInv r') /\
  (forall r ids r', assign_commit_groups r ids = Ok r' -> RInv r -> RInv r') /\
  (forall r s r' b, restore r s = Ok (r', b) -> RInv r -> RInv r') /\
  (forall r r', become_leader r = Ok r' -> RInv r -> RInv r') /\
  (forall r t l r', become_follower r t l = Ok r' -> RInv r -> RInv r').
Proof. exact window_inv_raft_api. Qed.
Print Assumptions C13_window_inv_raft_api.

Theorem C13_window_inv_rawnode_api :
  (forall n m n' c, rn_step n m = Ok (n', c) -> NInv n -> NInv n') /\
  (forall n n' b, rn_tick n = Ok (n', b) -> NInv n -> NInv n') /\
  (forall n n' c, rn_campaign n = Ok (n', c) -> NInv n -> NInv n') /\
  (forall n ctx data n' c, rn_propose n ctx data = Ok (n', c) -> NInv n -> NInv n') /\
  (forall n ctx data ty ci n' c,
     rn_propose_conf_change n ctx data ty ci = Ok (n', c) -> NInv n -> NInv n') /\
  (forall n cc n' o, rn_apply_conf_change n cc = Ok (n', o) -> NInv n -> NInv n') /\
  (forall n n', rn_ping n = Ok n' -> NInv n -> NInv n') /\
  (forall n n' rd, rn_ready n = Ok (n', rd) -> NInv n -> NInv n') /\
  (forall n num n', rn_on_persist_ready n num = Ok n' -> NInv n -> NInv n') /\
  (forall n rd n' lr, rn_advance_append n rd = Ok (n', lr) -> NInv n -> NInv n') /\
  (forall n rd n', rn_advance_append_async n rd = Ok n' -> NInv n -> NInv n') /\
  (forall n a n', rn_advance_apply_to n a = Ok n' -> NInv n -> NInv n') /\
  (forall n n', rn_advance_apply n = Ok n' -> NInv n -> NInv n') /\
  (forall n rd n' lr, rn_advance n rd = Ok (n', lr) -> NInv n -> NInv n') /\
  (forall n id n', rn_report_unreachable n id = Ok n' -> NInv n -> NInv n') /\
  (forall n id f n', rn_report_snapshot n id f = Ok n' -> NInv n -> NInv n') /\
  (forall n n' c, rn_request_snapshot n = Ok (n', c) -> NInv n -> NInv n') /\
  (forall n t n', rn_transfer_leader n t = Ok n' -> NInv n -> NInv n') /\
  (forall n ctx n', rn_read_index n ctx = Ok n' -> NInv n -> NInv n').
Proof. exact window_inv_rawnode_api. Qed.
Print Assumptions C13_window_inv_rawnode_api.

(* construction: progress maps built by confchange::restore / apply_conf, and the empty one *)
Theorem C13_window_inv_fresh :
  (forall ids n mi, PrsInv (fresh_progress ids n mi)) /\
  (forall chs m n mi, PrsInv m -> PrsInv (apply_changes m chs n mi)) /\
  PrsInv [].
Proof. exact window_inv_fresh. Qed.
Print Assumptions C13_window_inv_fresh.

(* what the invariant says about each tracked peer *)
Theorem C13_inflight_bound :
  forall r id pr,
  RInv r -> get_pr r id = Some pr ->
  (Inflights.count (ins pr) <= Inflights.cap (ins pr))%nat /\
  Inflights.count (ins pr) = length (iabs (ins pr)).
Proof. exact RInv_window_bound. Qed.
Print Assumptions C13_inflight_bound.

Example C13_ex_RInv : RInv (ex_raft 1 false []).
Proof. apply ex_RInv. Qed.

(* ------------------------------------------------------------------ *)
(* (5) heartbeats *)
Theorem C13_heartbeat_commit :
  forall r to pr ctx,
  exists m, send_heartbeat r to pr ctx = Ok (r <| r_msgs := r_msgs r ++ [m] |>) /\
    m_type m = MsgHeartbeat /\ m_to m = to /\ m_from m = r_id r /\ m_term m = r_term r /\
    m_commit m = N.min (matched pr) (committed (r_log r)) /\
    m_commit m <= matched pr /\ m_commit m <= committed (r_log r) /\
    m_context m = (match ctx with Some c => c | None => [] end) /\
    m_entries m = [] /\ m_index m = 0 /\ m_log_term m = 0.
Proof. exact heartbeat_commit. Qed.
Print Assumptions C13_heartbeat_commit.

Theorem C13_bcast_heartbeat :
  forall r ctx r',
  bcast_heartbeat_with_ctx r ctx = Ok r' ->
  exists new, r' = r <| r_msgs := r_msgs r ++ new |> /\
    Forall (fun m =>
      m_type m = MsgHeartbeat /\ m_commit m <= committed (r_log r) /\
      exists pr, get_pr r (m_to m) = Some pr /\
                 m_commit m = N.min (matched pr) (committed (r_log r)) /\
                 m_commit m <= matched pr) new.
Proof. exact bcast_heartbeat_commit. Qed.
Print Assumptions C13_bcast_heartbeat.

(* follower 2 has acknowledged 1, the leader has committed 2: the heartbeat says 1 *)
Example C13_ex_heartbeat :
  exists r', send_heartbeat (ex_raft 1 false []) 2 ex_pr2 None = Ok r' /\
    map (fun m => (m_type m, m_commit m)) (r_msgs r') = [(MsgHeartbeat, 1)].
Proof. eexists. split; [vm_compute; reflexivity|]. vm_compute. reflexivity. Qed.

(* ------------------------------------------------------------------ *)
(* (6) uncommitted size *)
Theorem C13_uncommitted_refused_iff :
  forall r ents,
  snd (maybe_increase_uncommitted_size r ents) = false <->
  (r_max_uncommitted_size r <> NO_LIMIT /\ data_size ents <> 0 /\ r_uncommitted_size r <> 0 /\
   r_max_uncommitted_size r < data_size ents + r_uncommitted_size r).
Proof. exact uncommitted_refused_iff. Qed.
Print Assumptions C13_uncommitted_refused_iff.

Theorem C13_uncommitted_bound :
  forall r ents r' ok,
  maybe_increase_uncommitted_size r ents = (r', ok) ->
  (data_size ents = 0 -> ok = true /\ r_uncommitted_size r' = r_uncommitted_size r) /\
  (r_uncommitted_size r = 0 -> ok = true) /\
  (ok = true -> r_max_uncommitted_size r <> NO_LIMIT ->
     r_uncommitted_size r' = r_uncommitted_size r + data_size ents /\
     (data_size ents = 0 \/ r_uncommitted_size r = 0 \/
      r_uncommitted_size r' <= r_max_uncommitted_size r)) /\
  (ok = false -> r' = r) /\
  r_max_uncommitted_size r' = r_max_uncommitted_size r.
Proof. exact uncommitted_bound. Qed.
Print Assumptions C13_uncommitted_bound.

Theorem C13_uncommitted_effect :
  forall r ents r' ok,
  maybe_increase_uncommitted_size r ents = (r', ok) ->
  (ok = false -> r' = r) /\
  (ok = true ->
     (r_max_uncommitted_size r = NO_LIMIT /\ r' = r) \/
     (r_max_uncommitted_size r <> NO_LIMIT /\
      r' = r <| r_uncommitted_size := r_uncommitted_size r + data_size ents |>)).
Proof. exact uncommitted_effect. Qed.
Print Assumptions C13_uncommitted_effect.

Theorem C13_reduce_uncommitted :
  forall r ents,
  let r' := reduce_uncommitted_size r ents in
  (is_leader r = false -> r' = r) /\
  (r_max_uncommitted_size r = NO_LIMIT -> r' = r) /\
  (ents = [] -> r' = r) /\
  (r' = r \/
   r' = r <| r_uncommitted_size :=
             r_uncommitted_size r - data_size (skip_le_tail ents (r_last_log_tail_index r)) |>) /\
  r_uncommitted_size r' <= r_uncommitted_size r /\
  (is_leader r = true -> r_max_uncommitted_size r <> NO_LIMIT -> ents <> [] ->
   r_uncommitted_size r' =
     r_uncommitted_size r - data_size (skip_le_tail ents (r_last_log_tail_index r))).
Proof. exact reduce_uncommitted_spec. Qed.
Print Assumptions C13_reduce_uncommitted.

(* max 10, 4 outstanding: 7 more bytes are refused, 6 are accepted, an empty payload is
   accepted; with nothing outstanding a 50-byte proposal is accepted *)
Example C13_ex_uncommitted :
  let r := ex_raft 1 false [] in
  snd (maybe_increase_uncommitted_size r [ex_ent 0 0 [1;2;3;4;5;6;7]]) = false /\
  snd (maybe_increase_uncommitted_size r [ex_ent 0 0 [1;2;3;4;5;6]]) = true /\
  r_uncommitted_size (fst (maybe_increase_uncommitted_size r [ex_ent 0 0 [1;2;3;4;5;6]])) = 10 /\
  snd (maybe_increase_uncommitted_size r [ex_ent 0 0 []]) = true /\
  snd (maybe_increase_uncommitted_size (r <| r_uncommitted_size := 0 |>)
         [ex_ent 0 0 (repeat 1 50)]) = true.
Proof. vm_compute. repeat split. Qed.

(* ------------------------------------------------------------------ *)
(* (7) when a proposal is dropped by a leader *)
Theorem C13_step_leader_propose_refused_iff :
  forall r m r' c,
  m_type m = MsgPropose -> step_leader r m = Ok (r', c) ->
  let f := filter_conf_changes r (m_entries m) (m_ccinfo m) 0 in
  (c = E_OK \/ c = E_PROPOSAL_DROPPED) /\
  (c = E_PROPOSAL_DROPPED <->
     get_pr r (r_id r) = None \/ r_lead_transferee r <> None \/ snd f = false \/
     snd (maybe_increase_uncommitted_size (fst (fst f)) (snd (fst f))) = false) /\
  (c = E_PROPOSAL_DROPPED -> r' = r \/ exists j, r' = r <| r_pending_conf_index := j |>).
Proof. exact step_leader_propose_refused_iff. Qed.
Print Assumptions C13_step_leader_propose_refused_iff.

Example C13_ex_propose :
  let r := ex_raft 1 false [] in
  let prop d := msg_default <| m_type := MsgPropose |> <| m_entries := [ex_ent 0 0 d] |>
                            <| m_ccinfo := [0] |> in
  (exists r', step_leader r (prop [1;2;3;4;5;6;7]) = Ok (r', E_PROPOSAL_DROPPED)) /\
  (exists r', step_leader r (prop [1;2;3]) = Ok (r', E_OK) /\ r_uncommitted_size r' = 7).
Proof.
  cbv zeta. split.
  - eexists. vm_compute. reflexivity.
  - eexists. split; [vm_compute; reflexivity|]. vm_compute. reflexivity.
Qed.

(* ------------------------------------------------------------------ *)
(* (8) advertised commit indexes never exceed the node's own: an invariant *)
Theorem C13_commit_inv_meaning :
  forall c r,
  CInv c r ->
  c <= committed (r_log r) /\
  forall m, In m (r_msgs r) -> m_type m = MsgAppend \/ m_type m = MsgHeartbeat ->
    m_commit m <= committed (r_log r).
Proof. exact CInv_meaning. Qed.
Print Assumptions C13_commit_inv_meaning.

Theorem C13_msg_commit_ok_meaning :
  forall c m,
  msg_commit_ok c m <-> (m_type m = MsgAppend \/ m_type m = MsgHeartbeat -> m_commit m <= c).
Proof. exact msg_commit_ok_meaning. Qed.
Print Assumptions C13_msg_commit_ok_meaning.

Theorem C13_commit_inv_init :
  forall r, r_msgs r = [] -> CInv (committed (r_log r)) r.
Proof. exact CInv_init. Qed.
Print Assumptions C13_commit_inv_init.

Theorem C13_commit_inv_raft_api : forall c,
  (forall r m r' c0, step r m = Ok (r', c0) -> CInv c r -> CInv c r') /\
  (forall r r' b, tick r = Ok (r', b) -> CInv c r -> CInv c r') /\
  (forall r cc r' o, raft_apply_conf_change r cc = Ok (r', o) -> CInv c r -> CInv c r') /\
  (forall r i t r', on_persist_entries r i t = Ok r' -> CInv c r -> CInv c r') /\
  (forall r i r', on_persist_snap r i = Ok r' -> CInv c r -> CInv c r') /\
  (forall r a r', commit_apply r a = Ok r' -> CInv c r -> CInv c r') /\
  (forall r ents, CInv c r -> CInv c (reduce_uncommitted_size r ents)) /\
  (forall r hs r', load_state r hs = Ok r' -> CInv c r -> CInv c r') /\
  (forall r r' c0, request_snapshot r = Ok (r', c0) -> CInv c r -> CInv c r') /\
  (forall r r', ping r = Ok r' -> CInv c r -> CInv c r') /\
  (forall r target cp r', adjust_max_inflight_msgs r target cp = Ok r' -> CInv c r -> CInv c r') /\
  (forall r, CInv c r -> CInv c (maybe_free_inflight_buffers r)) /\
  (forall r lim, CInv c r -> CInv c (set_max_apply_unpersisted_log_limit r lim)) /\
  (forall r e r', enable_group_commit r e = Ok r' -> CInv c r -> CInv c r') /\
  (forall r ids r', assign_commit_groups r ids = Ok r' -> CInv c r -> CInv c r') /\
  (forall r s r' b, restore r s = Ok (r', b) -> CInv c r -> CInv c r') /\
  (forall r r', become_leader r = Ok r' -> CInv c r -> CInv c r') /\
  (forall r t l r', become_follower r t l = Ok r' -> CInv c r -> CInv c r').
Proof. exact commit_inv_raft_api. Qed.
Print Assumptions C13_commit_inv_raft_api.

Theorem C13_commit_inv_rawnode_api : forall c,
  (forall n m n' c0, rn_step n m = Ok (n', c0) -> NCInv c n -> NCInv c n') /\
  (forall n n' b, rn_tick n = Ok (n', b) -> NCInv c n -> NCInv c n') /\
  (forall n n' c0, rn_campaign n = Ok (n', c0) -> NCInv c n -> NCInv c n') /\
  (forall n ctx data n' c0, rn_propose n ctx data = Ok (n', c0) -> NCInv c n -> NCInv c n') /\
  (forall n ctx data ty ci n' c0,
     rn_propose_conf_change n ctx data ty ci = Ok (n', c0) -> NCInv c n -> NCInv c n') /\
  (forall n cc n' o, rn_apply_conf_change n cc = Ok (n', o) -> NCInv c n -> NCInv c n') /\
  (forall n n', rn_ping n = Ok n' -> NCInv c n -> NCInv c n') /\
  (forall n n' rd, rn_ready n = Ok (n', rd) -> NCInv c n ->
     NCInv c n' /\ Forall (msg_commit_ok (committed (r_log (rn_raft n')))) (lr_messages (rd_light rd))) /\
  (forall n num n', rn_on_persist_ready n num = Ok n' -> NCInv c n -> NCInv c n') /\
  (forall n rd n' lr, rn_advance_append n rd = Ok (n', lr) -> NCInv c n ->
     NCInv c n' /\ Forall (msg_commit_ok (committed (r_log (rn_raft n')))) (lr_messages lr)) /\
  (forall n rd n', rn_advance_append_async n rd = Ok n' -> NCInv c n -> NCInv c n') /\
  (forall n a n', rn_advance_apply_to n a = Ok n' -> NCInv c n -> NCInv c n') /\
  (forall n rd n' lr, rn_advance n rd = Ok (n', lr) -> NCInv c n ->
     NCInv c n' /\ Forall (msg_commit_ok (committed (r_log (rn_raft n')))) (lr_messages lr)) /\
  (forall n id n', rn_report_unreachable n id = Ok n' -> NCInv c n -> NCInv c n') /\
  (forall n id f n', rn_report_snapshot n id f = Ok n' -> NCInv c n -> NCInv c n') /\
  (forall n n' c0, rn_request_snapshot n = Ok (n', c0) -> NCInv c n -> NCInv c n') /\
  (forall n t n', rn_transfer_leader n t = Ok n' -> NCInv c n -> NCInv c n') /\
  (forall n ctx n', rn_read_index n ctx = Ok n' -> NCInv c n -> NCInv c n').
Proof. exact commit_inv_rawnode_api. Qed.
Print Assumptions C13_commit_inv_rawnode_api.

(* the example leader with an empty queue satisfies it; after proposing, the queued appends
   advertise exactly its commit index 2 *)
Example C13_ex_commit_inv :
  CInv 2 (ex_raft 1 false []) /\
  exists r', step_leader (ex_raft 1 false [])
               (msg_default <| m_type := MsgPropose |> <| m_entries := [ex_ent 0 0 [1]] |>
                            <| m_ccinfo := [0] |>) = Ok (r', E_OK) /\
    map (fun m => (m_type m, m_to m, m_commit m)) (r_msgs r') = [(MsgAppend, 2, 2); (MsgAppend, 3, 2)].
Proof.
  split; [apply (CInv_init (ex_raft 1 false [])); reflexivity|].
  eexists. split; [vm_compute; reflexivity|]. vm_compute. reflexivity.
Qed.

(* the "pending_conf_index can have moved" case of (7) is real: a conf-change proposal that
   passes the filter but is then refused for its size leaves pending_conf_index at the index it
   would have had (same in the Rust: the assignment precedes append_entry) *)
Example C13_ex_dropped_moves_pending_conf_index :
  exists r', step_leader (ex_raft 1 false [])
               (msg_default <| m_type := MsgPropose |>
                            <| m_entries := [mkEntry EntryConfChange 0 0 [1;2;3;4;5;6;7] []] |>
                            <| m_ccinfo := [3] |>) = Ok (r', E_PROPOSAL_DROPPED) /\
    r_pending_conf_index (ex_raft 1 false []) = 0 /\ r_pending_conf_index r' = 5 /\
    r_msgs r' = [] /\ r_log r' = r_log (ex_raft 1 false []).
Proof. eexists. split; [vm_compute; reflexivity|]. vm_compute. repeat split. Qed.


(* ====================================================================== *)
(* ==== node level: contiguous MsgAppend batches without LogInv ========= *)
(* ====================================================================== *)
(* C13_append_entries_contiguous above takes LogInv (r_log r) at the call of
   maybe_send_append.  With M/RaftProofsRepInv.v (Props/C14.v, node level) the log
   invariant holds at every state of every contract-abiding trace from RawNode::new, and
   at every intermediate state inside a call, so the per-call statement becomes an
   invariant of the outbound queue:
     app_ok m  := m_type m = MsgAppend -> contiguous_from (m_index m + 1) (m_entries m)
     AppOK r   := Forall app_ok (r_msgs r)          NAppOK n := AppOK (rn_raft n)
   PROVED: AppOK is preserved by step, tick, on_persist_entries, commit_apply,
   apply_conf_change and every RawNode call (exec_AppOK, batching on or off), it holds
   after RawNode::new, hence every MsgAppend in the queue of any state of a trace, and
   every MsgAppend in the messages of any Ready / LightReady, is a contiguous batch.
   NOT PROVED at node level: from_log (the entries ARE the sender's log entries) and the
   size bound for queued messages - they hold when the message is built
   (C13_append_entries_contiguous) but the log may be truncated while the message waits
   in the queue. *)
From RV Require Import M.RaftLogProofs M.RaftProofsC15 M.RaftProofsC09 M.RaftProofsC08 M.RaftProofsC07
  M.RaftProofsRepInv.

(* LogOK in place of LogInv *)
Theorem C13_append_entries_contiguous_node :
  forall r to pr ae r' pr' m,
  LogOK r -> r_batch_append r = false ->
  maybe_send_append r to pr ae = Ok (r', pr', true) ->
  r_msgs r' = r_msgs r ++ [m] -> m_type m = MsgAppend ->
  contiguous_from (m_index m + 1) (m_entries m) /\
  from_log (r_log r) (m_index m + 1) (m_entries m) /\
  (r_max_msg_size r <> NO_LIMIT ->
     total_size entry_size (m_entries m) <= r_max_msg_size r \/ length (m_entries m) = 1%nat).
Proof. exact append_entries_contiguous_node. Qed.
Print Assumptions C13_append_entries_contiguous_node.

(* at any state of a trace from RawNode::new *)
Theorem C13_append_entries_contiguous_from_new :
  forall c st sa dr n0 n to pr ae r' pr' m,
  rn_new c st sa dr = Ok (inr n0) -> SInv st -> trig_log st = false -> wrun n0 n ->
  r_batch_append (rn_raft n) = false ->
  maybe_send_append (rn_raft n) to pr ae = Ok (r', pr', true) ->
  r_msgs r' = r_msgs (rn_raft n) ++ [m] -> m_type m = MsgAppend ->
  contiguous_from (m_index m + 1) (m_entries m) /\
  from_log (nlog n) (m_index m + 1) (m_entries m).
Proof. exact append_entries_contiguous_from_new. Qed.
Print Assumptions C13_append_entries_contiguous_from_new.

Theorem C13_app_ok_def :
  forall m,
  app_ok m <-> (m_type m = MsgAppend -> contiguous_from (m_index m + 1) (m_entries m)).
Proof. exact app_ok_def. Qed.
Print Assumptions C13_app_ok_def.

Theorem C13_AppOK_def :
  forall r,
  AppOK r <-> Forall app_ok (r_msgs r).
Proof. exact AppOK_def. Qed.
Print Assumptions C13_AppOK_def.

Theorem C13_NAppOK_def :
  forall n,
  NAppOK n <-> Forall app_ok (r_msgs (rn_raft n)).
Proof. exact NAppOK_def. Qed.
Print Assumptions C13_NAppOK_def.

Theorem C13_AL_def :
  forall r,
  AL r <-> LogInv (r_log r) /\ Forall app_ok (r_msgs r).
Proof. exact AL_def. Qed.
Print Assumptions C13_AL_def.

(* the outbound-queue invariant *)
Theorem C13_send_AppOK :
  forall r m r',
  send r m = Ok r' -> app_ok m -> AppOK r -> AppOK r'.
Proof. exact send_AppOK. Qed.
Print Assumptions C13_send_AppOK.

Theorem C13_maybe_send_append_AL :
  forall r to pr ae r' pr' b,
  maybe_send_append r to pr ae = Ok (r', pr', b) -> AL r -> AL r'.
Proof. exact maybe_send_append_AL. Qed.
Print Assumptions C13_maybe_send_append_AL.

Theorem C13_bcast_append_AL :
  forall r r',
  bcast_append r = Ok r' -> AL r -> AL r'.
Proof. exact bcast_append_AL. Qed.
Print Assumptions C13_bcast_append_AL.

Theorem C13_step_AppOK :
  forall rw r m r' c,
  step r m = Ok (r', c) -> msg_wf (last_index (r_log r)) m -> LI rw r -> AppOK r -> AppOK r'.
Proof. exact step_AppOK. Qed.
Print Assumptions C13_step_AppOK.

Theorem C13_tick_AppOK :
  forall rw r r' b,
  tick r = Ok (r', b) -> LI rw r -> room 1 r -> AppOK r -> AppOK r'.
Proof. exact tick_AppOK. Qed.
Print Assumptions C13_tick_AppOK.

Theorem C13_on_persist_entries_AppOK :
  forall rw r i t r',
  on_persist_entries r i t = Ok r' -> LI rw r -> AppOK r -> AppOK r'.
Proof. exact on_persist_entries_AppOK. Qed.
Print Assumptions C13_on_persist_entries_AppOK.

Theorem C13_commit_apply_AppOK :
  forall r a r',
  commit_apply r a = Ok r' -> AppOK r -> AppOK r'.
Proof. exact commit_apply_AppOK. Qed.
Print Assumptions C13_commit_apply_AppOK.

Theorem C13_raft_apply_conf_change_AppOK :
  forall rw r cc r' ocs,
  raft_apply_conf_change r cc = Ok (r', ocs) -> LI rw r -> AppOK r -> AppOK r'.
Proof. exact raft_apply_conf_change_AppOK. Qed.
Print Assumptions C13_raft_apply_conf_change_AppOK.

Theorem C13_exec_AppOK :
  forall rw n o n' ot,
  exec n o = Ok (n', ot) -> op_wf n o -> NLI rw n -> NAppOK n -> NAppOK n'.
Proof. exact exec_AppOK. Qed.
Print Assumptions C13_exec_AppOK.

Theorem C13_wrun_AppOK :
  forall rw n n',
  wrun n n' -> NLI rw n -> NAppOK n -> NAppOK n'.
Proof. exact wrun_AppOK. Qed.
Print Assumptions C13_wrun_AppOK.

Theorem C13_raft_new_msgs :
  forall c st sa dr r,
  raft_new c st sa dr = Ok (inr r) -> r_msgs r = [].
Proof. exact raft_new_msgs. Qed.
Print Assumptions C13_raft_new_msgs.

Theorem C13_append_msgs_contiguous_from_new :
  forall c st sa dr n0 n m,
  rn_new c st sa dr = Ok (inr n0) -> SInv st -> trig_log st = false -> wrun n0 n ->
  In m (r_msgs (rn_raft n)) -> m_type m = MsgAppend ->
  contiguous_from (m_index m + 1) (m_entries m).
Proof. exact append_msgs_contiguous_from_new. Qed.
Print Assumptions C13_append_msgs_contiguous_from_new.

(* what the application is handed *)
Theorem C13_ready_msgs_ok :
  forall n n1 rd,
  rn_ready n = Ok (n1, rd) -> NAppOK n -> Forall app_ok (lr_messages (rd_light rd)).
Proof. exact ready_msgs_ok. Qed.
Print Assumptions C13_ready_msgs_ok.

Theorem C13_advance_append_msgs_ok :
  forall rw n rd n' lr,
  rn_advance_append n rd = Ok (n', lr) -> advance_pre n -> NLI rw n -> NAppOK n ->
  Forall app_ok (lr_messages lr).
Proof. exact advance_append_msgs_ok. Qed.
Print Assumptions C13_advance_append_msgs_ok.

Theorem C13_advance_msgs_ok :
  forall rw n rd n' lr,
  rn_advance n rd = Ok (n', lr) -> advance_pre n -> NLI rw n -> NAppOK n ->
  Forall app_ok (lr_messages lr).
Proof. exact advance_msgs_ok. Qed.
Print Assumptions C13_advance_msgs_ok.

Theorem C13_handed_append_msgs_contiguous_from_new :
  forall c st sa dr n0 n,
  rn_new c st sa dr = Ok (inr n0) -> SInv st -> trig_log st = false -> wrun n0 n ->
  (forall n1 rd, rn_ready n = Ok (n1, rd) -> Forall app_ok (lr_messages (rd_light rd)))
  /\ (forall rd n1 lr, advance_pre n -> rn_advance_append n rd = Ok (n1, lr) -> Forall app_ok (lr_messages lr))
  /\ (forall rd n1 lr, advance_pre n -> rn_advance n rd = Ok (n1, lr) -> Forall app_ok (lr_messages lr)).
Proof. exact handed_append_msgs_contiguous_from_new. Qed.
Print Assumptions C13_handed_append_msgs_contiguous_from_new.

Import Samples RepInvSamples AppSamples.

(* a three-voter node wins its election and queues one MsgAppend per peer *)
Theorem C13_ex_election_trace :
  wrun f0 g2.
Proof. exact ex_election_trace. Qed.
Print Assumptions C13_ex_election_trace.

Theorem C13_ex_election_appends :
  is_leader (rn_raft g2) = true
    /\ map (fun m => (m_type m, m_to m, m_index m, map e_index (m_entries m)))
           (filter (fun m => m_type m =? MsgAppend) (r_msgs (rn_raft g2)))
       = [(MsgAppend, 2, 0, [1]); (MsgAppend, 3, 0, [1])]
    /\ NAppOK g2.
Proof. exact ex_election_appends. Qed.
Print Assumptions C13_ex_election_appends.

