(* C15 — Snapshot install and log compaction preserve state and safety.
   Only pinned statements; proofs live in M/RaftProofsC15.v.

   PROVED (per step, for every state and every input, over the models M/Raft.v,
   M/RaftLog.v, M/MemStorage.v):
   * install guard (restore_guard) and complete effect of an install in closed form
     (restore_effect): commit index, unstable snapshot, log boundaries and boundary
     term, persisted rule, configuration = confchange::restore of the snapshot's
     ConfState (which round-trips to that ConfState), progress map = exactly the
     members, all fresh, frame (term/vote/role/leader/messages untouched);
   * fast-forward (restore_fastforward): unrequested + matching => only the commit
     index moves, nothing is discarded; rejections (stale / non-follower / non-member);
   * the reply of handle_snapshot (exactly one MsgAppendResponse, its index);
   * the leader sends MsgSnapshot only when the peer is recently active and either
     asked for one or the needed term/entries are unavailable (snapshot_send_guard),
     and then tracks the peer in Snapshot state with pending_snapshot = sent index;
   * resumption: MsgSnapStatus (finish/failure) and a caught-up acknowledgement
     (snapshot_resume, snapshot_resume_step, snapshot_ack);
   * compaction (MemStorage::compact at first < ci <= last, ci <= applied) changes no
     RaftLog query at or above the compaction point (compaction_transparent).

   FINDING F2 — FIXED in /repo by commit 5a0d8a9; the model M/Raft.v follows.
   Before the fix `restore` skipped the fast-forward branch whenever
   pending_request_snapshot <> 0, so a duplicated OLDER MsgSnapshot that matched the
   log was installed and cut the log back (witness: follower with persisted entries
   1..5, commit 4, request pending at 5, MsgSnapshot(4, matching term): entry 5 lost).
   Now a snapshot below the requested index is treated as unrequested:
   * matching_snapshot_below_request_discards_nothing: guards + match_term +
     s_index < pending => only the commit index changes;
   * restore_requested_installs: only a snapshot that can answer the request
     (pending <> 0 and pending <= s_index) is installed regardless of matching;
   * requested_stale_snapshot_keeps_log(_step): REGRESSION GUARD — in exactly the old
     witness state restore answers false and the log is unchanged;
   * requested_snapshot_at/above_request_installed: a snapshot at index 5 or 6 is still
     installed in that state.
   The property sentence "a snapshot whose (index, term) already matches the local log,
   and that the node did not itself request, only advances the commit index and
   discards nothing" is now proved with "did not itself request" read as
   "no request pending, or the snapshot is below the requested index".

   Note (RaftLog model of main after the C14 fixes: explicit u64 overflow/underflow
   sites in must_check_outofbounds / log_entries / maybe_append / next_entries_since):
   no statement below changed.  The per-step theorems have an `= Ok ..` hypothesis, which
   excludes the new sites; compaction_transparent is an equality of results that also
   covers panics, and its hypotheses (ci <= applied <= last_index) make the new
   `last_index + 1 - first_index` underflow test answer the same on both sides.

   NOT PROVED here:
   * the cross-node clause "the state after an install equals that of a node that
     applied the log up to the snapshot index" (needs the protocol-level invariant
     that a snapshot is a committed prefix; DESIGN.md P-level snapshot_equiv);
   * application state (the models carry snapshot metadata only);
   * "compaction changes no other guarantee" beyond the RaftLog queries at or above
     the compaction point (no step-level statement; below the point, and at the
     dummy index ci-1, MemStorage answers Compacted, which turns sends into
     snapshots);
   * the final state of handle_append_response after a caught-up ack is given only up
     to the (verbatim) tail [ack_tail] of the model function;
   * RawNode-level clauses (Ready carrying the snapshot, commit_since_index). *)
From RV Require Import Base.Prelude Base.IdSet M.Util M.Proto M.MemStorage M.MemStorageProofs
  M.Inflights M.Progress M.RaftLog M.ConfChange M.ConfChangeSpec M.Msg M.Raft M.RaftProofsC15.
From RecordUpdate Require Import RecordSet.
Import RecordSetNotations.
Local Open Scope N_scope.

(* 1. A snapshot is installed only if it is not behind the commit index, the node is a
   follower and a member of the snapshot's ConfState, and it is not the case that the
   snapshot is unrequested (no request pending, or below the requested index) and
   already matches the log. *)
Theorem C15_restore_guard :
  forall r s r', restore r s = Ok (r', true) ->
    committed (r_log r) <= s_index s /\ r_state r = Follower /\
    (IdSet.mem (r_id r) (cs_voters (s_cs s)) = true \/
     IdSet.mem (r_id r) (cs_learners (s_cs s)) = true \/
     IdSet.mem (r_id r) (cs_voters_outgoing (s_cs s)) = true) /\
    ~ ((r_pending_request_snapshot r = 0 \/ s_index s < r_pending_request_snapshot r) /\
       match_term (r_log r) (s_index s) (s_term s) = Ok true) /\
    s_index s <> 0.
Proof. exact restore_guard. Qed.
Print Assumptions C15_restore_guard.

(* 2. Complete effect of an install.  [mi] is the tracker's max_inflight. *)
Theorem C15_restore_effect :
  forall r s r', restore r s = Ok (r', true) ->
    let mi := t_max_inflight (r_prs r) in
    let fresh := mkPr 0 (s_index s) Probe false 0 0 true (Inflights.new mi) 0 0 in
    let self := mkPr (s_index s - 1) (s_index s) Probe false 0 0 true (Inflights.new mi) 0 0 in
    exists c' ids',
      ConfChange.restore empty_tracker (s_cs s) = ROk (c', ids') /\
      conf_state_eq (s_cs s) (to_conf_state c') = true /\
      (* closed form: only log, tracker, promotable and the request flag change *)
      r' = r <| r_log := mkLog (store (r_log r)) (mkUn (Some s) [] 0 (s_index s + 1)) (s_index s)
                               (N.min (persisted (r_log r)) (committed (r_log r)))
                               (applied (r_log r)) (max_apply_unpersisted_log_limit (r_log r)) |>
             <| r_prs := mkTr (pput (fresh_progress ids' (s_index s) mi) (r_id r) self)
                              c' [] mi (t_group_commit (r_prs r)) |>
             <| r_promotable := voters_contains c' (r_id r) |>
             <| r_pending_request_snapshot := 0 |> /\
      (* log *)
      committed (r_log r') = s_index s /\
      unst (r_log r') = mkUn (Some s) [] 0 (s_index s + 1) /\
      last_index (r_log r') = s_index s /\
      RaftLog.first_index (r_log r') = Ok (s_index s + 1) /\
      RaftLog.term (r_log r') (s_index s) = Ok (SOk (s_term s)) /\
      persisted (r_log r') = N.min (persisted (r_log r)) (committed (r_log r)) /\
      applied (r_log r') = applied (r_log r) /\
      store (r_log r') = store (r_log r) /\
      (* configuration and progress *)
      conf_of r' = c' /\
      t_votes (r_prs r') = [] /\
      (forall id, get_pr r' id =
         if id =? r_id r then Some self
         else if IdSet.mem id ids' then Some fresh else None) /\
      (forall id, IdSet.mem id (pids (t_progress (r_prs r'))) = is_member c' id) /\
      IdSet.mem (r_id r) ids' = true /\
      r_promotable r' = voters_contains c' (r_id r) /\
      r_pending_request_snapshot r' = 0 /\
      (* frame *)
      r_term r' = r_term r /\ r_vote r' = r_vote r /\ r_state r' = Follower /\
      r_leader_id r' = r_leader_id r /\ r_id r' = r_id r /\ r_msgs r' = r_msgs r.
Proof. exact restore_effect. Qed.
Print Assumptions C15_restore_effect.

(* 3. Fast-forward: unrequested (no request pending, or the snapshot is below the
   requested index) and the snapshot matches the log: only the
   commit index changes (set_committed), nothing is discarded, result false.  (The
   panic case needs a snapshot with term 0 beyond the last index.) *)
Theorem C15_restore_fastforward :
  forall r s,
    committed (r_log r) <= s_index s -> r_state r = Follower ->
    IdSet.mem (r_id r) (cs_voters (s_cs s)) || IdSet.mem (r_id r) (cs_learners (s_cs s))
      || IdSet.mem (r_id r) (cs_voters_outgoing (s_cs s)) = true ->
    (r_pending_request_snapshot r = 0 \/ s_index s < r_pending_request_snapshot r) ->
    match_term (r_log r) (s_index s) (s_term s) = Ok true ->
    (s_index s <= last_index (r_log r) \/ s_index s = committed (r_log r) ->
     restore r s =
     Ok (r <| r_log := mkLog (store (r_log r)) (unst (r_log r)) (s_index s) (persisted (r_log r))
                             (applied (r_log r)) (max_apply_unpersisted_log_limit (r_log r)) |>,
         false)) /\
    (last_index (r_log r) < s_index s -> committed (r_log r) < s_index s ->
     restore r s = Panic site_l_commit_range).
Proof. exact restore_fastforward. Qed.
Print Assumptions C15_restore_fastforward.

(* 4. Rejections. *)
Theorem C15_restore_rejects_stale :
  forall r s, s_index s < committed (r_log r) -> restore r s = Ok (r, false).
Proof. exact restore_rejects_stale. Qed.
Print Assumptions C15_restore_rejects_stale.

Theorem C15_restore_rejects_nonfollower :
  forall r s, committed (r_log r) <= s_index s -> r_state r <> Follower ->
    restore r s = (r' <- become_follower r (r_term r + 1) 0 ;; Ok (r', false)) /\
    forall r' b, restore r s = Ok (r', b) ->
      b = false /\ r_state r' = Follower /\ r_term r' = r_term r + 1 /\ r_vote r' = 0 /\
      r_leader_id r' = 0 /\ r_log r' = set_limit (r_log r) 0 /\ r_msgs r' = r_msgs r /\
      conf_of r' = conf_of r /\ r_pending_request_snapshot r' = r_pending_request_snapshot r.
Proof. exact restore_rejects_nonfollower. Qed.
Print Assumptions C15_restore_rejects_nonfollower.

Theorem C15_restore_rejects_nonmember :
  forall r s, committed (r_log r) <= s_index s -> r_state r = Follower ->
    IdSet.mem (r_id r) (cs_voters (s_cs s)) || IdSet.mem (r_id r) (cs_learners (s_cs s))
      || IdSet.mem (r_id r) (cs_voters_outgoing (s_cs s)) = false ->
    restore r s = Ok (r, false).
Proof. exact restore_rejects_nonmember. Qed.
Print Assumptions C15_restore_rejects_nonmember.

(* 5. handle_snapshot answers with exactly one MsgAppendResponse to the sender whose
   index is last_index after an install, the commit index otherwise. *)
Theorem C15_handle_snapshot_reply :
  forall r m r', handle_snapshot r m = Ok r' ->
    exists r1 ok,
      restore r (m_snapshot m) = Ok (r1, ok) /\
      r_msgs r1 = r_msgs r /\
      r' = r1 <| r_msgs := r_msgs r ++
             [msg_default <| m_type := MsgAppendResponse |> <| m_to := m_from m |>
                <| m_index := if ok then last_index (r_log r1) else committed (r_log r1) |>
                <| m_from := r_id r |> <| m_term := r_term r1 |>] |>.
Proof. exact handle_snapshot_reply. Qed.
Print Assumptions C15_handle_snapshot_reply.

(* A snapshot that can answer the node's own request (request pending, snapshot not
   below the requested index) is installed whenever it passes the guards, matching or
   not, and the log then ends at the snapshot. *)
Theorem C15_restore_requested_installs :
  forall r s r' b,
    committed (r_log r) <= s_index s -> r_state r = Follower ->
    IdSet.mem (r_id r) (cs_voters (s_cs s)) || IdSet.mem (r_id r) (cs_learners (s_cs s))
      || IdSet.mem (r_id r) (cs_voters_outgoing (s_cs s)) = true ->
    r_pending_request_snapshot r <> 0 -> r_pending_request_snapshot r <= s_index s ->
    restore r s = Ok (r', b) ->
    b = true /\ last_index (r_log r') = s_index s /\ u_entries (unst (r_log r')) = [] /\
    committed (r_log r') = s_index s.
Proof. exact restore_requested_installs. Qed.
Print Assumptions C15_restore_requested_installs.

(* F2 fixed: a matching snapshot BELOW the requested index discards nothing: every Ok
   result is "false" and differs from r in the commit index only; the Ok result exists
   whenever the snapshot index is within the log. *)
Theorem C15_matching_snapshot_below_request_discards_nothing :
  forall r s,
    committed (r_log r) <= s_index s -> r_state r = Follower ->
    IdSet.mem (r_id r) (cs_voters (s_cs s)) || IdSet.mem (r_id r) (cs_learners (s_cs s))
      || IdSet.mem (r_id r) (cs_voters_outgoing (s_cs s)) = true ->
    s_index s < r_pending_request_snapshot r ->
    match_term (r_log r) (s_index s) (s_term s) = Ok true ->
    let r_ff :=
      r <| r_log := mkLog (store (r_log r)) (unst (r_log r)) (s_index s) (persisted (r_log r))
                          (applied (r_log r)) (max_apply_unpersisted_log_limit (r_log r)) |> in
    (forall r' b, restore r s = Ok (r', b) -> b = false /\ r' = r_ff) /\
    (s_index s <= last_index (r_log r) -> restore r s = Ok (r_ff, false)).
Proof. exact matching_snapshot_below_request_discards_nothing. Qed.
Print Assumptions C15_matching_snapshot_below_request_discards_nothing.

(* F2 REGRESSION GUARD (w_requested = request_snapshot applied to the follower
   w_follower that holds persisted entries 1..5 of term 1 with commit 4, so the request
   is pending at 5; w_snap = snapshot (4, term 1)): the state in which the stale
   snapshot used to be installed.  Now restore answers false and the log is unchanged. *)
Theorem C15_requested_stale_snapshot_keeps_log :
  let r := w_requested in
  let s := w_snap in
  r_state r = Follower /\ r_pending_request_snapshot r = 5 /\
  last_index (r_log r) = 5 /\ persisted (r_log r) = 5 /\ committed (r_log r) = 4 /\
  s_index s = 4 /\ match_term (r_log r) (s_index s) (s_term s) = Ok true /\
  RaftLog.term (r_log r) 5 = Ok (SOk 1) /\
  exists r', restore r s = Ok (r', false) /\
    r_log r' = r_log r /\ last_index (r_log r') = 5 /\ RaftLog.term (r_log r') 5 = Ok (SOk 1) /\
    persisted (r_log r') = 5 /\ u_snapshot (unst (r_log r')) = None /\
    r_pending_request_snapshot r' = 5.
Proof. exact requested_stale_snapshot_keeps_log. Qed.
Print Assumptions C15_requested_stale_snapshot_keeps_log.

Theorem C15_requested_stale_snapshot_keeps_log_step :
  exists r1 r' mm,
    request_snapshot w_follower = Ok (r1, E_OK) /\
    step r1 w_msg = Ok (r', E_OK) /\
    last_index (r_log r1) = 5 /\ last_index (r_log r') = 5 /\
    r_log r' = r_log r1 /\
    r_msgs r' = r_msgs r1 ++ [mm] /\
    m_type mm = MsgAppendResponse /\ m_index mm = 4 /\ m_reject mm = false.
Proof. exact requested_stale_snapshot_keeps_log_step_full. Qed.
Print Assumptions C15_requested_stale_snapshot_keeps_log_step.

(* positive: in the same state a snapshot at the requested index (5, matching!) or above
   it (6) is installed *)
Theorem C15_requested_snapshot_at_request_installed :
  let r := w_requested in
  let s := mkSnap 5 1 w_cs in
  match_term (r_log r) (s_index s) (s_term s) = Ok true /\
  exists r', restore r s = Ok (r', true) /\
    last_index (r_log r') = 5 /\ committed (r_log r') = 5 /\
    u_snapshot (unst (r_log r')) = Some s /\ r_pending_request_snapshot r' = 0.
Proof. exact requested_snapshot_at_request_installed. Qed.
Print Assumptions C15_requested_snapshot_at_request_installed.

Theorem C15_requested_snapshot_above_request_installed :
  let r := w_requested in
  let s := mkSnap 6 1 w_cs in
  exists r', restore r s = Ok (r', true) /\
    last_index (r_log r') = 6 /\ committed (r_log r') = 6 /\
    RaftLog.term (r_log r') 6 = Ok (SOk 1) /\
    u_snapshot (unst (r_log r')) = Some s /\ r_pending_request_snapshot r' = 0.
Proof. exact requested_snapshot_above_request_installed. Qed.
Print Assumptions C15_requested_snapshot_above_request_installed.

Theorem C15_unrequested_snapshot_keeps_log :
  exists r',
    step w_follower w_msg = Ok (r', E_OK) /\
    last_index (r_log r') = 5 /\ committed (r_log r') = 4 /\ r_log r' = r_log w_follower.
Proof. exact unrequested_snapshot_keeps_log. Qed.
Print Assumptions C15_unrequested_snapshot_keeps_log.

(* 6. The leader emits a MsgSnapshot only under the guard.  Either the multiset of
   queued MsgSnapshot messages is unchanged, or exactly one is appended and: the peer
   is not paused and recently active; it asked for a snapshot or the needed entries /
   the term of next_idx-1 are unavailable; the snapshot is non-empty; the peer is then
   tracked in Snapshot state with pending_snapshot = the index sent. *)
Theorem C15_snapshot_send_guard :
  forall r to pr ae r' pr' b,
    maybe_send_append r to pr ae = Ok (r', pr', b) ->
    filter (fun x => m_type x =? MsgSnapshot) (r_msgs r') =
      filter (fun x => m_type x =? MsgSnapshot) (r_msgs r) \/
    (b = true /\ is_paused pr = false /\ recent_active pr = true /\
     (pending_request_snapshot pr <> 0 \/
      ((exists e, log_entries (r_log r) (next_idx pr) (Some (r_max_msg_size r)) = Ok (SErr e) /\
                  e <> LogTemporarilyUnavailable) \/
       (exists e, RaftLog.term (r_log r) (next_idx pr - 1) = Ok (SErr e)))) /\
     exists sn, raft_snapshot r (pending_request_snapshot pr) to = Ok (SOk sn) /\
       s_index sn <> 0 /\
       pr' = become_snapshot pr (s_index sn) /\
       pr_state pr' = Snapshot /\ pending_snapshot pr' = s_index sn /\
       r' = r <| r_msgs := r_msgs r ++
              [msg_default <| m_to := to |> <| m_type := MsgSnapshot |> <| m_snapshot := sn |>
                 <| m_from := r_id r |> <| m_term := r_term r |>] |>).
Proof. exact snapshot_send_guard. Qed.
Print Assumptions C15_snapshot_send_guard.

(* the entries error of the guard can only be Compacted *)
Theorem C15_log_entries_err :
  forall l i max e, log_entries l i max = Ok (SErr e) ->
    e = Compacted \/ e = LogTemporarilyUnavailable.
Proof. exact log_entries_err. Qed.
Print Assumptions C15_log_entries_err.

(* 7. Resumption after MsgSnapStatus: never panics; a peer in Snapshot state becomes a
   paused Probe with next_idx = max(matched+1, pending_snapshot+1) on finish and
   matched+1 on failure, pending_snapshot = pending_request_snapshot = 0; any other
   peer (or an unknown one) is left unchanged. *)
Theorem C15_snapshot_resume :
  forall r m,
    handle_snapshot_status r m =
    Ok (match get_pr r (m_from m) with
        | None => r
        | Some pr =>
            match pr_state pr with
            | Snapshot =>
                put_pr r (m_from m)
                  (mkPr (matched pr)
                        (if m_reject m then matched pr + 1
                         else N.max (matched pr + 1) (pending_snapshot pr + 1))
                        Probe true 0 0 (recent_active pr) (Inflights.reset (ins pr))
                        (commit_group_id pr) (Progress.committed_index pr))
            | _ => r
            end
        end).
Proof. exact snapshot_resume. Qed.
Print Assumptions C15_snapshot_resume.

Theorem C15_snapshot_resume_step :
  forall r m, m_type m = MsgSnapStatus -> m_term m = 0 -> r_state r = Leader ->
    step r m = (r' <- handle_snapshot_status r m ;; Ok (r', E_OK)).
Proof. exact snapshot_resume_step. Qed.
Print Assumptions C15_snapshot_resume_step.

Theorem C15_snapshot_status_nonleader :
  forall r m, m_type m = MsgSnapStatus -> m_term m = 0 -> r_state r <> Leader ->
    step r m = Ok (r, E_OK).
Proof. exact snapshot_status_nonleader. Qed.
Print Assumptions C15_snapshot_status_nonleader.

(* A successful acknowledgement from a peer in Snapshot state.  If it advances
   [matched]: the peer's progress becomes [acked] — Probe at idx+1 when
   pending_snapshot <= idx (is_snapshot_caught_up), still Snapshot otherwise — and the
   function continues with its tail [ack_tail] (Print ack_tail: the verbatim rest of
   handle_append_response: maybe_commit, bcast/send_append, send_append_aggressively,
   leader transfer).  If it does not advance: only the stored progress changes and the
   peer stays in Snapshot state. *)
Theorem C15_snapshot_ack :
  forall r m pr0,
    get_pr r (m_from m) = Some pr0 -> pr_state pr0 = Snapshot -> m_reject m = false ->
    let idx := m_index m in
    let ci := if Progress.committed_index pr0 <? m_commit m then m_commit m
              else Progress.committed_index pr0 in
    let acked :=
      if pending_snapshot pr0 <=? idx then
        mkPr idx (idx + 1) Probe false 0 (pending_request_snapshot pr0) true
             (Inflights.reset (ins pr0)) (commit_group_id pr0) ci
      else
        mkPr idx (N.max (next_idx pr0) (idx + 1)) Snapshot false (pending_snapshot pr0)
             (pending_request_snapshot pr0) true (ins pr0) (commit_group_id pr0) ci in
    (matched pr0 < idx ->
     handle_append_response r m = ack_tail (put_pr r (m_from m) acked) m true) /\
    (idx <= matched pr0 ->
     exists pr1, handle_append_response r m = Ok (put_pr r (m_from m) pr1) /\
       pr_state pr1 = Snapshot /\ pending_snapshot pr1 = pending_snapshot pr0 /\
       matched pr1 = matched pr0).
Proof. exact snapshot_ack. Qed.
Print Assumptions C15_snapshot_ack.

(* 8. Compaction at first < ci <= last index of the store, ci <= applied: the store
   operation succeeds, and commit/applied/persisted/unstable/last index, every term
   query at i >= ci and every slice / entries query starting at lo >= ci are unchanged;
   the first index becomes ci (unless an unstable snapshot defines it). *)
Theorem C15_compaction_transparent :
  forall l ci,
    RepInv (store l) -> first_of (store l) < ci -> ci < next_of (store l) ->
    ci <= applied l -> applied l <= last_index l ->
    exists m', compact (store l) ci = Ok m' /\ RepInv m' /\ first_of m' = ci /\
      let l' := set_store l m' in
      committed l' = committed l /\ applied l' = applied l /\ persisted l' = persisted l /\
      unst l' = unst l /\ last_index l' = last_index l /\
      RaftLog.first_index l' = match u_maybe_first_index (unst l) with
                               | Some i => Ok i | None => Ok ci end /\
      (forall i, ci <= i -> RaftLog.term l' i = RaftLog.term l i) /\
      (forall lo hi max, ci <= lo -> RaftLog.slice l' lo hi max = RaftLog.slice l lo hi max) /\
      (forall i max, ci <= i -> log_entries l' i max = log_entries l i max).
Proof. exact compaction_transparent. Qed.
Print Assumptions C15_compaction_transparent.

(* ------------------------------------------------------------------ *)
(* Non-vacuity *)

(* an install that succeeds, with a joint ConfState *)
Example C15_example_install :
  let s := mkSnap 7 3 (mkCS [1; 2] [4] [2; 3] [] true) in
  exists r', restore w_follower s = Ok (r', true) /\
    conf_of r' = mkConf [1; 2] [2; 3] [4] [] true /\ last_index (r_log r') = 7 /\
    pids (t_progress (r_prs r')) = [1; 2; 3; 4].
Proof. eexists. split; [vm_compute; reflexivity|]. repeat split; vm_compute; reflexivity. Qed.

(* a leader whose peer needs compacted entries sends a snapshot *)
Example C15_example_send_snapshot :
  exists r' pr' mm,
    maybe_send_append ex_leader 2 (mkPr 0 2 Probe false 0 0 true (Inflights.new 256) 0 0) true
      = Ok (r', pr', true) /\
    r_msgs r' = [mm] /\ m_type mm = MsgSnapshot /\ s_index (m_snapshot mm) = 5 /\
    pr_state pr' = Snapshot /\ pending_snapshot pr' = 5.
Proof.
  eexists. eexists. eexists. split; [vm_compute; reflexivity|].
  repeat split; vm_compute; reflexivity.
Qed.

(* compaction hypotheses are satisfiable: the witness log, compacted at 3 *)
Example C15_example_compaction :
  RepInv (store w_log) /\ first_of (store w_log) < 3 /\ 3 < next_of (store w_log) /\
  3 <= applied w_log /\ applied w_log <= last_index w_log.
Proof.
  split; [|vm_compute; repeat split; try reflexivity; discriminate].
  unfold RepInv. split; [|split]; vm_compute; try reflexivity; try discriminate.
  repeat split; reflexivity.
Qed.

(* ================================================================== *)
(* CROSS-NODE CLAUSE: "after installing a snapshot the node's configuration equals that of
   a node that applied the log up to the snapshot index".  Proofs: M/RaftProofsXnode.v;
   conf_after / ConfIs / describes are defined and pinned in Props/C09.v section 7.

   PROVED: an install (restore = Ok (_, true)) makes the node's configuration AND its set of
   tracked ids exactly ConfChange.restore of the snapshot's ConfState
   (C15_install_conf_is_restore); if that ConfState describes the configuration of a node
   `sender` that applied the changes ccs - e.g. it is the ConfState sender's last
   apply_conf_change returned - the receiver ends with sender's configuration and tracked
   ids, and is itself at ConfIs _ cs0 ccs, so everything it applies afterwards extends the
   same list (C15_install_same_conf, C15_restore_conf_after); through Raft::step on any
   message: the configuration is unchanged or the message is a MsgSnapshot that installed
   (C15_step_snapshot_conf).

   ASSUMED, not proved: that the application builds its snapshots with the ConfState
   returned by its apply_conf_change at the snapshot index (and applies the committed
   membership entries in log order); incoming <> [] (a voter exists), from C12's round trip. *)
From RV Require Import M.ConfChangeProofs M.RaftProofsC17 M.RaftProofsXnode.

Theorem C15_install_conf_is_restore :
  forall r s r',
  restore r s = Ok (r', true) ->
  exists t, ConfChange.restore empty_tracker (s_cs s) = ROk t /\
            (conf_of r', pids (t_progress (r_prs r'))) = t.
Proof. exact restore_true_sk. Qed.
Print Assumptions C15_install_conf_is_restore.

Theorem C15_restore_conf_after :
  forall r s r' cs0 ccs c0 p0,
  restore r s = Ok (r', true) ->
  conf_after cs0 ccs = Some (c0, p0) -> incoming c0 <> [] -> describes (s_cs s) c0 ->
  ConfIs r' cs0 ccs /\ (conf_of r', pids (t_progress (r_prs r'))) = (c0, p0).
Proof. exact restore_ConfIs. Qed.
Print Assumptions C15_restore_conf_after.

Theorem C15_install_same_conf :
  forall sender r s r' cs0 ccs,
  ConfIs sender cs0 ccs -> incoming (conf_of sender) <> [] ->
  describes (s_cs s) (conf_of sender) ->
  restore r s = Ok (r', true) ->
  ConfIs r' cs0 ccs /\ conf_of r' = conf_of sender /\
  pids (t_progress (r_prs r')) = pids (t_progress (r_prs sender)).
Proof. exact install_same_conf. Qed.
Print Assumptions C15_install_same_conf.

Theorem C15_step_snapshot_conf :
  forall r m r' c cs0 ccs ccs' c0 p0,
  ConfIs r cs0 ccs -> step r m = Ok (r', c) ->
  conf_after cs0 ccs' = Some (c0, p0) -> incoming c0 <> [] ->
  describes (s_cs (m_snapshot m)) c0 ->
  ConfIs r' cs0 ccs \/
  (m_type m = MsgSnapshot /\ ConfIs r' cs0 ccs' /\
   (conf_of r', pids (t_progress (r_prs r'))) = (c0, p0)).
Proof. exact step_snapshot_ConfIs. Qed.
Print Assumptions C15_step_snapshot_conf.

(* non-vacuity: the C09 sample follower (voters 1 2 3) installs a snapshot whose ConfState
   (voters 2 3 4, learner 1) is what "add 4; demote 1" gives on the initial voters 1 2 3 *)
Example C15_install_conf_example :
  conf_after XnodeSamples.cs3 [XnodeSamples.cc_add4; XnodeSamples.cc_demote1]
    = Some (mkConf [2; 3; 4] [] [1] [] false, [1; 2; 3; 4]) /\
  describes (s_cs RaftProofsC09.C09Samples.s_snap) (mkConf [2; 3; 4] [] [1] [] false) /\
  exists r', restore RaftProofsC09.C09Samples.s_follower RaftProofsC09.C09Samples.s_snap = Ok (r', true) /\
    (conf_of r', pids (t_progress (r_prs r'))) = (mkConf [2; 3; 4] [] [1] [] false, [1; 2; 3; 4]).
Proof.
  split; [vm_compute; reflexivity|]. split; [repeat split; intros x; reflexivity|].
  eexists. split; vm_compute; reflexivity.
Qed.
