(* C09 — Membership changes: one at a time, configuration is a function of the applied log.
   Only pinned statements (+ non-vacuity examples); proofs live in M/RaftProofsC09.v.

   PROVED here (every per-step statement holds for EVERY state r / node n and EVERY
   message or input; the only hypotheses are the ones written in each theorem):
   * propose_filter, one_conf_per_proposal, pending_blocks_proposal, propose_sets_pending:
     what the MsgPropose filter of step_leader does to each entry of a proposal (kept /
     replaced by an empty normal entry / proposal dropped), what it does to
     pending_conf_index, and that at most one membership-change entry survives per proposal
     (none while one is pending).  propose_spec: the whole MsgPropose path of step_leader.
   * pending_covers, as the invariant ConfBound ("every membership-change entry held by the
     log - unstable or stored - above applied has index <= pending_conf_index"):
     established by become_leader (become_leader_pending / _covers),
     preserved by the leader's MsgPropose path and by commit_apply including the auto-leave
     append (autoleave_sets_pending is part of commit_apply_spec), and kept, as
     "role = Leader -> ConfBound", by EVERY API function of the Raft model (step, tick,
     commit_apply, raft_apply_conf_change, on_persist_entries, on_persist_snap,
     load_state, request_snapshot, ping, adjust_max_inflight_msgs,
     maybe_free_inflight_buffers, set_max_apply_unpersisted_log_limit,
     enable_group_commit, assign_commit_groups) and by every function of the RawNode
     model (the C09_leader_bound theorems).  The only hypothesis, needed where an election can be won
     inside the call, is LogBounded on the pre-state log (before fix 19c179c, which removed
     become_leader's assertion last_index = persisted, it was needed only for a fully
     persisted log; that weaker hypothesis no longer suffices:
     C09_become_leader_covers_persisted_refuted);
     C09_RepInv_gives_bound_no_stale_tail / C09_RepInv_gives_bound derive it from C14's
     RaftLog invariant when no snapshot is pending and the store holds no stale tail.  Consequence (one_pending_own of DESIGN.md): while applied <
     pending_conf_index no membership change passes the filter, and every
     membership-change entry above applied is at or below pending_conf_index.
   * hup_spec / hup_guard / hup_blocked, has_unapplied_spec, scan_conf_false / _true,
     has_unapplied_true_witness: hup campaigns only after has_unapplied_conf_changes
     answered false on [low, committed] with low = pending snapshot index + 1, else
     max(applied + 1, first_index) (hup_window_not_compacted: never below the first index,
     regression guard for /repo a8252b4); what the answer means in
     terms of the pages slice returned; a positive answer exhibits a real log entry.
     step_campaign_guard: through Raft::step a node ends up (pre-)candidate only if nothing
     started, or a pre-candidate won its pre-vote, or hup ran on a promotable node after a
     negative scan.
   * candidate_stepdown and the complete case analysis maybe_commit_by_vote_spec.
   * not_promotable_quiet: tick_election, tick, MsgTimeoutNow through step_follower and
     through step in every role and message term never start a campaign when
     promotable = false; since fix 8deb47c hup itself refuses (hup_nonpromotable), so neither
     do a local MsgHup nor RawNode::campaign (not_promotable_hup_step / _rn_campaign).  promotable_iff_voter after post_conf_change, hence after
     raft_apply_conf_change (apply_conf_change_conf) and restore (restore_true).
   * apply_conf_change_err_untouched, apply_conf_change_conf, apply_conf_change_spec: the
     new configuration is ConfChange.apply_conf_change (previous configuration, tracked
     ids, change), an error leaves the node untouched.  restore_true: after a snapshot
     restore the configuration is ConfChange.restore of the snapshot's ConfState;
     restore_false: a refused snapshot leaves configuration and promotable alone.
   * auto_leave_once.

   NOT proved here (listed honestly):
   * one_pending_log, the first clause read literally ("a leader's WHOLE log never holds
     more than one membership-change entry beyond its applied index"): it is a protocol
     level statement about entries inherited from earlier leaders, and read literally it is
     not true of a node whose applied index lags (Example C09_whole_log_can_hold_two: the
     mechanism then blocks new changes until applied reaches pending_conf_index).
   * LogBounded itself is not proved as an invariant of the node model (it cannot hold for
     arbitrary incoming messages); it is a hypothesis, dischargeable from C14's RepInv
     (C09_RepInv_gives_bound) when no snapshot is pending.  With a pending snapshot the
     store may hold stale entries above last_index and the hypothesis is simply assumed.
   * That a NEGATIVE answer of has_unapplied_conf_changes means "no membership-change
     entry with index in the window" needs slice correctness (C14 slice_abs, currently not
     in the build); here the answer is characterised by the pages slice returned.
   * conf_function, the cross-node clause "nodes at the same applied index have identical
     configurations, also after restart": protocol level (P phase 2, K1 + C01 + C12).
     Proved here is only its per-node building block (apply_conf_change_spec, restore_true).
   * The model has no Raft::new, so "promotable <=> voter after new" is not stated.

   OBSERVATION (Example C09_dropped_proposal_raises_pending; same in raft.rs): a proposal
   that is DROPPED (uncommitted-size limit, or a later entry fails to decode) may already
   have raised pending_conf_index; the next valid membership proposal is then answered Ok
   but replaced by an empty normal entry. *)
From RV Require Import Base.Prelude Base.IdSet M.Util M.Proto M.MemStorage M.Progress M.RaftLog
  M.ConfChange M.Msg M.Raft M.RawNode M.RaftProofs M.RaftProofsC09.
From RecordUpdate Require Import RecordSet.
Import RecordSetNotations.
Local Open Scope N_scope.

(* ================================================================== *)
(* 1. the proposal filter *)

(* filter_conf_changes r ents info i = (r', ents', ok), with info the decoder oracle
   (0 not a conf entry, 1 decode error, 2 decoded/empty = leave, 3 decoded/non-empty):
   - the output has the same length; only pending_conf_index of r can change;
   - ok = false (proposal dropped) iff some membership-change entry has info 1;
   - otherwise, with rk the filter state when it examines position k (= the state after
     filtering the first k entries): a non-conf entry is kept; a conf entry is kept
     unchanged iff nothing is pending at rk /\ (joint -> it is a leave, info <> 3) /\
     (not joint -> info = 3), and then pending_conf_index becomes
     last_index + i + k + 1, the index the entry will get; otherwise it is replaced by
     entry_default (an empty EntryNormal) and the state is unchanged. *)
Theorem C09_propose_filter :
  forall r ents info i r' ents' ok,
  filter_conf_changes r ents info i = (r', ents', ok) ->
  length ents' = length ents /\
  r' = r <| r_pending_conf_index := r_pending_conf_index r' |> /\
  (ok = false <->
     exists k e, nth_error ents k = Some e /\ is_conf_entry e = true /\ nth k info 0 = 1) /\
  (ok = true ->
     fst (fst (filter_conf_changes r (firstn (length ents) ents) info i)) = r' /\
     forall k e, nth_error ents k = Some e ->
       let rk := fst (fst (filter_conf_changes r (firstn k ents) info i)) in
       let rk1 := fst (fst (filter_conf_changes r (firstn (S k) ents) info i)) in
       (is_conf_entry e = false -> nth_error ents' k = Some e /\ rk1 = rk) /\
       (is_conf_entry e = true ->
          nth k info 0 <> 1 /\
          (((has_pending_conf rk = false /\
             (ConfChange.joint (conf_of rk) = true -> nth k info 0 <> 3) /\
             (ConfChange.joint (conf_of rk) = false -> nth k info 0 = 3)) /\
            nth_error ents' k = Some e /\
            rk1 = rk <| r_pending_conf_index := last_index (r_log r) + i + N.of_nat k + 1 |>) \/
           (~ (has_pending_conf rk = false /\
               (ConfChange.joint (conf_of rk) = true -> nth k info 0 <> 3) /\
               (ConfChange.joint (conf_of rk) = false -> nth k info 0 = 3)) /\
            nth_error ents' k = Some entry_default /\ rk1 = rk)))).
Proof. exact propose_filter. Qed.
Print Assumptions C09_propose_filter.

(* At most one membership-change entry survives in one proposal; none while one is pending. *)
Theorem C09_one_conf_per_proposal :
  forall ents r info i r' ents',
  filter_conf_changes r ents info i = (r', ents', true) ->
  applied (r_log r) <= last_index (r_log r) ->
  (length (List.filter is_conf_entry ents') <= 1)%nat.
Proof. exact one_conf_per_proposal. Qed.
Print Assumptions C09_one_conf_per_proposal.

Theorem C09_pending_blocks_proposal :
  forall ents r info i r' ents',
  filter_conf_changes r ents info i = (r', ents', true) ->
  has_pending_conf r = true ->
  length (List.filter is_conf_entry ents') = 0%nat /\ r' = r.
Proof. exact filter_pending_blocks. Qed.
Print Assumptions C09_pending_blocks_proposal.

(* every surviving membership-change entry (position k gets index last_index+i+k+1) is
   covered by the resulting pending_conf_index *)
Theorem C09_propose_sets_pending :
  forall ents r info i r' ents',
  filter_conf_changes r ents info i = (r', ents', true) ->
  forall k e, nth_error ents' k = Some e -> is_conf_entry e = true ->
    last_index (r_log r) + i + N.of_nat k + 1 <= r_pending_conf_index r'.
Proof. exact filter_conf_bound. Qed.
Print Assumptions C09_propose_sets_pending.

Example C09_filter_example :
  let '(r', ents', ok) := filter_conf_changes C09Samples.s_leader
                            (m_entries C09Samples.s_prop) (m_ccinfo C09Samples.s_prop) 0 in
  ok = true /\ r_pending_conf_index r' = 4 /\
  map is_conf_entry ents' = [true; false; false] /\
  map is_conf_entry (m_entries C09Samples.s_prop) = [true; true; false].
Proof. vm_compute. repeat split. Qed.

(* ================================================================== *)
(* 2. pending_conf_index covers every membership-change entry above applied *)

(* the invariant, spelled out *)
Theorem C09_ConfBound_def :
  forall r, ConfBound r <->
    (forall e, In e (u_entries (unst (r_log r))) \/ In e (entries (store (r_log r))) ->
       is_conf_entry e = true -> applied (r_log r) < e_index e ->
       e_index e <= r_pending_conf_index r).
Proof. exact C09_ConfBound_def_pin. Qed.
Print Assumptions C09_ConfBound_def.

Theorem C09_LogBounded_def :
  forall l, LogBounded l <->
    (forall e, In e (u_entries (unst l)) \/ In e (entries (store l)) -> e_index e <= last_index l).
Proof. exact C09_LogBounded_def_pin. Qed.
Print Assumptions C09_LogBounded_def.

(* become_leader: pending_conf_index := the last index before the no-op entry *)
Theorem C09_become_leader_pending :
  forall r r', become_leader r = Ok r' ->
    r_state r' = Leader /\
    r_pending_conf_index r' = last_index (r_log r) /\
    last_index (r_log r') = last_index (r_log r) + 1 /\
    r_term r' = r_term r /\ conf_of r' = conf_of r /\ r_id r' = r_id r /\
    r_promotable r' = r_promotable r /\ r_msgs r' = r_msgs r /\
    (forall p, ConfBoundP (r_log r) p -> ConfBoundP (r_log r') p) /\
    applied (r_log r') = applied (r_log r) /\ store (r_log r') = store (r_log r).
Proof. exact become_leader_spec. Qed.
Print Assumptions C09_become_leader_pending.

Theorem C09_become_leader_covers :
  forall r r', become_leader r = Ok r' -> LogBounded (r_log r) ->
    ConfBound r' /\ r_state r' = Leader.
Proof. exact become_leader_ConfBound. Qed.
Print Assumptions C09_become_leader_covers.

Example C09_become_leader_example :
  exists r', become_leader C09Samples.s_candidate = Ok r' /\
    r_pending_conf_index r' = 3 /\ last_index (r_log r') = 4.
Proof. eexists. split; [vm_compute; reflexivity|]. vm_compute. split; reflexivity. Qed.

(* fix 19c179c: a single-voter follower with an unpersisted tail (last_index 2 > persisted 1)
   campaigns and becomes leader - no panic - with its own Progress matched = persisted *)
Example C09_leader_with_unpersisted_tail_example :
  last_index (r_log C09Samples.s_solo_tail) = 2 /\ persisted (r_log C09Samples.s_solo_tail) = 1 /\
  exists r', hup C09Samples.s_solo_tail false = Ok r' /\
    r_state r' = Leader /\ r_term r' = 3 /\ last_index (r_log r') = 3 /\
    persisted (r_log r') = 1 /\ r_pending_conf_index r' = 2 /\
    option_map matched (get_pr r' (r_id r')) = Some (persisted (r_log r')).
Proof.
  split; [vm_compute; reflexivity|]. split; [vm_compute; reflexivity|].
  eexists. split; [vm_compute; reflexivity|]. vm_compute. repeat split.
Qed.

(* the MsgPropose path of step_leader, completely *)
Theorem C09_propose_spec :
  forall r m r' c,
  m_type m = MsgPropose -> step_leader r m = Ok (r', c) ->
  (c = E_PROPOSAL_DROPPED /\ r_log r' = r_log r /\ r_state r' = r_state r /\ r_msgs r' = r_msgs r /\
   (r_pending_conf_index r' = r_pending_conf_index r \/
    (has_pending_conf r = false /\ last_index (r_log r) + 1 <= r_pending_conf_index r'))) \/
  (c = E_OK /\ exists r1 ents l' z r2,
     filter_conf_changes r (m_entries m) (m_ccinfo m) 0 = (r1, ents, true) /\
     log_append (r_log r) (stamp ents (r_term r) (last_index (r_log r) + 1)) = Ok (l', z) /\
     same_ctl r1 r2 /\ r_log r2 = l' /\ fr r2 r').
Proof. exact step_leader_propose_spec. Qed.
Print Assumptions C09_propose_spec.

Theorem C09_propose_keeps_bound :
  forall r m r' c,
  m_type m = MsgPropose -> step_leader r m = Ok (r', c) -> ConfBound r -> ConfBound r'.
Proof. exact step_leader_propose_ConfBound. Qed.
Print Assumptions C09_propose_keeps_bound.

Example C09_propose_example :
  exists r', step_leader C09Samples.s_leader C09Samples.s_prop = Ok (r', E_OK) /\
    r_pending_conf_index r' = 4 /\
    map (fun e => (e_index e, is_conf_entry e)) (u_entries (unst (r_log r')))
      = [(4, true); (5, false); (6, false)].
Proof. eexists. split; [vm_compute; reflexivity|]. vm_compute. split; reflexivity. Qed.

(* Observation (behaviour of the real code as well, raft.rs step_leader MsgPropose: the
   filter loop assigns pending_conf_index before append_entry / before a later decode
   error): a DROPPED proposal can still raise pending_conf_index.  Nothing is appended,
   yet has_pending_conf becomes true; the next (valid) membership proposal is then
   accepted with E_OK but silently replaced by an empty normal entry. *)
Example C09_dropped_proposal_raises_pending :
  (exists r1, step_leader C09Samples.s_leader_full C09Samples.s_prop1 = Ok (r1, E_PROPOSAL_DROPPED) /\
     r_log r1 = r_log C09Samples.s_leader_full /\
     has_pending_conf C09Samples.s_leader_full = false /\ has_pending_conf r1 = true /\
     r_pending_conf_index r1 = 4 /\
     exists r2, step_leader r1 C09Samples.s_prop1 = Ok (r2, E_OK) /\
       map (fun e => (e_index e, e_type e, e_data e)) (u_entries (unst (r_log r2)))
         = [(4, EntryNormal, [])]) /\
  (exists r1, step_leader C09Samples.s_leader C09Samples.s_prop_bad = Ok (r1, E_PROPOSAL_DROPPED) /\
     r_log r1 = r_log C09Samples.s_leader /\ r_pending_conf_index r1 = 4).
Proof.
  split.
  - eexists. split; [vm_compute; reflexivity|]. split; [reflexivity|]. split; [reflexivity|].
    split; [reflexivity|]. split; [reflexivity|].
    eexists. split; [vm_compute; reflexivity|]. vm_compute. reflexivity.
  - eexists. split; [vm_compute; reflexivity|]. split; reflexivity.
Qed.

(* commit_apply: complete description, preservation of the bound, auto-leave *)
Theorem C09_commit_apply_spec :
  forall r app skip r',
  commit_apply_internal r app skip = Ok r' ->
  exists l1, apply_step (r_log r) app skip = Ok l1 /\
    if auto_leave (conf_of r) && (applied (r_log r) <=? r_pending_conf_index r)
       && (r_pending_conf_index r <=? app) && is_leader r
    then
      exists l2 z,
        log_append l1 (stamp [mkEntry EntryConfChangeV2 0 0 [] []] (r_term r)
                             (last_index (r_log r) + 1)) = Ok (l2, z) /\
        r_log r' = l2 /\
        r_pending_conf_index r' = last_index l2 /\
        last_index l2 = last_index (r_log r) + 1 /\
        r_state r' = r_state r /\ conf_of r' = conf_of r /\ r_id r' = r_id r /\
        r_promotable r' = r_promotable r /\ r_term r' = r_term r /\ r_msgs r' = r_msgs r
    else r' = r <| r_log := l1 |>.
Proof. exact commit_apply_internal_spec. Qed.
Print Assumptions C09_commit_apply_spec.

Theorem C09_commit_apply_keeps_bound :
  forall r app skip r',
  commit_apply_internal r app skip = Ok r' ->
  (skip = false \/ applied (r_log r) <= app) ->
  ConfBound r -> ConfBound r'.
Proof. exact commit_apply_internal_ConfBound. Qed.
Print Assumptions C09_commit_apply_keeps_bound.

(* 7. auto-leave is proposed once *)
Theorem C09_auto_leave_once :
  forall r app r',
  commit_apply r app = Ok r' ->
  auto_leave (conf_of r) && (applied (r_log r) <=? r_pending_conf_index r)
    && (r_pending_conf_index r <=? app) && is_leader r = true ->
  committed (r_log r) <= last_index (r_log r) ->
  r_state r = Leader /\ auto_leave (conf_of r) = true /\
  applied (r_log r) <= r_pending_conf_index r <= app /\
  r_pending_conf_index r' = last_index (r_log r) + 1 /\
  last_index (r_log r') = last_index (r_log r) + 1 /\
  applied (r_log r') < r_pending_conf_index r' /\
  auto_leave (conf_of r') && (applied (r_log r') <=? r_pending_conf_index r')
    && (r_pending_conf_index r' <=? app) && is_leader r' = false /\
  commit_apply r' app = Ok r'.
Proof. exact auto_leave_once. Qed.
Print Assumptions C09_auto_leave_once.

Example C09_auto_leave_example :
  exists r', commit_apply C09Samples.s_leader_joint 3 = Ok r' /\
    auto_leave_cond C09Samples.s_leader_joint (applied (r_log C09Samples.s_leader_joint)) 3 = true /\
    r_pending_conf_index r' = 4 /\ applied (r_log r') = 3 /\
    map (fun e => (e_index e, e_type e, e_data e)) (u_entries (unst (r_log r')))
      = [(4, EntryConfChangeV2, [])].
Proof. eexists. split; [vm_compute; reflexivity|]. vm_compute. repeat split. Qed.

(* Before fix 19c179c become_leader asserted last_index = persisted and the bound on the log
   was needed only for a fully persisted log (C09_become_leader_covers_persisted).  That
   statement is FALSE of the fixed model - a candidate whose unstable entries have truncated
   the log under a stale stored tail may now become leader - so the hypothesis of every
   election theorem below is LogBounded itself: *)
Theorem C09_become_leader_covers_persisted_refuted :
  exists r r', become_leader r = Ok r' /\
    (last_index (r_log r) = persisted (r_log r) -> LogBounded (r_log r)) /\
    ~ ConfBound r'.
Proof. exact become_leader_covers_persisted_refuted. Qed.
Print Assumptions C09_become_leader_covers_persisted_refuted.

(* LogBounded follows from the RaftLog representation invariant of C14 (M/RaftLogProofs.v)
   when no snapshot is pending and the store does not reach beyond the log's last index
   (no stale stored tail): in particular for a log whose unstable entries extend the store
   (a single voter leading with an unpersisted tail) ... *)
Theorem C09_RepInv_gives_bound_no_stale_tail :
  forall rw l, RaftLogProofs.RepInv rw l -> u_snapshot (unst l) = None ->
    storage_last_index (store l) <= last_index l -> LogBounded l.
Proof. exact RepInv_LBP. Qed.
Print Assumptions C09_RepInv_gives_bound_no_stale_tail.

(* ... and for a fully persisted log (the statement pinned before the fix, still true) *)
Theorem C09_RepInv_gives_bound :
  forall rw l, RaftLogProofs.RepInv rw l -> u_snapshot (unst l) = None ->
    (last_index l = persisted l -> LogBounded l).
Proof. exact RepInv_bound_persisted. Qed.
Print Assumptions C09_RepInv_gives_bound.

(* ConfBound covers in particular the logical log of C14 *)
Theorem C09_ConfBound_logical :
  forall r, ConfBound r ->
  forall e, In e (RaftLogProofs.ll_ents (RaftLogProofs.abs (r_log r))) ->
    is_conf_entry e = true -> applied (r_log r) < e_index e ->
    e_index e <= r_pending_conf_index r.
Proof. exact ConfBound_logical. Qed.
Print Assumptions C09_ConfBound_logical.

(* ------------------------------------------------------------------ *)
(* the leader invariant "r_state r = Leader -> ConfBound r" is kept by EVERY API function
   of the node model.  The bound on the pre-state log is needed only where an election can
   be won inside the call (become_leader sets pending_conf_index := last_index); since fix
   19c179c it is LogBounded itself, no longer "last_index = persisted -> LogBounded". *)

Theorem C09_leader_bound_step :
  forall r m r' c,
  step r m = Ok (r', c) ->
  LogBounded (r_log r) ->
  (r_state r = Leader -> ConfBound r) -> (r_state r' = Leader -> ConfBound r').
Proof. exact step_LInv. Qed.
Print Assumptions C09_leader_bound_step.

Theorem C09_leader_bound_tick :
  forall r r' b,
  tick r = Ok (r', b) ->
  LogBounded (r_log r) ->
  (r_state r = Leader -> ConfBound r) -> (r_state r' = Leader -> ConfBound r').
Proof. exact tick_LInv. Qed.
Print Assumptions C09_leader_bound_tick.

Theorem C09_leader_bound_commit_apply :
  forall r app r',
  commit_apply r app = Ok r' ->
  (r_state r = Leader -> ConfBound r) -> (r_state r' = Leader -> ConfBound r').
Proof. exact commit_apply_LInv. Qed.
Print Assumptions C09_leader_bound_commit_apply.

Theorem C09_leader_bound_apply_conf_change :
  forall r cc r' ocs,
  raft_apply_conf_change r cc = Ok (r', ocs) ->
  (r_state r = Leader -> ConfBound r) -> (r_state r' = Leader -> ConfBound r').
Proof. exact raft_apply_conf_change_LInv. Qed.
Print Assumptions C09_leader_bound_apply_conf_change.

Theorem C09_leader_bound_on_persist_entries :
  forall r i t r',
  on_persist_entries r i t = Ok r' ->
  (r_state r = Leader -> ConfBound r) -> (r_state r' = Leader -> ConfBound r').
Proof. exact on_persist_entries_LInv. Qed.
Print Assumptions C09_leader_bound_on_persist_entries.

Theorem C09_leader_bound_on_persist_snap :
  forall r i r',
  on_persist_snap r i = Ok r' ->
  (r_state r = Leader -> ConfBound r) -> (r_state r' = Leader -> ConfBound r').
Proof. exact on_persist_snap_LInv. Qed.
Print Assumptions C09_leader_bound_on_persist_snap.

Theorem C09_leader_bound_misc_api :
  (forall r hs r', load_state r hs = Ok r' -> LInv r -> LInv r') /\
  (forall r r' c, request_snapshot r = Ok (r', c) -> LInv r -> LInv r') /\
  (forall r r', ping r = Ok r' -> LInv r -> LInv r') /\
  (forall r t c r', adjust_max_inflight_msgs r t c = Ok r' -> LInv r -> LInv r') /\
  (forall r, LInv r -> LInv (maybe_free_inflight_buffers r)) /\
  (forall r k, LInv r -> LInv (set_max_apply_unpersisted_log_limit r k)) /\
  (forall r e r', enable_group_commit r e = Ok r' -> LInv r -> LInv r') /\
  (forall r ids r', assign_commit_groups r ids = Ok r' -> LInv r -> LInv r').
Proof. exact misc_api_LInv. Qed.
Print Assumptions C09_leader_bound_misc_api.

(* LInv r := r_state r = Leader -> ConfBound r;  RInv n := LInv (rn_raft n);
   RB n := LBP (r_log (rn_raft n)), LBP l := LogBounded l *)
Theorem C09_LInv_def : forall r, LInv r <-> (r_state r = Leader -> ConfBound r).
Proof. exact C09_LInv_def_pin. Qed.
Print Assumptions C09_LInv_def.

Theorem C09_RInv_def :
  forall n, (RInv n <-> (r_state (rn_raft n) = Leader -> ConfBound (rn_raft n))) /\
            (RB n <-> LogBounded (r_log (rn_raft n))).
Proof. exact C09_RInv_def_pin. Qed.
Print Assumptions C09_RInv_def.

(* the whole RawNode API *)
Theorem C09_leader_bound_rawnode :
  (forall n m n' c, rn_step n m = Ok (n', c) -> RB n -> RInv n -> RInv n') /\
  (forall n n' b, rn_tick n = Ok (n', b) -> RB n -> RInv n -> RInv n') /\
  (forall n n' c, rn_campaign n = Ok (n', c) -> RB n -> RInv n -> RInv n') /\
  (forall n ctx data n' c, rn_propose n ctx data = Ok (n', c) -> RB n -> RInv n -> RInv n') /\
  (forall n ctx data ty ci n' c,
     rn_propose_conf_change n ctx data ty ci = Ok (n', c) -> RB n -> RInv n -> RInv n') /\
  (forall n cc n' ocs, rn_apply_conf_change n cc = Ok (n', ocs) -> RInv n -> RInv n') /\
  (forall n n', rn_ping n = Ok n' -> RInv n -> RInv n') /\
  (forall n n' rd, rn_ready n = Ok (n', rd) -> RInv n -> RInv n') /\
  (forall n k n', rn_on_persist_ready n k = Ok n' -> RInv n -> RInv n') /\
  (forall n rd n' lr, rn_advance_append n rd = Ok (n', lr) -> RInv n -> RInv n') /\
  (forall n rd n', rn_advance_append_async n rd = Ok n' -> RInv n -> RInv n') /\
  (forall n app n', rn_advance_apply_to n app = Ok n' -> RInv n -> RInv n') /\
  (forall n n', rn_advance_apply n = Ok n' -> RInv n -> RInv n') /\
  (forall n rd n' lr, rn_advance n rd = Ok (n', lr) -> RInv n -> RInv n') /\
  (forall n id n', rn_report_unreachable n id = Ok n' -> RB n -> RInv n -> RInv n') /\
  (forall n id f n', rn_report_snapshot n id f = Ok n' -> RB n -> RInv n -> RInv n') /\
  (forall n n' c, rn_request_snapshot n = Ok (n', c) -> RInv n -> RInv n') /\
  (forall n t n', rn_transfer_leader n t = Ok n' -> RB n -> RInv n -> RInv n') /\
  (forall n ctx n', rn_read_index n ctx = Ok n' -> RB n -> RInv n -> RInv n').
Proof.
  exact (conj rn_step_RInv (conj rn_tick_RInv (conj rn_campaign_RInv (conj rn_propose_RInv
        (conj rn_propose_conf_change_RInv (conj rn_apply_conf_change_RInv (conj rn_ping_RInv
        (conj rn_ready_RInv (conj rn_on_persist_ready_RInv (conj rn_advance_append_RInv
        (conj rn_advance_append_async_RInv (conj rn_advance_apply_to_RInv
        (conj rn_advance_apply_RInv (conj rn_advance_RInv (conj rn_report_unreachable_RInv
        (conj rn_report_snapshot_RInv (conj rn_request_snapshot_RInv
        (conj rn_transfer_leader_RInv rn_read_index_RInv)))))))))))))))))).
Qed.
Print Assumptions C09_leader_bound_rawnode.

(* non-vacuity: a concrete leader satisfies the hypotheses, and after a proposal the
   invariant is tight (the surviving membership change sits exactly at pending_conf_index) *)
Example C09_leader_bound_example :
  LogBounded (r_log C09Samples.s_leader) /\ ConfBound C09Samples.s_leader /\
  r_state C09Samples.s_leader = Leader /\
  exists r', step C09Samples.s_leader C09Samples.s_prop = Ok (r', E_OK) /\
    r_state r' = Leader /\ ConfBound r' /\
    exists e, In e (u_entries (unst (r_log r'))) /\ is_conf_entry e = true /\
              applied (r_log r') < e_index e /\ e_index e = r_pending_conf_index r'.
Proof.
  assert (Hb : LogBounded (r_log C09Samples.s_leader)).
  { intros e [H|H]; vm_compute in H; [contradiction|].
    repeat destruct H as [H|H]; try contradiction; subst e; vm_compute; discriminate. }
  assert (Hc : ConfBound C09Samples.s_leader).
  { intros e [H|H] Hcf Ha; vm_compute in H; [contradiction|].
    repeat destruct H as [H|H]; try contradiction; subst e; vm_compute in Hcf; discriminate. }
  split; [exact Hb|]. split; [exact Hc|]. split; [reflexivity|].
  eexists. split; [vm_compute; reflexivity|]. split; [reflexivity|]. split.
  - refine (C09_leader_bound_step C09Samples.s_leader C09Samples.s_prop _ E_OK _ Hb
              (fun _ => Hc) _); [vm_compute; reflexivity|reflexivity].
  - eexists. split; [left; reflexivity|]. vm_compute. repeat split.
Qed.

(* Observation (not a defect of the mechanism, but of the literal wording of the first
   clause): a leader's WHOLE log can hold two membership-change entries above its own
   applied index - e.g. a node restarted with a lagging commit/applied index that then
   wins an election.  pending_conf_index = 3 covers both, so no further change is
   accepted until applied reaches 3. *)
Example C09_whole_log_can_hold_two :
  exists r', hup C09Samples.s_solo false = Ok r' /\ r_state r' = Leader /\
    applied (r_log r') = 1 /\ r_pending_conf_index r' = 3 /\
    map (fun e => (e_index e, is_conf_entry e)) (entries (store (r_log r')))
      = [(1, false); (2, true); (3, true)].
Proof. eexists. split; [vm_compute; reflexivity|]. vm_compute. repeat split. Qed.

(* ================================================================== *)
(* 3. no campaign while a committed membership change is unapplied *)

Theorem C09_hup_spec :
  forall r tl r',
  hup r tl = Ok r' ->
  (is_leader r = true /\ r' = r) \/
  (is_leader r = false /\ r_promotable r = false /\ r' = r) \/
  (is_leader r = false /\ r_promotable r = true /\
   (exists low, (match u_maybe_first_index (unst (r_log r)) with
                    | Some i => Ok i
                    | None => fi <- first_index (r_log r) ;; Ok (N.max (applied (r_log r) + 1) fi)
                    end) = Ok low /\
      has_unapplied_conf_changes r low (committed (r_log r) + 1) = Ok true) /\ r' = r) \/
  (is_leader r = false /\ r_promotable r = true /\
   (exists low, (match u_maybe_first_index (unst (r_log r)) with
                    | Some i => Ok i
                    | None => fi <- first_index (r_log r) ;; Ok (N.max (applied (r_log r) + 1) fi)
                    end) = Ok low /\
      has_unapplied_conf_changes r low (committed (r_log r) + 1) = Ok false) /\
   (if tl then campaign_real true r
    else if r_pre_vote r then campaign_pre r else campaign_real false r) = Ok r').
Proof. exact hup_spec. Qed.
Print Assumptions C09_hup_spec.

(* any change made by hup - becoming (pre-)candidate or leader, raising the term, sending
   a vote request - implies the node is promotable and the scan answered "no unapplied
   membership change" *)
Theorem C09_hup_guard :
  forall r tl r',
  hup r tl = Ok r' -> r' <> r ->
  is_leader r = false /\ r_promotable r = true /\
  (exists low, (match u_maybe_first_index (unst (r_log r)) with
                    | Some i => Ok i
                    | None => fi <- first_index (r_log r) ;; Ok (N.max (applied (r_log r) + 1) fi)
                    end) = Ok low /\
     has_unapplied_conf_changes r low (committed (r_log r) + 1) = Ok false).
Proof. exact C09_hup_guard_pin. Qed.
Print Assumptions C09_hup_guard.

Theorem C09_hup_blocked :
  forall r tl,
  (exists low, (match u_maybe_first_index (unst (r_log r)) with
                    | Some i => Ok i
                    | None => fi <- first_index (r_log r) ;; Ok (N.max (applied (r_log r) + 1) fi)
                    end) = Ok low /\
     has_unapplied_conf_changes r low (committed (r_log r) + 1) = Ok true) ->
  hup r tl = Ok r.
Proof. exact hup_blocked. Qed.
Print Assumptions C09_hup_blocked.

(* regression guard (defect fixed in /repo a8252b4): without a pending unstable snapshot the
   window hup scans starts at or above the log's first index - it never reads compacted
   entries - and at or above applied + 1 *)
Theorem C09_hup_window_not_compacted :
  forall r tl r',
  hup r tl = Ok r' -> is_leader r = false -> r_promotable r = true ->
  u_maybe_first_index (unst (r_log r)) = None ->
  exists low fi b,
    (match u_maybe_first_index (unst (r_log r)) with
                    | Some i => Ok i
                    | None => fi <- first_index (r_log r) ;; Ok (N.max (applied (r_log r) + 1) fi)
                    end) = Ok low /\
    first_index (r_log r) = Ok fi /\ fi <= low /\ applied (r_log r) + 1 <= low /\
    has_unapplied_conf_changes r low (committed (r_log r) + 1) = Ok b.
Proof. exact hup_window_not_compacted. Qed.
Print Assumptions C09_hup_window_not_compacted.

(* a follower whose storage was compacted to index 5 by a stabilized snapshot while applied
   is still 2: applied + 1 = 3 < first_index = 6.  Scanning from applied + 1 (the old window)
   panics on the compacted range; hup scans [6, 7) and campaigns *)
Example C09_hup_after_compaction_example :
  applied (r_log C09Samples.s_compacted) + 1 = 3 /\
  first_index (r_log C09Samples.s_compacted) = Ok 6 /\
  u_maybe_first_index (unst (r_log C09Samples.s_compacted)) = None /\
  is_ok (has_unapplied_conf_changes C09Samples.s_compacted 3 7) = false /\
  has_unapplied_conf_changes C09Samples.s_compacted 6 7 = Ok false /\
  (exists r', hup C09Samples.s_compacted false = Ok r' /\ r_state r' = Candidate /\ r_term r' = 3).
Proof.
  repeat (split; [vm_compute; reflexivity|]).
  eexists. split; [vm_compute; reflexivity|]. vm_compute. split; reflexivity.
Qed.

Theorem C09_has_unapplied_spec :
  forall r lo hi b,
  has_unapplied_conf_changes r lo hi = Ok b ->
  (committed (r_log r) <= applied (r_log r) /\ b = false) \/
  (applied (r_log r) < committed (r_log r) /\
   scan_conf (r_log r) (S (N.to_nat (hi - lo))) lo hi (r_max_committed_size_per_ready r) = Ok b).
Proof. exact has_unapplied_spec. Qed.
Print Assumptions C09_has_unapplied_spec.

(* scan_chain l hi page lo pages lo': [pages] are the successive non-empty, conf-free
   results of slice l _ hi (Some page) read from lo, ending at lo' (see its definition) *)
Theorem C09_scan_conf_false :
  forall l fuel lo hi page,
  scan_conf l fuel lo hi page = Ok false ->
  exists pages lo', scan_chain l hi page lo pages lo' /\ hi <= lo'.
Proof. exact scan_conf_false. Qed.
Print Assumptions C09_scan_conf_false.

Theorem C09_scan_conf_true :
  forall l fuel lo hi page,
  scan_conf l fuel lo hi page = Ok true ->
  exists pages lo' ents, scan_chain l hi page lo pages lo' /\ lo' < hi /\
    slice l lo' hi (Some page) = Ok (SOk ents) /\ existsb is_conf_entry ents = true.
Proof. exact scan_conf_true. Qed.
Print Assumptions C09_scan_conf_true.

Example C09_hup_blocked_example :
  has_unapplied_conf_changes C09Samples.s_follower_cc 3 4 = Ok true /\
  hup C09Samples.s_follower_cc false = Ok C09Samples.s_follower_cc /\
  (exists r', hup C09Samples.s_follower false = Ok r' /\ r_state r' = Candidate /\ r_term r' = 3).
Proof.
  split; [vm_compute; reflexivity|]. split; [vm_compute; reflexivity|].
  eexists. split; [vm_compute; reflexivity|]. vm_compute. split; reflexivity.
Qed.

(* a positive scan is witnessed by a membership-change entry the log really holds *)
Theorem C09_has_unapplied_true_witness :
  forall r lo hi,
  has_unapplied_conf_changes r lo hi = Ok true ->
  exists e, (In e (u_entries (unst (r_log r))) \/ In e (entries (store (r_log r)))) /\
            is_conf_entry e = true.
Proof. exact has_unapplied_true_witness. Qed.
Print Assumptions C09_has_unapplied_true_witness.

(* Through Raft::step, for every state and message: if the node ends up (pre-)candidate
   then either nothing started (same role, same term), or it is a pre-candidate that just
   won the pre-vote, or hup ran on the post-prologue state r1 (r itself, or r stepped down
   to the message's higher term) and its scan answered false. *)
Theorem C09_step_campaign_guard :
  forall r m r' c,
  step r m = Ok (r', c) ->
  (r_state r' = Candidate \/ r_state r' = PreCandidate) ->
  (r_state r' = r_state r /\ r_term r' = r_term r) \/
  (r_state r = PreCandidate /\ r_state r' = Candidate /\ m_type m = MsgRequestPreVoteResponse) \/
  (exists r1 tl,
     (r1 = r \/ exists l, r_term r < m_term m /\ become_follower r (m_term m) l = Ok r1) /\
     is_leader r1 = false /\ r_promotable r1 = true /\
     (exists low, (match u_maybe_first_index (unst (r_log r1)) with
                    | Some i => Ok i
                    | None => fi <- first_index (r_log r1) ;; Ok (N.max (applied (r_log r1) + 1) fi)
                    end) = Ok low /\
        has_unapplied_conf_changes r1 low (committed (r_log r1) + 1) = Ok false) /\
     hup r1 tl = Ok r' /\ (m_type m = MsgHup \/ m_type m = MsgTimeoutNow)).
Proof. exact step_campaign_guard. Qed.
Print Assumptions C09_step_campaign_guard.

(* ================================================================== *)
(* 4. a (pre-)candidate learning of a committed membership change steps down *)

Theorem C09_maybe_commit_by_vote_spec :
  forall r m r',
  maybe_commit_by_vote r m = Ok r' ->
  r' = r \/
  exists l' b,
    m_commit m <> 0 /\ m_commit_term m <> 0 /\ committed (r_log r) < m_commit m /\
    is_leader r = false /\
    RaftLog.maybe_commit (r_log r) (m_commit m) (m_commit_term m) = Ok (l', b) /\
    (r' = r <| r_log := l' |> \/
     (b = true /\ (r_state r = Candidate \/ r_state r = PreCandidate) /\
      has_unapplied_conf_changes (r <| r_log := l' |>) (committed (r_log r) + 1) (committed l' + 1)
        = Ok true /\
      become_follower (r <| r_log := l' |>) (r_term r) Progress.INVALID_ID = Ok r')).
Proof. exact maybe_commit_by_vote_spec. Qed.
Print Assumptions C09_maybe_commit_by_vote_spec.

Theorem C09_candidate_stepdown :
  forall r m l' r',
  m_commit m <> 0 -> m_commit_term m <> 0 -> committed (r_log r) < m_commit m ->
  (r_state r = Candidate \/ r_state r = PreCandidate) ->
  RaftLog.maybe_commit (r_log r) (m_commit m) (m_commit_term m) = Ok (l', true) ->
  has_unapplied_conf_changes (r <| r_log := l' |>) (committed (r_log r) + 1) (committed l' + 1)
    = Ok true ->
  maybe_commit_by_vote r m = Ok r' ->
  r_state r' = Follower /\ r_term r' = r_term r /\ r_vote r' = r_vote r /\
  r_leader_id r' = Progress.INVALID_ID /\ r_log r' = set_limit l' 0.
Proof. exact candidate_stepdown. Qed.
Print Assumptions C09_candidate_stepdown.

Example C09_candidate_stepdown_example :
  (exists l', RaftLog.maybe_commit (r_log C09Samples.s_candidate_cc) 3 1 = Ok (l', true) /\
     has_unapplied_conf_changes (C09Samples.s_candidate_cc <| r_log := l' |>) 3 4 = Ok true) /\
  (exists r', step C09Samples.s_candidate_cc C09Samples.s_vresp = Ok (r', E_OK) /\
     r_state r' = Follower /\ r_term r' = 2).
Proof.
  split.
  - eexists. split; [vm_compute; reflexivity|]. vm_compute. reflexivity.
  - eexists. split; [vm_compute; reflexivity|]. vm_compute. split; reflexivity.
Qed.

(* ================================================================== *)
(* 5. promotable *)

Theorem C09_not_promotable_tick_election :
  forall r, r_promotable r = false ->
    tick_election r = Ok (r <| r_election_elapsed := r_election_elapsed r + 1 |>, false).
Proof. exact not_promotable_tick_election. Qed.
Print Assumptions C09_not_promotable_tick_election.

Theorem C09_not_promotable_tick :
  forall r, r_promotable r = false -> r_state r <> Leader ->
    tick r = Ok (r <| r_election_elapsed := r_election_elapsed r + 1 |>, false).
Proof. exact not_promotable_tick. Qed.
Print Assumptions C09_not_promotable_tick.

Theorem C09_not_promotable_timeout_now :
  forall r m, r_promotable r = false -> m_type m = MsgTimeoutNow ->
    step_follower r m = Ok (r, E_OK).
Proof. exact not_promotable_timeout_now_follower. Qed.
Print Assumptions C09_not_promotable_timeout_now.

(* through Raft::step, any role, any message term: the only possible effect is the
   generic step-down to a strictly higher term *)
Theorem C09_not_promotable_timeout_now_step :
  forall r m r' c,
  r_promotable r = false -> m_type m = MsgTimeoutNow ->
  step r m = Ok (r', c) ->
  c = E_OK /\
  (r' = r \/ (r_term r < m_term m /\ become_follower r (m_term m) Progress.INVALID_ID = Ok r')).
Proof. exact not_promotable_timeout_now_step. Qed.
Print Assumptions C09_not_promotable_timeout_now_step.

(* fix 8deb47c: hup itself refuses on a non-promotable node, for both campaign flavours;
   hence a local MsgHup through Raft::step and RawNode::campaign change nothing.  With
   C09_promotable_iff_voter: a node outside the voters of its own configuration never
   campaigns, whatever the entry point (election timeout, MsgTimeoutNow, MsgHup,
   RawNode::campaign) *)
Theorem C09_hup_nonpromotable :
  forall r tl, r_promotable r = false -> hup r tl = Ok r.
Proof. exact hup_nonpromotable. Qed.
Print Assumptions C09_hup_nonpromotable.

Theorem C09_not_promotable_hup_step :
  forall r m, r_promotable r = false -> m_type m = MsgHup -> m_term m = 0 ->
    step r m = Ok (r, E_OK).
Proof. exact not_promotable_hup_step. Qed.
Print Assumptions C09_not_promotable_hup_step.

Theorem C09_not_promotable_rn_campaign :
  forall n, r_promotable (rn_raft n) = false -> rn_campaign n = Ok (n, E_OK).
Proof. exact not_promotable_rn_campaign. Qed.
Print Assumptions C09_not_promotable_rn_campaign.

Example C09_not_promotable_example :
  r_promotable C09Samples.s_learner = false /\
  voters_contains (conf_of C09Samples.s_learner) (r_id C09Samples.s_learner) = false /\
  (* the same state, were it promotable, would campaign on MsgTimeoutNow *)
  (exists r', step (C09Samples.s_learner <| r_promotable := true |>)
                   (msg_default <| m_type := MsgTimeoutNow |> <| m_term := 2 |>) = Ok (r', E_OK) /\
              r_state r' = Candidate).
Proof.
  split; [reflexivity|]. split; [reflexivity|].
  eexists. split; [vm_compute; reflexivity|]. reflexivity.
Qed.

Theorem C09_promotable_iff_voter :
  forall r r' cs,
  post_conf_change r = Ok (r', cs) ->
  r_promotable r' = voters_contains (conf_of r') (r_id r') /\
  conf_of r' = conf_of r /\ r_id r' = r_id r /\ cs = to_conf_state (conf_of r).
Proof. exact promotable_iff_voter. Qed.
Print Assumptions C09_promotable_iff_voter.

(* ================================================================== *)
(* 6. the configuration is a function of (previous configuration, tracked ids, change) *)

Theorem C09_apply_conf_change_err_untouched :
  forall r cc r', raft_apply_conf_change r cc = Ok (r', None) -> r' = r.
Proof. exact apply_conf_change_err_untouched. Qed.
Print Assumptions C09_apply_conf_change_err_untouched.

Theorem C09_apply_conf_change_conf :
  forall r cc r' cs,
  raft_apply_conf_change r cc = Ok (r', Some cs) ->
  exists ids',
    ConfChange.apply_conf_change (conf_of r, pids (t_progress (r_prs r))) cc = ROk (conf_of r', ids') /\
    cs = to_conf_state (conf_of r') /\
    r_promotable r' = voters_contains (conf_of r') (r_id r') /\ r_id r' = r_id r.
Proof. exact apply_conf_change_conf. Qed.
Print Assumptions C09_apply_conf_change_conf.

(* both directions at once, including the tracked-id set handed to post_conf_change *)
Theorem C09_apply_conf_change_spec :
  forall r cc r' ocs,
  raft_apply_conf_change r cc = Ok (r', ocs) ->
  match ConfChange.apply_conf_change (conf_of r, pids (t_progress (r_prs r))) cc with
  | RErr _ => r' = r /\ ocs = None
  | ROk (c', ids') =>
      conf_of r' = c' /\ ocs = Some (to_conf_state c') /\
      r_id r' = r_id r /\ r_promotable r' = voters_contains c' (r_id r) /\
      exists chs, changer_result r cc = ROk (c', chs) /\
        ids' = pids (Raft.apply_changes (t_progress (r_prs r)) chs (last_index (r_log r))
                                        (t_max_inflight (r_prs r)))
  end.
Proof. exact raft_apply_conf_change_spec. Qed.
Print Assumptions C09_apply_conf_change_spec.

Example C09_apply_conf_change_example :
  (exists r' cs, raft_apply_conf_change C09Samples.s_leader (mkV2 Auto [(RemoveNode, 1)])
                 = Ok (r', Some cs) /\
     incoming (conf_of r') = [2; 3] /\ r_promotable r' = false) /\
  (* leaving a non-joint configuration is an error: untouched *)
  raft_apply_conf_change C09Samples.s_leader (mkV2 Auto []) = Ok (C09Samples.s_leader, None).
Proof.
  split; [|vm_compute; reflexivity].
  eexists. eexists. split; [vm_compute; reflexivity|]. vm_compute. split; reflexivity.
Qed.

(* snapshot restore: the configuration is ConfChange.restore of the snapshot's ConfState *)
Theorem C09_restore_true :
  forall r s r',
  restore r s = Ok (r', true) ->
  exists ids,
    ConfChange.restore empty_tracker (s_cs s) = ROk (conf_of r', ids) /\
    conf_state_eq (s_cs s) (to_conf_state (conf_of r')) = true /\
    r_promotable r' = voters_contains (conf_of r') (r_id r') /\ r_id r' = r_id r /\
    r_state r' = Follower /\ r_state r = Follower.
Proof. exact restore_true_spec. Qed.
Print Assumptions C09_restore_true.

Example C09_restore_example :
  exists r', restore C09Samples.s_follower C09Samples.s_snap = Ok (r', true) /\
    conf_of r' = mkConf [2; 3; 4] [] [1] [] false /\ r_promotable r' = false.
Proof. eexists. split; [vm_compute; reflexivity|]. vm_compute. split; reflexivity. Qed.

Theorem C09_restore_false :
  forall r s r',
  restore r s = Ok (r', false) ->
  conf_of r' = conf_of r /\ r_promotable r' = r_promotable r /\ r_id r' = r_id r.
Proof. exact restore_false_conf. Qed.
Print Assumptions C09_restore_false.

(* ================================================================== *)
(* 7. CROSS-NODE CLAUSE: "every node's active configuration is determined by the initial
   configuration and the membership entries it has applied or received by snapshot, so
   nodes at the same applied index have identical configurations, also after restart".
   Proofs: M/RaftProofsXnode.v.

   conf_after cs0 ccs : option (conf * idset) is the abstract function: ConfChange.restore of
   the initial ConfState cs0, then ConfChange.apply_conf_change (the changer
   Raft::apply_conf_change runs) folded over the changes ccs in order, None if one of them
   is rejected (C09_conf_after_def).  ConfIs r cs0 ccs says that node state r carries exactly
   that configuration and tracks exactly those ids (C09_ConfIs_def).

   PROVED: RawNode::new starts at ConfIs _ (store's ConfState) [] (C09_rn_new_conf); a
   successful apply_conf_change of cc moves ConfIs _ cs0 ccs to ConfIs _ cs0 (ccs ++ [cc]) and
   returns to_conf_state of the new configuration, a rejected one changes nothing
   (C09_apply_extends_conf); EVERY other RawNode entry point, stepping any message other than
   MsgSnapshot, keeps ConfIs (C09_other_entry_points_keep_conf, _step_, _tick_); hence along
   any run the configuration is conf_after of the accepted changes (C09_run_conf) and two
   nodes that accepted the same changes have equal configurations and equal tracked-id sets
   (C09_same_changes_same_conf, C09_runs_same_changes_same_conf); a node restarted
   (Raft::new) on a store whose ConfState describes its configuration - e.g. the ConfState
   its last apply_conf_change returned - gets the same configuration back
   (C09_restart_same_conf; uses C12's restore round trip).  Snapshot install: Props/C15.v
   (C15_install_same_conf, C15_step_snapshot_conf).

   ASSUMED, not proved (this is the application's part of the contract): that the
   application calls apply_conf_change with exactly the committed membership entries in
   log order, and stores the ConfState that call returned in its snapshots / storage.
   "Same applied index => same ccs" is then log matching (C05) and is not restated here.
   The hypothesis incoming <> [] (the configuration has a voter) comes from C12's round
   trip; `describes cs c` = the five vectors of cs list exactly the five sets of c. *)
From RV Require Import M.ConfChangeProofs M.RaftProofsC17 M.RaftProofsXnode.

Theorem C09_conf_after_def :
  (forall cs0 ccs, conf_after cs0 ccs =
     match ConfChange.restore empty_tracker cs0 with
     | ROk t => apply_all t ccs
     | RErr _ => None
     end) /\
  (forall t, apply_all t [] = Some t /\
     forall cc rest, apply_all t (cc :: rest) =
       match ConfChange.apply_conf_change t cc with
       | ROk t' => apply_all t' rest
       | RErr _ => None
       end).
Proof. exact (conj conf_after_def apply_all_def). Qed.
Print Assumptions C09_conf_after_def.

Theorem C09_ConfIs_def :
  forall r cs0 ccs,
  ConfIs r cs0 ccs <-> conf_after cs0 ccs = Some (conf_of r, pids (t_progress (r_prs r))).
Proof. exact ConfIs_def. Qed.
Print Assumptions C09_ConfIs_def.

Theorem C09_describes_def :
  forall cs c, describes cs c <->
  ((forall x, IdSet.mem x (cs_voters cs) = IdSet.mem x (incoming c)) /\
   (forall x, IdSet.mem x (cs_learners cs) = IdSet.mem x (learners c)) /\
   (forall x, IdSet.mem x (cs_voters_outgoing cs) = IdSet.mem x (outgoing c)) /\
   (forall x, IdSet.mem x (cs_learners_next cs) = IdSet.mem x (learners_next c)) /\
   cs_auto_leave cs = auto_leave c).
Proof. exact describes_def. Qed.
Print Assumptions C09_describes_def.

Theorem C09_rn_new_conf :
  forall c st sa d n, rn_new c st sa d = Ok (inr n) -> ConfIs (rn_raft n) (MemStorage.cs st) [].
Proof. exact rn_new_ConfIs. Qed.
Print Assumptions C09_rn_new_conf.

Theorem C09_apply_extends_conf :
  forall r cs0 ccs cc r' ocs,
  ConfIs r cs0 ccs -> raft_apply_conf_change r cc = Ok (r', ocs) ->
  match ocs with
  | Some cs' =>
      ConfIs r' cs0 (ccs ++ [cc]) /\ cs' = to_conf_state (conf_of r') /\
      ConfChange.apply_conf_change (conf_of r, pids (t_progress (r_prs r))) cc
        = ROk (conf_of r', pids (t_progress (r_prs r')))
  | None =>
      r' = r /\
      exists e, ConfChange.apply_conf_change (conf_of r, pids (t_progress (r_prs r))) cc = RErr e
  end.
Proof. exact apply_ConfIs. Qed.
Print Assumptions C09_apply_extends_conf.

(* rn_input / rn_apply: one constructor / dispatch per RawNode entry point (Props/C17.v) *)
Theorem C09_other_entry_points_keep_conf :
  forall n i n' cs0 ccs,
  ConfIs (rn_raft n) cs0 ccs -> rn_apply n i = Ok n' ->
  (forall cc, i <> RnApplyConfChange cc) ->
  (forall m, i = RnStep m -> m_type m <> MsgSnapshot) ->
  ConfIs (rn_raft n') cs0 ccs.
Proof. exact rn_apply_ConfIs. Qed.
Print Assumptions C09_other_entry_points_keep_conf.

Theorem C09_step_keeps_conf :
  forall r m r' c cs0 ccs,
  ConfIs r cs0 ccs -> step r m = Ok (r', c) -> m_type m <> MsgSnapshot -> ConfIs r' cs0 ccs.
Proof. exact step_ConfIs. Qed.
Print Assumptions C09_step_keeps_conf.

Theorem C09_tick_keeps_conf :
  forall r r' b cs0 ccs, ConfIs r cs0 ccs -> tick r = Ok (r', b) -> ConfIs r' cs0 ccs.
Proof. exact tick_ConfIs. Qed.
Print Assumptions C09_tick_keeps_conf.

(* rn_run_confs n is acc: run the inputs, appending to acc every change that
   apply_conf_change accepted *)
Theorem C09_run_confs_def :
  forall n acc,
  rn_run_confs n [] acc = Ok (n, acc) /\
  (forall cc rest, rn_run_confs n (RnApplyConfChange cc :: rest) acc =
     (x <- rn_apply_conf_change n cc ;;
      rn_run_confs (fst x) rest (match snd x with Some _ => acc ++ [cc] | None => acc end))) /\
  (forall m rest, rn_run_confs n (RnStep m :: rest) acc =
     (n1 <- rn_apply n (RnStep m) ;; rn_run_confs n1 rest acc)) /\
  (forall rest, rn_run_confs n (RnTick :: rest) acc =
     (n1 <- rn_apply n RnTick ;; rn_run_confs n1 rest acc)).
Proof. exact (fun n acc => conj eq_refl (conj (fun _ _ => eq_refl) (conj (fun _ _ => eq_refl) (fun _ => eq_refl)))). Qed.
Print Assumptions C09_run_confs_def.

Theorem C09_run_conf :
  forall cs0 is n acc n' acc',
  Forall (fun i => match i with RnStep m => m_type m <> MsgSnapshot | _ => True end) is ->
  ConfIs (rn_raft n) cs0 acc -> rn_run_confs n is acc = Ok (n', acc') ->
  ConfIs (rn_raft n') cs0 acc'.
Proof. exact run_ConfIs. Qed.
Print Assumptions C09_run_conf.

Theorem C09_same_changes_same_conf :
  forall r1 r2 cs0 ccs,
  ConfIs r1 cs0 ccs -> ConfIs r2 cs0 ccs ->
  conf_of r1 = conf_of r2 /\
  pids (t_progress (r_prs r1)) = pids (t_progress (r_prs r2)) /\
  to_conf_state (conf_of r1) = to_conf_state (conf_of r2).
Proof. exact same_changes_same_conf. Qed.
Print Assumptions C09_same_changes_same_conf.

Theorem C09_runs_same_changes_same_conf :
  forall cs0 is1 is2 n1 n2 n1' n2' ccs,
  ConfIs (rn_raft n1) cs0 [] -> ConfIs (rn_raft n2) cs0 [] ->
  Forall (fun i => match i with RnStep m => m_type m <> MsgSnapshot | _ => True end) is1 ->
  Forall (fun i => match i with RnStep m => m_type m <> MsgSnapshot | _ => True end) is2 ->
  rn_run_confs n1 is1 [] = Ok (n1', ccs) -> rn_run_confs n2 is2 [] = Ok (n2', ccs) ->
  conf_of (rn_raft n1') = conf_of (rn_raft n2') /\
  pids (t_progress (r_prs (rn_raft n1'))) = pids (t_progress (r_prs (rn_raft n2'))).
Proof. exact runs_same_changes_same_conf. Qed.
Print Assumptions C09_runs_same_changes_same_conf.

Theorem C09_restart_same_conf :
  forall r cs0 ccs c st sa d r2,
  ConfIs r cs0 ccs -> incoming (conf_of r) <> [] ->
  describes (MemStorage.cs st) (conf_of r) ->
  raft_new c st sa d = Ok (inr r2) ->
  ConfIs r2 cs0 ccs /\ conf_of r2 = conf_of r /\
  pids (t_progress (r_prs r2)) = pids (t_progress (r_prs r)).
Proof. exact restart_same_conf. Qed.
Print Assumptions C09_restart_same_conf.

(* Raft::new in general: the configuration is ConfChange.restore of the store's ConfState *)
Theorem C09_raft_new_conf :
  forall c st sa d r,
  raft_new c st sa d = Ok (inr r) ->
  ConfChange.restore empty_tracker (MemStorage.cs st)
    = ROk (conf_of r, pids (t_progress (r_prs r))).
Proof. exact raft_new_sk. Qed.
Print Assumptions C09_raft_new_conf.

(* non-vacuity: the sample leader (voters 1 2 3) is at ConfIs _ cs3 []; applying "add 4"
   moves it to [add 4]; the abstract function then gives voters (2 3 4), learner 1 after
   "demote 1" *)
Example C09_conf_after_example :
  ConfIs C09Samples.s_leader XnodeSamples.cs3 [] /\
  (exists r' cs', raft_apply_conf_change C09Samples.s_leader XnodeSamples.cc_add4 = Ok (r', Some cs') /\
     ConfIs r' XnodeSamples.cs3 [XnodeSamples.cc_add4] /\ cs_voters cs' = [1; 2; 3; 4]) /\
  conf_after XnodeSamples.cs3 [XnodeSamples.cc_add4; XnodeSamples.cc_demote1]
    = Some (mkConf [2; 3; 4] [] [1] [] false, [1; 2; 3; 4]).
Proof.
  split; [vm_compute; reflexivity|]. split; [|vm_compute; reflexivity].
  do 2 eexists. split; [vm_compute; reflexivity|]. split; vm_compute; reflexivity.
Qed.

(* ================================================================== *)
(* 8. ONE BEHIND: "a campaigning node's active configuration is at most one membership change
   behind the last membership entry in its own log" - the two node-local halves.
   Proofs: M/RaftProofsOneBehind.v.  Entries are all_ents (everything the log physically
   holds), membership-change entries are is_conf_entry (EntryConfChange / EntryConfChangeV2).
     conf_gap l k        of any two membership-change entries of l, the lower one is <= k
                         (at most one lies above k)
     ship_ok l x         every membership-change entry of l below one that x ships is <= x.commit
     FollowerConfGap r   conf_gap (r_log r) (committed (r_log r))
   PROVED
   (1) leader side.  Whatever maybe_send_append / send_append / bcast_append add to the queue
       is a MsgSnapshot or a MsgAppend with commit = the leader's commit index whose entries
       are log entries (C09_onebehind_send_append_fresh, _bcast_append_fresh; batching
       included); hence, when at most one membership change lies above applied and
       applied <= committed, every such MsgAppend satisfies ship_ok
       (C09_onebehind_leader_appends_cover_conf).  "At most one above applied" is kept by the
       leader's own MsgPropose path - the filter argument - under ConfBound and LogBounded
       (C09_onebehind_propose_keeps_gap).  It does NOT follow from ConfBound alone: a leader
       that inherited two membership changes above its commit index ships both
       (C09_onebehind_leader_cover_from_ConfBound_refuted); that a new leader inherits at
       most one is protocol level.
   (2) follower side.  In the accepted case of handle_append_entries the commit index becomes
       exactly max(committed, min(m.commit, m.index + |m.entries|)), applied is unchanged and
       every entry held afterwards was held before or came with the message
       (C09_onebehind_follower_commit_lower); in the other cases the log is untouched
       (C09_onebehind_follower_other_cases).
   (3) combination, PARTIAL.  FollowerConfGap is preserved by an accepted append under the
       residual cross-node hypothesis prefix_conf_agree (of two membership changes of which at
       least one comes from the message, the lower one is <= min(m.commit, last new index)):
       on the sender's side that is (1); against the RECEIVER's entries it is agreement of
       the two logs, i.e. cross-node log matching (C05, protocol level), not available to the
       node model (C09_onebehind_follower_gap_preserved_partial).  With hup: when a campaign
       actually starts from a FollowerConfGap state, at most one membership change of the
       node's whole log lies above applied (C09_onebehind_campaign_one_behind), given
       window_clean = "no membership change in (applied, committed]", which is what hup's
       negative scan means (needs slice correctness, see above) and is vacuous when
       committed <= applied (C09_onebehind_window_clean_caught_up). *)
From RV Require Import M.RaftProofsOneBehind.

Theorem C09_onebehind_defs :
  (forall l k, conf_gap l k <->
     forall e1 e2, all_ents l e1 -> all_ents l e2 ->
       is_conf_entry e1 = true -> is_conf_entry e2 = true ->
       e_index e1 < e_index e2 -> e_index e1 <= k) /\
  (forall l x, ship_ok l x <->
     forall ei ej, all_ents l ei -> In ej (m_entries x) ->
       is_conf_entry ei = true -> is_conf_entry ej = true ->
       e_index ei < e_index ej -> e_index ei <= m_commit x) /\
  (forall r x, fresh_append r x <->
     (m_type x = MsgAppend /\ m_commit x = committed (r_log r) /\
      forall e, In e (m_entries x) -> all_ents (r_log r) e)) /\
  (forall r, queue_ships_log r <->
     forall x, In x (r_msgs r) -> m_type x = MsgAppend ->
       forall e, In e (m_entries x) -> all_ents (r_log r) e) /\
  (forall r r', adds_fresh r r' <->
     (r_log r' = r_log r /\
      forall x, In x (r_msgs r') -> In x (r_msgs r) \/ m_type x = MsgSnapshot \/ fresh_append r x)) /\
  (forall r, FollowerConfGap r <-> conf_gap (r_log r) (committed (r_log r))) /\
  (forall l m, prefix_conf_agree l m <->
     forall e1 e2,
       (all_ents l e1 \/ In e1 (m_entries m)) -> (all_ents l e2 \/ In e2 (m_entries m)) ->
       (In e1 (m_entries m) \/ In e2 (m_entries m)) ->
       is_conf_entry e1 = true -> is_conf_entry e2 = true -> e_index e1 < e_index e2 ->
       e_index e1 <= N.min (m_commit m) (m_index m + N.of_nat (length (m_entries m)))) /\
  (forall l, window_clean l <->
     forall e, all_ents l e -> is_conf_entry e = true -> applied l < e_index e -> committed l < e_index e).
Proof.
  exact (conj (fun _ _ => conj (fun H => H) (fun H => H))
        (conj (fun _ _ => conj (fun H => H) (fun H => H))
        (conj (fun _ _ => conj (fun H => H) (fun H => H))
        (conj (fun _ => conj (fun H => H) (fun H => H))
        (conj (fun _ _ => conj (fun H => H) (fun H => H))
        (conj (fun _ => conj (fun H => H) (fun H => H))
        (conj (fun _ _ => conj (fun H => H) (fun H => H))
              (fun _ => conj (fun H => H) (fun H => H))))))))).
Qed.
Print Assumptions C09_onebehind_defs.

(* --- (1) leader side --- *)
Theorem C09_onebehind_maybe_send_append_fresh :
  forall r to pr ae r' pr' b,
  maybe_send_append r to pr ae = Ok (r', pr', b) -> queue_ships_log r ->
  r_log r' = r_log r /\
  forall x, In x (r_msgs r') ->
    In x (r_msgs r) \/ m_type x = MsgSnapshot \/ fresh_append r x.
Proof. exact maybe_send_append_fresh. Qed.
Print Assumptions C09_onebehind_maybe_send_append_fresh.

Theorem C09_onebehind_send_append_fresh :
  forall r to r', send_append_to r to = Ok r' -> queue_ships_log r -> adds_fresh r r'.
Proof. exact send_append_to_fresh. Qed.
Print Assumptions C09_onebehind_send_append_fresh.

Theorem C09_onebehind_bcast_append_fresh :
  forall r r', bcast_append r = Ok r' -> queue_ships_log r -> adds_fresh r r'.
Proof. exact bcast_append_fresh. Qed.
Print Assumptions C09_onebehind_bcast_append_fresh.

Theorem C09_onebehind_leader_appends_cover_conf :
  forall r r',
  adds_fresh r r' ->
  conf_gap (r_log r) (applied (r_log r)) -> applied (r_log r) <= committed (r_log r) ->
  forall x, In x (r_msgs r') -> ~ In x (r_msgs r) -> m_type x = MsgAppend ->
    m_commit x = committed (r_log r) /\
    (forall e, In e (m_entries x) -> all_ents (r_log r) e) /\
    (forall ei ej, all_ents (r_log r) ei -> In ej (m_entries x) ->
       is_conf_entry ei = true -> is_conf_entry ej = true ->
       e_index ei < e_index ej -> e_index ei <= m_commit x).
Proof. exact leader_appends_cover_conf. Qed.
Print Assumptions C09_onebehind_leader_appends_cover_conf.

Theorem C09_onebehind_propose_keeps_gap :
  forall r m r' c,
  m_type m = MsgPropose -> step_leader r m = Ok (r', c) ->
  ConfBound r -> LogBounded (r_log r) -> applied (r_log r) <= last_index (r_log r) ->
  conf_gap (r_log r) (applied (r_log r)) ->
  conf_gap (r_log r') (applied (r_log r')).
Proof. exact propose_keeps_conf_gap. Qed.
Print Assumptions C09_onebehind_propose_keeps_gap.

Theorem C09_onebehind_leader_cover_from_ConfBound_refuted :
  exists r r' x,
    r_state r = Leader /\ ConfBound r /\ applied (r_log r) <= committed (r_log r) /\
    send_append_to r 2 = Ok r' /\ In x (r_msgs r') /\ m_type x = MsgAppend /\
    ~ ship_ok (r_log r) x.
Proof. exact leader_cover_from_ConfBound_refuted. Qed.
Print Assumptions C09_onebehind_leader_cover_from_ConfBound_refuted.

(* non-vacuity: a leader with entries 1, 2(cc), 3(cc), commit = applied = 2 (one membership
   change above applied) sends follower 2 the entries 2 and 3 with commit 2 *)
Example C09_onebehind_leader_example :
  conf_gap (r_log OneBehindSamples.w_leader_one) (applied (r_log OneBehindSamples.w_leader_one)) /\
  queue_ships_log OneBehindSamples.w_leader_one /\
  exists r' x, send_append_to OneBehindSamples.w_leader_one 2 = Ok r' /\ r_msgs r' = [x] /\
    m_type x = MsgAppend /\ map e_index (m_entries x) = [2; 3] /\
    map is_conf_entry (m_entries x) = [true; true] /\ m_commit x = 2.
Proof.
  split.
  { intros e1 e2 [A1|A1] [A2|A2] C1 C2 Hlt; vm_compute in A1, A2; try contradiction.
    repeat destruct A1 as [A1|A1]; try contradiction; repeat destruct A2 as [A2|A2]; try contradiction;
      subst e1 e2; vm_compute in C1, C2, Hlt |- *; try discriminate. }
  split; [intros x [] |].
  do 2 eexists. split; [vm_compute; reflexivity|]. vm_compute. repeat split.
Qed.

(* --- (2) follower side --- *)
Theorem C09_onebehind_follower_commit_lower :
  forall r m r',
  handle_append_entries r m = Ok r' ->
  r_pending_request_snapshot r = Progress.INVALID_INDEX ->
  committed (r_log r) <= m_index m ->
  match_term (r_log r) (m_index m) (m_log_term m) = Ok true ->
  let lastnew := m_index m + N.of_nat (length (m_entries m)) in
  committed (r_log r') = N.max (committed (r_log r)) (N.min (m_commit m) lastnew) /\
  N.min (m_commit m) lastnew <= committed (r_log r') /\
  committed (r_log r) <= committed (r_log r') /\
  applied (r_log r') = applied (r_log r) /\
  (forall e, all_ents (r_log r') e -> all_ents (r_log r) e \/ In e (m_entries m)).
Proof. exact follower_commit_lower. Qed.
Print Assumptions C09_onebehind_follower_commit_lower.

Theorem C09_onebehind_follower_other_cases :
  forall r m r',
  handle_append_entries r m = Ok r' ->
  (r_pending_request_snapshot r <> Progress.INVALID_INDEX \/ m_index m < committed (r_log r) \/
   match_term (r_log r) (m_index m) (m_log_term m) = Ok false) ->
  r_log r' = r_log r.
Proof. exact follower_conf_gap_other_cases. Qed.
Print Assumptions C09_onebehind_follower_other_cases.

(* --- (3) combination (partial: prefix_conf_agree is the residual cross-node hypothesis) --- *)
Theorem C09_onebehind_follower_gap_preserved_partial :
  forall r m r',
  handle_append_entries r m = Ok r' ->
  r_pending_request_snapshot r = Progress.INVALID_INDEX ->
  committed (r_log r) <= m_index m ->
  match_term (r_log r) (m_index m) (m_log_term m) = Ok true ->
  FollowerConfGap r -> prefix_conf_agree (r_log r) m ->
  FollowerConfGap r'.
Proof. exact follower_conf_gap_preserved_partial. Qed.
Print Assumptions C09_onebehind_follower_gap_preserved_partial.

Theorem C09_onebehind_window_clean_caught_up :
  forall l, committed l <= applied l -> window_clean l.
Proof. exact window_clean_caught_up. Qed.
Print Assumptions C09_onebehind_window_clean_caught_up.

Theorem C09_onebehind_campaign_one_behind :
  forall r tl r',
  FollowerConfGap r -> hup r tl = Ok r' -> r' <> r -> window_clean (r_log r) ->
  is_leader r = false /\ r_promotable r = true /\ hup_scan r false /\
  conf_gap (r_log r) (applied (r_log r)).
Proof. exact campaign_one_behind. Qed.
Print Assumptions C09_onebehind_campaign_one_behind.

(* non-vacuity: a follower with entries 1, 2(cc), commit 1, accepts the append [3(cc)] sent at
   commit 2 (index 2, term 1 match): its commit index becomes min(2, 3) = 2, all hypotheses
   of the preservation theorem hold, and FollowerConfGap holds afterwards; the same follower,
   asked to campaign, does so with exactly one membership change (2) above applied = 1 *)
Example C09_onebehind_follower_example :
  match_term (r_log OneBehindSamples.w_follower) 2 1 = Ok true /\
  FollowerConfGap OneBehindSamples.w_follower /\
  prefix_conf_agree (r_log OneBehindSamples.w_follower) OneBehindSamples.w_append /\
  (exists r', handle_append_entries OneBehindSamples.w_follower OneBehindSamples.w_append = Ok r' /\
     committed (r_log r') = 2 /\ FollowerConfGap r') /\
  window_clean (r_log OneBehindSamples.w_follower) /\
  (exists r', hup OneBehindSamples.w_follower false = Ok r' /\ r_state r' = Candidate /\
     r' <> OneBehindSamples.w_follower).
Proof.
  assert (G : FollowerConfGap OneBehindSamples.w_follower).
  { intros e1 e2 [A1|A1] [A2|A2] C1 C2 Hlt; vm_compute in A1, A2; try contradiction.
    repeat destruct A1 as [A1|A1]; try contradiction; repeat destruct A2 as [A2|A2]; try contradiction;
      subst e1 e2; vm_compute in C1, C2, Hlt |- *; try discriminate. }
  assert (P : prefix_conf_agree (r_log OneBehindSamples.w_follower) OneBehindSamples.w_append).
  { intros e1 e2 H1 H2 _ C1 C2 Hlt.
    assert (K1 : e1 = C09Samples.e_norm 1 1 \/ e1 = C09Samples.e_cc 1 2 \/ e1 = C09Samples.e_cc 2 3).
    { destruct H1 as [[H1|H1]|H1]; vm_compute in H1; try contradiction;
        repeat destruct H1 as [H1|H1]; try contradiction; subst; auto. }
    assert (K2 : e2 = C09Samples.e_norm 1 1 \/ e2 = C09Samples.e_cc 1 2 \/ e2 = C09Samples.e_cc 2 3).
    { destruct H2 as [[H2|H2]|H2]; vm_compute in H2; try contradiction;
        repeat destruct H2 as [H2|H2]; try contradiction; subst; auto. }
    destruct K1 as [->|[->| ->]]; destruct K2 as [->|[->| ->]];
      vm_compute in C1, C2, Hlt |- *; try discriminate. }
  split; [vm_compute; reflexivity|]. split; [exact G|]. split; [exact P|]. split.
  { destruct (handle_append_entries OneBehindSamples.w_follower OneBehindSamples.w_append) as [r'|s] eqn:E;
      [|vm_compute in E; discriminate].
    exists r'. split; [reflexivity|]. split.
    - vm_compute in E. inversion E. reflexivity.
    - eapply C09_onebehind_follower_gap_preserved_partial; [exact E|reflexivity|vm_compute; discriminate
                                                            |vm_compute; reflexivity|exact G|exact P]. }
  split; [apply window_clean_caught_up; vm_compute; discriminate|].
  eexists. split; [vm_compute; reflexivity|]. split; [reflexivity|]. intros K. discriminate K.
Qed.
