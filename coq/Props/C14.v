(* C14 - RaftLog (stable storage + unstable suffix + pending snapshot) behaves as one
   logical log.  Only pinned statements; proofs live in M/RaftLogProofs*.v.
   LL / abs / RepInv / ll_* are defined in M/RaftLogProofs.v; the flag of RepInv is the
   documented restart window (true = applied <= committed not required). *)
From RV Require Import Base.Prelude M.Util M.UtilProofs M.MemStorage M.MemStorageProofs
  M.RaftLog M.RaftLogProofs M.RaftLogProofsOps M.RaftLogProofsStore M.RaftLogProofsSlice
  M.RaftLogProofsHistory M.RaftLogSamples.

Local Open Scope N_scope.

(* ---- (a) the representation invariant holds after RaftLog::new on a well-formed store ---- *)
Theorem C14_log_new_ok :
  forall st lim,
    SInv st -> trig_log st = false ->
    exists l, log_new st lim = Ok l /\ RepInv false l
      /\ abs l = mkLL (first_of st - 1) (store_bterm st) (entries st)
      /\ committed l = first_of st - 1 /\ applied l = first_of st - 1
      /\ persisted l = next_of st - 1.
Proof. exact log_new_ok. Qed.
Print Assumptions C14_log_new_ok.

Theorem C14_abs_wf :
  forall rw l, RepInv rw l -> ll_wf (abs l).
Proof. exact abs_wf. Qed.
Print Assumptions C14_abs_wf.

(* ---- (c) queries equal their plain-sequence definitions ---- *)
Theorem C14_abs_base_first :
  forall rw l, RepInv rw l -> first_index l = Ok (ll_first (abs l)).
Proof. exact abs_base_first. Qed.
Print Assumptions C14_abs_base_first.

Theorem C14_abs_last :
  forall rw l, RepInv rw l -> last_index l = ll_last (abs l).
Proof. exact abs_last. Qed.
Print Assumptions C14_abs_last.

Theorem C14_term_abs :
  forall rw l i, RepInv rw l -> term l i = Ok (ll_term (abs l) i).
Proof. exact term_abs. Qed.
Print Assumptions C14_term_abs.

Theorem C14_match_term_abs :
  forall rw l i t,
    RepInv rw l -> match_term l i t = Ok (ll_match (abs l) i t).
Proof. exact match_term_abs. Qed.
Print Assumptions C14_match_term_abs.

Theorem C14_find_conflict_abs :
  forall rw l ents,
    RepInv rw l -> find_conflict l ents = Ok (ll_find_conflict (abs l) ents).
Proof. exact find_conflict_abs. Qed.
Print Assumptions C14_find_conflict_abs.

Theorem C14_last_term_abs :
  forall rw l,
    RepInv rw l ->
    last_term l = match ll_term (abs l) (ll_last (abs l)) with
                  | SOk t => Ok t
                  | SErr _ => Panic site_l_last_term
                  end.
Proof. exact last_term_abs. Qed.
Print Assumptions C14_last_term_abs.

Theorem C14_last_term_defined :
  forall L,
    ll_ents L <> [] \/ ll_bterm L <> None -> exists t, ll_term L (ll_last L) = SOk t.
Proof. exact last_term_defined. Qed.
Print Assumptions C14_last_term_defined.

Theorem C14_is_up_to_date_abs :
  forall rw l i t lt,
    RepInv rw l -> ll_term (abs l) (ll_last (abs l)) = SOk lt ->
    is_up_to_date l i t = Ok ((lt <? t) || ((t =? lt) && (ll_last (abs l) <=? i))).
Proof. exact is_up_to_date_abs. Qed.
Print Assumptions C14_is_up_to_date_abs.

Theorem C14_find_conflict_by_term_spec :
  forall rw l index t,
    RepInv rw l ->
    if ll_last (abs l) <? index then find_conflict_by_term l index t = Ok (index, None)
    else
      (find_conflict_by_term l index t = Panic site_l_underflow
       /\ (forall j, j <= index -> above_term (abs l) t j))
      \/ exists ci ot,
          find_conflict_by_term l index t = Ok (ci, ot) /\ ci <= index
          /\ (forall j, ci < j <= index -> above_term (abs l) t j)
          /\ match ll_term (abs l) ci with
             | SOk t' => t' <= t /\ ot = Some t'
             | SErr _ => ot = None
             end.
Proof. exact find_conflict_by_term_spec. Qed.
Print Assumptions C14_find_conflict_by_term_spec.

Theorem C14_find_conflict_by_term_fuel_sufficient :
  forall rw l index t,
    RepInv rw l -> find_conflict_by_term l index t <> Panic site_l_fuel.
Proof. exact find_conflict_by_term_fuel_sufficient. Qed.
Print Assumptions C14_find_conflict_by_term_fuel_sufficient.

Theorem C14_find_conflict_by_term_no_panic :
  forall rw l index t,
    RepInv rw l -> (0 < ll_base (abs l) \/ ll_bterm (abs l) = Some 0 \/ ll_bterm (abs l) = None) ->
    exists r, find_conflict_by_term l index t = Ok r.
Proof. exact find_conflict_by_term_no_panic. Qed.
Print Assumptions C14_find_conflict_by_term_no_panic.

Theorem C14_commit_info_abs :
  forall rw l,
    RepInv rw l ->
    commit_info l = match ll_term (abs l) (committed l) with
                    | SOk t => Ok (committed l, t)
                    | SErr _ => Panic site_l_commit_info
                    end.
Proof. exact commit_info_abs. Qed.
Print Assumptions C14_commit_info_abs.

Theorem C14_has_next_entries_since_abs :
  forall rw l since,
    RepInv rw l -> since < u64_max ->
    has_next_entries_since l since
    = Ok (N.max (since + 1) (ll_first (abs l)) <? ll_apply_bound l + 1).
Proof. exact has_next_entries_since_abs. Qed.
Print Assumptions C14_has_next_entries_since_abs.

Theorem C14_next_entries_since_abs :
  forall rw l since max,
    RepInv rw l -> since < u64_max ->
    let lo := N.max (since + 1) (ll_first (abs l)) in
    let hi := ll_apply_bound l + 1 in
    next_entries_since l since max
    = Ok (if lo <? hi then Some (ll_slice (abs l) lo hi max) else None).
Proof. exact next_entries_since_abs. Qed.
Print Assumptions C14_next_entries_since_abs.

(* ---- (c,d) slice / entries: limit_size of the plain range; non-empty maximal prefix ---- *)
Theorem C14_slice_abs :
  forall rw l lo hi max,
    RepInv rw l -> ll_first (abs l) <= lo -> lo <= hi -> hi <= ll_last (abs l) + 1 ->
    slice l lo hi max = Ok (SOk (ll_slice (abs l) lo hi max)).
Proof. exact slice_abs. Qed.
Print Assumptions C14_slice_abs.

Theorem C14_slice_unlimited :
  forall rw l lo hi max,
    RepInv rw l -> ll_first (abs l) <= lo -> lo <= hi -> hi <= ll_last (abs l) + 1 ->
    max = None \/ max = Some NO_LIMIT ->
    slice l lo hi max = Ok (SOk (ll_range (abs l) lo hi)).
Proof. exact slice_unlimited. Qed.
Print Assumptions C14_slice_unlimited.

Theorem C14_slice_limited :
  forall rw l lo hi m,
    RepInv rw l -> ll_first (abs l) <= lo -> lo < hi -> hi <= ll_last (abs l) + 1 ->
    let full := ll_range (abs l) lo hi in
    exists r, slice l lo hi (Some m) = Ok (SOk r)
      /\ (exists k, (k <= length full)%nat /\ r = firstn k full)
      /\ r <> []
      /\ (m <> NO_LIMIT -> total_size entry_size r <= m \/ length r = 1%nat)
      /\ ((length r < length full)%nat -> m < total_size entry_size (firstn (S (length r)) full)).
Proof. exact slice_limited. Qed.
Print Assumptions C14_slice_limited.

Theorem C14_slice_compacted :
  forall rw l lo hi max,
    RepInv rw l -> lo < ll_first (abs l) -> lo <= hi ->
    slice l lo hi max = Ok (SErr Compacted).
Proof. exact slice_compacted. Qed.
Print Assumptions C14_slice_compacted.

Theorem C14_slice_panics :
  forall rw l lo hi max,
    RepInv rw l ->
    (hi < lo -> slice l lo hi max = Panic site_l_slice_order)
    /\ (lo <= hi -> ll_first (abs l) <= lo -> ll_last (abs l) + 1 < hi ->
        slice l lo hi max = Panic site_l_slice_bound).
Proof. exact slice_panics. Qed.
Print Assumptions C14_slice_panics.

Theorem C14_log_entries_abs :
  forall rw l i max,
    RepInv rw l -> ll_first (abs l) <= i ->
    log_entries l i max
    = Ok (SOk (if ll_last (abs l) <? i then [] else ll_slice (abs l) i (ll_last (abs l) + 1) max)).
Proof. exact log_entries_abs. Qed.
Print Assumptions C14_log_entries_abs.

Theorem C14_log_entries_compacted :
  forall rw l i max,
    RepInv rw l -> i < ll_first (abs l) ->
    log_entries l i max = Ok (SErr Compacted).
Proof. exact log_entries_compacted. Qed.
Print Assumptions C14_log_entries_compacted.

Theorem C14_ll_range_nth :
  forall L lo hi j,
    ll_first L <= lo -> lo <= j < hi ->
    nth_error (ll_range L lo hi) (N.to_nat (j - lo)) = ll_get L j.
Proof. exact ll_range_nth. Qed.
Print Assumptions C14_ll_range_nth.

Theorem C14_ll_range_length :
  forall L lo hi,
    ll_first L <= lo -> lo <= hi -> hi <= ll_last L + 1 ->
    length (ll_range L lo hi) = N.to_nat (hi - lo).
Proof. exact ll_range_length. Qed.
Print Assumptions C14_ll_range_length.

(* ---- (b) mutators act as list operations and preserve RepInv ---- *)
Theorem C14_commit_to_ok :
  forall rw l tc,
    RepInv rw l -> tc <= ll_last (abs l) ->
    exists l', commit_to l tc = Ok l' /\ RepInv rw l' /\ abs l' = abs l
               /\ committed l' = N.max (committed l) tc
               /\ persisted l' = persisted l /\ applied l' = applied l
               /\ store l' = store l /\ unst l' = unst l.
Proof. exact commit_to_ok. Qed.
Print Assumptions C14_commit_to_ok.

Theorem C14_commit_to_panics_iff :
  forall rw l tc,
    RepInv rw l ->
    (commit_to l tc = Panic site_l_commit_range <-> committed l < tc /\ ll_last (abs l) < tc).
Proof. exact commit_to_panics_iff. Qed.
Print Assumptions C14_commit_to_panics_iff.

Theorem C14_maybe_commit_ok :
  forall rw l i t,
    RepInv rw l -> (i <= ll_last (abs l) \/ t <> 0) ->
    exists l' b, maybe_commit l i t = Ok (l', b) /\ RepInv rw l' /\ abs l' = abs l
      /\ b = (committed l <? i) && ll_match (abs l) i t
      /\ committed l' = (if b then i else committed l)
      /\ persisted l' = persisted l /\ applied l' = applied l.
Proof. exact maybe_commit_ok. Qed.
Print Assumptions C14_maybe_commit_ok.

Theorem C14_applied_to_ok :
  forall rw l i,
    RepInv rw l -> applied l <= i <= committed l ->
    exists l', applied_to l i = Ok l' /\ RepInv rw l' /\ abs l' = abs l
               /\ applied l' = (if i =? 0 then applied l else i)
               /\ committed l' = committed l /\ persisted l' = persisted l.
Proof. exact applied_to_ok. Qed.
Print Assumptions C14_applied_to_ok.

Theorem C14_applied_to_panics_iff :
  forall l i,
    applied_to l i = Panic site_l_applied_range <-> i <> 0 /\ (committed l < i \/ i < applied l).
Proof. exact applied_to_panics_iff. Qed.
Print Assumptions C14_applied_to_panics_iff.

Theorem C14_log_append_ok :
  forall rw l e0 t,
    let ents := e0 :: t in
    let s := e_index e0 in
    RepInv rw l -> contiguous_from s ents ->
    committed l < s -> s <= ll_last (abs l) + 1 -> persisted l < s ->
    s + N.of_nat (length ents) <= u64_max ->
    exists l', log_append l ents = Ok (l', s + N.of_nat (length ents) - 1)
      /\ RepInv rw l' /\ abs l' = ll_append (abs l) ents
      /\ committed l' = committed l /\ persisted l' = persisted l /\ applied l' = applied l
      /\ store l' = store l.
Proof. exact log_append_ok. Qed.
Print Assumptions C14_log_append_ok.

Theorem C14_log_append_gap_panics :
  forall rw l e0 t,
    RepInv rw l -> committed l < e_index e0 -> ll_last (abs l) + 1 < e_index e0 ->
    log_append l (e0 :: t) = Panic site_u_slice_bound.
Proof. exact log_append_gap_panics. Qed.
Print Assumptions C14_log_append_gap_panics.

Theorem C14_maybe_append_ok :
  forall rw l i t cmt ents,
    RepInv rw l -> contiguous_from (i + 1) ents -> nz_terms ents ->
    (i <= ll_last (abs l) \/ t <> 0) ->
    i + N.of_nat (length ents) < u64_max ->
    ll_match (abs l) i t = true ->
    let ci := ll_find_conflict (abs l) ents in
    ci = 0 \/ committed l < ci ->
    exists l', maybe_append l i t cmt ents = Ok (l', Some (ci, i + N.of_nat (length ents)))
      /\ RepInv rw l' /\ abs l' = ll_maybe_append (abs l) i ents
      /\ committed l' = N.max (committed l) (N.min cmt (i + N.of_nat (length ents)))
      /\ persisted l' = (if ci =? 0 then persisted l else N.min (persisted l) (ci - 1))
      /\ applied l' = applied l /\ store l' = store l.
Proof. exact maybe_append_ok. Qed.
Print Assumptions C14_maybe_append_ok.

Theorem C14_maybe_append_reject :
  forall rw l i t cmt ents,
    RepInv rw l -> ll_match (abs l) i t = false ->
    maybe_append l i t cmt ents = Ok (l, None).
Proof. exact maybe_append_reject. Qed.
Print Assumptions C14_maybe_append_reject.

Theorem C14_log_restore_ok :
  forall rw l s,
    RepInv rw l -> committed l <= s_index s -> s_index s < u64_max ->
    exists l', log_restore l s = Ok l' /\ RepInv rw l'
      /\ abs l' = mkLL (s_index s) (Some (s_term s)) []
      /\ committed l' = s_index s
      /\ persisted l' = N.min (persisted l) (committed l)
      /\ applied l' = applied l /\ store l' = store l.
Proof. exact log_restore_ok. Qed.
Print Assumptions C14_log_restore_ok.

Theorem C14_log_restore_panics_iff :
  forall l s,
    log_restore l s = Panic site_l_restore_assert <-> s_index s < committed l.
Proof. exact log_restore_panics_iff. Qed.
Print Assumptions C14_log_restore_panics_iff.

Theorem C14_store_append_unstable_ok :
  forall rw l,
    RepInv rw l -> u_snapshot (unst l) = None ->
    exists st', append (store l) (u_entries (unst l)) = Ok st'
      /\ RepInv rw (set_store l st') /\ abs (set_store l st') = abs l
      /\ first_of st' = first_of (store l)
      /\ skipn (N.to_nat (u_offset (unst l) - first_of st')) (entries st') = u_entries (unst l)
      /\ next_of st' = u_offset (unst l) + N.of_nat (length (u_entries (unst l))).
Proof. exact store_append_unstable_ok. Qed.
Print Assumptions C14_store_append_unstable_ok.

Theorem C14_stable_entries_ok :
  forall rw l,
    RepInv rw l -> u_snapshot (unst l) = None -> u_entries (unst l) <> [] ->
    (* the application has written the unstable entries to the storage *)
    skipn (N.to_nat (u_offset (unst l) - first_of (store l))) (entries (store l)) = u_entries (unst l) ->
    let e := List.last (u_entries (unst l)) (mkEntry 0 0 0 [] []) in
    e_index e = ll_last (abs l)
    /\ exists l', stable_entries l (e_index e) (e_term e) = Ok l'
      /\ RepInv rw l' /\ abs l' = abs l
      /\ u_entries (unst l') = [] /\ u_offset (unst l') = ll_last (abs l) + 1
      /\ u_snapshot (unst l') = None /\ store l' = store l
      /\ committed l' = committed l /\ persisted l' = persisted l /\ applied l' = applied l.
Proof. exact stable_entries_ok. Qed.
Print Assumptions C14_stable_entries_ok.

Theorem C14_stable_entries_panics :
  forall l i t,
    (u_snapshot (unst l) <> None -> stable_entries l i t = Panic site_u_stable_entries_snap)
    /\ (u_snapshot (unst l) = None -> u_entries (unst l) = [] ->
        stable_entries l i t = Panic site_u_stable_entries_empty)
    /\ (u_snapshot (unst l) = None -> u_entries (unst l) <> [] ->
        let e := List.last (u_entries (unst l)) (mkEntry 0 0 0 [] []) in
        e_index e <> i \/ e_term e <> t ->
        stable_entries l i t = Panic site_u_stable_entries_mismatch).
Proof. exact stable_entries_panics. Qed.
Print Assumptions C14_stable_entries_panics.

Theorem C14_persist_entries_identity :
  forall rw l,
    RepInv rw l -> u_snapshot (unst l) = None -> u_entries (unst l) <> [] ->
    exists st' l',
      append (store l) (u_entries (unst l)) = Ok st'
      /\ (let e := List.last (u_entries (unst l)) (mkEntry 0 0 0 [] []) in
          stable_entries (set_store l st') (e_index e) (e_term e) = Ok l')
      /\ RepInv rw l' /\ abs l' = abs l /\ u_entries (unst l') = []
      /\ committed l' = committed l /\ persisted l' = persisted l /\ applied l' = applied l.
Proof. exact persist_entries_identity. Qed.
Print Assumptions C14_persist_entries_identity.

Theorem C14_store_apply_snapshot_ok :
  forall rw l s,
    RepInv rw l -> u_snapshot (unst l) = Some s -> first_of (store l) <= s_index s ->
    let st' := apply_snapshot_result (store l) s in
    apply_snapshot (store l) s = Ok (st', SOk tt)
    /\ RepInv rw (set_store l st') /\ abs (set_store l st') = abs l
    /\ snap_index st' = s_index s /\ snap_term st' = s_term s
    /\ first_of st' = s_index s + 1 /\ entries st' = [].
Proof. exact store_apply_snapshot_ok. Qed.
Print Assumptions C14_store_apply_snapshot_ok.

Theorem C14_stable_snap_ok :
  forall rw l s,
    RepInv rw l -> u_snapshot (unst l) = Some s ->
    (* the application has applied the snapshot to the storage *)
    snap_index (store l) = s_index s -> snap_term (store l) = s_term s ->
    first_of (store l) = s_index s + 1 ->
    (u_entries (unst l) = [] -> entries (store l) = []) ->
    exists l', stable_snap l (s_index s) = Ok l' /\ RepInv rw l' /\ abs l' = abs l
      /\ u_snapshot (unst l') = None /\ u_entries (unst l') = u_entries (unst l)
      /\ u_offset (unst l') = u_offset (unst l) /\ store l' = store l
      /\ committed l' = committed l /\ persisted l' = persisted l /\ applied l' = applied l.
Proof. exact stable_snap_ok. Qed.
Print Assumptions C14_stable_snap_ok.

Theorem C14_stable_snap_panics :
  forall l i,
    (u_snapshot (unst l) = None -> stable_snap l i = Panic site_u_stable_snap_none)
    /\ (forall s, u_snapshot (unst l) = Some s -> s_index s <> i ->
        stable_snap l i = Panic site_u_stable_snap_mismatch).
Proof. exact stable_snap_panics. Qed.
Print Assumptions C14_stable_snap_panics.

Theorem C14_store_compact_ok :
  forall l ci,
    RepInv false l -> u_snapshot (unst l) = None ->
    first_of (store l) < ci -> ci <= applied l ->
    ci <= u_offset (unst l) -> ci < next_of (store l) ->
    exists st', compact (store l) ci = Ok st'
      /\ RepInv false (set_store l st')
      /\ abs (set_store l st')
         = mkLL (ci - 1) None (skipn (N.to_nat (ci - first_of (store l))) (ll_ents (abs l)))
      /\ first_of st' = ci.
Proof. exact store_compact_ok. Qed.
Print Assumptions C14_store_compact_ok.

Theorem C14_store_compact_noop :
  forall rw l ci,
    RepInv rw l -> ci <= first_of (store l) -> compact (store l) ci = Ok (store l).
Proof. exact store_compact_noop. Qed.
Print Assumptions C14_store_compact_noop.

Theorem C14_RepInv_close_window :
  forall l, RepInv true l -> applied l <= committed l -> RepInv false l.
Proof. exact RepInv_close_window. Qed.
Print Assumptions C14_RepInv_close_window.

Theorem C14_RepInv_open_window :
  forall rw l, RepInv rw l -> RepInv true l.
Proof. exact RepInv_open_window. Qed.
Print Assumptions C14_RepInv_open_window.

Theorem C14_applied_to_unchecked_window :
  forall rw l i,
    RepInv rw l -> RepInv true (applied_to_unchecked l i).
Proof. exact applied_to_unchecked_window. Qed.
Print Assumptions C14_applied_to_unchecked_window.

Theorem C14_trunc_append_size :
  forall u ents u',
    usize_ok u -> u_truncate_and_append u ents = Ok u' -> usize_ok u'.
Proof. exact trunc_append_size. Qed.
Print Assumptions C14_trunc_append_size.

Theorem C14_usize_other_ops :
  forall u,
    usize_ok (u_new (u_offset u))
    /\ (forall s, usize_ok (u_restore u s))
    /\ (forall i t u', u_stable_entries u i t = Ok u' -> usize_ok u')
    /\ (forall i u', usize_ok u -> u_stable_snap u i = Ok u' -> usize_ok u').
Proof. exact usize_other_ops. Qed.
Print Assumptions C14_usize_other_ops.

(* ---- (e) committed_immutable and the exact fatal cases ---- *)
Theorem C14_log_append_fatal_iff :
  forall l e0 t,
    log_append l (e0 :: t) = Panic site_l_append_range
    <-> 0 < e_index e0 /\ e_index e0 - 1 < committed l.
Proof. exact log_append_fatal_iff. Qed.
Print Assumptions C14_log_append_fatal_iff.

Theorem C14_maybe_append_fatal_iff :
  forall rw l i t cmt ents,
    RepInv rw l -> contiguous_from (i + 1) ents -> nz_terms ents ->
    (i <= ll_last (abs l) \/ t <> 0) ->
    i + N.of_nat (length ents) < u64_max ->
    (maybe_append l i t cmt ents = Panic site_l_append_conflict
     <-> ll_match (abs l) i t = true /\ 0 < ll_find_conflict (abs l) ents <= committed l).
Proof. exact maybe_append_fatal_iff. Qed.
Print Assumptions C14_maybe_append_fatal_iff.

Theorem C14_committed_immutable_append :
  forall rw l e0 t l' r,
    RepInv rw l -> e_index e0 <= ll_last (abs l) + 1 ->
    contiguous_from (e_index e0) (e0 :: t) -> persisted l < e_index e0 ->
    e_index e0 + N.of_nat (length (e0 :: t)) <= u64_max ->
    log_append l (e0 :: t) = Ok (l', r) ->
    preserves_upto (committed l) (abs l) (abs l').
Proof. exact committed_immutable_append. Qed.
Print Assumptions C14_committed_immutable_append.

Theorem C14_committed_immutable_maybe_append :
  forall rw l i t cmt ents l' r,
    RepInv rw l -> contiguous_from (i + 1) ents -> nz_terms ents ->
    (i <= ll_last (abs l) \/ t <> 0) -> i + N.of_nat (length ents) < u64_max ->
    maybe_append l i t cmt ents = Ok (l', r) ->
    preserves_upto (committed l) (abs l) (abs l').
Proof. exact committed_immutable_maybe_append. Qed.
Print Assumptions C14_committed_immutable_maybe_append.

Theorem C14_committed_immutable_restore :
  forall rw l s l',
    RepInv rw l -> s_index s < u64_max -> log_restore l s = Ok l' ->
    preserves_upto (committed l) (abs l) (abs l').
Proof. exact committed_immutable_restore. Qed.
Print Assumptions C14_committed_immutable_restore.

Theorem C14_committed_immutable_compact :
  forall l ci st',
    RepInv false l -> u_snapshot (unst l) = None ->
    first_of (store l) < ci -> ci <= applied l -> ci <= u_offset (unst l) -> ci < next_of (store l) ->
    compact (store l) ci = Ok st' ->
    preserves_upto (committed l) (abs l) (abs (set_store l st')).
Proof. exact committed_immutable_compact. Qed.
Print Assumptions C14_committed_immutable_compact.

(* ---- (f) persisted_sound ---- *)
Theorem C14_persisted_le_storage_last :
  forall rw l,
    RepInv rw l -> persisted l <= storage_last_index (store l).
Proof. exact persisted_le_storage_last. Qed.
Print Assumptions C14_persisted_le_storage_last.

Theorem C14_persisted_entry_is_stored :
  forall rw l,
    RepInv rw l -> u_snapshot (unst l) = None -> first_of (store l) <= persisted l ->
    ll_get (abs l) (persisted l) = entry_at (store l) (persisted l).
Proof. exact persisted_entry_is_stored. Qed.
Print Assumptions C14_persisted_entry_is_stored.

Theorem C14_maybe_persist_ok :
  forall rw l i t,
    RepInv rw l ->
    exists l' b, maybe_persist l i t = Ok (l', b) /\ RepInv rw l' /\ abs l' = abs l
      /\ committed l' = committed l /\ applied l' = applied l /\ store l' = store l
      /\ (b = false -> l' = l)
      /\ (b = true -> persisted l' = i /\ persisted l < i /\ i < u_offset (unst l)
                      /\ i < next_of (store l) /\ storage_term (store l) i = Ok (SOk t)).
Proof. exact maybe_persist_ok. Qed.
Print Assumptions C14_maybe_persist_ok.

Theorem C14_maybe_persist_term_matches :
  forall rw l i t l',
    RepInv rw l -> u_snapshot (unst l) = None ->
    maybe_persist l i t = Ok (l', true) -> ll_base (abs l) <= i ->
    ll_term (abs l) i = SOk t.
Proof. exact maybe_persist_term_matches. Qed.
Print Assumptions C14_maybe_persist_term_matches.

Theorem C14_maybe_persist_snap_ok :
  forall rw l i,
    RepInv rw l -> persisted l < i -> i <= committed l -> i < u_offset (unst l) ->
    (* the snapshot has reached the storage *)
    i < next_of (store l) ->
    maybe_persist_snap l i = Ok (set_persisted l i, true)
    /\ RepInv rw (set_persisted l i) /\ abs (set_persisted l i) = abs l.
Proof. exact maybe_persist_snap_ok. Qed.
Print Assumptions C14_maybe_persist_snap_ok.

Theorem C14_maybe_persist_snap_cases :
  forall l i,
    (i <= persisted l -> maybe_persist_snap l i = Ok (l, false))
    /\ (persisted l < i -> committed l < i -> maybe_persist_snap l i = Panic site_l_persist_snap_commit)
    /\ (persisted l < i -> i <= committed l -> u_offset (unst l) <= i ->
        maybe_persist_snap l i = Panic site_l_persist_snap_offset).
Proof. exact maybe_persist_snap_cases. Qed.
Print Assumptions C14_maybe_persist_snap_cases.

(* ---- all histories ---- *)
Theorem C14_cstep_inv :
  forall l l', RepInv false l -> cstep l l' -> step_post l l'.
Proof. exact cstep_inv. Qed.
Print Assumptions C14_cstep_inv.

Theorem C14_history_inv :
  forall l0 l,
    RepInv false l0 -> history l0 l ->
    RepInv false l
    /\ applied l <= committed l /\ committed l <= last_index l
    /\ persisted l <= storage_last_index (store l)
    /\ committed l0 <= committed l
    /\ ll_base (abs l0) <= ll_base (abs l)
    /\ (* no entry at or below the commit index is ever altered *)
       preserves_upto (committed l0) (abs l0) (abs l).
Proof. exact history_inv. Qed.
Print Assumptions C14_history_inv.

(* ---- refuted variants (false of the faithful model), with witnesses ---- *)
Theorem C14_log_append_keeps_persisted_refuted :
  exists l l' r, log_new ex_store2 0 = Ok l /\ RepInv false l
    /\ log_append l [ex_ent 2 2] = Ok (l', r)
    /\ persisted l' = 2 /\ u_offset (unst l') = 2
    /\ ll_term (abs l') 2 = SOk 2 /\ storage_term (store l') 2 = Ok (SOk 1).
Proof. exact log_append_keeps_persisted_refuted. Qed.
Print Assumptions C14_log_append_keeps_persisted_refuted.

Theorem C14_maybe_persist_snap_unsound_refuted :
  exists l l1 l2, log_new MemStorage.new 0 = Ok l /\ RepInv false l
    /\ log_restore l (mkSnap 5 1 cs_default) = Ok l1 /\ RepInv false l1
    /\ maybe_persist_snap l1 5 = Ok (l2, true)
    /\ persisted l2 = 5 /\ storage_last_index (store l2) = 0.
Proof. exact maybe_persist_snap_unsound_refuted. Qed.
Print Assumptions C14_maybe_persist_snap_unsound_refuted.

Theorem C14_stable_before_write_refuted :
  exists l l1 r l2, log_new MemStorage.new 0 = Ok l
    /\ log_append l [ex_ent 1 1] = Ok (l1, r)
    /\ stable_entries l1 1 1 = Ok l2
    /\ last_index l1 = 1 /\ term l1 1 = Ok (SOk 1)
    /\ last_index l2 = 0 /\ term l2 1 = Ok (SOk 0).
Proof. exact stable_before_write_refuted. Qed.
Print Assumptions C14_stable_before_write_refuted.

(* the apply window's upper bound saturates (F8, fixed in /repo 63caa76): a limit of
   u64::MAX means "everything committed", not an overflow panic *)
Theorem C14_apply_bound_saturates :
  forall rw l since,
    RepInv rw l -> since < u64_max -> u64_max <= persisted l + max_apply_unpersisted_log_limit l ->
    has_next_entries_since l since
    = Ok (N.max (since + 1) (ll_first (abs l)) <? committed l + 1).
Proof. exact apply_bound_saturates. Qed.
Print Assumptions C14_apply_bound_saturates.

(* ---- non-vacuity: concrete states meeting the hypotheses ---- *)
Theorem C14_ex_l0_inv :
  RepInv false ex_l0.
Proof. exact ex_l0_inv. Qed.
Print Assumptions C14_ex_l0_inv.

Theorem C14_ex_conflicting_append :
  exists l', maybe_append ex_l0 1 1 3 [ex_ent 2 2; ex_ent 3 2] = Ok (l', Some (2, 3))
    /\ RepInv false l'
    /\ ll_ents (abs l') = [ex_ent 1 1; ex_ent 2 2; ex_ent 3 2]
    /\ committed l' = 3 /\ persisted l' = 1 /\ u_offset (unst l') = 2
    /\ ll_find_conflict (abs ex_l0) [ex_ent 2 2; ex_ent 3 2] = 2.
Proof. exact ex_conflicting_append. Qed.
Print Assumptions C14_ex_conflicting_append.

Theorem C14_ex_history :
  exists l, history ex_l0 l
    /\ ll_base (abs l) = 6 /\ ll_bterm (abs l) = Some 3 /\ ll_ents (abs l) = []
    /\ committed l = 6 /\ applied l = 2 /\ persisted l = 3.
Proof. exact ex_history. Qed.
Print Assumptions C14_ex_history.

Theorem C14_ex_limited_slice :
  exists l' r, log_append ex_l0 [ex_ent 3 2] = Ok (l', r) /\ RepInv false l'
    /\ slice l' 1 4 None = Ok (SOk [ex_ent 1 1; ex_ent 2 1; ex_ent 3 2])
    /\ slice l' 1 4 (Some 9) = Ok (SOk [ex_ent 1 1; ex_ent 2 1])
    /\ slice l' 1 4 (Some 0) = Ok (SOk [ex_ent 1 1])
    /\ total_size entry_size [ex_ent 1 1; ex_ent 2 1; ex_ent 3 2] = 12.
Proof. exact ex_limited_slice. Qed.
Print Assumptions C14_ex_limited_slice.


(* ====================================================================== *)
(* ==== node level ====================================================== *)
(* ====================================================================== *)
(* The representation invariant of the RaftLog lifted to M/Raft.v and M/RawNode.v
   (proofs in M/RaftProofsRepInv.v).
     LI rw r   := RepInv rw (r_log r)          NLI rw n := LI rw (rn_raft n)
     LogOK r   := exists rw, LI rw r           NLogOK n := LogOK (rn_raft n)
   PROVED
   * Every function of M/Raft.v that changes r_log preserves LI rw for BOTH values of
     the window flag (so applied <= committed, once true, stays true), and so does every
     RawNode entry point; functions that leave r_log alone have frame statements
     (.._log).  Raft::new / RawNode::new establish LI true (LI false when
     Config.applied = 0) from the MemStorage invariant of the initial store.
   * The preconditions are explicit and each is shown necessary by a witness state that
     breaks RepInv without it (C14_node_*_refuted, C14_node_room_needed):
       room k r      last_index + k < u64::MAX when k entries may be appended (the model,
                     like the Rust, numbers new entries without an overflow check);
       msg_wf li m   MsgAppend: entries numbered consecutively after m_index and
                     m_index + len < u64::MAX (a predicate of the message alone: the other
                     two preconditions of maybe_append_ok - non-zero terms, anchor inside
                     the log or of non-zero term - are NOT needed in Ok-form);
                     MsgSnapshot: index < u64::MAX; election-type messages and MsgPropose: room;
       commit_pre n  commit_ready (advance / advance_append / advance_append_async): the
                     snapshot / entries named by the last record are in the storage;
       persist_pre   on_persist_ready: an acknowledged snapshot index is below the
                     storage's next index (or already persisted).
   * The application's storage writes (C07's OSetStore): append the unstable entries,
     apply the pending snapshot, append the entries that follow an applied snapshot,
     compact at or below applied, change hard/conf state preserve LI
     (C14_node_store_write_pres); if a Ready is written as told (write_ready) the
     preconditions of the advance calls hold (C14_node_ready_write_pres), the write
     cannot panic (C14_node_write_ready_total) and the synchronous cycle
     ready / write / advance_append can be repeated (C14_node_sync_cycle_records).
   * Traces over C07's op alphabet from RawNode::new: LI, committed <= last_index,
     persisted <= storage last index at every point; applied <= committed at every
     point when Config.applied = 0, and from the first point on where it holds
     otherwise (C14_node_trace_from_new, C14_node_trace_from_new_window).
   NOT PROVED
   * persist_pre is discharged from "the Ready was written as told" only when no earlier
     record is outstanding (the synchronous cycle), and it is automatic while no
     outstanding record carries a snapshot (C14_node_persist_pre_no_snapshot); with several
     outstanding records one of which carries a snapshot (advance_append_async) it stays a
     hypothesis of the on_persist_ready / advance call.
   * store_write covers exactly the current unstable entries / pending snapshot; a write
     of a proper prefix of the unstable entries (a Ready persisted after further appends)
     is not covered (commit_ready panics in that situation anyway: the record's last
     entry is no longer the last unstable entry). *)
From RV Require Import Base.IdSet M.Proto M.Inflights M.Progress M.Quorum M.ConfChange M.Msg M.Raft
  M.RawNode M.RaftProofs M.RaftProofsC15 M.RaftProofsC09 M.RaftProofsC08 M.RaftProofsC13
  M.RaftProofsC07 M.RaftProofsRepInv.
From RecordUpdate Require Import RecordSet.
Import RecordSetNotations.

Theorem C14_node_LI_def :
  forall rw r,
  LI rw r <-> RepInv rw (r_log r).
Proof. exact LI_def. Qed.
Print Assumptions C14_node_LI_def.

Theorem C14_node_NLI_def :
  forall rw n,
  NLI rw n <-> RepInv rw (r_log (rn_raft n)).
Proof. exact NLI_def. Qed.
Print Assumptions C14_node_NLI_def.

Theorem C14_node_NLogOK_def :
  forall n,
  NLogOK n <-> exists rw, RepInv rw (r_log (rn_raft n)).
Proof. exact NLogOK_def. Qed.
Print Assumptions C14_node_NLogOK_def.

Theorem C14_node_LogOK_iff :
  forall r,
  LogOK r <-> LI true r.
Proof. exact LogOK_iff. Qed.
Print Assumptions C14_node_LogOK_iff.

Theorem C14_node_room_def :
  forall k r,
  room k r <-> last_index (r_log r) + k < u64_max.
Proof. exact room_def. Qed.
Print Assumptions C14_node_room_def.

Theorem C14_node_nroom_def :
  forall k n,
  nroom k n <-> last_index (r_log (rn_raft n)) + k < u64_max.
Proof. exact nroom_def. Qed.
Print Assumptions C14_node_nroom_def.

Theorem C14_node_nlog_def :
  forall n,
  nlog n = r_log (rn_raft n).
Proof. exact nlog_def. Qed.
Print Assumptions C14_node_nlog_def.

Theorem C14_node_nlast_def :
  forall n,
  nlast n = last_index (r_log (rn_raft n)).
Proof. exact nlast_def. Qed.
Print Assumptions C14_node_nlast_def.

Theorem C14_node_append_wf_def :
  forall m,
  append_wf m <->
  contiguous_from (m_index m + 1) (m_entries m)
  /\ m_index m + N.of_nat (length (m_entries m)) < u64_max.
Proof. exact append_wf_def. Qed.
Print Assumptions C14_node_append_wf_def.

Theorem C14_node_msg_wf_def :
  forall li m,
  msg_wf li m <->
  (((m_type m =? MsgHup) || (m_type m =? MsgTimeoutNow) || (m_type m =? MsgRequestVoteResponse)
    || (m_type m =? MsgRequestPreVoteResponse)) = true -> li + 1 < u64_max)
  /\ (m_type m = MsgPropose -> li + N.of_nat (length (m_entries m)) < u64_max)
  /\ (m_type m = MsgAppend -> append_wf m)
  /\ (m_type m = MsgSnapshot -> s_index (m_snapshot m) < u64_max).
Proof. exact msg_wf_def. Qed.
Print Assumptions C14_node_msg_wf_def.

Theorem C14_node_snap_written_def :
  forall l,
  snap_written l <->
  match u_snapshot (unst l) with
  | Some s => snap_index (store l) = s_index s /\ snap_term (store l) = s_term s
              /\ first_of (store l) = s_index s + 1
              /\ (u_entries (unst l) = [] -> entries (store l) = [])
  | None => True
  end.
Proof. exact snap_written_def. Qed.
Print Assumptions C14_node_snap_written_def.

Theorem C14_node_ents_written_def :
  forall l,
  ents_written l <->
  skipn (N.to_nat (u_offset (unst l) - first_of (store l))) (entries (store l)) = u_entries (unst l).
Proof. exact ents_written_def. Qed.
Print Assumptions C14_node_ents_written_def.

Theorem C14_node_commit_pre_def :
  forall n,
  commit_pre n <->
  (rr_snapshot (List.last (rn_records n) (mkRR 0 None None false)) <> None -> snap_written (r_log (rn_raft n)))
  /\ (rr_last_entry (List.last (rn_records n) (mkRR 0 None None false)) <> None -> ents_written (r_log (rn_raft n))).
Proof. exact commit_pre_def. Qed.
Print Assumptions C14_node_commit_pre_def.

Theorem C14_node_persist_pre_def :
  forall n number,
  persist_pre n number <->
  (persisted (r_log (rn_raft n)) < snd (fold_records (rn_records n) number 0 0 0) ->
   snd (fold_records (rn_records n) number 0 0 0) < next_of (store (r_log (rn_raft n)))).
Proof. exact persist_pre_def. Qed.
Print Assumptions C14_node_persist_pre_def.

Theorem C14_node_advance_pre_def :
  forall n,
  advance_pre n <-> commit_pre n /\ persist_pre n (rn_max_number n).
Proof. exact advance_pre_def. Qed.
Print Assumptions C14_node_advance_pre_def.

Theorem C14_node_op_wf_def :
  forall n o,
  op_wf n o <->
  match o with
  | OStep m => msg_wf (last_index (r_log (rn_raft n))) m
  | OTick | OCampaign | OPropose _ _ | OProposeCC _ _ _ _ => nroom 1 n
  | OAdvance _ => advance_pre n /\ nroom 1 n
  | OAdvanceAppend _ => advance_pre n
  | OAdvanceAppendAsync _ => commit_pre n
  | OOnPersistReady k => persist_pre n k
  | OAdvanceApply | OAdvanceApplyTo _ => is_leader (rn_raft n) = true -> nroom 1 n
  | OSetStore m => store_write (r_log (rn_raft n)) m
  | OApplyCC _ | OPing | OReady | OReportUnreachable _ | OReportSnapshot _ _
  | ORequestSnapshot | OTransferLeader _ | OReadIndex _ => True
  end.
Proof. exact op_wf_def. Qed.
Print Assumptions C14_node_op_wf_def.

Theorem C14_node_store_write_iff :
  forall l st',
  store_write l st' <->
  (entries st' = entries (store l) /\ snap_index st' = snap_index (store l)
   /\ snap_term st' = snap_term (store l) /\ trig_log st' = trig_log (store l))
  \/ (u_snapshot (unst l) = None /\ append (store l) (u_entries (unst l)) = Ok st')
  \/ (exists s, u_snapshot (unst l) = Some s /\ apply_snapshot (store l) s = Ok (st', SOk tt))
  \/ (exists s, u_snapshot (unst l) = Some s /\ snap_written l
                 /\ append (store l) (u_entries (unst l)) = Ok st')
  \/ (exists ci, u_snapshot (unst l) = None /\ applied l <= committed l /\ ci <= applied l
                  /\ ci <= u_offset (unst l) /\ ci < next_of (store l)
                  /\ compact (store l) ci = Ok st').
Proof. exact store_write_iff. Qed.
Print Assumptions C14_node_store_write_iff.

Theorem C14_node_set_store_node_def :
  forall n m,
  set_store_node n m = n <| rn_raft := (rn_raft n) <| r_log := set_store (r_log (rn_raft n)) m |> |>.
Proof. exact set_store_node_def. Qed.
Print Assumptions C14_node_set_store_node_def.

Theorem C14_node_write_ready_def :
  forall st rd,
  write_ready st rd =
  if s_index (rd_snapshot rd) =? 0 then st' <- append st (rd_entries rd) ;; Ok (Some st')
  else
    r <- apply_snapshot st (rd_snapshot rd) ;;
    match snd r with
    | SErr _ => Ok None
    | SOk _ => st' <- append (fst r) (rd_entries rd) ;; Ok (Some st')
    end.
Proof. exact write_ready_def. Qed.
Print Assumptions C14_node_write_ready_def.

Theorem C14_node_wrun_iff :
  forall n n',
  wrun n n' <->
  n' = n \/ exists o n1 ot, op_wf n o /\ exec n o = Ok (n1, ot) /\ wrun n1 n'.
Proof. exact wrun_iff. Qed.
Print Assumptions C14_node_wrun_iff.

(* the window flag is exactly the conjunct applied <= committed *)
Theorem C14_node_RepInv_false_iff :
  forall l,
  RepInv false l <-> RepInv true l /\ applied l <= committed l.
Proof. exact RepInv_false_iff. Qed.
Print Assumptions C14_node_RepInv_false_iff.

(* RaftLog operations in Ok-form *)
Theorem C14_node_commit_to_pres :
  forall rw l tc l',
  commit_to l tc = Ok l' -> RepInv rw l -> RepInv rw l' /\ same_su l l'.
Proof. exact commit_to_pres. Qed.
Print Assumptions C14_node_commit_to_pres.

Theorem C14_node_log_maybe_commit_pres :
  forall rw l i t l' b,
  RaftLog.maybe_commit l i t = Ok (l', b) -> RepInv rw l -> RepInv rw l' /\ same_su l l'.
Proof. exact log_maybe_commit_pres. Qed.
Print Assumptions C14_node_log_maybe_commit_pres.

Theorem C14_node_applied_to_pres :
  forall rw l i l',
  applied_to l i = Ok l' -> RepInv rw l ->
  RepInv rw l' /\ store l' = store l /\ unst l' = unst l /\ committed l' = committed l.
Proof. exact applied_to_pres. Qed.
Print Assumptions C14_node_applied_to_pres.

Theorem C14_node_log_append_pres :
  forall rw l e0 t l' li,
  log_append l (e0 :: t) = Ok (l', li) -> RepInv rw l ->
  contiguous_from (e_index e0) (e0 :: t) -> persisted l < e_index e0 ->
  e_index e0 + N.of_nat (length (e0 :: t)) <= u64_max ->
  RepInv rw l' /\ store l' = store l /\ committed l' = committed l /\ applied l' = applied l
  /\ li = e_index e0 + N.of_nat (length (e0 :: t)) - 1 /\ last_index l' = li.
Proof. exact log_append_pres. Qed.
Print Assumptions C14_node_log_append_pres.

Theorem C14_node_find_conflict_shape :
  forall L ents,
  forall j,
  contiguous_from j ents -> 0 < j ->
  let ci := ll_find_conflict L ents in
  ci = 0 \/ (ci <> 0 /\ j <= ci /\ ci < j + N.of_nat (length ents)
             /\ exists e r, skipn (N.to_nat (ci - j)) ents = e :: r /\ e_index e = ci).
Proof. exact find_conflict_shape. Qed.
Print Assumptions C14_node_find_conflict_shape.

Theorem C14_node_maybe_append_pres :
  forall rw l i t cmt ents l' res,
  maybe_append l i t cmt ents = Ok (l', res) -> RepInv rw l ->
  contiguous_from (i + 1) ents -> i + N.of_nat (length ents) < u64_max ->
  RepInv rw l' /\ store l' = store l /\ applied l' = applied l.
Proof. exact maybe_append_pres. Qed.
Print Assumptions C14_node_maybe_append_pres.

Theorem C14_node_log_restore_pres :
  forall rw l s l',
  log_restore l s = Ok l' -> RepInv rw l -> s_index s < u64_max ->
  RepInv rw l' /\ store l' = store l /\ applied l' = applied l.
Proof. exact log_restore_pres. Qed.
Print Assumptions C14_node_log_restore_pres.

Theorem C14_node_maybe_persist_pres :
  forall rw l i t l' b,
  maybe_persist l i t = Ok (l', b) -> RepInv rw l -> RepInv rw l' /\ same_su l l'.
Proof. exact maybe_persist_pres. Qed.
Print Assumptions C14_node_maybe_persist_pres.

Theorem C14_node_maybe_persist_snap_pres :
  forall rw l i l' b,
  maybe_persist_snap l i = Ok (l', b) -> RepInv rw l ->
  (persisted l < i -> i < next_of (store l)) ->
  RepInv rw l' /\ same_su l l'.
Proof. exact maybe_persist_snap_pres. Qed.
Print Assumptions C14_node_maybe_persist_snap_pres.

Theorem C14_node_stable_snap_pres :
  forall rw l i l',
  stable_snap l i = Ok l' -> RepInv rw l -> snap_written l ->
  RepInv rw l' /\ abs l' = abs l /\ store l' = store l
  /\ u_snapshot (unst l') = None /\ u_entries (unst l') = u_entries (unst l)
  /\ u_offset (unst l') = u_offset (unst l)
  /\ committed l' = committed l /\ persisted l' = persisted l /\ applied l' = applied l.
Proof. exact stable_snap_pres. Qed.
Print Assumptions C14_node_stable_snap_pres.

Theorem C14_node_stable_entries_pres :
  forall rw l i t l',
  stable_entries l i t = Ok l' -> RepInv rw l -> ents_written l ->
  RepInv rw l' /\ abs l' = abs l /\ store l' = store l
  /\ committed l' = committed l /\ persisted l' = persisted l /\ applied l' = applied l.
Proof. exact stable_entries_pres. Qed.
Print Assumptions C14_node_stable_entries_pres.

(* constructors *)
Theorem C14_node_raft_new_pres :
  forall c st sa dr r,
  raft_new c st sa dr = Ok (inr r) -> SInv st -> trig_log st = false ->
  LI true r /\ (c_applied c = 0 -> LI false r) /\ store (r_log r) = st.
Proof. exact raft_new_pres. Qed.
Print Assumptions C14_node_raft_new_pres.

Theorem C14_node_rn_new_pres :
  forall c st sa dr n,
  rn_new c st sa dr = Ok (inr n) -> SInv st -> trig_log st = false ->
  NLI true n /\ (c_applied c = 0 -> NLI false n) /\ store (nlog n) = st.
Proof. exact rn_new_pres. Qed.
Print Assumptions C14_node_rn_new_pres.

(* M/Raft.v *)
Theorem C14_node_append_entry_pres :
  forall rw r es r' ok,
  append_entry r es = Ok (r', ok) -> LI rw r -> room (N.of_nat (length es)) r ->
  LI rw r' /\ store (r_log r') = store (r_log r) /\ applied (r_log r') = applied (r_log r)
  /\ committed (r_log r') = committed (r_log r)
  /\ last_index (r_log r') <= last_index (r_log r) + N.of_nat (length es).
Proof. exact append_entry_pres. Qed.
Print Assumptions C14_node_append_entry_pres.

Theorem C14_node_become_leader_pres :
  forall rw r r',
  become_leader r = Ok r' -> LI rw r -> room 1 r -> LI rw r'.
Proof. exact become_leader_pres. Qed.
Print Assumptions C14_node_become_leader_pres.

Theorem C14_node_become_follower_pres :
  forall rw r t l r',
  become_follower r t l = Ok r' -> LI rw r ->
  LI rw r' /\ last_index (r_log r') = last_index (r_log r).
Proof. exact become_follower_pres. Qed.
Print Assumptions C14_node_become_follower_pres.

Theorem C14_node_maybe_commit_pres :
  forall rw r r' b,
  maybe_commit r = Ok (r', b) -> LI rw r -> LI rw r' /\ same_su (r_log r) (r_log r').
Proof. exact maybe_commit_pres. Qed.
Print Assumptions C14_node_maybe_commit_pres.

Theorem C14_node_maybe_commit_by_vote_pres :
  forall rw r m r',
  maybe_commit_by_vote r m = Ok r' -> LI rw r ->
  LI rw r' /\ last_index (r_log r') = last_index (r_log r).
Proof. exact maybe_commit_by_vote_pres. Qed.
Print Assumptions C14_node_maybe_commit_by_vote_pres.

Theorem C14_node_hup_pres :
  forall rw r tl r',
  hup r tl = Ok r' -> LI rw r -> room 1 r -> LI rw r'.
Proof. exact hup_pres. Qed.
Print Assumptions C14_node_hup_pres.

Theorem C14_node_handle_append_entries_pres :
  forall rw r m r',
  handle_append_entries r m = Ok r' -> append_wf m -> LI rw r -> LI rw r'.
Proof. exact handle_append_entries_pres. Qed.
Print Assumptions C14_node_handle_append_entries_pres.

Theorem C14_node_handle_heartbeat_pres :
  forall rw r m r',
  handle_heartbeat r m = Ok r' -> LI rw r -> LI rw r'.
Proof. exact handle_heartbeat_pres. Qed.
Print Assumptions C14_node_handle_heartbeat_pres.

Theorem C14_node_restore_pres :
  forall rw r s r' b,
  restore r s = Ok (r', b) -> s_index s < u64_max -> LI rw r -> LI rw r'.
Proof. exact restore_pres. Qed.
Print Assumptions C14_node_restore_pres.

Theorem C14_node_handle_snapshot_pres :
  forall rw r m r',
  handle_snapshot r m = Ok r' -> s_index (m_snapshot m) < u64_max -> LI rw r -> LI rw r'.
Proof. exact handle_snapshot_pres. Qed.
Print Assumptions C14_node_handle_snapshot_pres.

Theorem C14_node_post_conf_change_pres :
  forall rw r r' cs,
  post_conf_change r = Ok (r', cs) -> LI rw r -> LI rw r' /\ same_su (r_log r) (r_log r').
Proof. exact post_conf_change_pres. Qed.
Print Assumptions C14_node_post_conf_change_pres.

Theorem C14_node_handle_append_response_pres :
  forall rw r m r',
  handle_append_response r m = Ok r' -> LI rw r ->
  LI rw r' /\ last_index (r_log r') = last_index (r_log r).
Proof. exact handle_append_response_pres. Qed.
Print Assumptions C14_node_handle_append_response_pres.

Theorem C14_node_handle_heartbeat_response_log :
  forall r m r',
  handle_heartbeat_response r m = Ok r' -> r_log r' = r_log r.
Proof. exact handle_heartbeat_response_log. Qed.
Print Assumptions C14_node_handle_heartbeat_response_log.

Theorem C14_node_step_pres :
  forall rw r m r' c,
  step r m = Ok (r', c) -> msg_wf (last_index (r_log r)) m -> LI rw r -> LI rw r'.
Proof. exact step_pres. Qed.
Print Assumptions C14_node_step_pres.

Theorem C14_node_tick_pres :
  forall rw r r' b,
  tick r = Ok (r', b) -> LI rw r -> room 1 r -> LI rw r'.
Proof. exact tick_pres. Qed.
Print Assumptions C14_node_tick_pres.

Theorem C14_node_on_persist_entries_pres :
  forall rw r i t r',
  on_persist_entries r i t = Ok r' -> LI rw r ->
  LI rw r' /\ same_su (r_log r) (r_log r').
Proof. exact on_persist_entries_pres. Qed.
Print Assumptions C14_node_on_persist_entries_pres.

Theorem C14_node_on_persist_snap_pres :
  forall rw r i r',
  on_persist_snap r i = Ok r' -> LI rw r ->
  (persisted (r_log r) < i -> i < next_of (store (r_log r))) ->
  LI rw r' /\ same_su (r_log r) (r_log r').
Proof. exact on_persist_snap_pres. Qed.
Print Assumptions C14_node_on_persist_snap_pres.

Theorem C14_node_commit_apply_pres :
  forall rw r a r',
  commit_apply r a = Ok r' -> LI rw r -> (is_leader r = true -> room 1 r) -> LI rw r'.
Proof. exact commit_apply_pres. Qed.
Print Assumptions C14_node_commit_apply_pres.

Theorem C14_node_commit_apply_internal_unchecked_pres :
  forall rw r a r',
  commit_apply_internal r a true = Ok r' -> LI rw r -> is_leader r = false -> LI true r'.
Proof. exact commit_apply_internal_unchecked_pres. Qed.
Print Assumptions C14_node_commit_apply_internal_unchecked_pres.

Theorem C14_node_raft_apply_conf_change_pres :
  forall rw r cc r' ocs,
  raft_apply_conf_change r cc = Ok (r', ocs) -> LI rw r ->
  LI rw r' /\ same_su (r_log r) (r_log r').
Proof. exact raft_apply_conf_change_pres. Qed.
Print Assumptions C14_node_raft_apply_conf_change_pres.

Theorem C14_node_load_state_pres :
  forall rw r hs r',
  load_state r hs = Ok r' -> LI rw r -> LI rw r'.
Proof. exact load_state_pres. Qed.
Print Assumptions C14_node_load_state_pres.

Theorem C14_node_request_snapshot_log :
  forall r r' c,
  request_snapshot r = Ok (r', c) -> r_log r' = r_log r.
Proof. exact request_snapshot_log. Qed.
Print Assumptions C14_node_request_snapshot_log.

Theorem C14_node_ping_log :
  forall r r',
  ping r = Ok r' -> r_log r' = r_log r.
Proof. exact ping_log. Qed.
Print Assumptions C14_node_ping_log.

Theorem C14_node_adjust_max_inflight_msgs_log :
  forall r target cap r',
  adjust_max_inflight_msgs r target cap = Ok r' -> r_log r' = r_log r.
Proof. exact adjust_max_inflight_msgs_log. Qed.
Print Assumptions C14_node_adjust_max_inflight_msgs_log.

Theorem C14_node_maybe_free_inflight_buffers_log :
  forall r,
  r_log (maybe_free_inflight_buffers r) = r_log r.
Proof. exact maybe_free_inflight_buffers_log. Qed.
Print Assumptions C14_node_maybe_free_inflight_buffers_log.

Theorem C14_node_set_max_apply_unpersisted_log_limit_pres :
  forall rw r lim,
  LI rw r -> LI rw (set_max_apply_unpersisted_log_limit r lim).
Proof. exact set_max_apply_unpersisted_log_limit_pres. Qed.
Print Assumptions C14_node_set_max_apply_unpersisted_log_limit_pres.

Theorem C14_node_enable_group_commit_pres :
  forall rw r e r',
  enable_group_commit r e = Ok r' -> LI rw r -> LI rw r'.
Proof. exact enable_group_commit_pres. Qed.
Print Assumptions C14_node_enable_group_commit_pres.

Theorem C14_node_assign_commit_groups_pres :
  forall rw r ids r',
  assign_commit_groups r ids = Ok r' -> LI rw r -> LI rw r'.
Proof. exact assign_commit_groups_pres. Qed.
Print Assumptions C14_node_assign_commit_groups_pres.

(* M/RawNode.v *)
Theorem C14_node_rn_step_pres :
  forall rw n m n' c,
  rn_step n m = Ok (n', c) -> msg_wf (nlast n) m -> NLI rw n -> NLI rw n'.
Proof. exact rn_step_pres. Qed.
Print Assumptions C14_node_rn_step_pres.

Theorem C14_node_rn_tick_pres :
  forall rw n n' b,
  rn_tick n = Ok (n', b) -> nroom 1 n -> NLI rw n -> NLI rw n'.
Proof. exact rn_tick_pres. Qed.
Print Assumptions C14_node_rn_tick_pres.

Theorem C14_node_rn_campaign_pres :
  forall rw n n' c,
  rn_campaign n = Ok (n', c) -> nroom 1 n -> NLI rw n -> NLI rw n'.
Proof. exact rn_campaign_pres. Qed.
Print Assumptions C14_node_rn_campaign_pres.

Theorem C14_node_rn_propose_pres :
  forall rw n ctx data n' c,
  rn_propose n ctx data = Ok (n', c) -> nroom 1 n -> NLI rw n -> NLI rw n'.
Proof. exact rn_propose_pres. Qed.
Print Assumptions C14_node_rn_propose_pres.

Theorem C14_node_rn_propose_conf_change_pres :
  forall rw n ctx data ty ci n' c,
  rn_propose_conf_change n ctx data ty ci = Ok (n', c) -> nroom 1 n -> NLI rw n -> NLI rw n'.
Proof. exact rn_propose_conf_change_pres. Qed.
Print Assumptions C14_node_rn_propose_conf_change_pres.

Theorem C14_node_rn_apply_conf_change_pres :
  forall rw n cc n' o,
  rn_apply_conf_change n cc = Ok (n', o) -> NLI rw n -> NLI rw n'.
Proof. exact rn_apply_conf_change_pres. Qed.
Print Assumptions C14_node_rn_apply_conf_change_pres.

Theorem C14_node_rn_ping_log :
  forall n n',
  rn_ping n = Ok n' -> nlog n' = nlog n.
Proof. exact rn_ping_log. Qed.
Print Assumptions C14_node_rn_ping_log.

Theorem C14_node_gen_light_ready_log :
  forall n n' lr,
  gen_light_ready n = Ok (n', lr) -> nlog n' = nlog n.
Proof. exact gen_light_ready_log. Qed.
Print Assumptions C14_node_gen_light_ready_log.

Theorem C14_node_rn_ready_log :
  forall n n' rd,
  rn_ready n = Ok (n', rd) -> nlog n' = nlog n.
Proof. exact rn_ready_log. Qed.
Print Assumptions C14_node_rn_ready_log.

Theorem C14_node_commit_ready_pres :
  forall rw n rd n',
  commit_ready n rd = Ok n' -> commit_pre n -> NLI rw n ->
  NLI rw n' /\ abs (nlog n') = abs (nlog n) /\ store (nlog n') = store (nlog n)
  /\ same_cpa (nlog n) (nlog n') /\ rn_records n' = rn_records n
  /\ rn_max_number n' = rn_max_number n.
Proof. exact commit_ready_pres. Qed.
Print Assumptions C14_node_commit_ready_pres.

Theorem C14_node_rn_on_persist_ready_pres :
  forall rw n number n',
  rn_on_persist_ready n number = Ok n' -> persist_pre n number -> NLI rw n ->
  NLI rw n' /\ same_su (nlog n) (nlog n').
Proof. exact rn_on_persist_ready_pres. Qed.
Print Assumptions C14_node_rn_on_persist_ready_pres.

Theorem C14_node_rn_advance_append_pres :
  forall rw n rd n' lr,
  rn_advance_append n rd = Ok (n', lr) -> advance_pre n -> NLI rw n ->
  NLI rw n' /\ abs (nlog n') = abs (nlog n) /\ store (nlog n') = store (nlog n)
  /\ applied (nlog n') = applied (nlog n).
Proof. exact rn_advance_append_pres. Qed.
Print Assumptions C14_node_rn_advance_append_pres.

Theorem C14_node_rn_advance_append_async_pres :
  forall rw n rd n',
  rn_advance_append_async n rd = Ok n' -> commit_pre n -> NLI rw n -> NLI rw n'.
Proof. exact rn_advance_append_async_pres. Qed.
Print Assumptions C14_node_rn_advance_append_async_pres.

Theorem C14_node_rn_advance_apply_to_pres :
  forall rw n a n',
  rn_advance_apply_to n a = Ok n' -> (is_leader (rn_raft n) = true -> nroom 1 n) -> NLI rw n -> NLI rw n'.
Proof. exact rn_advance_apply_to_pres. Qed.
Print Assumptions C14_node_rn_advance_apply_to_pres.

Theorem C14_node_rn_advance_apply_pres :
  forall rw n n',
  rn_advance_apply n = Ok n' -> (is_leader (rn_raft n) = true -> nroom 1 n) -> NLI rw n -> NLI rw n'.
Proof. exact rn_advance_apply_pres. Qed.
Print Assumptions C14_node_rn_advance_apply_pres.

Theorem C14_node_rn_advance_pres :
  forall rw n rd n' lr,
  rn_advance n rd = Ok (n', lr) -> advance_pre n -> nroom 1 n -> NLI rw n -> NLI rw n'.
Proof. exact rn_advance_pres. Qed.
Print Assumptions C14_node_rn_advance_pres.

Theorem C14_node_rn_report_unreachable_pres :
  forall rw n id n',
  rn_report_unreachable n id = Ok n' -> NLI rw n -> NLI rw n'.
Proof. exact rn_report_unreachable_pres. Qed.
Print Assumptions C14_node_rn_report_unreachable_pres.

Theorem C14_node_rn_report_snapshot_pres :
  forall rw n id f n',
  rn_report_snapshot n id f = Ok n' -> NLI rw n -> NLI rw n'.
Proof. exact rn_report_snapshot_pres. Qed.
Print Assumptions C14_node_rn_report_snapshot_pres.

Theorem C14_node_rn_transfer_leader_pres :
  forall rw n t n',
  rn_transfer_leader n t = Ok n' -> NLI rw n -> NLI rw n'.
Proof. exact rn_transfer_leader_pres. Qed.
Print Assumptions C14_node_rn_transfer_leader_pres.

Theorem C14_node_rn_read_index_pres :
  forall rw n ctx n',
  rn_read_index n ctx = Ok n' -> NLI rw n -> NLI rw n'.
Proof. exact rn_read_index_pres. Qed.
Print Assumptions C14_node_rn_read_index_pres.

Theorem C14_node_rn_request_snapshot_log :
  forall n n' c,
  rn_request_snapshot n = Ok (n', c) -> nlog n' = nlog n.
Proof. exact rn_request_snapshot_log. Qed.
Print Assumptions C14_node_rn_request_snapshot_log.

(* the application's storage writes *)
Theorem C14_node_write_meta_pres :
  forall rw l m',
  entries m' = entries (store l) -> snap_index m' = snap_index (store l) ->
  snap_term m' = snap_term (store l) -> trig_log m' = trig_log (store l) ->
  RepInv rw l -> RepInv rw (set_store l m') /\ abs (set_store l m') = abs l.
Proof. exact write_meta_pres. Qed.
Print Assumptions C14_node_write_meta_pres.

Theorem C14_node_write_entries_pres :
  forall rw l st',
  RepInv rw l -> u_snapshot (unst l) = None -> append (store l) (u_entries (unst l)) = Ok st' ->
  RepInv rw (set_store l st') /\ abs (set_store l st') = abs l /\ ents_written (set_store l st').
Proof. exact write_entries_pres. Qed.
Print Assumptions C14_node_write_entries_pres.

Theorem C14_node_write_snapshot_pres :
  forall rw l s st',
  RepInv rw l -> u_snapshot (unst l) = Some s -> apply_snapshot (store l) s = Ok (st', SOk tt) ->
  RepInv rw (set_store l st') /\ abs (set_store l st') = abs l /\ snap_written (set_store l st')
  /\ entries st' = [].
Proof. exact write_snapshot_pres. Qed.
Print Assumptions C14_node_write_snapshot_pres.

Theorem C14_node_write_entries_after_snapshot_pres :
  forall rw l s st',
  RepInv rw l -> u_snapshot (unst l) = Some s -> snap_written l ->
  append (store l) (u_entries (unst l)) = Ok st' ->
  RepInv rw (set_store l st') /\ abs (set_store l st') = abs l /\ snap_written (set_store l st')
  /\ entries st' = u_entries (unst l).
Proof. exact write_entries_after_snapshot_pres. Qed.
Print Assumptions C14_node_write_entries_after_snapshot_pres.

Theorem C14_node_write_compact_pres :
  forall rw l ci st',
  RepInv rw l -> u_snapshot (unst l) = None -> applied l <= committed l ->
  ci <= applied l -> ci <= u_offset (unst l) -> ci < next_of (store l) ->
  compact (store l) ci = Ok st' ->
  RepInv rw (set_store l st') /\ last_index (set_store l st') = last_index l
  /\ preserves_upto (committed l) (abs l) (abs (set_store l st')).
Proof. exact write_compact_pres. Qed.
Print Assumptions C14_node_write_compact_pres.

Theorem C14_node_store_write_pres :
  forall rw l st',
  store_write l st' -> RepInv rw l ->
  RepInv rw (set_store l st') /\ last_index (set_store l st') = last_index l
  /\ preserves_upto (committed l) (abs l) (abs (set_store l st')).
Proof. exact store_write_pres. Qed.
Print Assumptions C14_node_store_write_pres.

Theorem C14_node_set_store_pres :
  forall rw n m,
  store_write (nlog n) m -> NLI rw n -> NLI rw (set_store_node n m).
Proof. exact set_store_pres. Qed.
Print Assumptions C14_node_set_store_pres.

Theorem C14_node_ready_write_pres :
  forall rw n n1 rd st',
  rn_ready n = Ok (n1, rd) -> NLI rw n ->
  (forall s, u_snapshot (unst (nlog n)) = Some s -> s_index s <> 0) ->
  write_ready (store (nlog n)) rd = Ok (Some st') ->
  let n2 := set_store_node n1 st' in
  NLI rw n2 /\ abs (nlog n2) = abs (nlog n) /\ commit_pre n2
  /\ (rn_records n = [] -> persist_pre n2 (rn_max_number n2)).
Proof. exact ready_write_pres. Qed.
Print Assumptions C14_node_ready_write_pres.

Theorem C14_node_write_ready_total :
  forall rw n n1 rd,
  rn_ready n = Ok (n1, rd) -> NLI rw n ->
  (forall s, u_snapshot (unst (nlog n)) = Some s ->
     s_index s <> 0 /\ first_of (store (nlog n)) <= s_index s) ->
  exists st', write_ready (store (nlog n)) rd = Ok (Some st').
Proof. exact write_ready_total. Qed.
Print Assumptions C14_node_write_ready_total.

Theorem C14_node_ready_write_advance_append :
  forall rw n n1 rd st' n3 lr,
  rn_ready n = Ok (n1, rd) -> NLI rw n -> rn_records n = [] ->
  (forall s, u_snapshot (unst (nlog n)) = Some s -> s_index s <> 0) ->
  write_ready (store (nlog n)) rd = Ok (Some st') ->
  rn_advance_append (set_store_node n1 st') rd = Ok (n3, lr) ->
  NLI rw n3 /\ abs (nlog n3) = abs (nlog n).
Proof. exact ready_write_advance_append. Qed.
Print Assumptions C14_node_ready_write_advance_append.

Theorem C14_node_sync_cycle_records :
  forall n n1 rd st' n3 lr,
  rn_ready n = Ok (n1, rd) -> rn_records n = [] ->
  rn_advance_append (set_store_node n1 st') rd = Ok (n3, lr) -> rn_records n3 = [].
Proof. exact sync_cycle_records. Qed.
Print Assumptions C14_node_sync_cycle_records.

Theorem C14_node_persist_pre_no_snapshot :
  forall n number,
  (forall rr, In rr (rn_records n) -> rr_snapshot rr = None) -> persist_pre n number.
Proof. exact persist_pre_no_snapshot. Qed.
Print Assumptions C14_node_persist_pre_no_snapshot.

(* traces *)
Theorem C14_node_exec_pres :
  forall rw n o n' ot,
  exec n o = Ok (n', ot) -> op_wf n o -> NLI rw n -> NLI rw n'.
Proof. exact exec_pres. Qed.
Print Assumptions C14_node_exec_pres.

Theorem C14_node_wrun_pres :
  forall rw n n',
  wrun n n' -> NLI rw n -> NLI rw n'.
Proof. exact wrun_pres. Qed.
Print Assumptions C14_node_wrun_pres.

Theorem C14_node_NLI_bounds :
  forall rw n,
  NLI rw n ->
  committed (nlog n) <= last_index (nlog n) /\ last_index (nlog n) < u64_max
  /\ persisted (nlog n) <= storage_last_index (store (nlog n))
  /\ persisted (nlog n) <= last_index (nlog n)
  /\ (rw = false -> applied (nlog n) <= committed (nlog n)).
Proof. exact NLI_bounds. Qed.
Print Assumptions C14_node_NLI_bounds.

Theorem C14_node_window_closes :
  forall n n',
  NLI true n -> applied (nlog n) <= committed (nlog n) -> wrun n n' ->
  NLI false n' /\ applied (nlog n') <= committed (nlog n').
Proof. exact window_closes. Qed.
Print Assumptions C14_node_window_closes.

Theorem C14_node_trace_from_new :
  forall c st sa dr n0 n,
  rn_new c st sa dr = Ok (inr n0) -> SInv st -> trig_log st = false -> wrun n0 n ->
  NLogOK n
  /\ committed (nlog n) <= last_index (nlog n) /\ last_index (nlog n) < u64_max
  /\ persisted (nlog n) <= storage_last_index (store (nlog n))
  /\ (c_applied c = 0 -> applied (nlog n) <= committed (nlog n)).
Proof. exact trace_from_new. Qed.
Print Assumptions C14_node_trace_from_new.

Theorem C14_node_trace_from_new_window :
  forall c st sa dr n0 n1 n,
  rn_new c st sa dr = Ok (inr n0) -> SInv st -> trig_log st = false ->
  wrun n0 n1 -> applied (nlog n1) <= committed (nlog n1) -> wrun n1 n ->
  applied (nlog n) <= committed (nlog n) /\ committed (nlog n) <= last_index (nlog n).
Proof. exact trace_from_new_window. Qed.
Print Assumptions C14_node_trace_from_new_window.

(* ---- non-vacuity and witnesses (M/RaftProofsRepInv.v, module RepInvSamples) ---- *)
Import Samples RepInvSamples.

(* a single voter: campaign, Ready, write, advance_append *)
Theorem C14_node_ex_leader_trace :
  wrun node0 node3.
Proof. exact ex_leader_trace. Qed.
Print Assumptions C14_node_ex_leader_trace.

Theorem C14_node_ex_leader_inv :
  NLI false node3 /\ committed (nlog node3) = 1 /\ last_index (nlog node3) = 1
    /\ persisted (nlog node3) = 1.
Proof. exact ex_leader_inv. Qed.
Print Assumptions C14_node_ex_leader_inv.

(* a follower: MsgAppend, Ready, write, advance; MsgSnapshot, Ready, apply, advance *)
Theorem C14_node_ex_follower_trace :
  wrun f0 f6.
Proof. exact ex_follower_trace. Qed.
Print Assumptions C14_node_ex_follower_trace.

Theorem C14_node_ex_follower_inv :
  NLI false f6 /\ committed (nlog f6) = 5 /\ last_index (nlog f6) = 5
    /\ applied (nlog f6) = 5 /\ persisted (nlog f6) = 5.
Proof. exact ex_follower_inv. Qed.
Print Assumptions C14_node_ex_follower_inv.

(* Config.applied = 3 over an empty store: LI true but not LI false *)
Theorem C14_node_restart_window_open :
  rn_new cfg_a3 store0 None [15; 15; 15; 15] = Ok (inr w0)
    /\ NLI true w0 /\ ~ NLI false w0 /\ applied (nlog w0) = 3 /\ committed (nlog w0) = 0.
Proof. exact restart_window_open. Qed.
Print Assumptions C14_node_restart_window_open.

(* commit_pre is needed *)
Theorem C14_node_commit_ready_unwritten_refuted :
  exists n', NLI false (fst ready1)
      /\ rn_advance_append_async (fst ready1) (snd ready1) = Ok n'
      /\ last_index (nlog (fst ready1)) = 1 /\ last_index (nlog n') = 0
      /\ ~ NLogOK n'.
Proof. exact commit_ready_unwritten_refuted. Qed.
Print Assumptions C14_node_commit_ready_unwritten_refuted.

(* persist_pre is needed *)
Theorem C14_node_persist_unwritten_snapshot_refuted :
  exists n', NLI false (fst snap_rd)
      /\ rn_on_persist_ready (fst snap_rd) (rd_number (snd snap_rd)) = Ok n'
      /\ persisted (nlog n') = 5 /\ storage_last_index (store (nlog n')) = 0
      /\ ~ NLogOK n'.
Proof. exact persist_unwritten_snapshot_refuted. Qed.
Print Assumptions C14_node_persist_unwritten_snapshot_refuted.

(* msg_wf (contiguity of a MsgAppend) is needed *)
Theorem C14_node_append_gap_refuted :
  exists n' c, NLI false f0 /\ rn_step f0 gapm = Ok (n', c)
      /\ u_entries (unst (nlog n')) = [mkEntry 0 1 1 [] []; mkEntry 0 1 3 [] []] /\ ~ NLogOK n'.
Proof. exact append_gap_refuted. Qed.
Print Assumptions C14_node_append_gap_refuted.

(* room is needed *)
Theorem C14_node_room_needed :
  exists n' c, NLI false h0 /\ last_index (nlog h0) = u64_max - 1
      /\ rn_campaign h0 = Ok (n', c) /\ last_index (nlog n') = u64_max /\ ~ NLogOK n'.
Proof. exact room_needed. Qed.
Print Assumptions C14_node_room_needed.



(* ====================================================================== *)
(* ==== application contract ============================================ *)
(* ====================================================================== *)
(* M/RaftProofsAppContract.v: the caller-side hypotheses that the node-level trace theorems
   above (op_wf), C07's (op_pre_node2) and C20's (op_wf2) take at every step are replaced by
   ONE contract on traces.  The application has a ghost state
     appstate = { a_store  its Storage;  a_phase  Idle | Writing rd (WSnap|WEnts|WDone);
                  a_hist   C07's history of handed-out entries (a_cursor = its end);
                  a_applied  the applied index last reported;  a_got  something was handed out }
   and app_ok a o says what it may do (C14_contract_app_ok_def):
     1. any library call other than the advance calls and storage writes: only when no Ready
        is being persisted (a_phase = Idle) - no call between ready() and its advance;
     2. apply_conf_change additionally only after some committed entry was handed out;
     3. storage writes: the Ready's snapshot (WSnap), then the Ready's entries (WEnts), each
        exactly as returned by MemStorage (apply_snapshot answered Ok, append answered Ok);
        hard/conf state at any time; compaction only when Idle, at ci <= a_applied and
        ci < next index of the store;
     4. advance / advance_append / advance_append_async: with the Ready just received, after
        it has been written in full (WDone);
     5. advance_apply_to x: x <= a_cursor (only what was handed out).
   app_next is the evolution of the ghost state (it reads the node only through what the call
   returns).  Environment: peer_msgs_ok (a stepped MsgAppend has consecutive indexes, entry
   terms >= 1, index + len < u64::MAX, anchor index 0 or non-zero anchor term; a stepped
   MsgSnapshot has 1 <= index < u64::MAX) and idx_margin (last_index + 1 + entries of a stepped
   message < u64::MAX: kept as an explicit arithmetic side condition on the node's last
   index - a global bound would need a quantitative pass over every function).  Start:
   init_ok (well-formed store, trigger off, first index - 1 <= Config.applied <= commit index
   of the new node).
   PROVED
   * contract_step / contract_trace: the coupling invariant Good (NGood false, i.e. RnInv, LI
     with the restart window closed, CsiOK; a_store = the node's store; C07's Hist;
     applied <= commit_since_index <= committed; commit_since_index < unstable offset;
     max_apply_unpersisted_log_limit = 0; first index of the store <= cursor + 1; a pending
     snapshot has index >= 1; every outstanding record's snapshot is in the store; the phase
     describes the unstable state) holds at every point of every contract-abiding trace.
   * contract_side_conditions: at every point, for every next call allowed by the contract,
     op_wf, op_wf2, op_pre_node2 and C07's op_pre hold: persist_pre with any number of
     outstanding records, commit_pre, "first index <= cursor + 1" at ready / advance,
     1 <= last_index at apply_conf_change.  Storage writes are covered by contract_step
     directly (compaction is also allowed while a snapshot is pending, which store_write
     does not cover).
   * contract_log_ok: LogOK and the index bounds with no per-step side condition.
   * contract_no_local_or_shape_panic / contract_no_panic_sites: the next call of a
     contract-abiding application cannot panic at any of C20's 35 node-local and log/storage
     shape sites, nor (with init_tk: the term at the initial commit index is known) at site
     1422 (commit_info).  These are the C20 corollaries; they are pinned here because
     Props/C20.v is generated.
   * every call leaves the storage, applied (except commit_apply), a pending snapshot and the
     limit alone, never lowers the commit index nor moves the unstable offset to a committed
     index (lrel: step_rrel, tick_rrel, idle_exec_rel, ...).
   WITNESSES (a clause dropped => a failure): compaction above applied => next campaign panics at
   1422; a step between ready() and advance => advance panics; Config.applied below the
   store's snapshot point => hand-out does not start at Config.applied + 1 (Props/C07.v);
   writes other than the Ready / malformed MsgAppend / no head-room: the *_refuted theorems above.
   REMAINING HYPOTHESES: peer_msgs_ok, idx_margin (per step, arithmetic), init_ok (+ init_tk
   for 1422); max_apply_unpersisted_log_limit stays 0 because set_max_apply_unpersisted_log_limit
   is not in the op alphabet (Raft::new resets it).  NOT COVERED: the proofs use the
   compaction clause only as ci <= cursor; MemStorage's own rule (ci <= applied) is what is
   stated.  A clause "on_persist_ready only with received numbers, in order" is not needed
   and not stated. *)
From RV Require Import M.RaftProofsC20 M.RaftProofsC20Sites M.RaftProofsC20Inv M.RaftProofsC20Safe
  M.RaftProofsC20Shape M.RaftProofsC20Shape2 M.RaftProofsC20Shape3 M.RaftProofsAppContract.

Theorem C14_contract_a_cursor_def :
  forall a,
  a_cursor a = fst (a_hist a) + N.of_nat (length (snd (a_hist a))).
Proof. exact a_cursor_def. Qed.
Print Assumptions C14_contract_a_cursor_def.

Theorem C14_contract_stage_def :
  forall rd,
  stage1 rd = (match rd_entries rd with [] => WDone | _ => WEnts end)
  /\ stage0 rd = (if s_index (rd_snapshot rd) =? 0 then stage1 rd else WSnap).
Proof. exact stage_def. Qed.
Print Assumptions C14_contract_stage_def.

Theorem C14_contract_meta_write_def :
  forall st m,
  meta_write st m <->
  entries m = entries st /\ snap_index m = snap_index st /\ snap_term m = snap_term st
  /\ trig_log m = trig_log st.
Proof. exact meta_write_def. Qed.
Print Assumptions C14_contract_meta_write_def.

Theorem C14_contract_idle_op_def :
  forall o,
  idle_op o = match o with
              | OStep _ | OTick | OCampaign | OPropose _ _ | OProposeCC _ _ _ _ | OApplyCC _ | OPing
              | OReportUnreachable _ | OReportSnapshot _ _ | ORequestSnapshot | OTransferLeader _
              | OReadIndex _ => true
              | _ => false
              end.
Proof. exact idle_op_def. Qed.
Print Assumptions C14_contract_idle_op_def.

(* THE CONTRACT *)
Theorem C14_contract_app_ok_def :
  forall a o,
  app_ok a o <->
  match o with
  | OStep _ | OTick | OCampaign | OPropose _ _ | OProposeCC _ _ _ _ | OPing
  | OReportUnreachable _ | OReportSnapshot _ _ | ORequestSnapshot | OTransferLeader _
  | OReadIndex _ | OReady | OOnPersistReady _ | OAdvanceApply => a_phase a = Idle
  | OApplyCC _ => a_phase a = Idle /\ a_got a = true
  | OAdvance rd | OAdvanceAppend rd | OAdvanceAppendAsync rd => a_phase a = Writing rd WDone
  | OAdvanceApplyTo x => a_phase a = Idle /\ x <= a_cursor a
  | OSetStore m =>
      meta_write (a_store a) m
      \/ match a_phase a with
         | Writing rd WSnap => apply_snapshot (a_store a) (rd_snapshot rd) = Ok (m, SOk tt)
         | Writing rd WEnts => append (a_store a) (rd_entries rd) = Ok m
         | Writing _ WDone => False
         | Idle => exists ci, compact (a_store a) ci = Ok m /\ ci <= a_applied a
                              /\ ci < next_of (a_store a)
         end
  end.
Proof. exact app_ok_def. Qed.
Print Assumptions C14_contract_app_ok_def.

Theorem C14_contract_with_obs_def :
  forall a ot st ph ap,
  with_obs a ot st ph ap = mkApp st ph (hist_step (a_hist a) ot) ap (a_got a || nonempty (snd ot)).
Proof. exact with_obs_def. Qed.
Print Assumptions C14_contract_with_obs_def.

(* evolution of the ghost state *)
Theorem C14_contract_app_next_iff :
  forall a n o ot a',
  app_next a n o ot a' <->
  (idle_op o = true /\ app_ok a o /\ a' = with_obs a ot (a_store a) Idle (a_applied a))
  \/ (exists n1 rd, o = OReady /\ a_phase a = Idle /\ rn_ready n = Ok (n1, rd)
        /\ a' = with_obs a ot (a_store a) (Writing rd (stage0 rd)) (a_applied a))
  \/ (exists m, o = OSetStore m /\
        ((meta_write (a_store a) m /\ a' = with_obs a ot m (a_phase a) (a_applied a))
         \/ (exists rd, a_phase a = Writing rd WSnap
               /\ apply_snapshot (a_store a) (rd_snapshot rd) = Ok (m, SOk tt)
               /\ a' = with_obs a ot m (Writing rd (stage1 rd)) (a_applied a))
         \/ (exists rd, a_phase a = Writing rd WEnts /\ append (a_store a) (rd_entries rd) = Ok m
               /\ a' = with_obs a ot m (Writing rd WDone) (a_applied a))
         \/ (exists ci, a_phase a = Idle /\ compact (a_store a) ci = Ok m /\ ci <= a_applied a
               /\ ci < next_of (a_store a) /\ a' = with_obs a ot m Idle (a_applied a))))
  \/ (exists rd, a_phase a = Writing rd WDone /\
        ((o = OAdvance rd /\ a' = with_obs a ot (a_store a) Idle
                                    (if a_cursor a =? 0 then a_applied a else a_cursor a))
         \/ ((o = OAdvanceAppend rd \/ o = OAdvanceAppendAsync rd)
             /\ a' = with_obs a ot (a_store a) Idle (a_applied a))))
  \/ (a_phase a = Idle /\
        ((exists k, o = OOnPersistReady k /\ a' = with_obs a ot (a_store a) Idle (a_applied a))
         \/ (o = OAdvanceApply /\ a' = with_obs a ot (a_store a) Idle
                                        (if a_cursor a =? 0 then a_applied a else a_cursor a))
         \/ (exists x, o = OAdvanceApplyTo x /\ x <= a_cursor a
               /\ a' = with_obs a ot (a_store a) Idle (if x =? 0 then a_applied a else x)))).
Proof. exact app_next_iff. Qed.
Print Assumptions C14_contract_app_next_iff.

Theorem C14_contract_app_next_ok :
  forall a n o ot a',
  app_next a n o ot a' -> app_ok a o.
Proof. exact app_next_ok. Qed.
Print Assumptions C14_contract_app_next_ok.

(* the environment *)
Theorem C14_contract_peer_msgs_ok_def :
  forall m,
  peer_msgs_ok m <->
  (m_type m = MsgAppend ->
     contiguous_from (m_index m + 1) (m_entries m) /\ Forall (fun e => e_term e <> 0) (m_entries m)
     /\ m_index m + N.of_nat (length (m_entries m)) < u64_max
     /\ (m_index m = 0 \/ m_log_term m <> 0))
  /\ (m_type m = MsgSnapshot -> 1 <= s_index (m_snapshot m) < u64_max).
Proof. exact peer_msgs_ok_def. Qed.
Print Assumptions C14_contract_peer_msgs_ok_def.

Theorem C14_contract_peer_ok_def :
  forall o,
  peer_ok o <-> match o with OStep m => peer_msgs_ok m | _ => True end.
Proof. exact peer_ok_def. Qed.
Print Assumptions C14_contract_peer_ok_def.

Theorem C14_contract_idx_margin_def :
  forall n o,
  idx_margin n o <->
  last_index (r_log (rn_raft n)) + 1
  + match o with OStep m => N.of_nat (length (m_entries m)) | _ => 0 end < u64_max.
Proof. exact idx_margin_def. Qed.
Print Assumptions C14_contract_idx_margin_def.

Theorem C14_contract_init_ok_def :
  forall c st n0,
  init_ok c st n0 <->
  SInv st /\ trig_log st = false /\ first_of st - 1 <= c_applied c
  /\ c_applied c <= committed (r_log (rn_raft n0)).
Proof. exact init_ok_def. Qed.
Print Assumptions C14_contract_init_ok_def.

Theorem C14_contract_init_app_def :
  forall c st,
  init_app c st = mkApp st Idle (c_applied c, []) (c_applied c) false.
Proof. exact init_app_def. Qed.
Print Assumptions C14_contract_init_app_def.

(* contract-abiding traces *)
Theorem C14_contract_crun_iff :
  forall a n a' n',
  crun a n a' n' <->
  (a' = a /\ n' = n)
  \/ exists o n1 ot a1, app_next a n o ot a1 /\ peer_ok o /\ idx_margin n o
       /\ exec n o = Ok (n1, ot) /\ crun a1 n1 a' n'.
Proof. exact crun_iff. Qed.
Print Assumptions C14_contract_crun_iff.

Theorem C14_contract_recs_done_def :
  forall a n,
  recs_done a n = match a_phase a with
                  | Writing _ WSnap => removelast (rn_records n)
                  | _ => rn_records n
                  end.
Proof. exact recs_done_def. Qed.
Print Assumptions C14_contract_recs_done_def.

Theorem C14_contract_phase_ok_def :
  forall a n,
  phase_ok a n <->
  match a_phase a with
  | Idle => True
  | Writing rd st =>
      let l := r_log (rn_raft n) in
      let rr := List.last (rn_records n) (mkRR 0 None None false) in
      rn_records n <> []
      /\ rd_entries rd = u_entries (unst l)
      /\ rd_snapshot rd = match u_snapshot (unst l) with Some s => s | None => snap_default end
      /\ rr_last_entry rr = rec_last_of (u_entries (unst l))
      /\ rr_snapshot rr = option_map (fun s => (s_index s, s_term s)) (u_snapshot (unst l))
      /\ (forall s, u_snapshot (unst l) = Some s -> rn_commit_since_index n = s_index s)
      /\ match st with
         | WSnap => u_snapshot (unst l) <> None
         | WEnts => snap_written l /\ u_entries (unst l) <> []
         | WDone => snap_written l /\ (u_entries (unst l) <> [] -> ents_written l)
         end
  end.
Proof. exact phase_ok_def. Qed.
Print Assumptions C14_contract_phase_ok_def.

(* the coupling invariant *)
Theorem C14_contract_Good_iff :
  forall a n,
  Good a n <->
  NGood false n
  /\ a_store a = store (r_log (rn_raft n))
  /\ Hist n (a_hist a)
  /\ a_applied a = applied (r_log (rn_raft n))
  /\ applied (r_log (rn_raft n)) <= rn_commit_since_index n
  /\ rn_commit_since_index n <= committed (r_log (rn_raft n))
  /\ rn_commit_since_index n < u_offset (unst (r_log (rn_raft n)))
  /\ max_apply_unpersisted_log_limit (r_log (rn_raft n)) = 0
  /\ first_of (store (r_log (rn_raft n))) <= rn_commit_since_index n + 1
  /\ (forall s, u_snapshot (unst (r_log (rn_raft n))) = Some s -> 1 <= s_index s)
  /\ (a_got a = true -> 1 <= committed (r_log (rn_raft n)))
  /\ (forall rr i t, In rr (recs_done a n) -> rr_snapshot rr = Some (i, t) ->
                     i < first_of (store (r_log (rn_raft n))))
  /\ phase_ok a n.
Proof. exact Good_iff. Qed.
Print Assumptions C14_contract_Good_iff.

(* what a library call does to the log, seen from outside *)
Theorem C14_contract_lrel_def :
  forall Q l l',
  lrel Q l l' <->
  (store l' = store l
   /\ committed l <= committed l'
   /\ (u_snapshot (unst l) <> None -> u_snapshot (unst l') <> None)
   /\ (forall s, u_snapshot (unst l') = Some s -> u_snapshot (unst l) = Some s \/ Q s)
   /\ (forall b, b <= committed l -> b < u_offset (unst l) -> b < u_offset (unst l'))
   /\ (max_apply_unpersisted_log_limit l = 0 -> max_apply_unpersisted_log_limit l' = 0))
  /\ applied l' = applied l.
Proof. exact lrel_def. Qed.
Print Assumptions C14_contract_lrel_def.

Theorem C14_contract_snap_of_def :
  forall m s,
  snap_of m s <-> m_type m = MsgSnapshot /\ s = m_snapshot m.
Proof. exact snap_of_def. Qed.
Print Assumptions C14_contract_snap_of_def.

Theorem C14_contract_op_snap_def :
  forall o s,
  op_snap o s <-> match o with OStep m => snap_of m s | _ => False end.
Proof. exact op_snap_def. Qed.
Print Assumptions C14_contract_op_snap_def.

Theorem C14_contract_idle_exec_rel :
  forall n o n' ot,
  idle_op o = true -> exec n o = Ok (n', ot) ->
  lrel (op_snap o) (nlog n) (nlog n')
  /\ rn_records n' = rn_records n /\ rn_max_number n' = rn_max_number n
  /\ rn_commit_since_index n' = rn_commit_since_index n /\ ot = no_out.
Proof. exact idle_exec_rel. Qed.
Print Assumptions C14_contract_idle_exec_rel.

Theorem C14_contract_on_persist_ready_rel :
  forall n k n',
  rn_on_persist_ready n k = Ok n' ->
  lrel (fun _ => False) (nlog n) (nlog n')
  /\ (forall rr, In rr (rn_records n') -> In rr (rn_records n))
  /\ rn_commit_since_index n' = rn_commit_since_index n.
Proof. exact on_persist_ready_rel. Qed.
Print Assumptions C14_contract_on_persist_ready_rel.

Theorem C14_contract_raft_new_shape :
  forall c st sa dr r,
  raft_new c st sa dr = Ok (inr r) -> SInv st ->
  unst (r_log r) = u_new (next_of st)
  /\ max_apply_unpersisted_log_limit (r_log r) = 0
  /\ applied (r_log r) = (if 0 <? c_applied c then c_applied c else first_of st - 1).
Proof. exact raft_new_shape. Qed.
Print Assumptions C14_contract_raft_new_shape.

(* the side conditions follow from the contract *)
Theorem C14_contract_side_ok :
  forall a n o,
  Good a n -> app_ok a o -> peer_ok o -> idx_margin n o -> (forall m, o <> OSetStore m) ->
  op_wf2 n o /\ op_pre_node2 n o.
Proof. exact side_ok. Qed.
Print Assumptions C14_contract_side_ok.

(* one contract-abiding call *)
Theorem C14_contract_contract_step :
  forall a n o ot a' n',
  Good a n -> app_next a n o ot a' -> peer_ok o -> idx_margin n o ->
  exec n o = Ok (n', ot) -> Good a' n'.
Proof. exact contract_step. Qed.
Print Assumptions C14_contract_contract_step.

Theorem C14_contract_init_good :
  forall c st sa dr n0,
  rn_new c st sa dr = Ok (inr n0) -> init_ok c st n0 -> Good (init_app c st) n0.
Proof. exact init_good. Qed.
Print Assumptions C14_contract_init_good.

Theorem C14_contract_crun_good :
  forall a n a' n',
  crun a n a' n' -> Good a n -> Good a' n'.
Proof. exact crun_good. Qed.
Print Assumptions C14_contract_crun_good.

Theorem C14_contract_contract_trace :
  forall c st sa dr n0 a n,
  rn_new c st sa dr = Ok (inr n0) -> init_ok c st n0 -> crun (init_app c st) n0 a n -> Good a n.
Proof. exact contract_trace. Qed.
Print Assumptions C14_contract_contract_trace.

(* (1) C14 node level without per-step side conditions *)
Theorem C14_contract_contract_log_ok :
  forall c st sa dr n0 a n,
  rn_new c st sa dr = Ok (inr n0) -> init_ok c st n0 -> crun (init_app c st) n0 a n ->
  NLI false n
  /\ applied (nlog n) <= committed (nlog n) /\ committed (nlog n) <= last_index (nlog n)
  /\ last_index (nlog n) < u64_max
  /\ persisted (nlog n) <= storage_last_index (store (nlog n))
  /\ applied (nlog n) <= rn_commit_since_index n /\ rn_commit_since_index n <= committed (nlog n)
  /\ first_of (store (nlog n)) <= rn_commit_since_index n + 1
  /\ a_store a = store (nlog n) /\ a_applied a = applied (nlog n)
  /\ a_cursor a = rn_commit_since_index n.
Proof. exact contract_log_ok. Qed.
Print Assumptions C14_contract_contract_log_ok.

Theorem C14_contract_contract_side_conditions :
  forall c st sa dr n0 a n o,
  rn_new c st sa dr = Ok (inr n0) -> init_ok c st n0 -> crun (init_app c st) n0 a n ->
  app_ok a o -> peer_ok o -> idx_margin n o -> (forall m, o <> OSetStore m) ->
  op_wf n o /\ op_wf2 n o /\ op_pre_node2 n o /\ op_pre n o.
Proof. exact contract_side_conditions. Qed.
Print Assumptions C14_contract_contract_side_conditions.

(* (3) C20: no panic at the 35 sites *)
Theorem C14_contract_contract_next_no_panic :
  forall a n o s,
  Good a n -> app_ok a o -> peer_ok o -> idx_margin n o -> exec n o = Panic s -> ~ In s all_sites.
Proof. exact contract_next_no_panic. Qed.
Print Assumptions C14_contract_contract_next_no_panic.

Theorem C14_contract_contract_no_local_or_shape_panic :
  forall c st sa dr n0 a n o s,
  rn_new c st sa dr = Ok (inr n0) -> init_ok c st n0 -> crun (init_app c st) n0 a n ->
  app_ok a o -> peer_ok o -> idx_margin n o -> exec n o = Panic s -> ~ In s all_sites.
Proof. exact contract_no_local_or_shape_panic. Qed.
Print Assumptions C14_contract_contract_no_local_or_shape_panic.

(* site 1422 *)
Theorem C14_contract_TK_def :
  forall l,
  TK l <-> match u_snapshot (unst l) with
           | Some _ => True
           | None => first_of (store l) - 1 = snap_index (store l) \/ first_of (store l) <= committed l
           end.
Proof. exact TK_def. Qed.
Print Assumptions C14_contract_TK_def.

Theorem C14_contract_init_tk_def :
  forall st n0,
  init_tk st n0 <-> first_of st - 1 = snap_index st \/ first_of st <= committed (r_log (rn_raft n0)).
Proof. exact init_tk_def. Qed.
Print Assumptions C14_contract_init_tk_def.

Theorem C14_contract_tk_commit_info :
  forall rw l,
  RepInv rw l -> TK l -> exists v, commit_info l = Ok v.
Proof. exact tk_commit_info. Qed.
Print Assumptions C14_contract_tk_commit_info.

Theorem C14_contract_step_22 :
  forall rw r m,
  LI rw r -> msg_wf (last_index (r_log r)) m -> TK (r_log r) -> step r m = Panic s1422 -> False.
Proof. exact step_22. Qed.
Print Assumptions C14_contract_step_22.

Theorem C14_contract_tick_22 :
  forall rw r,
  LI rw r -> room 1 r -> TK (r_log r) -> tick r = Panic s1422 -> False.
Proof. exact tick_22. Qed.
Print Assumptions C14_contract_tick_22.

Theorem C14_contract_exec_22 :
  forall a n o,
  Good a n -> TK (nlog n) -> app_ok a o -> peer_ok o -> idx_margin n o ->
  exec n o = Panic s1422 -> False.
Proof. exact exec_22. Qed.
Print Assumptions C14_contract_exec_22.

Theorem C14_contract_contract_step_tk :
  forall a n o ot a' n',
  Good a n -> TK (nlog n) -> app_next a n o ot a' -> peer_ok o -> idx_margin n o ->
  exec n o = Ok (n', ot) -> TK (nlog n').
Proof. exact contract_step_tk. Qed.
Print Assumptions C14_contract_contract_step_tk.

Theorem C14_contract_crun_tk :
  forall a n a' n',
  crun a n a' n' -> Good a n -> TK (nlog n) -> Good a' n' /\ TK (nlog n').
Proof. exact crun_tk. Qed.
Print Assumptions C14_contract_crun_tk.

Theorem C14_contract_contract_no_panic_sites :
  forall c st sa dr n0 a n o s,
  rn_new c st sa dr = Ok (inr n0) -> init_ok c st n0 -> init_tk st n0 ->
  crun (init_app c st) n0 a n ->
  app_ok a o -> peer_ok o -> idx_margin n o -> exec n o = Panic s ->
  ~ In s (site_l_commit_info :: all_sites).
Proof. exact contract_no_panic_sites. Qed.
Print Assumptions C14_contract_contract_no_panic_sites.

Theorem C14_contract_step_rrel :
  forall (Q : snapshot -> Prop) r m r' c,
  (m_type m = MsgSnapshot -> Q (m_snapshot m)) -> step r m = Ok (r', c) ->
  lrel Q (r_log r) (r_log r').
Proof. exact step_rrel. Qed.
Print Assumptions C14_contract_step_rrel.

Theorem C14_contract_tick_rrel :
  forall (Q : snapshot -> Prop) r r' b,
  tick r = Ok (r', b) -> lrel Q (r_log r) (r_log r').
Proof. exact tick_rrel. Qed.
Print Assumptions C14_contract_tick_rrel.

Theorem C14_contract_commit_apply_rel :
  forall (Q : snapshot -> Prop) r a r',
  commit_apply r a = Ok r' ->
  lrel0 Q (r_log r) (r_log r')
  /\ applied (r_log r') = (if a =? 0 then applied (r_log r) else a)
  /\ (a <> 0 -> applied (r_log r) <= a <= committed (r_log r)).
Proof. exact commit_apply_rel. Qed.
Print Assumptions C14_contract_commit_apply_rel.

Import Samples RepInvSamples ContractSamples ContractWitnesses.

(* non-vacuity: the follower trace (MsgAppend, ready, write, advance, MsgSnapshot, ready, apply, advance) is contract-abiding *)
Theorem C14_contract_ex_contract_trace :
  exists a, crun (init_app cfg store3) f0 a f6.
Proof. exact ex_contract_trace. Qed.
Print Assumptions C14_contract_ex_contract_trace.

(* the compaction clause is needed *)
Theorem C14_contract_compact_above_applied_refuted :
  exists a, crun (init_app cfg store3) f0 a f3 /\ a_phase a = Idle /\ a_applied a = 0
      /\ compact (a_store a) 2 = Ok mc /\ 2 < next_of (a_store a)
      /\ rn_campaign (set_store_node f3 mc) = Panic site_l_commit_info.
Proof. exact compact_above_applied_refuted. Qed.
Print Assumptions C14_contract_compact_above_applied_refuted.

(* clause 1 is needed *)
Theorem C14_contract_step_between_ready_and_advance_refuted :
  peer_msgs_ok app3
    /\ exec (fst rd1) (OStep app3) = Ok (w2a, no_out)
    /\ append (store (nlog w2a)) (rd_entries (snd rd1)) = Ok st1
    /\ exec (set_store_node w2a st1) (OAdvance (snd rd1)) = Panic site_u_stable_entries_mismatch.
Proof. exact step_between_ready_and_advance_refuted. Qed.
Print Assumptions C14_contract_step_between_ready_and_advance_refuted.

