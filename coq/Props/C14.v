(* C14 - RaftLog (stable storage + unstable suffix + pending snapshot) behaves as one
   logical log.  Only pinned statements; proofs live in M/RaftLogProofs*.v.
   LL / abs / RepInv / ll_* are defined in M/RaftLogProofs.v; the flag of RepInv is the
   documented restart window (true = applied <= committed not required). *)
From RV Require Import Base.Prelude M.Util M.UtilProofs M.MemStorage M.MemStorageProofs
  M.RaftLog M.RaftLogProofs M.RaftLogProofsOps M.RaftLogProofsStore M.RaftLogProofsSlice
  M.RaftLogProofsHistory M.RaftLogSamples.

Local Open Scope N_scope.

(* ---- (a) the representation invariant holds after RaftLog::new on a well-formed store ---- *)
Theorem C14_log_new_ok :
  forall st lim,
    SInv st -> trig_log st = false ->
    exists l, log_new st lim = Ok l /\ RepInv false l
      /\ abs l = mkLL (first_of st - 1) (store_bterm st) (entries st)
      /\ committed l = first_of st - 1 /\ applied l = first_of st - 1
      /\ persisted l = next_of st - 1.
Proof. exact log_new_ok. Qed.
Print Assumptions C14_log_new_ok.

Theorem C14_abs_wf :
  forall rw l, RepInv rw l -> ll_wf (abs l).
Proof. exact abs_wf. Qed.
Print Assumptions C14_abs_wf.

(* ---- (c) queries equal their plain-sequence definitions ---- *)
Theorem C14_abs_base_first :
  forall rw l, RepInv rw l -> first_index l = Ok (ll_first (abs l)).
Proof. exact abs_base_first. Qed.
Print Assumptions C14_abs_base_first.

Theorem C14_abs_last :
  forall rw l, RepInv rw l -> last_index l = ll_last (abs l).
Proof. exact abs_last. Qed.
Print Assumptions C14_abs_last.

Theorem C14_term_abs :
  forall rw l i, RepInv rw l -> term l i = Ok (ll_term (abs l) i).
Proof. exact term_abs. Qed.
Print Assumptions C14_term_abs.

Theorem C14_match_term_abs :
  forall rw l i t,
    RepInv rw l -> match_term l i t = Ok (ll_match (abs l) i t).
Proof. exact match_term_abs. Qed.
Print Assumptions C14_match_term_abs.

Theorem C14_find_conflict_abs :
  forall rw l ents,
    RepInv rw l -> find_conflict l ents = Ok (ll_find_conflict (abs l) ents).
Proof. exact find_conflict_abs. Qed.
Print Assumptions C14_find_conflict_abs.

Theorem C14_last_term_abs :
  forall rw l,
    RepInv rw l ->
    last_term l = match ll_term (abs l) (ll_last (abs l)) with
                  | SOk t => Ok t
                  | SErr _ => Panic site_l_last_term
                  end.
Proof. exact last_term_abs. Qed.
Print Assumptions C14_last_term_abs.

Theorem C14_last_term_defined :
  forall L,
    ll_ents L <> [] \/ ll_bterm L <> None -> exists t, ll_term L (ll_last L) = SOk t.
Proof. exact last_term_defined. Qed.
Print Assumptions C14_last_term_defined.

Theorem C14_is_up_to_date_abs :
  forall rw l i t lt,
    RepInv rw l -> ll_term (abs l) (ll_last (abs l)) = SOk lt ->
    is_up_to_date l i t = Ok ((lt <? t) || ((t =? lt) && (ll_last (abs l) <=? i))).
Proof. exact is_up_to_date_abs. Qed.
Print Assumptions C14_is_up_to_date_abs.

Theorem C14_find_conflict_by_term_spec :
  forall rw l index t,
    RepInv rw l ->
    if ll_last (abs l) <? index then find_conflict_by_term l index t = Ok (index, None)
    else
      (find_conflict_by_term l index t = Panic site_l_underflow
       /\ (forall j, j <= index -> above_term (abs l) t j))
      \/ exists ci ot,
          find_conflict_by_term l index t = Ok (ci, ot) /\ ci <= index
          /\ (forall j, ci < j <= index -> above_term (abs l) t j)
          /\ match ll_term (abs l) ci with
             | SOk t' => t' <= t /\ ot = Some t'
             | SErr _ => ot = None
             end.
Proof. exact find_conflict_by_term_spec. Qed.
Print Assumptions C14_find_conflict_by_term_spec.

Theorem C14_find_conflict_by_term_fuel_sufficient :
  forall rw l index t,
    RepInv rw l -> find_conflict_by_term l index t <> Panic site_l_fuel.
Proof. exact find_conflict_by_term_fuel_sufficient. Qed.
Print Assumptions C14_find_conflict_by_term_fuel_sufficient.

Theorem C14_find_conflict_by_term_no_panic :
  forall rw l index t,
    RepInv rw l -> (0 < ll_base (abs l) \/ ll_bterm (abs l) = Some 0 \/ ll_bterm (abs l) = None) ->
    exists r, find_conflict_by_term l index t = Ok r.
Proof. exact find_conflict_by_term_no_panic. Qed.
Print Assumptions C14_find_conflict_by_term_no_panic.

Theorem C14_commit_info_abs :
  forall rw l,
    RepInv rw l ->
    commit_info l = match ll_term (abs l) (committed l) with
                    | SOk t => Ok (committed l, t)
                    | SErr _ => Panic site_l_commit_info
                    end.
Proof. exact commit_info_abs. Qed.
Print Assumptions C14_commit_info_abs.

Theorem C14_has_next_entries_since_abs :
  forall rw l since,
    RepInv rw l -> since < u64_max ->
    has_next_entries_since l since
    = Ok (N.max (since + 1) (ll_first (abs l)) <? ll_apply_bound l + 1).
Proof. exact has_next_entries_since_abs. Qed.
Print Assumptions C14_has_next_entries_since_abs.

Theorem C14_next_entries_since_abs :
  forall rw l since max,
    RepInv rw l -> since < u64_max ->
    let lo := N.max (since + 1) (ll_first (abs l)) in
    let hi := ll_apply_bound l + 1 in
    next_entries_since l since max
    = Ok (if lo <? hi then Some (ll_slice (abs l) lo hi max) else None).
Proof. exact next_entries_since_abs. Qed.
Print Assumptions C14_next_entries_since_abs.

(* ---- (c,d) slice / entries: limit_size of the plain range; non-empty maximal prefix ---- *)
Theorem C14_slice_abs :
  forall rw l lo hi max,
    RepInv rw l -> ll_first (abs l) <= lo -> lo <= hi -> hi <= ll_last (abs l) + 1 ->
    slice l lo hi max = Ok (SOk (ll_slice (abs l) lo hi max)).
Proof. exact slice_abs. Qed.
Print Assumptions C14_slice_abs.

Theorem C14_slice_unlimited :
  forall rw l lo hi max,
    RepInv rw l -> ll_first (abs l) <= lo -> lo <= hi -> hi <= ll_last (abs l) + 1 ->
    max = None \/ max = Some NO_LIMIT ->
    slice l lo hi max = Ok (SOk (ll_range (abs l) lo hi)).
Proof. exact slice_unlimited. Qed.
Print Assumptions C14_slice_unlimited.

Theorem C14_slice_limited :
  forall rw l lo hi m,
    RepInv rw l -> ll_first (abs l) <= lo -> lo < hi -> hi <= ll_last (abs l) + 1 ->
    let full := ll_range (abs l) lo hi in
    exists r, slice l lo hi (Some m) = Ok (SOk r)
      /\ (exists k, (k <= length full)%nat /\ r = firstn k full)
      /\ r <> []
      /\ (m <> NO_LIMIT -> total_size entry_size r <= m \/ length r = 1%nat)
      /\ ((length r < length full)%nat -> m < total_size entry_size (firstn (S (length r)) full)).
Proof. exact slice_limited. Qed.
Print Assumptions C14_slice_limited.

Theorem C14_slice_compacted :
  forall rw l lo hi max,
    RepInv rw l -> lo < ll_first (abs l) -> lo <= hi ->
    slice l lo hi max = Ok (SErr Compacted).
Proof. exact slice_compacted. Qed.
Print Assumptions C14_slice_compacted.

Theorem C14_slice_panics :
  forall rw l lo hi max,
    RepInv rw l ->
    (hi < lo -> slice l lo hi max = Panic site_l_slice_order)
    /\ (lo <= hi -> ll_first (abs l) <= lo -> ll_last (abs l) + 1 < hi ->
        slice l lo hi max = Panic site_l_slice_bound).
Proof. exact slice_panics. Qed.
Print Assumptions C14_slice_panics.

Theorem C14_log_entries_abs :
  forall rw l i max,
    RepInv rw l -> ll_first (abs l) <= i ->
    log_entries l i max
    = Ok (SOk (if ll_last (abs l) <? i then [] else ll_slice (abs l) i (ll_last (abs l) + 1) max)).
Proof. exact log_entries_abs. Qed.
Print Assumptions C14_log_entries_abs.

Theorem C14_log_entries_compacted :
  forall rw l i max,
    RepInv rw l -> i < ll_first (abs l) ->
    log_entries l i max = Ok (SErr Compacted).
Proof. exact log_entries_compacted. Qed.
Print Assumptions C14_log_entries_compacted.

Theorem C14_ll_range_nth :
  forall L lo hi j,
    ll_first L <= lo -> lo <= j < hi ->
    nth_error (ll_range L lo hi) (N.to_nat (j - lo)) = ll_get L j.
Proof. exact ll_range_nth. Qed.
Print Assumptions C14_ll_range_nth.

Theorem C14_ll_range_length :
  forall L lo hi,
    ll_first L <= lo -> lo <= hi -> hi <= ll_last L + 1 ->
    length (ll_range L lo hi) = N.to_nat (hi - lo).
Proof. exact ll_range_length. Qed.
Print Assumptions C14_ll_range_length.

(* ---- (b) mutators act as list operations and preserve RepInv ---- *)
Theorem C14_commit_to_ok :
  forall rw l tc,
    RepInv rw l -> tc <= ll_last (abs l) ->
    exists l', commit_to l tc = Ok l' /\ RepInv rw l' /\ abs l' = abs l
               /\ committed l' = N.max (committed l) tc
               /\ persisted l' = persisted l /\ applied l' = applied l
               /\ store l' = store l /\ unst l' = unst l.
Proof. exact commit_to_ok. Qed.
Print Assumptions C14_commit_to_ok.

Theorem C14_commit_to_panics_iff :
  forall rw l tc,
    RepInv rw l ->
    (commit_to l tc = Panic site_l_commit_range <-> committed l < tc /\ ll_last (abs l) < tc).
Proof. exact commit_to_panics_iff. Qed.
Print Assumptions C14_commit_to_panics_iff.

Theorem C14_maybe_commit_ok :
  forall rw l i t,
    RepInv rw l -> (i <= ll_last (abs l) \/ t <> 0) ->
    exists l' b, maybe_commit l i t = Ok (l', b) /\ RepInv rw l' /\ abs l' = abs l
      /\ b = (committed l <? i) && ll_match (abs l) i t
      /\ committed l' = (if b then i else committed l)
      /\ persisted l' = persisted l /\ applied l' = applied l.
Proof. exact maybe_commit_ok. Qed.
Print Assumptions C14_maybe_commit_ok.

Theorem C14_applied_to_ok :
  forall rw l i,
    RepInv rw l -> applied l <= i <= committed l ->
    exists l', applied_to l i = Ok l' /\ RepInv rw l' /\ abs l' = abs l
               /\ applied l' = (if i =? 0 then applied l else i)
               /\ committed l' = committed l /\ persisted l' = persisted l.
Proof. exact applied_to_ok. Qed.
Print Assumptions C14_applied_to_ok.

Theorem C14_applied_to_panics_iff :
  forall l i,
    applied_to l i = Panic site_l_applied_range <-> i <> 0 /\ (committed l < i \/ i < applied l).
Proof. exact applied_to_panics_iff. Qed.
Print Assumptions C14_applied_to_panics_iff.

Theorem C14_log_append_ok :
  forall rw l e0 t,
    let ents := e0 :: t in
    let s := e_index e0 in
    RepInv rw l -> contiguous_from s ents ->
    committed l < s -> s <= ll_last (abs l) + 1 -> persisted l < s ->
    s + N.of_nat (length ents) <= u64_max ->
    exists l', log_append l ents = Ok (l', s + N.of_nat (length ents) - 1)
      /\ RepInv rw l' /\ abs l' = ll_append (abs l) ents
      /\ committed l' = committed l /\ persisted l' = persisted l /\ applied l' = applied l
      /\ store l' = store l.
Proof. exact log_append_ok. Qed.
Print Assumptions C14_log_append_ok.

Theorem C14_log_append_gap_panics :
  forall rw l e0 t,
    RepInv rw l -> committed l < e_index e0 -> ll_last (abs l) + 1 < e_index e0 ->
    log_append l (e0 :: t) = Panic site_u_slice_bound.
Proof. exact log_append_gap_panics. Qed.
Print Assumptions C14_log_append_gap_panics.

Theorem C14_maybe_append_ok :
  forall rw l i t cmt ents,
    RepInv rw l -> contiguous_from (i + 1) ents -> nz_terms ents ->
    (i <= ll_last (abs l) \/ t <> 0) ->
    i + N.of_nat (length ents) < u64_max ->
    ll_match (abs l) i t = true ->
    let ci := ll_find_conflict (abs l) ents in
    ci = 0 \/ committed l < ci ->
    exists l', maybe_append l i t cmt ents = Ok (l', Some (ci, i + N.of_nat (length ents)))
      /\ RepInv rw l' /\ abs l' = ll_maybe_append (abs l) i ents
      /\ committed l' = N.max (committed l) (N.min cmt (i + N.of_nat (length ents)))
      /\ persisted l' = (if ci =? 0 then persisted l else N.min (persisted l) (ci - 1))
      /\ applied l' = applied l /\ store l' = store l.
Proof. exact maybe_append_ok. Qed.
Print Assumptions C14_maybe_append_ok.

Theorem C14_maybe_append_reject :
  forall rw l i t cmt ents,
    RepInv rw l -> ll_match (abs l) i t = false ->
    maybe_append l i t cmt ents = Ok (l, None).
Proof. exact maybe_append_reject. Qed.
Print Assumptions C14_maybe_append_reject.

Theorem C14_log_restore_ok :
  forall rw l s,
    RepInv rw l -> committed l <= s_index s -> s_index s < u64_max ->
    exists l', log_restore l s = Ok l' /\ RepInv rw l'
      /\ abs l' = mkLL (s_index s) (Some (s_term s)) []
      /\ committed l' = s_index s
      /\ persisted l' = N.min (persisted l) (committed l)
      /\ applied l' = applied l /\ store l' = store l.
Proof. exact log_restore_ok. Qed.
Print Assumptions C14_log_restore_ok.

Theorem C14_log_restore_panics_iff :
  forall l s,
    log_restore l s = Panic site_l_restore_assert <-> s_index s < committed l.
Proof. exact log_restore_panics_iff. Qed.
Print Assumptions C14_log_restore_panics_iff.

Theorem C14_store_append_unstable_ok :
  forall rw l,
    RepInv rw l -> u_snapshot (unst l) = None ->
    exists st', append (store l) (u_entries (unst l)) = Ok st'
      /\ RepInv rw (set_store l st') /\ abs (set_store l st') = abs l
      /\ first_of st' = first_of (store l)
      /\ skipn (N.to_nat (u_offset (unst l) - first_of st')) (entries st') = u_entries (unst l)
      /\ next_of st' = u_offset (unst l) + N.of_nat (length (u_entries (unst l))).
Proof. exact store_append_unstable_ok. Qed.
Print Assumptions C14_store_append_unstable_ok.

Theorem C14_stable_entries_ok :
  forall rw l,
    RepInv rw l -> u_snapshot (unst l) = None -> u_entries (unst l) <> [] ->
    (* the application has written the unstable entries to the storage *)
    skipn (N.to_nat (u_offset (unst l) - first_of (store l))) (entries (store l)) = u_entries (unst l) ->
    let e := List.last (u_entries (unst l)) (mkEntry 0 0 0 [] []) in
    e_index e = ll_last (abs l)
    /\ exists l', stable_entries l (e_index e) (e_term e) = Ok l'
      /\ RepInv rw l' /\ abs l' = abs l
      /\ u_entries (unst l') = [] /\ u_offset (unst l') = ll_last (abs l) + 1
      /\ u_snapshot (unst l') = None /\ store l' = store l
      /\ committed l' = committed l /\ persisted l' = persisted l /\ applied l' = applied l.
Proof. exact stable_entries_ok. Qed.
Print Assumptions C14_stable_entries_ok.

Theorem C14_stable_entries_panics :
  forall l i t,
    (u_snapshot (unst l) <> None -> stable_entries l i t = Panic site_u_stable_entries_snap)
    /\ (u_snapshot (unst l) = None -> u_entries (unst l) = [] ->
        stable_entries l i t = Panic site_u_stable_entries_empty)
    /\ (u_snapshot (unst l) = None -> u_entries (unst l) <> [] ->
        let e := List.last (u_entries (unst l)) (mkEntry 0 0 0 [] []) in
        e_index e <> i \/ e_term e <> t ->
        stable_entries l i t = Panic site_u_stable_entries_mismatch).
Proof. exact stable_entries_panics. Qed.
Print Assumptions C14_stable_entries_panics.

Theorem C14_persist_entries_identity :
  forall rw l,
    RepInv rw l -> u_snapshot (unst l) = None -> u_entries (unst l) <> [] ->
    exists st' l',
      append (store l) (u_entries (unst l)) = Ok st'
      /\ (let e := List.last (u_entries (unst l)) (mkEntry 0 0 0 [] []) in
          stable_entries (set_store l st') (e_index e) (e_term e) = Ok l')
      /\ RepInv rw l' /\ abs l' = abs l /\ u_entries (unst l') = []
      /\ committed l' = committed l /\ persisted l' = persisted l /\ applied l' = applied l.
Proof. exact persist_entries_identity. Qed.
Print Assumptions C14_persist_entries_identity.

Theorem C14_store_apply_snapshot_ok :
  forall rw l s,
    RepInv rw l -> u_snapshot (unst l) = Some s -> first_of (store l) <= s_index s ->
    let st' := apply_snapshot_result (store l) s in
    apply_snapshot (store l) s = Ok (st', SOk tt)
    /\ RepInv rw (set_store l st') /\ abs (set_store l st') = abs l
    /\ snap_index st' = s_index s /\ snap_term st' = s_term s
    /\ first_of st' = s_index s + 1 /\ entries st' = [].
Proof. exact store_apply_snapshot_ok. Qed.
Print Assumptions C14_store_apply_snapshot_ok.

Theorem C14_stable_snap_ok :
  forall rw l s,
    RepInv rw l -> u_snapshot (unst l) = Some s ->
    (* the application has applied the snapshot to the storage *)
    snap_index (store l) = s_index s -> snap_term (store l) = s_term s ->
    first_of (store l) = s_index s + 1 ->
    (u_entries (unst l) = [] -> entries (store l) = []) ->
    exists l', stable_snap l (s_index s) = Ok l' /\ RepInv rw l' /\ abs l' = abs l
      /\ u_snapshot (unst l') = None /\ u_entries (unst l') = u_entries (unst l)
      /\ u_offset (unst l') = u_offset (unst l) /\ store l' = store l
      /\ committed l' = committed l /\ persisted l' = persisted l /\ applied l' = applied l.
Proof. exact stable_snap_ok. Qed.
Print Assumptions C14_stable_snap_ok.

Theorem C14_stable_snap_panics :
  forall l i,
    (u_snapshot (unst l) = None -> stable_snap l i = Panic site_u_stable_snap_none)
    /\ (forall s, u_snapshot (unst l) = Some s -> s_index s <> i ->
        stable_snap l i = Panic site_u_stable_snap_mismatch).
Proof. exact stable_snap_panics. Qed.
Print Assumptions C14_stable_snap_panics.

Theorem C14_store_compact_ok :
  forall l ci,
    RepInv false l -> u_snapshot (unst l) = None ->
    first_of (store l) < ci -> ci <= applied l ->
    ci <= u_offset (unst l) -> ci < next_of (store l) ->
    exists st', compact (store l) ci = Ok st'
      /\ RepInv false (set_store l st')
      /\ abs (set_store l st')
         = mkLL (ci - 1) None (skipn (N.to_nat (ci - first_of (store l))) (ll_ents (abs l)))
      /\ first_of st' = ci.
Proof. exact store_compact_ok. Qed.
Print Assumptions C14_store_compact_ok.

Theorem C14_store_compact_noop :
  forall rw l ci,
    RepInv rw l -> ci <= first_of (store l) -> compact (store l) ci = Ok (store l).
Proof. exact store_compact_noop. Qed.
Print Assumptions C14_store_compact_noop.

Theorem C14_RepInv_close_window :
  forall l, RepInv true l -> applied l <= committed l -> RepInv false l.
Proof. exact RepInv_close_window. Qed.
Print Assumptions C14_RepInv_close_window.

Theorem C14_RepInv_open_window :
  forall rw l, RepInv rw l -> RepInv true l.
Proof. exact RepInv_open_window. Qed.
Print Assumptions C14_RepInv_open_window.

Theorem C14_applied_to_unchecked_window :
  forall rw l i,
    RepInv rw l -> RepInv true (applied_to_unchecked l i).
Proof. exact applied_to_unchecked_window. Qed.
Print Assumptions C14_applied_to_unchecked_window.

Theorem C14_trunc_append_size :
  forall u ents u',
    usize_ok u -> u_truncate_and_append u ents = Ok u' -> usize_ok u'.
Proof. exact trunc_append_size. Qed.
Print Assumptions C14_trunc_append_size.

Theorem C14_usize_other_ops :
  forall u,
    usize_ok (u_new (u_offset u))
    /\ (forall s, usize_ok (u_restore u s))
    /\ (forall i t u', u_stable_entries u i t = Ok u' -> usize_ok u')
    /\ (forall i u', usize_ok u -> u_stable_snap u i = Ok u' -> usize_ok u').
Proof. exact usize_other_ops. Qed.
Print Assumptions C14_usize_other_ops.

(* ---- (e) committed_immutable and the exact fatal cases ---- *)
Theorem C14_log_append_fatal_iff :
  forall l e0 t,
    log_append l (e0 :: t) = Panic site_l_append_range
    <-> 0 < e_index e0 /\ e_index e0 - 1 < committed l.
Proof. exact log_append_fatal_iff. Qed.
Print Assumptions C14_log_append_fatal_iff.

Theorem C14_maybe_append_fatal_iff :
  forall rw l i t cmt ents,
    RepInv rw l -> contiguous_from (i + 1) ents -> nz_terms ents ->
    (i <= ll_last (abs l) \/ t <> 0) ->
    i + N.of_nat (length ents) < u64_max ->
    (maybe_append l i t cmt ents = Panic site_l_append_conflict
     <-> ll_match (abs l) i t = true /\ 0 < ll_find_conflict (abs l) ents <= committed l).
Proof. exact maybe_append_fatal_iff. Qed.
Print Assumptions C14_maybe_append_fatal_iff.

Theorem C14_committed_immutable_append :
  forall rw l e0 t l' r,
    RepInv rw l -> e_index e0 <= ll_last (abs l) + 1 ->
    contiguous_from (e_index e0) (e0 :: t) -> persisted l < e_index e0 ->
    e_index e0 + N.of_nat (length (e0 :: t)) <= u64_max ->
    log_append l (e0 :: t) = Ok (l', r) ->
    preserves_upto (committed l) (abs l) (abs l').
Proof. exact committed_immutable_append. Qed.
Print Assumptions C14_committed_immutable_append.

Theorem C14_committed_immutable_maybe_append :
  forall rw l i t cmt ents l' r,
    RepInv rw l -> contiguous_from (i + 1) ents -> nz_terms ents ->
    (i <= ll_last (abs l) \/ t <> 0) -> i + N.of_nat (length ents) < u64_max ->
    maybe_append l i t cmt ents = Ok (l', r) ->
    preserves_upto (committed l) (abs l) (abs l').
Proof. exact committed_immutable_maybe_append. Qed.
Print Assumptions C14_committed_immutable_maybe_append.

Theorem C14_committed_immutable_restore :
  forall rw l s l',
    RepInv rw l -> s_index s < u64_max -> log_restore l s = Ok l' ->
    preserves_upto (committed l) (abs l) (abs l').
Proof. exact committed_immutable_restore. Qed.
Print Assumptions C14_committed_immutable_restore.

Theorem C14_committed_immutable_compact :
  forall l ci st',
    RepInv false l -> u_snapshot (unst l) = None ->
    first_of (store l) < ci -> ci <= applied l -> ci <= u_offset (unst l) -> ci < next_of (store l) ->
    compact (store l) ci = Ok st' ->
    preserves_upto (committed l) (abs l) (abs (set_store l st')).
Proof. exact committed_immutable_compact. Qed.
Print Assumptions C14_committed_immutable_compact.

(* ---- (f) persisted_sound ---- *)
Theorem C14_persisted_le_storage_last :
  forall rw l,
    RepInv rw l -> persisted l <= storage_last_index (store l).
Proof. exact persisted_le_storage_last. Qed.
Print Assumptions C14_persisted_le_storage_last.

Theorem C14_persisted_entry_is_stored :
  forall rw l,
    RepInv rw l -> u_snapshot (unst l) = None -> first_of (store l) <= persisted l ->
    ll_get (abs l) (persisted l) = entry_at (store l) (persisted l).
Proof. exact persisted_entry_is_stored. Qed.
Print Assumptions C14_persisted_entry_is_stored.

Theorem C14_maybe_persist_ok :
  forall rw l i t,
    RepInv rw l ->
    exists l' b, maybe_persist l i t = Ok (l', b) /\ RepInv rw l' /\ abs l' = abs l
      /\ committed l' = committed l /\ applied l' = applied l /\ store l' = store l
      /\ (b = false -> l' = l)
      /\ (b = true -> persisted l' = i /\ persisted l < i /\ i < u_offset (unst l)
                      /\ i < next_of (store l) /\ storage_term (store l) i = Ok (SOk t)).
Proof. exact maybe_persist_ok. Qed.
Print Assumptions C14_maybe_persist_ok.

Theorem C14_maybe_persist_term_matches :
  forall rw l i t l',
    RepInv rw l -> u_snapshot (unst l) = None ->
    maybe_persist l i t = Ok (l', true) -> ll_base (abs l) <= i ->
    ll_term (abs l) i = SOk t.
Proof. exact maybe_persist_term_matches. Qed.
Print Assumptions C14_maybe_persist_term_matches.

Theorem C14_maybe_persist_snap_ok :
  forall rw l i,
    RepInv rw l -> persisted l < i -> i <= committed l -> i < u_offset (unst l) ->
    (* the snapshot has reached the storage *)
    i < next_of (store l) ->
    maybe_persist_snap l i = Ok (set_persisted l i, true)
    /\ RepInv rw (set_persisted l i) /\ abs (set_persisted l i) = abs l.
Proof. exact maybe_persist_snap_ok. Qed.
Print Assumptions C14_maybe_persist_snap_ok.

Theorem C14_maybe_persist_snap_cases :
  forall l i,
    (i <= persisted l -> maybe_persist_snap l i = Ok (l, false))
    /\ (persisted l < i -> committed l < i -> maybe_persist_snap l i = Panic site_l_persist_snap_commit)
    /\ (persisted l < i -> i <= committed l -> u_offset (unst l) <= i ->
        maybe_persist_snap l i = Panic site_l_persist_snap_offset).
Proof. exact maybe_persist_snap_cases. Qed.
Print Assumptions C14_maybe_persist_snap_cases.

(* ---- all histories ---- *)
Theorem C14_cstep_inv :
  forall l l', RepInv false l -> cstep l l' -> step_post l l'.
Proof. exact cstep_inv. Qed.
Print Assumptions C14_cstep_inv.

Theorem C14_history_inv :
  forall l0 l,
    RepInv false l0 -> history l0 l ->
    RepInv false l
    /\ applied l <= committed l /\ committed l <= last_index l
    /\ persisted l <= storage_last_index (store l)
    /\ committed l0 <= committed l
    /\ ll_base (abs l0) <= ll_base (abs l)
    /\ (* no entry at or below the commit index is ever altered *)
       preserves_upto (committed l0) (abs l0) (abs l).
Proof. exact history_inv. Qed.
Print Assumptions C14_history_inv.

(* ---- refuted variants (false of the faithful model), with witnesses ---- *)
Theorem C14_log_append_keeps_persisted_refuted :
  exists l l' r, log_new ex_store2 0 = Ok l /\ RepInv false l
    /\ log_append l [ex_ent 2 2] = Ok (l', r)
    /\ persisted l' = 2 /\ u_offset (unst l') = 2
    /\ ll_term (abs l') 2 = SOk 2 /\ storage_term (store l') 2 = Ok (SOk 1).
Proof. exact log_append_keeps_persisted_refuted. Qed.
Print Assumptions C14_log_append_keeps_persisted_refuted.

Theorem C14_maybe_persist_snap_unsound_refuted :
  exists l l1 l2, log_new MemStorage.new 0 = Ok l /\ RepInv false l
    /\ log_restore l (mkSnap 5 1 cs_default) = Ok l1 /\ RepInv false l1
    /\ maybe_persist_snap l1 5 = Ok (l2, true)
    /\ persisted l2 = 5 /\ storage_last_index (store l2) = 0.
Proof. exact maybe_persist_snap_unsound_refuted. Qed.
Print Assumptions C14_maybe_persist_snap_unsound_refuted.

Theorem C14_stable_before_write_refuted :
  exists l l1 r l2, log_new MemStorage.new 0 = Ok l
    /\ log_append l [ex_ent 1 1] = Ok (l1, r)
    /\ stable_entries l1 1 1 = Ok l2
    /\ last_index l1 = 1 /\ term l1 1 = Ok (SOk 1)
    /\ last_index l2 = 0 /\ term l2 1 = Ok (SOk 0).
Proof. exact stable_before_write_refuted. Qed.
Print Assumptions C14_stable_before_write_refuted.

(* the apply window's upper bound saturates (F8, fixed in /repo 63caa76): a limit of
   u64::MAX means "everything committed", not an overflow panic *)
Theorem C14_apply_bound_saturates :
  forall rw l since,
    RepInv rw l -> since < u64_max -> u64_max <= persisted l + max_apply_unpersisted_log_limit l ->
    has_next_entries_since l since
    = Ok (N.max (since + 1) (ll_first (abs l)) <? committed l + 1).
Proof. exact apply_bound_saturates. Qed.
Print Assumptions C14_apply_bound_saturates.

(* ---- non-vacuity: concrete states meeting the hypotheses ---- *)
Theorem C14_ex_l0_inv :
  RepInv false ex_l0.
Proof. exact ex_l0_inv. Qed.
Print Assumptions C14_ex_l0_inv.

Theorem C14_ex_conflicting_append :
  exists l', maybe_append ex_l0 1 1 3 [ex_ent 2 2; ex_ent 3 2] = Ok (l', Some (2, 3))
    /\ RepInv false l'
    /\ ll_ents (abs l') = [ex_ent 1 1; ex_ent 2 2; ex_ent 3 2]
    /\ committed l' = 3 /\ persisted l' = 1 /\ u_offset (unst l') = 2
    /\ ll_find_conflict (abs ex_l0) [ex_ent 2 2; ex_ent 3 2] = 2.
Proof. exact ex_conflicting_append. Qed.
Print Assumptions C14_ex_conflicting_append.

Theorem C14_ex_history :
  exists l, history ex_l0 l
    /\ ll_base (abs l) = 6 /\ ll_bterm (abs l) = Some 3 /\ ll_ents (abs l) = []
    /\ committed l = 6 /\ applied l = 2 /\ persisted l = 3.
Proof. exact ex_history. Qed.
Print Assumptions C14_ex_history.

Theorem C14_ex_limited_slice :
  exists l' r, log_append ex_l0 [ex_ent 3 2] = Ok (l', r) /\ RepInv false l'
    /\ slice l' 1 4 None = Ok (SOk [ex_ent 1 1; ex_ent 2 1; ex_ent 3 2])
    /\ slice l' 1 4 (Some 9) = Ok (SOk [ex_ent 1 1; ex_ent 2 1])
    /\ slice l' 1 4 (Some 0) = Ok (SOk [ex_ent 1 1])
    /\ total_size entry_size [ex_ent 1 1; ex_ent 2 1; ex_ent 3 2] = 12.
Proof. exact ex_limited_slice. Qed.
Print Assumptions C14_ex_limited_slice.
