(* C03 — Leader completeness and the election restriction.
   Only pinned statements; proofs live in M/RaftProofs.v.
   Proved here: the election restriction, per step, for every state and message.
   Not yet proved: leader completeness over executions (protocol-level invariant LC of
   DESIGN.md 2.3); the evidence reports this property as partial. *)
From RV Require Import Base.Prelude Base.IdSet M.Msg M.RaftLog M.Raft M.RaftProofs.
Local Open Scope N_scope.

(* Every message a vote/pre-vote request adds to the outbound queue that is a
   non-rejecting vote response was produced while the candidate's last
   (term, index) was at least the voter's own (is_up_to_date on the voter's
   pre-state log), and the priority tie-break held. *)
Theorem C03_vote_grant_restricted :
  forall r m r' c,
    (m_type m = MsgRequestVote \/ m_type m = MsgRequestPreVote) ->
    step r m = Ok (r', c) ->
    exists new, r_msgs r' = r_msgs r ++ new /\
      forall x, In x new -> is_vote_resp x = true -> m_reject x = false ->
        is_up_to_date (r_log r) (m_index m) (m_log_term m) = Ok true /\
        ((last_index (r_log r) <? m_index m) || (r_priority r <=? get_priority m)%Z) = true.
Proof. exact vote_grant_restricted. Qed.
Print Assumptions C03_vote_grant_restricted.
