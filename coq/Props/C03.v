(* C03 — Leader completeness and the election restriction.
   Only pinned statements; proofs live in M/RaftProofs.v (the election restriction of
   the model, per step, for every state and message) and in P/LogSafety.v (leader
   completeness over every execution of the abstract log protocol P/Log.v, for a
   fixed voter configuration in which no single node is a quorum). *)
From RV Require Import Base.Prelude Base.IdSet M.Msg M.RaftLog M.Raft M.RaftProofs.
Local Open Scope N_scope.

(* Every message a vote/pre-vote request adds to the outbound queue that is a
   non-rejecting vote response was produced while the candidate's last
   (term, index) was at least the voter's own (is_up_to_date on the voter's
   pre-state log), and the priority tie-break held. *)
Theorem C03_vote_grant_restricted :
  forall r m r' c,
    (m_type m = MsgRequestVote \/ m_type m = MsgRequestPreVote) ->
    step r m = Ok (r', c) ->
    exists new, r_msgs r' = r_msgs r ++ new /\
      forall x, In x new -> is_vote_resp x = true -> m_reject x = false ->
        is_up_to_date (r_log r) (m_index m) (m_log_term m) = Ok true /\
        ((last_index (r_log r) <? m_index m) || (r_priority r <=? get_priority m)%Z) = true.
Proof. exact vote_grant_restricted. Qed.
Print Assumptions C03_vote_grant_restricted.

(* ------------------------------------------------------------------ *)
(* Leader completeness for the abstract protocol P/Log.v (second part of the file:
   the names of P/Log.v shadow those of the model from here on). *)
From RV Require Import M.Quorum P.Election P.ElectionProofs P.Log P.LogProofs P.LogSafety.

(* Every leader log of a term t >= T ([llog s t]: the log of the leader of t, empty
   as long as t has no leader) contains, at the same indexes, the k entries of every
   commit point (T, k) ever decided by the leader of T. *)
Theorem C03_leader_completeness :
  forall inc out, inc <> [] -> no_single_quorum inc out ->
  forall s T k t, lreachable inc out s -> In (T, k) (cpts s) -> T <= t -> llog s t <> [] ->
    (k <= length (llog s t))%nat /\ firstn k (llog s t) = firstn k (llog s T).
Proof. exact leader_completeness. Qed.
Print Assumptions C03_leader_completeness.

(* the same read off the roles: a node in the leader role of a term >= T *)
Theorem C03_leader_completeness_roles :
  forall inc out, inc <> [] -> no_single_quorum inc out ->
  forall s T k c, lreachable inc out s -> In (T, k) (cpts s) ->
    p_role (nodes (el s) c) = PL -> T <= p_term (nodes (el s) c) ->
    (k <= length (l_log (ln s c)))%nat /\ firstn k (l_log (ln s c)) = firstn k (llog s T).
Proof. exact leader_completeness_roles. Qed.
Print Assumptions C03_leader_completeness_roles.

(* what a node reports committed is covered by a commit point, so every such leader
   has every entry any node has ever reported committed *)
Theorem C03_committed_entry_is_commit_point :
  forall inc out, inc <> [] -> no_single_quorum inc out ->
  forall s n j, lreachable inc out s -> (1 <= j)%nat -> (j <= l_commit (ln s n))%nat ->
    exists T k, In (T, k) (cpts s) /\ (j <= k)%nat /\
      nth_error (l_log (ln s n)) (j - 1) = nth_error (llog s T) (j - 1).
Proof. exact committed_entry. Qed.
Print Assumptions C03_committed_entry_is_commit_point.

(* The election restriction of P is what the proof rests on: a vote is granted only
   to a candidate whose campaign log is at least as up-to-date as the voter's log. *)
Theorem C03_grant_restricted :
  forall inc out n c t s s', lrule inc out (LEl (LGrant n c t)) s = Some s' ->
    up_to_date (clog s c t) (l_log (ln s n)) = true.
Proof. exact grant_restricted. Qed.
Print Assumptions C03_grant_restricted.
