(* C17 — Leadership transfer hands off safely and never wedges the leader.
   Only pinned statements; proofs live in M/RaftProofsC17.v.  Models: M/Raft.v
   (handle_transfer_leader, handle_append_response, step_leader, tick_heartbeat, reset,
   post_conf_change, step_follower, hup, campaign, step) and M/RawNode.v.

   Every theorem is about ALL states r : raft (no reachability assumed) and all messages,
   in the form  f r args = Ok r' -> ...  (the Ok hypothesis excludes the modelled panics).

   PROVED (clause of the property -> theorems)
   1. "tells a transfer target to campaign only once it has acknowledged the whole log":
      C17_timeout_now_guard (every step, every state: a MsgTimeoutNow is queued only by a
      leader handling MsgAppendResponse or MsgTransferLeader, at most one, addressed to the
      sender = the pending target, whose matched index equals the leader's last index in the
      post-state), C17_tick_no_timeout_now, C17_other_entry_points_no_timeout_now,
      C17_rn_timeout_now_guard (every RawNode entry point).
   2. "while a transfer is pending the leader refuses proposals": C17_transfer_blocks_proposals,
      C17_rn_propose_blocked, C17_rn_propose_conf_change_blocked (state unchanged,
      ProposalDropped).
   3. "abandons the transfer after one election timeout": C17_transfer_expires (the tick at
      which election_elapsed reaches election_timeout clears it), C17_transfer_timer_tick,
      C17_transfer_timer_step (a step of a leader leaves (target, election_elapsed) alone,
      clears the transfer, or starts a NEW transfer with election_elapsed = 0; the only other
      case is granting a same-term vote request, excluded for a leader that voted for itself
      by C17_no_vote_reset), C17_only_transfer_request_sets_target (all states),
      C17_transfer_expires_trace (any sequence of RawNode calls containing at least
      election_timeout - election_elapsed ticks ends with no transfer pending, provided no
      call asks for a transfer and no vote request claims to come from the node itself; the
      start state must be a leader that voted for itself), C17_vote_invariant (that side
      condition is an invariant of every RawNode entry point, holding trivially of any
      follower), C17_transfer_expires_from_any_start (the two combined), C17_rn_new_init and
      C17_transfer_expires_from_boot (RawNode::new establishes the invariant, so the expiry
      holds for every leader state of every execution from construction).
   4. "... or when the target leaves the voters", and on any reset:
      C17_transfer_cleared_on_reset, C17_transfer_cleared_when_target_removed,
      C17_apply_conf_change_clears_removed_target.
   5. "a request naming a learner or an unknown node is ignored and one naming the leader
      itself at most cancels a pending transfer": C17_transfer_ignored_unknown,
      C17_transfer_ignored_learner, C17_transfer_same_target, C17_transfer_to_self,
      C17_transfer_ignored_step, C17_transfer_to_self_step, C17_rn_transfer_leader_ignored.
   6. the forced vote: C17_forced_vote_no_prevote, C17_forced_vote_requests,
      C17_forced_vote_bypasses_lease.
   7. C17_follower_timeout_now (+ _step, _hup).

   8. completion, "when a transfer completes in a healthy cluster the target leads a higher
      term holding every committed entry while the old leader follows it": proved for a
      healthy THREE-voter cluster under the deterministic lock-step full-mesh schedule
      mesh_round (every queued message of every node delivered to its addressee, then every
      node ticks): C17_transfer_completes / C17_transfer_completes_log (three rounds after the
      request the target leads term+1 with log = common log ++ its no-op, the old leader and
      the third voter are followers of term+1 that voted for it, the pending transfer is
      cleared), from the per-node theorems, each for ALL states: C17_transfer_starts,
      C17_target_campaigns, C17_voter_grants_forced, C17_candidate_wins,
      C17_leader_ignores_vote_response, C17_follower_adopts_leader (the old leader records
      the target as its leader with the first append/heartbeat, i.e. in round four).
      Hypotheses (record Start, all explicit in C17_Start_def): three distinct voters = the
      whole non-joint voter set, L leads with no transfer pending, T and X follow at L's
      term, T promotable and caught up in L's progress, the three logs end at the same
      (index, term), T has applied what is committed, priorities do not veto T, nothing in
      flight, and no election or heartbeat timer fires during the three rounds.

   NOT PROVED:
   * completion under arbitrary (fair, asynchronous, lossy) schedules, with more than three
     voters, with heartbeats or other traffic interleaved, or with lagging logs.  (The
     safety half in general - whoever becomes leader holds every committed entry and is the
     only leader of its term - is pinned at protocol level: C17_new_leader_holds_committed,
     C17_one_leader_per_term below.)
   * expiry when further MsgTransferLeader requests keep arriving (each NEW target restarts
     the timer at 0, C17_transfer_timer_step; a repeated request for the same target does
     not), and under vote requests that claim to come from the node itself.
   * the trace theorems quantify over sequences of the RawNode entry points of M/RawNode.v
     (rn_input); calls made directly on the public `raft` field of the Rust RawNode are
     covered only function by function (sections 1, 3, 4), not as trace inputs.

   Glossary (definitions of M/RaftProofsC17.v used below)
     same_term_msg r m   m_term m = 0 \/ m_term m = r_term r   (local or same-term message)
     cfg r               (election_timeout, id, check_quorum, pre_vote, heartbeat_timeout)
     vote_granted r m    the can_vote disjunction of Raft::step
     pcc_reaches_check r leader /\ still a voter /\ the configuration has a voter
     rn_input, rn_apply  one constructor / dispatch per entry point of M/RawNode.v
     input_msg rid i     the message input i hands to Raft::step (None for the others)
     rn_run, count_ticks, benign   see C17_transfer_expires_trace *)
From RV Require Import Base.Prelude Base.IdSet M.Util M.Proto M.Progress M.RaftLog M.ConfChange
  M.Msg M.Raft M.RawNode M.RaftProofs M.RaftProofsC17.
From RV Require P.Election P.ElectionProofs P.Log P.LogProofs P.LogSafety.
From RecordUpdate Require Import RecordSet.
Import RecordSetNotations.
Local Open Scope N_scope.

(* ------------------------------------------------------------------ *)
(* 1. MsgTimeoutNow only to a caught-up transfer target *)

Theorem C17_timeout_now_guard :
  forall r m r' c, step r m = Ok (r', c) ->
    let tn := filter (fun x => m_type x =? MsgTimeoutNow) in
    tn (r_msgs r') = tn (r_msgs r) \/
    (r_state r = Leader /\
     (m_type m = MsgAppendResponse \/ m_type m = MsgTransferLeader) /\
     exists x, tn (r_msgs r') = tn (r_msgs r) ++ [x] /\
       (m_type x = MsgTimeoutNow /\ m_term x = r_term r' /\
        r_lead_transferee r' = Some (m_to x) /\
        exists p, get_pr r' (m_to x) = Some p /\ matched p = last_index (r_log r')) /\
       m_to x = m_from m).
Proof. exact timeout_now_sources. Qed.
Print Assumptions C17_timeout_now_guard.

(* non-vacuity: a request naming the caught-up voter 2 queues one MsgTimeoutNow to 2 ... *)
Example C17_ex_timeout_now_immediately :
  exists r', step ex_leader (ex_tl_msg 2) = Ok (r', E_OK) /\
    r_lead_transferee r' = Some 2 /\ r_election_elapsed r' = 0 /\
    map (fun x => (m_type x, m_to x, m_term x)) (r_msgs r') = [(MsgTimeoutNow, 2, 2)].
Proof. eexists. vm_compute. repeat split. Qed.

(* ... one naming the lagging voter 3 sends it entries instead, and the MsgTimeoutNow
   follows the MsgAppendResponse that acknowledges the last index *)
Example C17_ex_timeout_now_after_ack :
  r_lead_transferee ex_pending3 = Some 3 /\
  map (fun x => (m_type x, m_to x)) (r_msgs ex_pending3) = [(MsgAppend, 3)] /\
  exists r', step (ex_pending3 <| r_msgs := [] |>) ex_app_resp3 = Ok (r', E_OK) /\
    map (fun x => (m_type x, m_to x)) (r_msgs r') = [(MsgAppend, 3); (MsgTimeoutNow, 3)].
Proof. split; [|split]; [vm_compute; reflexivity..|]. eexists. vm_compute. split; reflexivity. Qed.

Theorem C17_tick_no_timeout_now :
  forall r r' b, tick r = Ok (r', b) ->
    filter (fun x => m_type x =? MsgTimeoutNow) (r_msgs r') =
    filter (fun x => m_type x =? MsgTimeoutNow) (r_msgs r).
Proof. exact tick_no_timeout_now. Qed.
Print Assumptions C17_tick_no_timeout_now.

(* the remaining state-changing entry points of Raft: none queues a MsgTimeoutNow *)
Theorem C17_other_entry_points_no_timeout_now :
  let tn := filter (fun x => m_type x =? MsgTimeoutNow) in
  (forall r cc r' o, raft_apply_conf_change r cc = Ok (r', o) -> tn (r_msgs r') = tn (r_msgs r)) /\
  (forall r i t r', on_persist_entries r i t = Ok r' -> tn (r_msgs r') = tn (r_msgs r)) /\
  (forall r i r', on_persist_snap r i = Ok r' -> tn (r_msgs r') = tn (r_msgs r)) /\
  (forall r a s r', commit_apply_internal r a s = Ok r' -> tn (r_msgs r') = tn (r_msgs r)) /\
  (forall r r', ping r = Ok r' -> tn (r_msgs r') = tn (r_msgs r)) /\
  (forall r r' c, request_snapshot r = Ok (r', c) -> tn (r_msgs r') = tn (r_msgs r)) /\
  (forall r e r', enable_group_commit r e = Ok r' -> tn (r_msgs r') = tn (r_msgs r)) /\
  (forall r ids r', assign_commit_groups r ids = Ok r' -> tn (r_msgs r') = tn (r_msgs r)) /\
  (forall r t c r', adjust_max_inflight_msgs r t c = Ok r' -> tn (r_msgs r') = tn (r_msgs r)) /\
  (forall r hs r', load_state r hs = Ok r' -> r_msgs r' = r_msgs r).
Proof. exact other_entry_points_no_timeout_now. Qed.
Print Assumptions C17_other_entry_points_no_timeout_now.

(* every RawNode entry point: no MsgTimeoutNow is added to the outbound queue (incl: the
   queue may be drained into a Ready) except by a step as in C17_timeout_now_guard *)
Theorem C17_rn_timeout_now_guard :
  forall n i n', rn_apply n i = Ok n' ->
    let tn := filter (fun x => m_type x =? MsgTimeoutNow) in
    incl (tn (r_msgs (rn_raft n'))) (tn (r_msgs (rn_raft n))) \/
    exists m, input_msg (r_id (rn_raft n)) i = Some m /\
      r_state (rn_raft n) = Leader /\
      (m_type m = MsgAppendResponse \/ m_type m = MsgTransferLeader) /\
      exists x, tn (r_msgs (rn_raft n')) = tn (r_msgs (rn_raft n)) ++ [x] /\
        (m_type x = MsgTimeoutNow /\ m_term x = r_term (rn_raft n') /\
         r_lead_transferee (rn_raft n') = Some (m_to x) /\
         exists p, get_pr (rn_raft n') (m_to x) = Some p /\
                   matched p = last_index (r_log (rn_raft n'))) /\
        m_to x = m_from m.
Proof. exact rn_timeout_now_guard. Qed.
Print Assumptions C17_rn_timeout_now_guard.

(* ------------------------------------------------------------------ *)
(* 2. proposals are refused while a transfer is pending *)

Theorem C17_transfer_blocks_proposals :
  forall r m t,
    is_leader r = true -> r_lead_transferee r = Some t ->
    m_type m = MsgPropose -> (m_term m = 0 \/ m_term m = r_term r) -> m_entries m <> [] ->
    step r m = Ok (r, E_PROPOSAL_DROPPED).
Proof. exact transfer_blocks_proposals. Qed.
Print Assumptions C17_transfer_blocks_proposals.

Theorem C17_rn_propose_blocked :
  forall n t ctx data,
    is_leader (rn_raft n) = true -> r_lead_transferee (rn_raft n) = Some t ->
    rn_propose n ctx data = Ok (n, E_PROPOSAL_DROPPED).
Proof. exact rn_propose_blocked. Qed.
Print Assumptions C17_rn_propose_blocked.

Theorem C17_rn_propose_conf_change_blocked :
  forall n t ctx data ty cci,
    is_leader (rn_raft n) = true -> r_lead_transferee (rn_raft n) = Some t ->
    rn_propose_conf_change n ctx data ty cci = Ok (n, E_PROPOSAL_DROPPED).
Proof. exact rn_propose_conf_change_blocked. Qed.
Print Assumptions C17_rn_propose_conf_change_blocked.

Example C17_ex_proposal_blocked :
  is_leader ex_pending3 = true /\ r_lead_transferee ex_pending3 = Some 3 /\
  rn_propose (ex_rn ex_pending3) [] [7] = Ok (ex_rn ex_pending3, E_PROPOSAL_DROPPED).
Proof. vm_compute. repeat split. Qed.

(* ------------------------------------------------------------------ *)
(* 3. the transfer is abandoned after one election timeout *)

Theorem C17_transfer_expires :
  forall r r' b,
    is_leader r = true -> r_election_timeout r <= r_election_elapsed r + 1 ->
    tick r = Ok (r', b) -> r_lead_transferee r' = None.
Proof. exact transfer_expires. Qed.
Print Assumptions C17_transfer_expires.

(* a leader tick either clears the transfer or advances election_elapsed by exactly one,
   staying below election_timeout *)
Theorem C17_transfer_timer_tick :
  forall r r' b,
    is_leader r = true -> tick r = Ok (r', b) ->
    cfg r' = cfg r /\
    (r_lead_transferee r' = None \/
     (is_leader r' = true /\ r_lead_transferee r' = r_lead_transferee r /\
      r_election_elapsed r' = r_election_elapsed r + 1 /\
      r_election_elapsed r' < r_election_timeout r' /\ r_vote r' = r_vote r)).
Proof. exact transfer_timer_tick. Qed.
Print Assumptions C17_transfer_timer_tick.

(* what a step can do to the timer of a leader: clear the transfer; nothing; start a NEW
   transfer (another target, elapsed := 0); or the same-term vote grant *)
Theorem C17_transfer_timer_step :
  forall r m r' c,
    is_leader r = true -> step r m = Ok (r', c) ->
    cfg r' = cfg r /\
    (r_lead_transferee r' = None \/
     (is_leader r' = true /\ r_lead_transferee r' = r_lead_transferee r /\
      r_election_elapsed r' = r_election_elapsed r /\ r_vote r' = r_vote r) \/
     (is_leader r' = true /\ m_type m = MsgTransferLeader /\
      r_lead_transferee r' = Some (m_from m) /\ r_lead_transferee r <> Some (m_from m) /\
      r_election_elapsed r' = 0) \/
     (is_leader r' = true /\ m_type m = MsgRequestVote /\ vote_granted r m = true /\
      r_lead_transferee r' = r_lead_transferee r /\ r_election_elapsed r' = 0 /\
      r_vote r' = m_from m)).
Proof. exact transfer_timer_step. Qed.
Print Assumptions C17_transfer_timer_step.

Theorem C17_no_vote_reset :
  forall r m r',
    r_vote r = r_id r -> r_id r <> 0 -> m_from m <> r_id r ->
    ~ (is_leader r' = true /\ m_type m = MsgRequestVote /\ vote_granted r m = true /\
       r_lead_transferee r' = r_lead_transferee r /\ r_election_elapsed r' = 0 /\
       r_vote r' = m_from m).
Proof. exact no_vote_reset. Qed.
Print Assumptions C17_no_vote_reset.

(* in every state, only a MsgTransferLeader can set or retarget lead_transferee *)
Theorem C17_only_transfer_request_sets_target :
  (forall r m r' c, step r m = Ok (r', c) -> m_type m <> MsgTransferLeader ->
     cfg r' = cfg r /\ forall t, r_lead_transferee r' = Some t -> r_lead_transferee r = Some t) /\
  (forall r r' b, tick r = Ok (r', b) ->
     cfg r' = cfg r /\ forall t, r_lead_transferee r' = Some t -> r_lead_transferee r = Some t).
Proof. exact (conj step_lt_mono tick_lt_mono). Qed.
Print Assumptions C17_only_transfer_request_sets_target.

(* the counting form, over arbitrary interleavings of RawNode calls *)
Theorem C17_transfer_expires_trace :
  forall is n n',
    rn_run n is = Ok n' ->
    is_leader (rn_raft n) = true ->
    r_vote (rn_raft n) = r_id (rn_raft n) -> r_id (rn_raft n) <> 0 ->
    Forall (fun i => match input_msg (r_id (rn_raft n)) i with
                     | Some m => m_type m <> MsgTransferLeader /\
                                 (m_type m = MsgRequestVote -> m_from m <> r_id (rn_raft n))
                     | None => True
                     end) is ->
    0 < N.of_nat (length (filter is_tick is)) ->
    r_election_timeout (rn_raft n) <=
      r_election_elapsed (rn_raft n) + N.of_nat (length (filter is_tick is)) ->
    r_lead_transferee (rn_raft n') = None.
Proof. exact transfer_expires_trace. Qed.
Print Assumptions C17_transfer_expires_trace.

(* "a leader or candidate has voted for itself" is kept by every entry point *)
Theorem C17_vote_invariant :
  forall n i n', rn_apply n i = Ok n' ->
    r_id (rn_raft n') = r_id (rn_raft n) /\
    (r_id (rn_raft n) <> 0 ->
     ((r_state (rn_raft n) = Leader \/ r_state (rn_raft n) = Candidate) ->
        r_vote (rn_raft n) = r_id (rn_raft n)) ->
     ((r_state (rn_raft n') = Leader \/ r_state (rn_raft n') = Candidate) ->
        r_vote (rn_raft n') = r_id (rn_raft n'))).
Proof. exact rn_apply_vip. Qed.
Print Assumptions C17_vote_invariant.

Theorem C17_transfer_expires_from_any_start :
  forall is0 is n0 n n',
    r_id (rn_raft n0) <> 0 ->
    ((r_state (rn_raft n0) = Leader \/ r_state (rn_raft n0) = Candidate) ->
       r_vote (rn_raft n0) = r_id (rn_raft n0)) ->
    rn_run n0 is0 = Ok n ->
    is_leader (rn_raft n) = true ->
    rn_run n is = Ok n' ->
    Forall (fun i => match input_msg (r_id (rn_raft n)) i with
                     | Some m => m_type m <> MsgTransferLeader /\
                                 (m_type m = MsgRequestVote -> m_from m <> r_id (rn_raft n))
                     | None => True
                     end) is ->
    0 < N.of_nat (length (filter is_tick is)) ->
    r_election_timeout (rn_raft n) <=
      r_election_elapsed (rn_raft n) + N.of_nat (length (filter is_tick is)) ->
    r_lead_transferee (rn_raft n') = None.
Proof. exact transfer_expires_from_any_start. Qed.
Print Assumptions C17_transfer_expires_from_any_start.

(* construction: RawNode::new returns a follower with a non-zero id, nothing pending *)
Theorem C17_rn_new_init :
  forall c st sa d n,
    rn_new c st sa d = Ok (inr n) ->
    r_id (rn_raft n) = c_id c /\ c_id c <> 0 /\ r_state (rn_raft n) = Follower /\
    r_lead_transferee (rn_raft n) = None /\
    filter (fun x => m_type x =? MsgTimeoutNow) (r_msgs (rn_raft n)) = [].
Proof. exact rn_new_init. Qed.
Print Assumptions C17_rn_new_init.

Theorem C17_transfer_expires_from_boot :
  forall c st sa d is0 is n0 n n',
    rn_new c st sa d = Ok (inr n0) ->
    rn_run n0 is0 = Ok n ->
    is_leader (rn_raft n) = true ->
    rn_run n is = Ok n' ->
    Forall (fun i => match input_msg (c_id c) i with
                     | Some m => m_type m <> MsgTransferLeader /\
                                 (m_type m = MsgRequestVote -> m_from m <> c_id c)
                     | None => True
                     end) is ->
    0 < N.of_nat (length (filter is_tick is)) ->
    r_election_timeout (rn_raft n) <=
      r_election_elapsed (rn_raft n) + N.of_nat (length (filter is_tick is)) ->
    r_lead_transferee (rn_raft n') = None.
Proof. exact transfer_expires_from_boot. Qed.
Print Assumptions C17_transfer_expires_from_boot.

Example C17_ex_expires :
  (exists n', rn_run (ex_rn ex_pending3) (repeat RnTick 9) = Ok n' /\
              r_lead_transferee (rn_raft n') = Some 3 /\ r_election_elapsed (rn_raft n') = 9) /\
  (exists n', rn_run (ex_rn ex_pending3) (repeat RnTick 10) = Ok n' /\
              r_lead_transferee (rn_raft n') = None /\ is_leader (rn_raft n') = true).
Proof. split; eexists; vm_compute; repeat split. Qed.

(* ------------------------------------------------------------------ *)
(* 4. cleared on reset and when the target leaves the voters *)

Theorem C17_transfer_cleared_on_reset :
  (forall r t r', reset r t = Ok r' -> r_lead_transferee r' = None) /\
  (forall r t l r', become_follower r t l = Ok r' -> r_lead_transferee r' = None) /\
  (forall r r', become_candidate r = Ok r' -> r_lead_transferee r' = None) /\
  (forall r r', become_leader r = Ok r' -> r_lead_transferee r' = None).
Proof. exact transfer_cleared_on_reset. Qed.
Print Assumptions C17_transfer_cleared_on_reset.

Theorem C17_transfer_cleared_when_target_removed :
  forall r r' cs,
    post_conf_change r = Ok (r', cs) ->
    conf_of r' = conf_of r /\
    ((is_leader r = true /\ voters_contains (conf_of r) (r_id r) = true /\
      cs_voters (to_conf_state (conf_of r)) <> []) ->
       forall t, r_lead_transferee r' = Some t ->
         r_lead_transferee r = Some t /\ voters_contains (conf_of r') t = true) /\
    (~ (is_leader r = true /\ voters_contains (conf_of r) (r_id r) = true /\
        cs_voters (to_conf_state (conf_of r)) <> []) ->
       r' = r <| r_promotable := voters_contains (conf_of r) (r_id r) |>).
Proof. exact transfer_cleared_when_target_removed. Qed.
Print Assumptions C17_transfer_cleared_when_target_removed.

Theorem C17_apply_conf_change_clears_removed_target :
  forall r cc r' cs,
    raft_apply_conf_change r cc = Ok (r', Some cs) ->
    is_leader r = true -> voters_contains (conf_of r') (r_id r) = true -> cs_voters cs <> [] ->
    forall t, r_lead_transferee r' = Some t ->
      r_lead_transferee r = Some t /\ voters_contains (conf_of r') t = true.
Proof. exact apply_conf_change_clears_removed_target. Qed.
Print Assumptions C17_apply_conf_change_clears_removed_target.

Example C17_ex_target_removed :
  exists r' cs, raft_apply_conf_change ex_pending3 (mkV2 Auto [(RemoveNode, 3)]) = Ok (r', Some cs) /\
    incoming (conf_of r') = [1; 2] /\ r_lead_transferee r' = None /\ is_leader r' = true.
Proof. do 2 eexists. vm_compute. repeat split. Qed.

(* ------------------------------------------------------------------ *)
(* 5. ignored requests *)

Theorem C17_transfer_ignored_unknown :
  forall r m, get_pr r (m_from m) = None -> handle_transfer_leader r m = Ok r.
Proof. exact transfer_ignored_unknown. Qed.
Print Assumptions C17_transfer_ignored_unknown.

Theorem C17_transfer_ignored_learner :
  forall r m, IdSet.mem (m_from m) (learners (conf_of r)) = true -> handle_transfer_leader r m = Ok r.
Proof. exact transfer_ignored_learner. Qed.
Print Assumptions C17_transfer_ignored_learner.

Theorem C17_transfer_same_target :
  forall r m, r_lead_transferee r = Some (m_from m) -> handle_transfer_leader r m = Ok r.
Proof. exact transfer_same_target. Qed.
Print Assumptions C17_transfer_same_target.

Theorem C17_transfer_to_self :
  forall r m, m_from m = r_id r ->
    handle_transfer_leader r m = Ok r \/
    (handle_transfer_leader r m = Ok (r <| r_lead_transferee := None |>) /\
     exists o, r_lead_transferee r = Some o /\ o <> r_id r).
Proof. exact transfer_to_self. Qed.
Print Assumptions C17_transfer_to_self.

Theorem C17_transfer_ignored_step :
  forall r m,
    is_leader r = true -> m_type m = MsgTransferLeader -> (m_term m = 0 \/ m_term m = r_term r) ->
    (get_pr r (m_from m) = None \/ IdSet.mem (m_from m) (learners (conf_of r)) = true \/
     r_lead_transferee r = Some (m_from m)) ->
    step r m = Ok (r, E_OK).
Proof. exact transfer_ignored_step. Qed.
Print Assumptions C17_transfer_ignored_step.

Theorem C17_transfer_to_self_step :
  forall r m,
    is_leader r = true -> m_type m = MsgTransferLeader -> (m_term m = 0 \/ m_term m = r_term r) ->
    m_from m = r_id r ->
    step r m = Ok (r, E_OK) \/
    (step r m = Ok (r <| r_lead_transferee := None |>, E_OK) /\
     exists o, r_lead_transferee r = Some o /\ o <> r_id r).
Proof. exact transfer_to_self_step. Qed.
Print Assumptions C17_transfer_to_self_step.

Theorem C17_rn_transfer_leader_ignored :
  forall n id,
    is_leader (rn_raft n) = true ->
    (get_pr (rn_raft n) id = None \/ IdSet.mem id (learners (conf_of (rn_raft n))) = true \/
     r_lead_transferee (rn_raft n) = Some id) ->
    rn_transfer_leader n id = Ok n.
Proof. exact rn_transfer_leader_ignored. Qed.
Print Assumptions C17_rn_transfer_leader_ignored.

Example C17_ex_ignored :
  (* learner 4, unknown 9, pending target 3: nothing changes *)
  step ex_pending3 (ex_tl_msg 4) = Ok (ex_pending3, E_OK) /\
  step ex_pending3 (ex_tl_msg 9) = Ok (ex_pending3, E_OK) /\
  step ex_pending3 (ex_tl_msg 3) = Ok (ex_pending3, E_OK) /\
  (* the leader itself: the pending transfer is cancelled, nothing else changes *)
  step ex_pending3 (ex_tl_msg 1) = Ok (ex_pending3 <| r_lead_transferee := None |>, E_OK) /\
  step ex_leader (ex_tl_msg 1) = Ok (ex_leader, E_OK).
Proof. vm_compute. repeat split. Qed.

(* ------------------------------------------------------------------ *)
(* 6. the forced vote *)

Theorem C17_forced_vote_no_prevote :
  forall r r', hup r true = Ok r' ->
    filter (fun x => m_type x =? MsgRequestPreVote) (r_msgs r') =
    filter (fun x => m_type x =? MsgRequestPreVote) (r_msgs r).
Proof. exact forced_vote_no_prevote. Qed.
Print Assumptions C17_forced_vote_no_prevote.

Theorem C17_forced_vote_requests :
  forall r r', hup r true = Ok r' ->
    exists new,
      filter (fun x => m_type x =? MsgRequestVote) (r_msgs r') =
      filter (fun x => m_type x =? MsgRequestVote) (r_msgs r) ++ new /\
      Forall (fun x => m_type x = MsgRequestVote /\ m_context x = CAMPAIGN_TRANSFER /\
                       m_term x = r_term r' /\ m_to x <> r_id r') new.
Proof. exact forced_vote_requests. Qed.
Print Assumptions C17_forced_vote_requests.

Theorem C17_forced_vote_bypasses_lease :
  forall r m r' c,
    m_type m = MsgRequestVote -> list_eqb (m_context m) CAMPAIGN_TRANSFER = true ->
    r_term r < m_term m -> step r m = Ok (r', c) ->
    r_term r' = m_term m /\ r_state r' = Follower /\
    exists x, r_msgs r' = r_msgs r ++ [x] /\
              m_type x = MsgRequestVoteResponse /\ m_to x = m_from m.
Proof. exact forced_vote_bypasses_lease. Qed.
Print Assumptions C17_forced_vote_bypasses_lease.

(* a promotable follower with pre_vote on, told to campaign now: term+1, real vote requests
   carrying the transfer context; a voter inside its lease answers such a request (and
   ignores the same request without the context, cf. C16_lease_ignores_vote_requests) *)
Example C17_ex_forced_vote :
  (exists r', step (ex_follower 2) ex_timeout_now = Ok (r', E_OK) /\
     r_state r' = Candidate /\ r_term r' = 3 /\
     map (fun x => (m_type x, m_to x, m_term x, list_eqb (m_context x) CAMPAIGN_TRANSFER))
         (r_msgs r') = [(MsgRequestVote, 1, 3, true); (MsgRequestVote, 3, 3, true)]) /\
  (exists r', step (ex_follower 3) (ex_vote_req CAMPAIGN_TRANSFER) = Ok (r', E_OK) /\
     r_term r' = 3 /\ r_vote r' = 2 /\
     map (fun x => (m_type x, m_to x, m_reject x)) (r_msgs r') = [(MsgRequestVoteResponse, 2, false)]) /\
  step (ex_follower 3) (ex_vote_req []) = Ok (ex_follower 3, E_OK).
Proof. split; [|split]; [eexists; vm_compute; repeat split..|vm_compute; reflexivity]. Qed.

(* ------------------------------------------------------------------ *)
(* 7. a follower that cannot be promoted ignores MsgTimeoutNow *)

Theorem C17_follower_timeout_now :
  forall r m, m_type m = MsgTimeoutNow -> r_promotable r = false -> step_follower r m = Ok (r, E_OK).
Proof. exact follower_timeout_now. Qed.
Print Assumptions C17_follower_timeout_now.

Theorem C17_follower_timeout_now_step :
  forall r m,
    r_state r = Follower -> m_type m = MsgTimeoutNow -> (m_term m = 0 \/ m_term m = r_term r) ->
    r_promotable r = false -> step r m = Ok (r, E_OK).
Proof. exact follower_timeout_now_step. Qed.
Print Assumptions C17_follower_timeout_now_step.

Theorem C17_follower_timeout_now_hup :
  forall r m, m_type m = MsgTimeoutNow -> r_promotable r = true ->
    step_follower r m = (r' <- hup r true ;; Ok (r', E_OK)).
Proof. exact follower_timeout_now_hup. Qed.
Print Assumptions C17_follower_timeout_now_hup.

Example C17_ex_not_promotable :
  step ((ex_follower 4) <| r_promotable := false |>) ex_timeout_now
  = Ok ((ex_follower 4) <| r_promotable := false |>, E_OK).
Proof. vm_compute. reflexivity. Qed.

(* ------------------------------------------------------------------ *)
(* Cluster level, safety half of "when a transfer completes the target leads a higher
   term holding every committed entry": whatever made a node the leader of a term - a
   transfer's forced campaign included (P over-approximates campaigns by free choice) -
   it holds every commit point of every earlier (or its own) term with identical
   entries, and it is the only leader of its term.  Statements about the abstract
   protocol P/Log.v (proofs in P/LogSafety.v, P/ElectionProofs.v); fixed voter
   configuration, no single-node quorum.  That the old leader then follows the target is
   per-step content of the node model (a higher-term message makes it a follower). *)
Theorem C17_new_leader_holds_committed :
  forall inc out, inc <> [] -> RV.P.ElectionProofs.no_single_quorum inc out ->
  forall s T k c, RV.P.Log.lreachable inc out s -> In (T, k) (RV.P.Log.cpts s) ->
    RV.P.Election.p_role (RV.P.Election.nodes (RV.P.Log.el s) c) = RV.P.Election.PL ->
    T <= RV.P.Election.p_term (RV.P.Election.nodes (RV.P.Log.el s) c) ->
    (k <= length (RV.P.Log.l_log (RV.P.Log.ln s c)))%nat /\
    firstn k (RV.P.Log.l_log (RV.P.Log.ln s c)) = firstn k (RV.P.Log.llog s T).
Proof. exact RV.P.LogSafety.leader_completeness_roles. Qed.
Print Assumptions C17_new_leader_holds_committed.

Theorem C17_one_leader_per_term :
  forall inc out, inc <> [] -> forall s a b,
    RV.P.ElectionProofs.no_single_quorum inc out -> RV.P.Election.reachable inc out s ->
    RV.P.Election.p_role (RV.P.Election.nodes s a) = RV.P.Election.PL ->
    RV.P.Election.p_role (RV.P.Election.nodes s b) = RV.P.Election.PL ->
    RV.P.Election.p_term (RV.P.Election.nodes s a) = RV.P.Election.p_term (RV.P.Election.nodes s b) -> a = b.
Proof. exact RV.P.ElectionProofs.election_safety_roles. Qed.
Print Assumptions C17_one_leader_per_term.

(* ================================================================== *)
(* 8. completion under the lock-step full-mesh schedule (proofs: M/RaftProofsC17Complete.v) *)
From RV Require Import M.RaftProofsC17Complete.
From RV Require M.RaftLogProofs.

(* the schedule *)
Theorem C17_mesh_round_def :
  (forall id rs, inbox id rs = flat_map (fun s => filter (fun m => m_to m =? id) (r_msgs s)) rs) /\
  (forall rs r, deliver rs r = msteps (r <| r_msgs := [] |>) (inbox (r_id r) rs)) /\
  (forall r, msteps r [] = Ok r) /\
  (forall r m t, msteps r (m :: t) = (x <- step r m ;; msteps (fst x) t)) /\
  (forall r, tick1 r = (x <- tick r ;; Ok (fst x))) /\
  (forall rs, mesh_round rs = (rs1 <- mmapM (deliver rs) rs ;; mmapM tick1 rs1)) /\
  (forall rs, mesh_rounds 0 rs = Ok rs) /\
  (forall k rs, mesh_rounds (S k) rs = (rs1 <- mesh_round rs ;; mesh_rounds k rs1)).
Proof.
  exact (conj (fun _ _ => eq_refl) (conj (fun _ _ => eq_refl) (conj (fun _ => eq_refl)
        (conj (fun _ _ _ => eq_refl) (conj (fun _ => eq_refl) (conj (fun _ => eq_refl)
        (conj (fun _ => eq_refl) (fun _ _ => eq_refl)))))))).
Qed.
Print Assumptions C17_mesh_round_def.

(* the hypotheses of the cluster theorem, spelled out *)
Theorem C17_Start_def :
  forall L T X vs, Start L T X vs ->
  (r_id L <> r_id T /\ r_id L <> r_id X /\ r_id T <> r_id X) /\
  (NoDup vs /\ length vs = 3%nat /\ In (r_id L) vs /\ In (r_id T) vs /\ In (r_id X) vs /\
   incoming (conf_of T) = vs /\ outgoing (conf_of T) = []) /\
  (is_leader L = true /\ r_lead_transferee L = None /\
   r_state T = Follower /\ r_term T = r_term L /\ r_promotable T = true /\
   r_state X = Follower /\ r_term X = r_term L) /\
  ((exists pr, get_pr L (r_id T) = Some pr /\ matched pr = last_index (r_log L)) /\
   IdSet.mem (r_id T) (learners (conf_of L)) = false) /\
  (last_index (r_log L) = last_index (r_log T) /\ last_index (r_log X) = last_index (r_log T) /\
   last_term (r_log L) = last_term (r_log T) /\ last_term (r_log X) = last_term (r_log T) /\
   committed (r_log T) <= applied (r_log T)) /\
  ((r_priority L <= r_priority T)%Z /\ (r_priority X <= r_priority T)%Z) /\
  (r_msgs L = [] /\ r_msgs T = [] /\ r_msgs X = []) /\
  (1 < r_election_timeout L /\ r_heartbeat_elapsed L + 1 < r_heartbeat_timeout L /\
   1 < r_election_timeout T /\ 1 < r_heartbeat_timeout T /\
   r_election_elapsed X + 1 < r_randomized_election_timeout X /\
   (forall d ds, r_draws L = d :: ds -> 2 < d) /\
   (forall d ds, r_draws T = d :: ds -> 2 < d) /\
   (forall d ds, r_draws X = d :: ds -> 2 < d)).
Proof. exact Start_unfold. Qed.
Print Assumptions C17_Start_def.

(* --- per-node steps, each for all states --- *)

(* (a) asked to transfer to a caught-up voter, the leader queues exactly one MsgTimeoutNow to
   it and is otherwise the state "transfer to it pending, election_elapsed 0" *)
Theorem C17_transfer_starts :
  forall L m L' c pr,
  is_leader L = true -> r_lead_transferee L = None ->
  m_type m = MsgTransferLeader -> (m_term m = 0 \/ m_term m = r_term L) ->
  m_from m <> r_id L -> get_pr L (m_from m) = Some pr ->
  IdSet.mem (m_from m) (learners (conf_of L)) = false ->
  matched pr = last_index (r_log L) ->
  step L m = Ok (L', c) ->
  exists x,
    L' = (L <| r_election_elapsed := 0 |> <| r_lead_transferee := Some (m_from m) |>)
           <| r_msgs := r_msgs L ++ [x] |> /\
    m_type x = MsgTimeoutNow /\ m_to x = m_from m /\ m_term x = r_term L.
Proof. exact transfer_starts. Qed.
Print Assumptions C17_transfer_starts.

(* (b) VoteReq id li lt t p to x: x is a MsgRequestVote to [to] from [id] at term t for a log
   ending at (li, lt), with the transfer context and priority p *)
Theorem C17_VoteReq_def :
  forall id li lt t p to x, VoteReq id li lt t p to x <->
  (m_type x = MsgRequestVote /\ m_to x = to /\ m_term x = t /\ m_from x = id /\
   m_index x = li /\ m_log_term x = lt /\ m_context x = CAMPAIGN_TRANSFER /\ get_priority x = p).
Proof. exact VoteReq_unfold. Qed.
Print Assumptions C17_VoteReq_def.

Theorem C17_target_campaigns :
  forall T m T' c vs,
  r_state T = Follower -> r_promotable T = true ->
  m_type m = MsgTimeoutNow -> (m_term m = 0 \/ m_term m = r_term T) ->
  committed (r_log T) <= applied (r_log T) ->
  incoming (conf_of T) = vs -> outgoing (conf_of T) = [] ->
  NoDup vs -> In (r_id T) vs -> length vs = 3%nat ->
  step T m = Ok (T', c) ->
  (conf_of T' = conf_of T /\ r_id T' = r_id T /\ r_priority T' = r_priority T /\
   r_election_timeout T' = r_election_timeout T /\ r_heartbeat_timeout T' = r_heartbeat_timeout T /\
   r_promotable T' = r_promotable T) /\
  r_state T' = Candidate /\ r_term T' = r_term T + 1 /\ r_vote T' = r_id T /\
  r_log T' = r_log T /\ t_votes (r_prs T') = [(r_id T, true)] /\
  r_lead_transferee T' = None /\ r_election_elapsed T' = 0 /\
  r_draws T = r_randomized_election_timeout T' :: r_draws T' /\
  exists lt new,
    last_term (r_log T) = Ok lt /\ r_msgs T' = r_msgs T ++ new /\
    Forall2 (VoteReq (r_id T) (last_index (r_log T)) lt (r_term T + 1) (r_priority T))
            (filter (fun v => negb (v =? r_id T)) vs) new.
Proof. exact target_campaigns. Qed.
Print Assumptions C17_target_campaigns.

(* (c) in any role, whatever the lease says *)
Theorem C17_voter_grants_forced :
  forall V m V' c,
  m_type m = MsgRequestVote -> m_context m = CAMPAIGN_TRANSFER -> r_term V < m_term m ->
  is_up_to_date (r_log V) (m_index m) (m_log_term m) = Ok true ->
  ((last_index (r_log V) <? m_index m) || (r_priority V <=? get_priority m)%Z) = true ->
  step V m = Ok (V', c) ->
  (conf_of V' = conf_of V /\ r_id V' = r_id V /\ r_priority V' = r_priority V /\
   r_election_timeout V' = r_election_timeout V /\ r_heartbeat_timeout V' = r_heartbeat_timeout V /\
   r_promotable V' = r_promotable V) /\
  r_state V' = Follower /\ r_term V' = m_term m /\ r_vote V' = m_from m /\
  r_log V' = set_limit (r_log V) 0 /\ r_lead_transferee V' = None /\
  r_election_elapsed V' = 0 /\ r_leader_id V' = Progress.INVALID_ID /\
  r_draws V = r_randomized_election_timeout V' :: r_draws V' /\
  exists x, r_msgs V' = r_msgs V ++ [x] /\ m_type x = MsgRequestVoteResponse /\
    m_to x = m_from m /\ m_term x = m_term m /\ m_reject x = false /\ m_from x = r_id V.
Proof. exact voter_grants_forced. Qed.
Print Assumptions C17_voter_grants_forced.

(* (d) one grant from another voter is a quorum of three *)
Theorem C17_candidate_wins :
  forall T m T' c vs,
  r_state T = Candidate -> m_type m = MsgRequestVoteResponse -> m_term m = r_term T ->
  m_reject m = false ->
  t_votes (r_prs T) = [(r_id T, true)] ->
  incoming (conf_of T) = vs -> outgoing (conf_of T) = [] ->
  NoDup vs -> In (r_id T) vs -> In (m_from m) vs -> m_from m <> r_id T -> length vs = 3%nat ->
  step T m = Ok (T', c) ->
  r_state T' = Leader /\ r_term T' = r_term T /\ r_id T' = r_id T /\ conf_of T' = conf_of T /\
  r_leader_id T' = r_id T /\ r_vote T' = r_vote T /\ r_lead_transferee T' = None /\
  r_election_elapsed T' = 0 /\ r_heartbeat_elapsed T' = 0 /\
  r_election_timeout T' = r_election_timeout T /\ r_heartbeat_timeout T' = r_heartbeat_timeout T /\
  exists z,
    log_append (r_log T) (stamp [entry_default] (r_term T) (last_index (r_log T) + 1))
      = Ok (r_log T', z).
Proof. exact candidate_wins. Qed.
Print Assumptions C17_candidate_wins.

Theorem C17_leader_ignores_vote_response :
  forall T m,
  r_state T = Leader -> m_type m = MsgRequestVoteResponse -> m_term m = r_term T ->
  step T m = Ok (T, E_OK).
Proof. exact leader_ignores_vote_response. Qed.
Print Assumptions C17_leader_ignores_vote_response.

Theorem C17_follower_adopts_leader :
  forall V m V' c,
  r_state V = Follower -> (m_type m = MsgAppend \/ m_type m = MsgHeartbeat) ->
  m_term m = r_term V -> step V m = Ok (V', c) ->
  r_leader_id V' = m_from m /\ r_state V' = Follower /\ r_term V' = r_term V /\
  r_vote V' = r_vote V /\ r_lead_transferee V' = r_lead_transferee V.
Proof. exact follower_adopts_leader. Qed.
Print Assumptions C17_follower_adopts_leader.

(* the no-op a new leader appends, in C14's abstraction of the log *)
Theorem C17_noop_append_abs :
  forall rw l t l' z,
  RaftLogProofs.RepInv rw l -> persisted l <= last_index l -> last_index l + 2 <= u64_max ->
  log_append l (stamp [entry_default] t (last_index l + 1)) = Ok (l', z) ->
  RaftLogProofs.ll_base (RaftLogProofs.abs l') = RaftLogProofs.ll_base (RaftLogProofs.abs l) /\
  RaftLogProofs.ll_ents (RaftLogProofs.abs l') =
    RaftLogProofs.ll_ents (RaftLogProofs.abs l) ++ [mkEntry EntryNormal t (last_index l + 1) [] []] /\
  committed l' = committed l /\ RaftLogProofs.RepInv rw l'.
Proof. exact noop_append_abs. Qed.
Print Assumptions C17_noop_append_abs.

(* --- the cluster theorem --- *)
Theorem C17_transfer_completes :
  forall L T X vs m L1 c out,
  Start L T X vs ->
  m_type m = MsgTransferLeader -> m_from m = r_id T -> (m_term m = 0 \/ m_term m = r_term L) ->
  step L m = Ok (L1, c) ->
  mesh_rounds 3 [L1; T; X] = Ok out ->
  exists L' T' X', out = [L'; T'; X'] /\
    r_state T' = Leader /\ r_term T' = r_term L + 1 /\ r_id T' = r_id T /\
    r_leader_id T' = r_id T /\
    (exists z, log_append (r_log T) (stamp [entry_default] (r_term L + 1) (last_index (r_log T) + 1))
               = Ok (r_log T', z)) /\
    r_state L' = Follower /\ r_term L' = r_term L + 1 /\ r_vote L' = r_id T /\
    r_lead_transferee L' = None /\ r_id L' = r_id L /\ r_log L' = set_limit (r_log L) 0 /\
    r_state X' = Follower /\ r_term X' = r_term L + 1 /\ r_vote X' = r_id T /\
    r_id X' = r_id X /\ r_log X' = set_limit (r_log X) 0.
Proof. exact transfer_completes. Qed.
Print Assumptions C17_transfer_completes.

Theorem C17_transfer_completes_log :
  forall L T X vs m L1 c out rw,
  Start L T X vs ->
  m_type m = MsgTransferLeader -> m_from m = r_id T -> (m_term m = 0 \/ m_term m = r_term L) ->
  step L m = Ok (L1, c) ->
  mesh_rounds 3 [L1; T; X] = Ok out ->
  RaftLogProofs.RepInv rw (r_log T) -> persisted (r_log T) <= last_index (r_log T) ->
  last_index (r_log T) + 2 <= u64_max ->
  RaftLogProofs.abs (r_log T) = RaftLogProofs.abs (r_log L) ->
  exists L' T' X', out = [L'; T'; X'] /\
    r_state T' = Leader /\ r_term T' = r_term L + 1 /\
    RaftLogProofs.ll_base (RaftLogProofs.abs (r_log T')) = RaftLogProofs.ll_base (RaftLogProofs.abs (r_log L)) /\
    RaftLogProofs.ll_ents (RaftLogProofs.abs (r_log T')) =
      RaftLogProofs.ll_ents (RaftLogProofs.abs (r_log L)) ++
      [mkEntry EntryNormal (r_term L + 1) (last_index (r_log L) + 1) [] []] /\
    committed (r_log T') = committed (r_log T) /\
    r_state L' = Follower /\ r_term L' = r_term L + 1 /\ r_vote L' = r_id T /\
    r_lead_transferee L' = None.
Proof. exact transfer_completes_log. Qed.
Print Assumptions C17_transfer_completes_log.

(* non-vacuity: voters 1 2 3 (+ learner 4), leader 1 at term 2, log [(1,t1) (2,t2)] everywhere;
   transfer 1 -> 2.  After the request node 1 has MsgTimeoutNow queued for 2; three rounds
   later 2 leads term 3 with the no-op at index 3 and 1, 3 follow having voted for 2; one
   more round and both record 2 as their leader and hold index 3 *)
Example C17_transfer_completes_example :
  Start cx_leader cx_target cx_third [1; 2; 3] /\
  step cx_leader cx_request = Ok (cx_after_request, E_OK) /\
  (r_lead_transferee cx_after_request = Some 2 /\
   map (fun x => (m_type x, m_to x)) (r_msgs cx_after_request) = [(MsgTimeoutNow, 2)]) /\
  (exists rs, mesh_rounds 3 [cx_after_request; cx_target; cx_third] = Ok rs /\
     map (fun r => (r_id r, r_state r, r_term r, r_vote r, r_leader_id r, r_lead_transferee r,
                    last_index (r_log r))) rs
     = [(1, Follower, 3, 2, 0, None, 2); (2, Leader, 3, 2, 2, None, 3); (3, Follower, 3, 2, 0, None, 2)] /\
     map (fun r => u_entries (unst (r_log r))) rs = [[]; [mkEntry EntryNormal 3 3 [] []]; []]) /\
  (exists rs, mesh_rounds 4 [cx_after_request; cx_target; cx_third] = Ok rs /\
     map (fun r => (r_id r, r_state r, r_term r, r_leader_id r, last_index (r_log r))) rs
     = [(1, Follower, 3, 2, 3); (2, Leader, 3, 2, 3); (3, Follower, 3, 2, 3)]).
Proof.
  split; [exact cx_start|]. split; [vm_compute; reflexivity|]. split; [vm_compute; split; reflexivity|].
  split; eexists; (split; [vm_compute; reflexivity|]); vm_compute; repeat split.
Qed.
