(* C01 — State-machine safety: no two nodes ever commit different entries at the
   same index.  Only pinned statements; proofs live in P/LogSafety.v.  They are
   about the abstract log protocol P/Log.v superposed on the election protocol
   P/Election.v (every execution: campaigns, grants under the election
   restriction, proposals, log adoption by followers, acknowledgements created /
   released once durable, leader and follower commits, separate persistence queues
   for (term, vote) and for log images, message duplication / delay / reordering,
   crashes at any point and restarts from the durable state), for a fixed voter
   configuration (simple or joint) in which no single node is a quorum.  Logs are
   uncompacted lists of (term, payload); index j is position j-1.
   The fsync rule of P/Log.v requires that no entry of a log image that becomes
   durable has a term above the durable term (the hard state of a Ready is durable no
   later than its entries); C01_unguarded_fsync_unsafe shows the property is FALSE of
   the protocol without that guard. *)
From RV Require Import Base.Prelude M.Quorum P.Election P.ElectionProofs P.Log P.LogProofs P.LogSafety.
Local Open Scope N_scope.

(* state form: in every reachable state, any two nodes agree on every index both
   report committed *)
Theorem C01_state_machine_safety :
  forall inc out, inc <> [] -> no_single_quorum inc out ->
  forall s a b j, lreachable inc out s -> (1 <= j)%nat ->
    (j <= l_commit (ln s a))%nat -> (j <= l_commit (ln s b))%nat ->
    nth_error (l_log (ln s a)) (j - 1) = nth_error (l_log (ln s b)) (j - 1).
Proof. exact state_machine_safety. Qed.
Print Assumptions C01_state_machine_safety.

(* history form: the entry a node reports committed at index j in some reachable
   state is the entry any node (the same node after any number of crashes and
   restarts included) reports committed at j in any later state ([lsteps]: zero or
   more steps) *)
Theorem C01_state_machine_safety_history :
  forall inc out, inc <> [] -> no_single_quorum inc out ->
  forall s s' a b j, lreachable inc out s -> lsteps inc out s s' -> (1 <= j)%nat ->
    (j <= l_commit (ln s a))%nat -> (j <= l_commit (ln s' b))%nat ->
    nth_error (l_log (ln s a)) (j - 1) = nth_error (l_log (ln s' b)) (j - 1).
Proof. exact state_machine_safety_history. Qed.
Print Assumptions C01_state_machine_safety_history.

(* commit points (the ghost record of every leader commit) are permanent, and so are
   their entries *)
Theorem C01_commit_points_permanent :
  forall inc out, inc <> [] -> no_single_quorum inc out ->
  forall s s' T k, lreachable inc out s -> lsteps inc out s s' -> In (T, k) (cpts s) ->
    In (T, k) (cpts s') /\ firstn k (llog s' T) = firstn k (llog s T).
Proof. exact lsteps_cpt. Qed.
Print Assumptions C01_commit_points_permanent.

(* any two commit points agree on the indexes both cover *)
Theorem C01_commit_points_consistent :
  forall inc out, inc <> [] -> no_single_quorum inc out ->
  forall s T1 k1 T2 k2, lreachable inc out s ->
    In (T1, k1) (cpts s) -> In (T2, k2) (cpts s) ->
    firstn (Nat.min k1 k2) (llog s T1) = firstn (Nat.min k1 k2) (llog s T2).
Proof. exact commit_points_consistent. Qed.
Print Assumptions C01_commit_points_consistent.

(* Without the guard of the fsync rule the property is false: an explicit execution
   in which nodes 1 and 2 commit (2,0) and (1,9) at index 2; the guarded rule rejects
   that execution. *)
Theorem C01_unguarded_fsync_unsafe :
  exists s, lrun_unguarded_fsync [1;2;3] [] stale_term_attack linit = Some s /\
    l_commit (ln s 1) = 2%nat /\ l_commit (ln s 2) = 3%nat /\
    nth_error (l_log (ln s 1)) 1 = Some (2, 0) /\ nth_error (l_log (ln s 2)) 1 = Some (1, 9).
Proof. exact unguarded_fsync_unsafe. Qed.
Print Assumptions C01_unguarded_fsync_unsafe.

Theorem C01_guarded_fsync_rejects_attack : lrun [1;2;3] [] stale_term_attack linit = None.
Proof. exact guarded_fsync_rejects_attack. Qed.
Print Assumptions C01_guarded_fsync_rejects_attack.
