(* C04 — The commit rule: a leader commits only entries of its own term supported
   by a quorum, followers commit only up to what a leader committed, and committed
   entries are durable on a quorum.  Only pinned statements; proofs live in
   P/LogSafety.v; same protocol and hypotheses as Props/C01.v. *)
From RV Require Import Base.Prelude M.Quorum P.Election P.ElectionProofs P.Log P.LogProofs P.LogSafety.
Local Open Scope N_scope.

(* A commit point (T, k) is only ever created by a leader commit of a node in the
   leader role of term T: index k of its log holds an entry of term T, and a quorum
   supports it in which every other node has an acknowledgement >= k recorded for
   term T and the leader counts itself only if its durable log covers index k. *)
Theorem C04_commit_point_rule :
  forall inc out s l s' T k, lrule inc out l s = Some s' ->
    In (T, k) (cpts s') -> ~ In (T, k) (cpts s) ->
    exists c, l = LCommitL c k /\
      p_role (nodes (el s) c) = PL /\ p_up (nodes (el s) c) = true /\ p_term (nodes (el s) c) = T /\
      (1 <= k <= length (l_log (ln s c)))%nat /\ term_at (l_log (ln s c)) k = T /\
      exists Q, quorum inc out Q = true /\ forall q, In q Q ->
        (q = c /\ exists suf, l_dlog (ln s c) = firstn k (l_log (ln s c)) ++ suf) \/
        (q <> c /\ (k <= acked s q T)%nat).
Proof. exact commit_point_rule. Qed.
Print Assumptions C04_commit_point_rule.

(* An acknowledgement index is only recorded (raised) while the node's durable log
   covers it: by the release of an acknowledgement, or (ghost) for the leader itself
   when it counts its own durable log in a leader commit. *)
Theorem C04_ack_record_rule :
  forall inc out, inc <> [] -> no_single_quorum inc out ->
  forall s l s' q t, lreachable inc out s -> lrule inc out l s = Some s' ->
    (acked s q t < acked s' q t)%nat ->
    (acked s' q t <= length (llog s t))%nat /\
    (exists suf, l_dlog (ln s q) = firstn (acked s' q t) (llog s t) ++ suf) /\
    (l = LRelAck q t (acked s' q t) \/
     (l = LCommitL q (acked s' q t) /\ t = p_term (nodes (el s) q) /\ p_role (nodes (el s) q) = PL)).
Proof. exact ack_record_rule. Qed.
Print Assumptions C04_ack_record_rule.

(* A node's commit index only rises by a leader commit (creating the commit point of
   its term) or by a commit up to an existing commit point its log agrees with. *)
Theorem C04_commit_raise_rule :
  forall inc out s l s' n, lrule inc out l s = Some s' ->
    (l_commit (ln s n) < l_commit (ln s' n))%nat ->
    (exists k, l = LCommitL n k /\ l_commit (ln s' n) = k /\ In (p_term (nodes (el s) n), k) (cpts s')) \/
    (exists k T k1, l = LCommitF n k /\ l_commit (ln s' n) = k /\ In (T, k1) (cpts s) /\ (k <= k1)%nat /\
                    firstn k (l_log (ln s n)) = firstn k (llog s T)).
Proof. exact commit_raise_rule. Qed.
Print Assumptions C04_commit_raise_rule.

(* In every reachable state a non-zero commit index is covered by a commit point the
   node's log agrees with (followers never commit beyond what a leader committed). *)
Theorem C04_follower_commit_bound :
  forall inc out, inc <> [] -> no_single_quorum inc out ->
  forall s n, lreachable inc out s -> (0 < l_commit (ln s n))%nat ->
    exists T k, In (T, k) (cpts s) /\ (l_commit (ln s n) <= k)%nat /\
      firstn (l_commit (ln s n)) (l_log (ln s n)) = firstn (l_commit (ln s n)) (llog s T).
Proof. exact follower_commit_bound. Qed.
Print Assumptions C04_follower_commit_bound.

(* At all times the entries of every commit point are in the DURABLE log of a quorum
   (so they survive the crash of every node). *)
Theorem C04_durable_quorum :
  forall inc out, inc <> [] -> no_single_quorum inc out ->
  forall s T k, lreachable inc out s -> In (T, k) (cpts s) ->
    exists Q, quorum inc out Q = true /\
      forall z, In z Q -> (k <= length (l_dlog (ln s z)))%nat /\ firstn k (l_dlog (ln s z)) = firstn k (llog s T).
Proof. exact durable_quorum. Qed.
Print Assumptions C04_durable_quorum.


(* ====================================================================== *)
(* ==== node level ====================================================== *)
(* ====================================================================== *)
(* TWO LEVELS, as in Props/C05.v: above, the abstract protocol (quorum durability and its
   consequences are cross-node); here, ONE node of the executable model M/Raft.v under the
   log invariant LI of C14, per call; proofs in M/RaftProofsC05.v; the link is the trace
   acceptor (P/LogAccept.v).  The M modules are imported here, after the P-level statements.
   PROVED
   (4) the leader commit rule (C04_node_maybe_commit_rule): maybe_commit = Ok (r', true) means
       the commit index becomes EXACTLY the quorum index of the matched indexes
       (fst (prs_maximal_committed_index (r_prs r)), characterised by Props/C11.v), strictly
       higher than before, within the log, and the entry there has the leader's term; nothing
       else of the log changes.  = Ok (r', false) means r' = r.
       The leader counts itself only for what it has persisted: appending never touches the
       progress tracker (C04_node_append_entry_prs); a term change restarts the own matched
       index at persisted (C04_node_reset_self_matched, .._become_leader_self_matched); after
       that only on_persist_entries raises it, to an index i with persisted = i afterwards and
       the storage holding term t at i (C04_node_on_persist_entries_self_matched); bcast_append
       leaves the own progress alone.
   (5) the follower: a heartbeat moves the commit index to max(old, m_commit), never beyond
       last_index (C04_node_handle_heartbeat_commit); commit_to's range check is panic site
       1412, which fires exactly when m_commit is above both the commit index and the last
       index (C04_node_handle_heartbeat_panics_1412); an accepted append moves it to
       max(old, min(m_commit, m_index + len)) (C05_node_append_check in Props/C05.v); the
       leader builds a heartbeat with m_commit = min(matched, committed)
       (C13_heartbeat_commit), so a follower is never told to commit beyond what the leader
       recorded as acknowledged by it.
   NOT PROVED here: that a quorum of matched indexes means quorum durability (cross-node: P
       level above, C04_commit_point_rule / C04_ack_record_rule). *)
From RV Require Import Base.IdSet M.Util M.UtilProofs M.Proto M.MemStorage M.MemStorageProofs
  M.Inflights M.Progress M.RaftLog M.ConfChange M.Msg M.Raft M.RawNode M.RaftProofs
  M.RaftLogProofs M.RaftLogProofsOps M.RaftLogProofsStore M.RaftLogProofsSlice M.RaftLogProofsHistory
  M.RaftProofsC15 M.RaftProofsC09 M.RaftProofsC08 M.RaftProofsC13 M.RaftProofsC07
  M.RaftProofsRepInv M.RaftProofsC05.
From RecordUpdate Require Import RecordSet.
Import RecordSetNotations.

(* (4) the leader commit rule *)
Theorem C04_node_maybe_commit_rule :
  forall rw r r',
  Raft.maybe_commit r = Ok (r', true) -> LI rw r ->
  let mci := fst (prs_maximal_committed_index (r_prs r)) in
  committed (r_log r') = mci /\ committed (r_log r) < mci /\ mci <= last_index (r_log r)
  /\ ll_term (abs (r_log r)) mci = SOk (r_term r)
  /\ abs (r_log r') = abs (r_log r) /\ persisted (r_log r') = persisted (r_log r)
  /\ applied (r_log r') = applied (r_log r).
Proof. exact maybe_commit_rule. Qed.
Print Assumptions C04_node_maybe_commit_rule.

Theorem C04_node_maybe_commit_false :
  forall r r',
  Raft.maybe_commit r = Ok (r', false) -> r' = r.
Proof. exact maybe_commit_false. Qed.
Print Assumptions C04_node_maybe_commit_false.

(* the leader counts itself only for what it has persisted *)
Theorem C04_node_append_entry_prs :
  forall r es r' ok,
  append_entry r es = Ok (r', ok) -> r_prs r' = r_prs r.
Proof. exact append_entry_prs. Qed.
Print Assumptions C04_node_append_entry_prs.

Theorem C04_node_reset_self_matched :
  forall r t r' pr,
  reset r t = Ok r' -> get_pr r (r_id r) = Some pr ->
  exists pr', get_pr r' (r_id r') = Some pr' /\ matched pr' = persisted (r_log r)
              /\ r_id r' = r_id r /\ r_log r' = r_log r.
Proof. exact reset_self_matched. Qed.
Print Assumptions C04_node_reset_self_matched.

Theorem C04_node_become_leader_self_matched :
  forall r r' pr,
  become_leader r = Ok r' -> get_pr r (r_id r) = Some pr ->
  exists pr', get_pr r' (r_id r) = Some pr' /\ matched pr' = persisted (r_log r).
Proof. exact become_leader_self_matched. Qed.
Print Assumptions C04_node_become_leader_self_matched.

Theorem C04_node_maybe_commit_self :
  forall r r' b pr,
  Raft.maybe_commit r = Ok (r', b) -> get_pr r (r_id r) = Some pr ->
  exists pr', get_pr r' (r_id r) = Some pr' /\ matched pr' = matched pr /\ r_id r' = r_id r
              /\ persisted (r_log r') = persisted (r_log r).
Proof. exact maybe_commit_self. Qed.
Print Assumptions C04_node_maybe_commit_self.

Theorem C04_node_bcast_append_self :
  forall r r',
  bcast_append r = Ok r' -> get_pr r' (r_id r) = get_pr r (r_id r).
Proof. exact bcast_append_self. Qed.
Print Assumptions C04_node_bcast_append_self.

Theorem C04_node_on_persist_entries_self_matched :
  forall rw r i t r' pr,
  on_persist_entries r i t = Ok r' -> LI rw r -> get_pr r (r_id r) = Some pr ->
  exists pr', get_pr r' (r_id r) = Some pr' /\
    (matched pr' = matched pr
     \/ (matched pr < i /\ matched pr' = i /\ is_leader r = true
         /\ persisted (r_log r) < i /\ persisted (r_log r') = i
         /\ storage_term (store (r_log r)) i = Ok (SOk t))).
Proof. exact on_persist_entries_self_matched. Qed.
Print Assumptions C04_node_on_persist_entries_self_matched.

(* (5) the follower *)
Theorem C04_node_handle_heartbeat_commit :
  forall rw r m r',
  handle_heartbeat r m = Ok r' -> LI rw r ->
  committed (r_log r') = N.max (committed (r_log r)) (m_commit m)
  /\ committed (r_log r') <= last_index (r_log r')
  /\ abs (r_log r') = abs (r_log r).
Proof. exact handle_heartbeat_commit. Qed.
Print Assumptions C04_node_handle_heartbeat_commit.

Theorem C04_node_handle_heartbeat_panics_1412 :
  forall rw r m,
  LI rw r ->
  (handle_heartbeat r m = Panic site_l_commit_range
   <-> committed (r_log r) < m_commit m /\ last_index (r_log r) < m_commit m).
Proof. exact handle_heartbeat_panics_1412. Qed.
Print Assumptions C04_node_handle_heartbeat_panics_1412.

Import Samples C04Samples.

(* non-vacuity: a persistence notice raises the own matched index and the commit index *)
Theorem C04_node_ex_persist_commits :
  exists r' pr pr',
      on_persist_entries (rn_raft nmid) 1 1 = Ok r'
      /\ get_pr (rn_raft nmid) 1 = Some pr /\ matched pr = 0 /\ committed (nlog nmid) = 0
      /\ get_pr r' 1 = Some pr' /\ matched pr' = 1 /\ persisted (r_log r') = 1
      /\ committed (r_log r') = 1 /\ r_term r' = 1.
Proof. exact ex_persist_commits. Qed.
Print Assumptions C04_node_ex_persist_commits.

