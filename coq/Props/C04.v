(* C04 — The commit rule: a leader commits only entries of its own term supported
   by a quorum, followers commit only up to what a leader committed, and committed
   entries are durable on a quorum.  Only pinned statements; proofs live in
   P/LogSafety.v; same protocol and hypotheses as Props/C01.v. *)
From RV Require Import Base.Prelude M.Quorum P.Election P.ElectionProofs P.Log P.LogProofs P.LogSafety.
Local Open Scope N_scope.

(* A commit point (T, k) is only ever created by a leader commit of a node in the
   leader role of term T: index k of its log holds an entry of term T, and a quorum
   supports it in which every other node has an acknowledgement >= k recorded for
   term T and the leader counts itself only if its durable log covers index k. *)
Theorem C04_commit_point_rule :
  forall inc out s l s' T k, lrule inc out l s = Some s' ->
    In (T, k) (cpts s') -> ~ In (T, k) (cpts s) ->
    exists c, l = LCommitL c k /\
      p_role (nodes (el s) c) = PL /\ p_up (nodes (el s) c) = true /\ p_term (nodes (el s) c) = T /\
      (1 <= k <= length (l_log (ln s c)))%nat /\ term_at (l_log (ln s c)) k = T /\
      exists Q, quorum inc out Q = true /\ forall q, In q Q ->
        (q = c /\ exists suf, l_dlog (ln s c) = firstn k (l_log (ln s c)) ++ suf) \/
        (q <> c /\ (k <= acked s q T)%nat).
Proof. exact commit_point_rule. Qed.
Print Assumptions C04_commit_point_rule.

(* An acknowledgement index is only recorded (raised) while the node's durable log
   covers it: by the release of an acknowledgement, or (ghost) for the leader itself
   when it counts its own durable log in a leader commit. *)
Theorem C04_ack_record_rule :
  forall inc out, inc <> [] -> no_single_quorum inc out ->
  forall s l s' q t, lreachable inc out s -> lrule inc out l s = Some s' ->
    (acked s q t < acked s' q t)%nat ->
    (acked s' q t <= length (llog s t))%nat /\
    (exists suf, l_dlog (ln s q) = firstn (acked s' q t) (llog s t) ++ suf) /\
    (l = LRelAck q t (acked s' q t) \/
     (l = LCommitL q (acked s' q t) /\ t = p_term (nodes (el s) q) /\ p_role (nodes (el s) q) = PL)).
Proof. exact ack_record_rule. Qed.
Print Assumptions C04_ack_record_rule.

(* A node's commit index only rises by a leader commit (creating the commit point of
   its term) or by a commit up to an existing commit point its log agrees with. *)
Theorem C04_commit_raise_rule :
  forall inc out s l s' n, lrule inc out l s = Some s' ->
    (l_commit (ln s n) < l_commit (ln s' n))%nat ->
    (exists k, l = LCommitL n k /\ l_commit (ln s' n) = k /\ In (p_term (nodes (el s) n), k) (cpts s')) \/
    (exists k T k1, l = LCommitF n k /\ l_commit (ln s' n) = k /\ In (T, k1) (cpts s) /\ (k <= k1)%nat /\
                    firstn k (l_log (ln s n)) = firstn k (llog s T)).
Proof. exact commit_raise_rule. Qed.
Print Assumptions C04_commit_raise_rule.

(* In every reachable state a non-zero commit index is covered by a commit point the
   node's log agrees with (followers never commit beyond what a leader committed). *)
Theorem C04_follower_commit_bound :
  forall inc out, inc <> [] -> no_single_quorum inc out ->
  forall s n, lreachable inc out s -> (0 < l_commit (ln s n))%nat ->
    exists T k, In (T, k) (cpts s) /\ (l_commit (ln s n) <= k)%nat /\
      firstn (l_commit (ln s n)) (l_log (ln s n)) = firstn (l_commit (ln s n)) (llog s T).
Proof. exact follower_commit_bound. Qed.
Print Assumptions C04_follower_commit_bound.

(* At all times the entries of every commit point are in the DURABLE log of a quorum
   (so they survive the crash of every node). *)
Theorem C04_durable_quorum :
  forall inc out, inc <> [] -> no_single_quorum inc out ->
  forall s T k, lreachable inc out s -> In (T, k) (cpts s) ->
    exists Q, quorum inc out Q = true /\
      forall z, In z Q -> (k <= length (l_dlog (ln s z)))%nat /\ firstn k (l_dlog (ln s z)) = firstn k (llog s T).
Proof. exact durable_quorum. Qed.
Print Assumptions C04_durable_quorum.
