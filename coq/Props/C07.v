(* C07 — Ready contract: exact, ordered, persisted-only hand-off of entries.
   Only pinned statements; proofs live in M/RaftProofsC07.v.  Model: M/RawNode.v
   (RawNode, Ready, LightReady) over M/Raft.v and M/RaftLog.v.

   Statements quantify over ALL rawnode states [n] (no reachability assumed) and are
   per call ([f n args = Ok ... -> ...], the Ok hypothesis excludes panics), except
   where a hypothesis names the RaftLog representation invariant
   [RaftLogProofs.RepInv] (property C14) or the history invariant [Hist].

   PROVED
   * has_ready_iff (both directions, all states): has_ready() = true exactly when
     ready() returns something (soft state, hard state, read states, entries, a
     non-empty snapshot, committed entries or messages).  No counterexample exists in
     the model: [slice] of a non-empty range never answers an empty list
     (slice_shape), and a pending snapshot of index 0 makes both sides agree.
   * must_sync_spec: must_sync = true iff entries, a pending snapshot, or a term/vote
     change are included.
   * ready_entries_are_unstable: Ready.entries = the unstable suffix; hs / ss are Some
     exactly when they differ from prev_hs / prev_ss and then are the current ones;
     number = max_number + 1; the pushed record; what ready() leaves untouched.
   * handout_range (all states), handout_abs / handout_bound / handout_persisted_only
     (under RepInv): the committed entries of a Ready / LightReady are
     limit_size of the logical log between max(commit_since_index+1, first_index) and
     min(committed, persisted (+) limit): contiguous, each equal to the log's entry at
     its index, every index > commit_since_index, <= committed, <= persisted + limit
     (so <= persisted when apply-before-persist is off); non-empty iff the range is.
   * handout_limit_max_ok: regression guard for finding F8 (fixed in /repo 63caa76):
     with max_apply_unpersisted_log_limit = u64::MAX the upper bound is [committed];
     applied_index_upper_bound cannot panic any more (it is total: it always is Ok).
   * commit_since_monotone (gen_light_ready and ready), snapshot_ready: commit_since_index
     never decreases; it moves to the last handed-out entry (strictly larger) or, with a
     pending snapshot, to the snapshot index, and then no committed entry is handed out.
   * records_fold: fold_records = (drop_le, acc_records (take_le ..)): removes exactly the
     prefix of records with number <= n (= all such records when numbers are sorted) and
     returns the last snapshot index and the last (index, term) recorded at or after the
     last snapshot record; on_persist_ready then calls on_persist_snap / on_persist_entries
     with those (only when non-zero).
   * commit_ready_stabilises, commit_ready_ok_iff: effect of commit_ready and exactly when
     it panics (no record / number mismatch / unstable changed since ready()).
   * advance_append_hs: afterwards prev_hs = the current hard state; commit_index is Some c
     iff commit grew, and then c = committed.
   * step_rejects (also C20): local message types and responses from unknown peers are
     refused with the node unchanged; everything else is Raft::step.
   * ready_persisted_msg_spec (+ two corollaries) for the fix 4e5e493 of /repo: a Ready's
     messages wait for persistence iff not leader, or this Ready changes term/vote, or an
     outstanding (unpersisted) Ready did; a Ready whose hard state changes term or vote
     carries no immediate message.
   * ready_then_commit, ready_exactly_once: advancing the Ready just produced cannot
     panic, clears the unstable entries/snapshot, sets prev_hs/prev_ss to the current
     state, and the next Ready (nothing else happening) carries no entries, snapshot,
     hard or soft state: each is handed out exactly once.
   * Lifetime level: handout_step / handout_exec / handout_contiguous / handout_init.
     With the history variable [h] = (start, every committed entry handed out since start)
     ([start] = Config.applied at construction, reset to the snapshot index by a Ready
     carrying a non-empty snapshot), [Hist n h] says: the handed-out entries have exactly
     the indexes start+1 .. commit_since_index in order (no gap, duplicate, reordering).
     It holds after RawNode::new and is preserved by EVERY call sequence ([op] lists all
     RawNode API calls of the model plus the application writing its Storage) that does
     not panic, ASSUMING at each of the (at most one per call) points where a batch is cut
     ([op_pre]): RepInv of the log, commit_since_index < u64::MAX, and first_index <=
     commit_since_index + 1 (the application did not compact beyond what it was handed).

   NOT PROVED HERE (honest list)
   * That RepInv is preserved by Raft::step / tick / ... (node level) — it is the C14
     invariant of RaftLog operations; here it is a hypothesis at hand-out points.
   * "No altered entry" across time: each handed-out entry equals the log's entry at its
     index AT HAND-OUT TIME (handout_bound/handout_step: ll_get (abs log) (e_index e) =
     Some e); that a committed entry never changes afterwards is C14/C01
     (committed_immutable), not re-proved here.
   * The storage side ("Storage contents after each persisted Ready") is the
     application's; only the library side of the contract is modelled. *)
From RV Require Import Base.Prelude Base.IdSet M.Util M.Proto M.MemStorage M.MemStorageProofs
  M.Progress M.RaftLog M.ConfChange M.Msg M.Raft M.RawNode M.RaftLogProofs M.RaftLogProofsSlice
  M.RaftProofsC07.
From RecordUpdate Require Import RecordSet.
Import RecordSetNotations.
Local Open Scope N_scope.

(* ------------------------------------------------------------------ *)
(* 1. has_ready <-> ready is non-empty *)
Theorem C07_has_ready_iff :
  forall n b n' rd,
    rn_has_ready n = Ok b -> rn_ready n = Ok (n', rd) ->
    (b = true <->
       rd_ss rd <> None \/ rd_hs rd <> None \/ rd_read_states rd <> [] \/ rd_entries rd <> []
       \/ s_index (rd_snapshot rd) <> 0
       \/ lr_committed_entries (rd_light rd) <> [] \/ lr_messages (rd_light rd) <> []).
Proof. exact has_ready_iff. Qed.
Print Assumptions C07_has_ready_iff.

(* has_ready in terms of the state *)
Theorem C07_has_ready_spec :
  forall n b, rn_has_ready n = Ok b ->
    (b = true <->
       r_msgs (rn_raft n) <> []
       \/ soft_state_of (rn_raft n) <> rn_prev_ss n
       \/ Raft.hard_state_of (rn_raft n) <> rn_prev_hs n
       \/ r_read_states (rn_raft n) <> []
       \/ u_entries (unst (r_log (rn_raft n))) <> []
       \/ (exists s, u_snapshot (unst (r_log (rn_raft n))) = Some s /\ s_index s <> 0)
       \/ has_next_entries_since (r_log (rn_raft n)) (rn_commit_since_index n) = Ok true).
Proof. exact rn_has_ready_spec. Qed.
Print Assumptions C07_has_ready_spec.

(* the fact behind it: a non-empty range is never answered by an empty list *)
Theorem C07_slice_shape :
  forall l lo hi max v, slice l lo hi max = Ok (SOk v) -> lo < hi ->
    v <> [] /\ N.of_nat (length v) <= hi - lo.
Proof. exact slice_shape. Qed.
Print Assumptions C07_slice_shape.

(* ------------------------------------------------------------------ *)
(* 2. must_sync *)
Theorem C07_must_sync_spec :
  forall n n' rd, rn_ready n = Ok (n', rd) ->
    (rd_must_sync rd = true <->
       rd_entries rd <> []
       \/ (exists s, u_snapshot (unst (r_log (rn_raft n))) = Some s)
       \/ r_term (rn_raft n) <> hs_term (rn_prev_hs n)
       \/ r_vote (rn_raft n) <> hs_vote (rn_prev_hs n)).
Proof. exact must_sync_spec. Qed.
Print Assumptions C07_must_sync_spec.

(* ------------------------------------------------------------------ *)
(* 3. what a Ready carries *)
Theorem C07_ready_entries_are_unstable :
  forall n n' rd, rn_ready n = Ok (n', rd) ->
    rd_entries rd = u_entries (unst (r_log (rn_raft n)))
    /\ rd_read_states rd = r_read_states (rn_raft n)
    /\ rd_number rd = rn_max_number n + 1
    /\ rn_max_number n' = rn_max_number n + 1
    /\ (forall hs, rd_hs rd = Some hs <->
          Raft.hard_state_of (rn_raft n) <> rn_prev_hs n /\ hs = Raft.hard_state_of (rn_raft n))
    /\ (rd_hs rd = None <-> Raft.hard_state_of (rn_raft n) = rn_prev_hs n)
    /\ (forall ss, rd_ss rd = Some ss <->
          soft_state_of (rn_raft n) <> rn_prev_ss n /\ ss = soft_state_of (rn_raft n))
    /\ (rd_ss rd = None <-> soft_state_of (rn_raft n) = rn_prev_ss n)
    /\ rd_snapshot rd = match u_snapshot (unst (r_log (rn_raft n))) with
                        | Some s => s | None => snap_default end
    /\ (exists recs, ready_records n recs /\
          rd_is_persisted_msg rd = negb (is_leader (rn_raft n)) || (hs_changed n && tv_changed n)
                                   || existsb rr_hs_changed recs /\
          rn_records n' = recs ++
            [mkRR (rn_max_number n + 1)
                  (rec_last_of (u_entries (unst (r_log (rn_raft n)))))
                  (option_map (fun s => (s_index s, s_term s)) (u_snapshot (unst (r_log (rn_raft n)))))
                  (hs_changed n && tv_changed n)])
    /\ rn_prev_hs n' = rn_prev_hs n /\ rn_prev_ss n' = rn_prev_ss n
    /\ r_log (rn_raft n') = r_log (rn_raft n)
    /\ r_read_states (rn_raft n') = [] /\ r_msgs (rn_raft n') = [].
Proof. exact ready_entries_are_unstable. Qed.
Print Assumptions C07_ready_entries_are_unstable.

(* the light part of a Ready and the whole effect on the raft state *)
Theorem C07_ready_light :
  forall n n' rd, rn_ready n = Ok (n', rd) ->
    exists oe k,
      rn_commit_since_index n <= ready_since n
      /\ next_entries_since (r_log (rn_raft n)) (ready_since n)
           (Some (r_max_committed_size_per_ready (rn_raft n))) = Ok oe
      /\ rd_light rd = mkLR None (ce_of oe) (r_msgs (rn_raft n))
      /\ rn_commit_since_index n' = csi_after (ready_since n) (ce_of oe)
      /\ (ce_of oe <> [] -> ready_since n < csi_after (ready_since n) (ce_of oe))
      /\ ((exists s, u_snapshot (unst (r_log (rn_raft n))) = Some s) -> ce_of oe = [])
      /\ rn_raft n' = (rn_raft n) <| r_read_states := [] |> <| r_uncommitted_size := k |>
                                  <| r_msgs := [] |>.
Proof. exact rn_ready_light. Qed.
Print Assumptions C07_ready_light.

Theorem C07_gen_light_ready_spec :
  forall n n' lr, gen_light_ready n = Ok (n', lr) ->
    exists oe k,
      next_entries_since (r_log (rn_raft n)) (rn_commit_since_index n)
        (Some (r_max_committed_size_per_ready (rn_raft n))) = Ok oe
      /\ lr = mkLR None (ce_of oe) (r_msgs (rn_raft n))
      /\ n' = n <| rn_raft := (rn_raft n) <| r_uncommitted_size := k |> <| r_msgs := [] |> |>
                <| rn_commit_since_index := csi_after (rn_commit_since_index n) (ce_of oe) |>
      /\ (ce_of oe <> [] -> rn_commit_since_index n < csi_after (rn_commit_since_index n) (ce_of oe)).
Proof. exact gen_light_ready_spec. Qed.
Print Assumptions C07_gen_light_ready_spec.

(* ------------------------------------------------------------------ *)
(* 4. hand-out bounds *)
Theorem C07_handout_range :
  forall n n' lr,
    gen_light_ready n = Ok (n', lr) -> lr_committed_entries lr <> [] ->
    exists f,
      first_index (r_log (rn_raft n)) = Ok f
      /\ let lo := N.max (rn_commit_since_index n + 1) f in
         let hi := N.min (committed (r_log (rn_raft n)))
                     (N.min u64_max (persisted (r_log (rn_raft n))
                                     + max_apply_unpersisted_log_limit (r_log (rn_raft n)))) + 1 in
         lo < hi
         /\ slice (r_log (rn_raft n)) lo hi (Some (r_max_committed_size_per_ready (rn_raft n)))
            = Ok (SOk (lr_committed_entries lr))
         /\ 1 <= N.of_nat (length (lr_committed_entries lr)) <= hi - lo.
Proof. exact handout_range. Qed.
Print Assumptions C07_handout_range.

Theorem C07_handout_abs :
  forall rw n n' lr,
    RepInv rw (r_log (rn_raft n)) -> rn_commit_since_index n < u64_max ->
    gen_light_ready n = Ok (n', lr) ->
    let l := r_log (rn_raft n) in
    let lo := N.max (rn_commit_since_index n + 1) (ll_first (abs l)) in
    let hi := N.min (committed l) (N.min u64_max (persisted l + max_apply_unpersisted_log_limit l)) + 1 in
    lr_committed_entries lr =
      if lo <? hi then limit_size (ll_range (abs l) lo hi) (Some (r_max_committed_size_per_ready (rn_raft n)))
      else [].
Proof. exact handout_abs. Qed.
Print Assumptions C07_handout_abs.

Theorem C07_handout_bound :
  forall rw n n' lr,
    RepInv rw (r_log (rn_raft n)) -> rn_commit_since_index n < u64_max ->
    gen_light_ready n = Ok (n', lr) ->
    let l := r_log (rn_raft n) in
    let lo := N.max (rn_commit_since_index n + 1) (ll_first (abs l)) in
    let bound := N.min (committed l) (N.min u64_max (persisted l + max_apply_unpersisted_log_limit l)) in
    contiguous_from lo (lr_committed_entries lr)
    /\ (forall k e, nth_error (lr_committed_entries lr) k = Some e ->
          ll_get (abs l) (lo + N.of_nat k) = Some e /\ e_index e = lo + N.of_nat k)
    /\ (forall e, In e (lr_committed_entries lr) ->
          rn_commit_since_index n < e_index e
          /\ e_index e <= committed l
          /\ e_index e <= persisted l + max_apply_unpersisted_log_limit l
          /\ ll_get (abs l) (e_index e) = Some e)
    /\ (lr_committed_entries lr <> [] -> lo <= bound)
    /\ (lo <= bound -> lr_committed_entries lr <> []).
Proof. exact handout_bound. Qed.
Print Assumptions C07_handout_bound.

Theorem C07_handout_persisted_only :
  forall rw n n' lr,
    RepInv rw (r_log (rn_raft n)) -> rn_commit_since_index n < u64_max ->
    max_apply_unpersisted_log_limit (r_log (rn_raft n)) = 0 ->
    gen_light_ready n = Ok (n', lr) ->
    forall e, In e (lr_committed_entries lr) -> e_index e <= persisted (r_log (rn_raft n)).
Proof. exact handout_persisted_only. Qed.
Print Assumptions C07_handout_persisted_only.

(* F8 regression guard *)
Theorem C07_handout_limit_max_ok :
  forall l, max_apply_unpersisted_log_limit l = u64_max -> committed l <= u64_max ->
    applied_index_upper_bound l = Ok (committed l).
Proof. exact handout_limit_max_ok. Qed.
Print Assumptions C07_handout_limit_max_ok.

Theorem C07_apply_bound_total :
  forall l, applied_index_upper_bound l =
    Ok (N.min (committed l) (N.min u64_max (persisted l + max_apply_unpersisted_log_limit l))).
Proof. exact applied_index_upper_bound_spec. Qed.
Print Assumptions C07_apply_bound_total.

(* ------------------------------------------------------------------ *)
(* 5. commit_since_index *)
Theorem C07_commit_since_monotone_light :
  forall n n' lr, gen_light_ready n = Ok (n', lr) ->
    rn_commit_since_index n <= rn_commit_since_index n'
    /\ (lr_committed_entries lr = [] -> rn_commit_since_index n' = rn_commit_since_index n)
    /\ (lr_committed_entries lr <> [] ->
          rn_commit_since_index n' = e_index (List.last (lr_committed_entries lr) entry_default)
          /\ rn_commit_since_index n < rn_commit_since_index n').
Proof. exact commit_since_monotone_light. Qed.
Print Assumptions C07_commit_since_monotone_light.

Theorem C07_commit_since_monotone_ready :
  forall n n' rd, rn_ready n = Ok (n', rd) ->
    rn_commit_since_index n <= rn_commit_since_index n'
    /\ (forall s, u_snapshot (unst (r_log (rn_raft n))) = Some s ->
          lr_committed_entries (rd_light rd) = []
          /\ rn_commit_since_index n' = s_index s)
    /\ (u_snapshot (unst (r_log (rn_raft n))) = None ->
        lr_committed_entries (rd_light rd) = [] ->
          rn_commit_since_index n' = rn_commit_since_index n)
    /\ (lr_committed_entries (rd_light rd) <> [] ->
          u_snapshot (unst (r_log (rn_raft n))) = None
          /\ rn_commit_since_index n' = e_index (List.last (lr_committed_entries (rd_light rd)) entry_default)
          /\ rn_commit_since_index n < rn_commit_since_index n').
Proof. exact commit_since_monotone_ready. Qed.
Print Assumptions C07_commit_since_monotone_ready.

Theorem C07_snapshot_ready :
  forall n n' rd, rn_ready n = Ok (n', rd) -> s_index (rd_snapshot rd) <> 0 ->
    lr_committed_entries (rd_light rd) = []
    /\ rn_commit_since_index n' = s_index (rd_snapshot rd)
    /\ u_snapshot (unst (r_log (rn_raft n))) = Some (rd_snapshot rd).
Proof. exact snapshot_ready. Qed.
Print Assumptions C07_snapshot_ready.

(* ------------------------------------------------------------------ *)
(* 6. on_persist_ready *)
Theorem C07_fold_records_spec :
  forall recs number i t si,
    fold_records recs number i t si =
    (let '(i', t', si') := acc_records (take_le recs number) (i, t, si) in
     (drop_le recs number, i', t', si')).
Proof. exact fold_records_spec. Qed.
Print Assumptions C07_fold_records_spec.

Theorem C07_take_drop_le :
  forall recs number,
    recs = take_le recs number ++ drop_le recs number
    /\ Forall (fun rr => rr_number rr <= number) (take_le recs number)
    /\ (forall rr rest, drop_le recs number = rr :: rest -> number < rr_number rr)
    /\ (numbers_sorted recs ->
          take_le recs number = filter (fun rr => rr_number rr <=? number) recs
          /\ drop_le recs number = filter (fun rr => number <? rr_number rr) recs).
Proof. exact take_drop_le_all. Qed.
Print Assumptions C07_take_drop_le.

Theorem C07_acc_no_snap :
  forall l i t si, Forall (fun rr => rr_snapshot rr = None) l ->
    acc_records l (i, t, si) =
    (fold_left (fun acc rr => match rr_last_entry rr with Some p => p | None => acc end) l (i, t), si).
Proof. exact acc_no_snap. Qed.
Print Assumptions C07_acc_no_snap.

Theorem C07_acc_last_snap :
  forall pre rr post s st a,
    rr_snapshot rr = Some (s, st) -> Forall (fun rr => rr_snapshot rr = None) post ->
    acc_records (pre ++ rr :: post) a =
    (fold_left (fun acc rr => match rr_last_entry rr with Some p => p | None => acc end) post
       (match rr_last_entry rr with Some p => p | None => (0, 0) end), s).
Proof. exact acc_last_snap. Qed.
Print Assumptions C07_acc_last_snap.

Theorem C07_on_persist_ready_spec :
  forall n number n', rn_on_persist_ready n number = Ok n' ->
    exists i t si r1,
      acc_records (take_le (rn_records n) number) (0, 0, 0) = (i, t, si)
      /\ rn_records n' = drop_le (rn_records n) number
      /\ (if negb (si =? 0) then on_persist_snap (rn_raft n) si else Ok (rn_raft n)) = Ok r1
      /\ (if negb (i =? 0) then on_persist_entries r1 i t else Ok r1) = Ok (rn_raft n')
      /\ rn_prev_ss n' = rn_prev_ss n /\ rn_prev_hs n' = rn_prev_hs n
      /\ rn_max_number n' = rn_max_number n
      /\ rn_commit_since_index n' = rn_commit_since_index n.
Proof. exact on_persist_ready_spec. Qed.
Print Assumptions C07_on_persist_ready_spec.

(* ------------------------------------------------------------------ *)
(* 7. commit_ready *)
Theorem C07_commit_ready_stabilises :
  forall n rd n', commit_ready n rd = Ok n' ->
    let rr := List.last (rn_records n) (mkRR 0 None None false) in
    rn_records n <> []
    /\ rr_number rr = rd_number rd
    /\ stable_ok (unst (r_log (rn_raft n))) rr
    /\ n' = (commit_prev n rd)
              <| rn_raft := (rn_raft n)
                   <| r_log := set_unst (r_log (rn_raft n))
                                        (stabilised (unst (r_log (rn_raft n))) rr) |> |>.
Proof. exact commit_ready_stabilises. Qed.
Print Assumptions C07_commit_ready_stabilises.

Theorem C07_commit_ready_ok_iff :
  forall n rd,
    (exists n', commit_ready n rd = Ok n') <->
    rn_records n <> []
    /\ rr_number (List.last (rn_records n) (mkRR 0 None None false)) = rd_number rd
    /\ stable_ok (unst (r_log (rn_raft n))) (List.last (rn_records n) (mkRR 0 None None false)).
Proof. exact commit_ready_ok_iff. Qed.
Print Assumptions C07_commit_ready_ok_iff.

(* ------------------------------------------------------------------ *)
(* 8. advance_append *)
Theorem C07_advance_append_hs :
  forall n rd n' light, rn_advance_append n rd = Ok (n', light) ->
    rn_prev_hs n' = Raft.hard_state_of (rn_raft n')
    /\ (forall c, lr_commit_index light = Some c <->
          hs_commit (match rd_hs rd with Some hs => hs | None => rn_prev_hs n end)
            < committed (r_log (rn_raft n'))
          /\ c = committed (r_log (rn_raft n')))
    /\ (lr_commit_index light = None <->
          hs_commit (match rd_hs rd with Some hs => hs | None => rn_prev_hs n end)
            = committed (r_log (rn_raft n'))).
Proof. exact advance_append_hs. Qed.
Print Assumptions C07_advance_append_hs.

Theorem C07_advance_append_inv :
  forall n rd n' light, rn_advance_append n rd = Ok (n', light) ->
    exists n1 n2 n3 lr,
      commit_ready n rd = Ok n1
      /\ rn_on_persist_ready n1 (rn_max_number n1) = Ok n2
      /\ gen_light_ready n2 = Ok (n3, lr)
      /\ (is_leader (rn_raft n3) = true \/ lr_messages lr = [])
      /\ hs_term (rn_prev_hs n3) = r_term (rn_raft n3)
      /\ hs_vote (rn_prev_hs n3) = r_vote (rn_raft n3)
      /\ hs_commit (rn_prev_hs n3) <= committed (r_log (rn_raft n3))
      /\ n' = n3 <| rn_prev_hs := Raft.hard_state_of (rn_raft n3) |>
      /\ light = mkLR (if hs_commit (rn_prev_hs n3) <? committed (r_log (rn_raft n3))
                       then Some (committed (r_log (rn_raft n3))) else None)
                      (lr_committed_entries lr) (lr_messages lr).
Proof. exact rn_advance_append_inv. Qed.
Print Assumptions C07_advance_append_inv.

(* ------------------------------------------------------------------ *)
(* 9. RawNode::step filters (also C20) *)
Theorem C07_step_rejects_local :
  forall n m, is_local_msg (m_type m) = true -> rn_step n m = Ok (n, E_STEP_LOCAL_MSG).
Proof. exact step_rejects_local. Qed.
Print Assumptions C07_step_rejects_local.

Theorem C07_step_rejects_unknown_peer :
  forall n m,
    is_local_msg (m_type m) = false -> is_response_msg (m_type m) = true ->
    get_pr (rn_raft n) (m_from m) = None ->
    rn_step n m = Ok (n, E_STEP_PEER_NOT_FOUND).
Proof. exact step_rejects_unknown_peer. Qed.
Print Assumptions C07_step_rejects_unknown_peer.

Theorem C07_step_forwards :
  forall n m,
    is_local_msg (m_type m) = false ->
    (is_response_msg (m_type m) = false \/ get_pr (rn_raft n) (m_from m) <> None) ->
    rn_step n m = lift2 n (step (rn_raft n) m).
Proof. exact step_forwards. Qed.
Print Assumptions C07_step_forwards.

(* ------------------------------------------------------------------ *)
(* 10. persisted messages (fix 4e5e493) *)
Theorem C07_ready_persisted_msg_spec :
  forall n n' rd, rn_ready n = Ok (n', rd) ->
    exists recs, ready_records n recs /\
      (rd_is_persisted_msg rd = true <->
         is_leader (rn_raft n) = false
         \/ (r_term (rn_raft n) <> hs_term (rn_prev_hs n) \/ r_vote (rn_raft n) <> hs_vote (rn_prev_hs n))
         \/ exists rr, In rr recs /\ rr_hs_changed rr = true)
      /\ (rr_hs_changed (List.last (rn_records n') (mkRR 0 None None false)) = true <->
          (r_term (rn_raft n) <> hs_term (rn_prev_hs n) \/ r_vote (rn_raft n) <> hs_vote (rn_prev_hs n))).
Proof. exact ready_persisted_msg_spec. Qed.
Print Assumptions C07_ready_persisted_msg_spec.

Theorem C07_tv_change_no_immediate_msgs :
  forall n n' rd, rn_ready n = Ok (n', rd) ->
    forall hs, rd_hs rd = Some hs ->
      (hs_term hs <> hs_term (rn_prev_hs n) \/ hs_vote hs <> hs_vote (rn_prev_hs n)) ->
      (if rd_is_persisted_msg rd then [] else lr_messages (rd_light rd)) = []
      /\ (if rd_is_persisted_msg rd then lr_messages (rd_light rd) else []) = lr_messages (rd_light rd).
Proof. exact tv_change_no_immediate_msgs. Qed.
Print Assumptions C07_tv_change_no_immediate_msgs.

Theorem C07_immediate_msgs_only_leader_settled :
  forall n n' rd, rn_ready n = Ok (n', rd) ->
    (if rd_is_persisted_msg rd then [] else lr_messages (rd_light rd)) <> [] ->
    is_leader (rn_raft n) = true
    /\ ~ (r_term (rn_raft n) <> hs_term (rn_prev_hs n) \/ r_vote (rn_raft n) <> hs_vote (rn_prev_hs n))
    /\ exists recs, ready_records n recs /\ forall rr, In rr recs -> rr_hs_changed rr = false.
Proof. exact immediate_msgs_only_leader_settled. Qed.
Print Assumptions C07_immediate_msgs_only_leader_settled.

(* ------------------------------------------------------------------ *)
(* 11. exactly once *)
Theorem C07_ready_then_commit :
  forall n n1 rd, rn_ready n = Ok (n1, rd) ->
    exists n2, commit_ready n1 rd = Ok n2
      /\ u_entries (unst (r_log (rn_raft n2))) = []
      /\ u_snapshot (unst (r_log (rn_raft n2))) = None
      /\ (rd_entries rd <> [] ->
            u_offset (unst (r_log (rn_raft n2))) = e_index (List.last (rd_entries rd) entry_default) + 1)
      /\ store (r_log (rn_raft n2)) = store (r_log (rn_raft n))
      /\ committed (r_log (rn_raft n2)) = committed (r_log (rn_raft n))
      /\ persisted (r_log (rn_raft n2)) = persisted (r_log (rn_raft n))
      /\ applied (r_log (rn_raft n2)) = applied (r_log (rn_raft n))
      /\ rn_prev_hs n2 = Raft.hard_state_of (rn_raft n2)
      /\ rn_prev_ss n2 = soft_state_of (rn_raft n2)
      /\ r_read_states (rn_raft n2) = [] /\ r_msgs (rn_raft n2) = []
      /\ rn_commit_since_index n2 = rn_commit_since_index n1
      /\ rn_records n2 = rn_records n1.
Proof. exact ready_then_commit. Qed.
Print Assumptions C07_ready_then_commit.

Theorem C07_ready_exactly_once :
  forall n n1 rd n2 n3 rd',
    rn_ready n = Ok (n1, rd) -> commit_ready n1 rd = Ok n2 -> rn_ready n2 = Ok (n3, rd') ->
    rd_entries rd' = [] /\ rd_hs rd' = None /\ rd_ss rd' = None /\ rd_read_states rd' = []
    /\ rd_snapshot rd' = snap_default /\ rd_must_sync rd' = false
    /\ lr_messages (rd_light rd') = [].
Proof. exact ready_exactly_once. Qed.
Print Assumptions C07_ready_exactly_once.

(* ------------------------------------------------------------------ *)
(* 12. lifetime: the handed-out committed entries are exactly the indexes
   start+1 .. commit_since_index, in order *)
Theorem C07_handout_step :
  forall n n' lr,
    ((exists rw, RepInv rw (r_log (rn_raft n)))
     /\ rn_commit_since_index n < u64_max
     /\ ll_first (abs (r_log (rn_raft n))) <= rn_commit_since_index n + 1) ->
    gen_light_ready n = Ok (n', lr) ->
    contiguous_from (rn_commit_since_index n + 1) (lr_committed_entries lr)
    /\ rn_commit_since_index n' = rn_commit_since_index n + N.of_nat (length (lr_committed_entries lr))
    /\ (forall e, In e (lr_committed_entries lr) ->
          ll_get (abs (r_log (rn_raft n))) (e_index e) = Some e
          /\ e_index e <= N.min (committed (r_log (rn_raft n)))
                            (N.min u64_max (persisted (r_log (rn_raft n))
                                            + max_apply_unpersisted_log_limit (r_log (rn_raft n))))).
Proof. exact handout_step. Qed.
Print Assumptions C07_handout_step.

Theorem C07_handout_exec :
  forall n h o n' ot,
    (contiguous_from (fst h + 1) (snd h)
     /\ rn_commit_since_index n = fst h + N.of_nat (length (snd h))) ->
    op_pre n o -> exec n o = Ok (n', ot) ->
    let h' := match fst ot with Some i => (i, snd ot) | None => (fst h, snd h ++ snd ot) end in
    contiguous_from (fst h' + 1) (snd h')
    /\ rn_commit_since_index n' = fst h' + N.of_nat (length (snd h')).
Proof. exact handout_exec. Qed.
Print Assumptions C07_handout_exec.

Theorem C07_handout_contiguous :
  forall n h n' h', Hist n h -> run n h n' h' -> Hist n' h'.
Proof. exact handout_contiguous. Qed.
Print Assumptions C07_handout_contiguous.

Theorem C07_handout_init :
  forall c st sa dr n, rn_new c st sa dr = Ok (inr n) -> Hist n (c_applied c, []).
Proof. exact handout_init. Qed.
Print Assumptions C07_handout_init.

(* calls that hand nothing out leave commit_since_index alone *)
Theorem C07_quiet_ops :
  forall n o n' ot,
    match o with OReady | OAdvance _ | OAdvanceAppend _ => False | _ => True end ->
    exec n o = Ok (n', ot) ->
    ot = (None, []) /\ rn_commit_since_index n' = rn_commit_since_index n.
Proof. exact quiet_ops_csi. Qed.
Print Assumptions C07_quiet_ops.

(* ------------------------------------------------------------------ *)
(* Non-vacuity: concrete states (RaftProofsC07.Samples, built by running the model
   from RawNode::new) meeting the hypotheses. *)
Import Samples.

(* a new leader: has_ready is true, the Ready carries the unstable entry, the hard
   state (term and vote changed), must_sync, and its messages wait for persistence *)
Example C07_ex_first_ready :
  rn_has_ready node1 = Ok true
  /\ rn_ready node1 = Ok ready1
  /\ rd_entries (snd ready1) = [e1]
  /\ rd_hs (snd ready1) = Some (mkHS 1 1 0)
  /\ rd_must_sync (snd ready1) = true
  /\ rd_is_persisted_msg (snd ready1) = true
  /\ is_leader (rn_raft node1) = true
  /\ rn_records (fst ready1) = [mkRR 1 (Some (1, 1)) None true].
Proof. vm_compute. repeat split; reflexivity. Qed.

(* after persisting and advance_append: the entry is handed out, commit index 1;
   then nothing is pending: has_ready = false and ready() is empty *)
Example C07_ex_advance :
  rn_advance_append node2 (snd ready1) = Ok adv
  /\ snd adv = mkLR (Some 1) [e1] []
  /\ rn_commit_since_index node3 = 1
  /\ rn_prev_hs node3 = mkHS 1 1 1
  /\ rn_has_ready node3 = Ok false
  /\ (exists n' rd, rn_ready node3 = Ok (n', rd)
        /\ rd_ss rd = None /\ rd_hs rd = None /\ rd_read_states rd = [] /\ rd_entries rd = []
        /\ s_index (rd_snapshot rd) = 0 /\ lr_committed_entries (rd_light rd) = []
        /\ lr_messages (rd_light rd) = [] /\ rd_must_sync rd = false).
Proof.
  vm_compute. repeat split; try reflexivity.
  eexists. eexists. repeat split; reflexivity.
Qed.

(* the hypotheses of handout_bound / handout_step hold in the state where advance_append
   cuts its batch: RepInv, limit 0, persisted = 1, and entry 1 is handed out *)
Example C07_ex_handout :
  RepInv false (r_log (rn_raft node2_mid))
  /\ rn_commit_since_index node2_mid = 0
  /\ max_apply_unpersisted_log_limit (r_log (rn_raft node2_mid)) = 0
  /\ persisted (r_log (rn_raft node2_mid)) = 1
  /\ ll_first (abs (r_log (rn_raft node2_mid))) = 1
  /\ exists n' lr, gen_light_ready node2_mid = Ok (n', lr) /\ lr_committed_entries lr = [e1].
Proof.
  split.
  { constructor; vm_compute; repeat split; try reflexivity; try discriminate; intros; discriminate. }
  vm_compute. repeat split; try reflexivity. eexists. eexists. split; reflexivity.
Qed.

(* a run: campaign, ready, the application persists, advance_append; the history is
   exactly [e1] from start 0 *)
Example C07_ex_run :
  Hist node0 (0, []) /\ run node0 (0, []) node3 (0, [e1]).
Proof.
  split; [split; vm_compute; [exact I|reflexivity]|].
  eapply run_cons with (o := OCampaign); [exact I|vm_compute; reflexivity|].
  eapply run_cons with (o := OReady).
  { cbn [op_pre]. split; [exists false|split; vm_compute; [reflexivity|discriminate]].
    constructor; vm_compute; repeat split; try reflexivity; try discriminate; intros; discriminate. }
  { vm_compute. reflexivity. }
  eapply run_cons with (o := OSetStore store1); [exact I|vm_compute; reflexivity|].
  eapply run_cons with (o := OAdvanceAppend (snd ready1)).
  { cbn [op_pre]. intros n1 n2 H1 H2. vm_compute in H1. inversion H1; subst n1; clear H1.
    vm_compute in H2. inversion H2; subst n2; clear H2.
    split; [exists false|split; vm_compute; [reflexivity|discriminate]].
    constructor; vm_compute; repeat split; try reflexivity; try discriminate; intros; discriminate. }
  { vm_compute. reflexivity. }
  vm_compute. apply run_nil.
Qed.

(* a pending snapshot: the Ready carries it, no committed entries, and
   commit_since_index jumps to its index *)
Example C07_ex_snapshot :
  exists n' rd, rn_ready node_snap = Ok (n', rd)
    /\ s_index (rd_snapshot rd) = 5 /\ lr_committed_entries (rd_light rd) = []
    /\ rn_commit_since_index node_snap = 0 /\ rn_commit_since_index n' = 5
    /\ rd_must_sync rd = true /\ rn_has_ready node_snap = Ok true.
Proof. vm_compute. eexists. eexists. repeat split; reflexivity. Qed.

(* F8 regression guard on the former witness: a leader with
   max_apply_unpersisted_log_limit = u64::MAX after one proposal: has_ready and ready
   answer (they panicked with site_l_overflow before the fix 63caa76) *)
Example C07_ex_limit_max :
  max_apply_unpersisted_log_limit (r_log (rn_raft node_max)) = u64_max
  /\ is_leader (rn_raft node_max) = true
  /\ applied_index_upper_bound (r_log (rn_raft node_max)) = Ok (committed (r_log (rn_raft node_max)))
  /\ rn_has_ready node_max = Ok true
  /\ exists n' rd, rn_ready node_max = Ok (n', rd) /\ length (rd_entries rd) = 2%nat.
Proof. vm_compute. repeat split; try reflexivity. eexists. eexists. split; reflexivity. Qed.

(* explored falsifier of has_ready_iff that does NOT materialise: a size limit of 0
   (max_committed_size_per_ready = 0) still hands out one entry, so has_ready = true is
   matched by a non-empty Ready *)
Example C07_ex_size_limit_zero :
  let n := node2_mid <| rn_raft := (rn_raft node2_mid) <| r_max_committed_size_per_ready := 0 |> |> in
  rn_has_ready n = Ok true
  /\ exists n' lr, gen_light_ready n = Ok (n', lr) /\ lr_committed_entries lr = [e1].
Proof. vm_compute. split; [reflexivity|]. eexists. eexists. split; reflexivity. Qed.


(* ====================================================================== *)
(* ==== node level: hand-out without a RepInv hypothesis ================ *)
(* ====================================================================== *)
(* C07_handout_contiguous above takes op_pre at every call, and op_pre contains the RaftLog
   representation invariant (handout_pre) at the hand-out points.  With
   M/RaftProofsRepInv.v the invariant comes from the start of the trace:
   * op_pre_node asks for the caller-side contract op_wf (see Props/C14.v, node level)
     and, at the hand-out points only, for handout_side = what is left of handout_pre once
     RepInv is removed (the cursor is a proper u64; nothing compacted beyond it);
   * op_pre_node2 drops the first half too: commit_since_index < u64::MAX is an invariant
     (CsiOK) when Config.applied < u64::MAX.  What remains at ready / advance /
     advance_append is "first index of the log <= cursor + 1".
   NOT PROVED: that remaining condition is not derived from the trace.  It needs
   "compaction stays at or below commit_since_index", which the model does not enforce
   (OSetStore may compact up to applied, and advance_apply_to may move applied beyond
   commit_since_index), and it fails transiently after a snapshot is restored between a
   ready and its advance (nothing is handed out then, but C07's handout_step asks for it). *)
From RV Require Import M.RaftProofsC15 M.RaftProofsC09 M.RaftProofsC08 M.RaftProofsC13 M.RaftProofsRepInv.

Theorem C07_handout_side_def :
  forall l since,
  handout_side l since <-> since < u64_max /\ ll_first (abs l) <= since + 1.
Proof. exact handout_side_def. Qed.
Print Assumptions C07_handout_side_def.

Theorem C07_op_pre_node_def :
  forall n o,
  op_pre_node n o <->
  op_wf n o /\
  match o with
  | OReady => handout_side (r_log (rn_raft n)) (ready_since n)
  | OAdvance rd | OAdvanceAppend rd =>
      forall n1 n2, commit_ready n rd = Ok n1 ->
                    rn_on_persist_ready n1 (rn_max_number n1) = Ok n2 ->
                    handout_side (r_log (rn_raft n2)) (rn_commit_since_index n2)
  | _ => True
  end.
Proof. exact op_pre_node_def. Qed.
Print Assumptions C07_op_pre_node_def.

Theorem C07_nrun_iff :
  forall n h n' h',
  nrun n h n' h' <->
  (n' = n /\ h' = h)
  \/ exists o n1 ot, op_pre_node n o /\ exec n o = Ok (n1, ot) /\ nrun n1 (hist_step h ot) n' h'.
Proof. exact nrun_iff. Qed.
Print Assumptions C07_nrun_iff.

(* op_pre follows from the node-level contract and the invariant *)
Theorem C07_op_pre_node_op_pre :
  forall rw n o,
  NLI rw n -> op_pre_node n o -> op_pre n o.
Proof. exact op_pre_node_op_pre. Qed.
Print Assumptions C07_op_pre_node_op_pre.

(* the hand-out history and the invariant along any trace *)
Theorem C07_handout_contiguous_node :
  forall rw n h n' h',
  NLI rw n -> Hist n h -> nrun n h n' h' -> Hist n' h' /\ NLI rw n'.
Proof. exact handout_contiguous_node. Qed.
Print Assumptions C07_handout_contiguous_node.

(* from RawNode::new *)
Theorem C07_handout_contiguous_from_new :
  forall c st sa dr n0 n h,
  rn_new c st sa dr = Ok (inr n0) -> SInv st -> trig_log st = false ->
  nrun n0 (c_applied c, []) n h -> Hist n h /\ NLogOK n.
Proof. exact handout_contiguous_from_new. Qed.
Print Assumptions C07_handout_contiguous_from_new.

(* the cursor bound is an invariant *)
Theorem C07_CsiOK_def :
  forall n,
  CsiOK n <-> rn_commit_since_index n < u64_max.
Proof. exact CsiOK_def. Qed.
Print Assumptions C07_CsiOK_def.

Theorem C07_gen_light_ready_CsiOK :
  forall rw n n' lr,
  gen_light_ready n = Ok (n', lr) -> NLI rw n -> CsiOK n -> CsiOK n'.
Proof. exact gen_light_ready_CsiOK. Qed.
Print Assumptions C07_gen_light_ready_CsiOK.

Theorem C07_rn_ready_CsiOK :
  forall rw n n' rd,
  rn_ready n = Ok (n', rd) -> NLI rw n -> CsiOK n -> CsiOK n'.
Proof. exact rn_ready_CsiOK. Qed.
Print Assumptions C07_rn_ready_CsiOK.

Theorem C07_exec_CsiOK :
  forall rw n o n' ot,
  exec n o = Ok (n', ot) -> op_wf n o -> NLI rw n -> CsiOK n -> CsiOK n'.
Proof. exact exec_CsiOK. Qed.
Print Assumptions C07_exec_CsiOK.

Theorem C07_op_pre_node2_def :
  forall n o,
  op_pre_node2 n o <->
  op_wf n o /\
  match o with
  | OReady => ll_first (abs (r_log (rn_raft n))) <= ready_since n + 1
  | OAdvance rd | OAdvanceAppend rd =>
      forall n1 n2, commit_ready n rd = Ok n1 ->
                    rn_on_persist_ready n1 (rn_max_number n1) = Ok n2 ->
                    ll_first (abs (r_log (rn_raft n2))) <= rn_commit_since_index n2 + 1
  | _ => True
  end.
Proof. exact op_pre_node2_def. Qed.
Print Assumptions C07_op_pre_node2_def.

Theorem C07_nrun2_iff :
  forall n h n' h',
  nrun2 n h n' h' <->
  (n' = n /\ h' = h)
  \/ exists o n1 ot, op_pre_node2 n o /\ exec n o = Ok (n1, ot) /\ nrun2 n1 (hist_step h ot) n' h'.
Proof. exact nrun2_iff. Qed.
Print Assumptions C07_nrun2_iff.

Theorem C07_op_pre_node2_node :
  forall rw n o,
  NLI rw n -> CsiOK n -> op_pre_node2 n o -> op_pre_node n o.
Proof. exact op_pre_node2_node. Qed.
Print Assumptions C07_op_pre_node2_node.

Theorem C07_handout_contiguous_node2 :
  forall rw n h n' h',
  NLI rw n -> CsiOK n -> Hist n h -> nrun2 n h n' h' -> Hist n' h' /\ NLI rw n' /\ CsiOK n'.
Proof. exact handout_contiguous_node2. Qed.
Print Assumptions C07_handout_contiguous_node2.

Theorem C07_handout_contiguous_from_new2 :
  forall c st sa dr n0 n h,
  rn_new c st sa dr = Ok (inr n0) -> SInv st -> trig_log st = false -> c_applied c < u64_max ->
  nrun2 n0 (c_applied c, []) n h -> Hist n h /\ NLogOK n /\ rn_commit_since_index n < u64_max.
Proof. exact handout_contiguous_from_new2. Qed.
Print Assumptions C07_handout_contiguous_from_new2.

Import RepInvSamples HandoutSamples.

(* non-vacuity: the single-voter run, one entry handed out *)
Theorem C07_ex_handout_run :
  nrun2 node0 (0, []) node3 (0, [e1]).
Proof. exact ex_handout_run. Qed.
Print Assumptions C07_ex_handout_run.



(* ====================================================================== *)
(* ==== application contract: no residual hypothesis ==================== *)
(* ====================================================================== *)
(* With the application contract of M/RaftProofsAppContract.v (Props/C14.v, section
   "application contract") the remaining condition of C07_handout_contiguous_node2
   ("first index of the log <= cursor + 1" at ready / advance) is an invariant: compaction
   stays at or below applied <= cursor, a restored snapshot moves the cursor at the next
   ready, and no library call happens between a ready and its advance.
   PROVED: along any contract-abiding trace from RawNode::new the committed entries handed
   out are exactly start+1 .. commit_since_index, in order (Hist), and each is the log's entry
   at its index, at or below the commit index, when it is handed out.
   WITNESS: with Config.applied below the store's snapshot point (init_ok violated) hand-out
   starts at the log's first index instead of Config.applied + 1. *)
From RV Require Import M.RaftProofsC20 M.RaftProofsC20Sites M.RaftProofsC20Inv M.RaftProofsC20Safe
  M.RaftProofsC20Shape M.RaftProofsC20Shape2 M.RaftProofsC20Shape3 M.RaftProofsAppContract.

(* a light ready moves the cursor only over committed, persisted entries *)
Theorem C07_contract_glr_bounds :
  forall rw n n' lr,
  gen_light_ready n = Ok (n', lr) -> NLI rw n -> CsiOK n ->
  max_apply_unpersisted_log_limit (nlog n) = 0 ->
  rn_commit_since_index n <= committed (nlog n) ->
  rn_commit_since_index n < u_offset (unst (nlog n)) ->
  nlog n' = nlog n
  /\ rn_commit_since_index n <= rn_commit_since_index n'
  /\ rn_commit_since_index n' <= committed (nlog n)
  /\ rn_commit_since_index n' < u_offset (unst (nlog n))
  /\ (lr_committed_entries lr <> [] -> 1 <= committed (nlog n)).
Proof. exact glr_bounds. Qed.
Print Assumptions C07_contract_glr_bounds.

Theorem C07_contract_handout_contiguous_from_contract :
  forall c st sa dr n0 a n,
  rn_new c st sa dr = Ok (inr n0) -> init_ok c st n0 -> crun (init_app c st) n0 a n ->
  Hist n (a_hist a)
  /\ contiguous_from (fst (a_hist a) + 1) (snd (a_hist a))
  /\ rn_commit_since_index n = fst (a_hist a) + N.of_nat (length (snd (a_hist a))).
Proof. exact handout_contiguous_from_contract. Qed.
Print Assumptions C07_contract_handout_contiguous_from_contract.

Theorem C07_contract_handed_entries_are_log_entries :
  forall a n o n' ot,
  Good a n -> app_ok a o -> peer_ok o -> idx_margin n o -> exec n o = Ok (n', ot) ->
  forall e, In e (snd ot) ->
    match o with
    | OReady => ll_get (abs (nlog n)) (e_index e) = Some e /\ e_index e <= committed (nlog n)
    | OAdvanceAppend _ => ll_get (abs (nlog n')) (e_index e) = Some e /\ e_index e <= committed (nlog n')
    | OAdvance rd => exists n1 lr, rn_advance_append n rd = Ok (n1, lr)
                       /\ ll_get (abs (nlog n1)) (e_index e) = Some e /\ e_index e <= committed (nlog n1)
    | _ => False
    end.
Proof. exact handed_entries_are_log_entries. Qed.
Print Assumptions C07_contract_handed_entries_are_log_entries.

Import ContractSamples ContractWitnesses.

(* init_ok is needed *)
Theorem C07_contract_applied_below_snapshot_refuted :
  rn_new cfg st57 None [15; 15; 15; 15] = Ok (inr n57) /\ SInv st57
    /\ c_applied cfg = 0 /\ first_of st57 - 1 = 5 /\ committed (nlog n57) = 7
    /\ exists n1 rd, rn_ready n57 = Ok (n1, rd)
         /\ map e_index (lr_committed_entries (rd_light rd)) = [6; 7]
         /\ ~ Hist n1 (hist_step (c_applied cfg, []) (None, lr_committed_entries (rd_light rd))).
Proof. exact applied_below_snapshot_refuted. Qed.
Print Assumptions C07_contract_applied_below_snapshot_refuted.

