(* C05 — Log matching, leader append-only, committed prefix immutable.
   Only pinned statements; proofs live in P/LogProofs.v.  They are about the
   abstract log protocol P/Log.v superposed on the election protocol
   P/Election.v (every execution: any interleaving of campaigns, grants under the
   election restriction, proposals, log adoption by followers, acknowledgements,
   leader / follower commits, persistence of votes and of log images (hand-out /
   fsync), message duplication / delay / reordering, crashes at any point (the
   volatile log falls back to the durable log) and restarts).  The voter
   configuration (simple or joint) is fixed within an execution, and no single
   node is a quorum.  Logs are uncompacted lists of (term, payload), index 1 first. *)
From RV Require Import Base.Prelude M.Quorum P.Election P.ElectionProofs P.Log P.LogProofs.
Local Open Scope N_scope.

(* Log matching: any two logs among the volatile logs (entries not yet persisted
   included), the durable logs and the log images handed out for persistence, of any
   two nodes, that have the same term at an index j, are identical up to j. *)
Theorem C05_log_matching :
  forall inc out, inc <> [] -> no_single_quorum inc out ->
  forall s n1 n2 L1 L2 j, lreachable inc out s ->
    (L1 = l_log (ln s n1) \/ L1 = l_dlog (ln s n1) \/ In L1 (l_imgs (ln s n1))) ->
    (L2 = l_log (ln s n2) \/ L2 = l_dlog (ln s n2) \/ In L2 (l_imgs (ln s n2))) ->
    (1 <= j)%nat -> (j <= length L1)%nat -> (j <= length L2)%nat ->
    term_at L1 j = term_at L2 j -> firstn j L1 = firstn j L2.
Proof. exact log_matching. Qed.
Print Assumptions C05_log_matching.

(* entry by entry (0-based position i < j) *)
Theorem C05_log_matching_entries :
  forall inc out, inc <> [] -> no_single_quorum inc out ->
  forall s n1 n2 L1 L2 j i, lreachable inc out s ->
    (L1 = l_log (ln s n1) \/ L1 = l_dlog (ln s n1) \/ In L1 (l_imgs (ln s n1))) ->
    (L2 = l_log (ln s n2) \/ L2 = l_dlog (ln s n2) \/ In L2 (l_imgs (ln s n2))) ->
    (1 <= j)%nat -> (j <= length L1)%nat -> (j <= length L2)%nat ->
    term_at L1 j = term_at L2 j -> (i < j)%nat -> nth_error L1 i = nth_error L2 i.
Proof. exact log_matching_entries. Qed.
Print Assumptions C05_log_matching_entries.

(* Leader append-only: over any step, a node that is in the leader role of the same
   term before and after only appends to its log. *)
Theorem C05_leader_append_only :
  forall inc out, inc <> [] -> no_single_quorum inc out ->
  forall s l s' c, lreachable inc out s -> lrule inc out l s = Some s' ->
    p_role (nodes (el s) c) = PL -> p_role (nodes (el s') c) = PL ->
    p_term (nodes (el s') c) = p_term (nodes (el s) c) ->
    exists suffix, l_log (ln s' c) = l_log (ln s c) ++ suffix.
Proof. exact leader_append_only_roles. Qed.
Print Assumptions C05_leader_append_only.

(* Committed prefix immutable: over any step other than the node's own crash, the
   commit index of a node does not decrease and its log is unchanged up to the old
   commit index; the commit index is always within the volatile log. *)
Theorem C05_commit_prefix_immutable :
  forall inc out, inc <> [] -> no_single_quorum inc out ->
  forall s l s' n, lreachable inc out s -> lrule inc out l s = Some s' ->
    l <> LEl (LCrash n) ->
    (l_commit (ln s n) <= l_commit (ln s' n))%nat /\
    firstn (l_commit (ln s n)) (l_log (ln s' n)) = firstn (l_commit (ln s n)) (l_log (ln s n)).
Proof. exact commit_prefix_immutable. Qed.
Print Assumptions C05_commit_prefix_immutable.

Theorem C05_commit_within_log :
  forall inc out, inc <> [] -> no_single_quorum inc out ->
  forall s n, lreachable inc out s -> (l_commit (ln s n) <= length (l_log (ln s n)))%nat.
Proof. exact commit_within_log. Qed.
Print Assumptions C05_commit_within_log.

(* The excluded step: the node's own crash resets its commit index to 0 and its
   volatile log falls back to the durable log (what a restart reads); nothing is
   claimed here about the relation of that log to the old committed prefix (that is
   C01 / C04: durable-quorum and state-machine safety). *)
Theorem C05_crash_falls_back :
  forall inc out s n s', lrule inc out (LEl (LCrash n)) s = Some s' ->
    l_commit (ln s' n) = 0%nat /\ l_log (ln s' n) = l_dlog (ln s n) /\ l_dlog (ln s' n) = l_dlog (ln s n).
Proof. exact crash_falls_back. Qed.
Print Assumptions C05_crash_falls_back.

(* sanity scenario: election of 1, a proposal, replication to 2, quorum commit,
   late follower 3 catches up to a prefix and commits it *)
Example C05_scenario :
  exists s, lrun [1;2;3] [] sc linit = Some s /\
    l_log (ln s 1) = [(1,0);(1,7)] /\ l_log (ln s 3) = [(1,0)] /\
    l_commit (ln s 1) = 2%nat /\ l_commit (ln s 2) = 2%nat /\ l_commit (ln s 3) = 1%nat /\
    cpts s = [(1,2%nat)] /\ acked s 2 1 = 2%nat.
Proof. exact sc_runs. Qed.


(* ====================================================================== *)
(* ==== node level ====================================================== *)
(* ====================================================================== *)
(* TWO LEVELS.  Everything above is about the abstract protocol P/Log.v (all nodes, all
   interleavings): log matching is a cross-node invariant and can only be stated there.
   This section is about ONE node of the executable model (M/Raft.v, M/RawNode.v - the
   port of the Rust that the differential testing ties to the code), per call, over ALL
   states satisfying the log representation invariant of C14 (LI rw r := RepInv rw (r_log r),
   Props/C14.v "node level"); proofs in M/RaftProofsC05.v.  The link between the levels is
   the trace acceptor (P/LogAccept.v, checked on simulated traces of the real code): it
   accepts a node transition only as an instance of a P rule, and the theorems below say
   what every model call does to the log that the acceptor reads.  The M modules are
   imported HERE, after the P-level statements; each statement is closed by
   [exact <lemma of M/RaftProofsC05.v>], so it denotes the M-level objects.
   The logical log: abs (r_log r) : LL with base index ll_base, entries ll_ents (unstable
   entries and a pending snapshot included), ll_get L i the entry at index i.
     grows l l'  := same base and base term, ll_ents (abs l') = ll_ents (abs l) ++ suffix
     crel l l'   := committed l <= committed l', base l <= base l', and for every
                    i <= committed l with base l' < i: ll_get (abs l') i = ll_get (abs l) i
   PROVED
   (1) leader append-only, per call: step (any message), tick, on_persist_entries,
       commit_apply, apply_conf_change and every RawNode entry point
       (C05_node_exec_leader_append_only): leader before, leader after, same term => grows.
       In step_leader the log grows whatever the message (a demotion leaves it alone);
       storage writes are separate: they leave the logical log unchanged except that a
       compaction forgets a prefix below applied (C05_node_store_write_forgets_prefix).
   (2) committed prefix immutable, per call and for every role: crel for every function
       that changes the log (C05_node_step_rcrel, .._tick_rcrel, ..) and every RawNode
       call incl. storage writes (C05_node_exec_crel); a snapshot install, exactly
       (C05_node_restore_installs: the log becomes the empty log based at the snapshot index,
       which is >= the old commit index - entries leave only by being covered); traces from
       RawNode::new (C05_node_committed_entries_stable): an entry once at or below the commit
       index is the same entry for as long as its index is retained; the commit index never
       goes back.
   (3) the consistency check (C05_node_append_check): the four ways handle_append_entries
       answers; an acceptance means term m_log_term at m_index in the follower's log, then
       every message entry has a log entry of its index and term, and from the first
       conflicting index on the log holds exactly the message's entries.
   REFUTED as literally requested: "a non-reject answer only after the term check" - an
       append anchored below the commit index is answered (non-reject, index = commit index)
       without looking at the log (C05_node_stale_append_not_checked; same in the Rust).
   NOT PROVED here: log matching itself (cross-node; P level above); that the entries
       BEFORE the first conflict carry the message's payloads (only index and term are
       compared by the code; equality of payloads is log matching). *)
From RV Require Import Base.IdSet M.Util M.UtilProofs M.Proto M.MemStorage M.MemStorageProofs
  M.Inflights M.Progress M.RaftLog M.ConfChange M.Msg M.Raft M.RawNode M.RaftProofs
  M.RaftLogProofs M.RaftLogProofsOps M.RaftLogProofsStore M.RaftLogProofsSlice M.RaftLogProofsHistory
  M.RaftProofsC15 M.RaftProofsC09 M.RaftProofsC08 M.RaftProofsC13 M.RaftProofsC07
  M.RaftProofsRepInv M.RaftProofsC05.
From RecordUpdate Require Import RecordSet.
Import RecordSetNotations.

Theorem C05_node_grows_def :
  forall l l',
  grows l l' <->
  ll_base (abs l') = ll_base (abs l) /\ ll_bterm (abs l') = ll_bterm (abs l)
  /\ exists suffix, ll_ents (abs l') = ll_ents (abs l) ++ suffix.
Proof. exact grows_def. Qed.
Print Assumptions C05_node_grows_def.

Theorem C05_node_crel_def :
  forall l l',
  crel l l' <->
  committed l <= committed l' /\ ll_base (abs l) <= ll_base (abs l')
  /\ forall i, i <= committed l -> ll_base (abs l') < i -> ll_get (abs l') i = ll_get (abs l) i.
Proof. exact crel_def. Qed.
Print Assumptions C05_node_crel_def.

Theorem C05_node_rcrel_def :
  forall r r',
  rcrel r r' <-> crel (r_log r) (r_log r').
Proof. exact rcrel_def. Qed.
Print Assumptions C05_node_rcrel_def.

(* RaftLog operations *)
Theorem C05_node_log_append_rel :
  forall rw l e0 t l' li,
  log_append l (e0 :: t) = Ok (l', li) -> RepInv rw l ->
  contiguous_from (e_index e0) (e0 :: t) -> persisted l < e_index e0 ->
  e_index e0 + N.of_nat (length (e0 :: t)) <= u64_max ->
  abs l' = ll_append (abs l) (e0 :: t) /\ committed l < e_index e0 <= ll_last (abs l) + 1
  /\ committed l' = committed l /\ crel l l'.
Proof. exact log_append_rel. Qed.
Print Assumptions C05_node_log_append_rel.

Theorem C05_node_maybe_append_crel :
  forall rw l i t cmt ents l' res,
  maybe_append l i t cmt ents = Ok (l', res) -> RepInv rw l ->
  contiguous_from (i + 1) ents -> i + N.of_nat (length ents) < u64_max -> crel l l'.
Proof. exact maybe_append_crel. Qed.
Print Assumptions C05_node_maybe_append_crel.

Theorem C05_node_log_restore_crel :
  forall rw l s l',
  log_restore l s = Ok l' -> RepInv rw l -> s_index s < u64_max ->
  crel l l' /\ abs l' = mkLL (s_index s) (Some (s_term s)) [] /\ committed l <= s_index s
  /\ committed l' = s_index s.
Proof. exact log_restore_crel. Qed.
Print Assumptions C05_node_log_restore_crel.

(* (1) leader append-only *)
Theorem C05_node_append_entry_rel :
  forall rw r es r' ok,
  append_entry r es = Ok (r', ok) -> LI rw r -> room (N.of_nat (length es)) r ->
  rcrel r r' /\ grows (r_log r) (r_log r').
Proof. exact append_entry_rel. Qed.
Print Assumptions C05_node_append_entry_rel.

Theorem C05_node_become_leader_rel :
  forall rw r r',
  become_leader r = Ok r' -> LI rw r -> room 1 r -> rcrel r r' /\ grows (r_log r) (r_log r').
Proof. exact become_leader_rel. Qed.
Print Assumptions C05_node_become_leader_rel.

Theorem C05_node_step_leader_grows :
  forall rw r m r' c,
  step_leader r m = Ok (r', c) -> msg_wf (last_index (r_log r)) m -> LI rw r ->
  grows (r_log r) (r_log r').
Proof. exact step_leader_grows. Qed.
Print Assumptions C05_node_step_leader_grows.

Theorem C05_node_step_leader_append_only :
  forall rw r m r' c,
  step r m = Ok (r', c) -> r_state r = Leader -> r_state r' = Leader -> r_term r' = r_term r ->
  msg_wf (last_index (r_log r)) m -> LI rw r -> grows (r_log r) (r_log r').
Proof. exact step_leader_append_only. Qed.
Print Assumptions C05_node_step_leader_append_only.

Theorem C05_node_tick_leader_append_only :
  forall rw r r' b,
  tick r = Ok (r', b) -> r_state r = Leader -> LI rw r -> grows (r_log r) (r_log r').
Proof. exact tick_leader_append_only. Qed.
Print Assumptions C05_node_tick_leader_append_only.

Theorem C05_node_on_persist_entries_grows :
  forall rw r i t r',
  on_persist_entries r i t = Ok r' -> LI rw r -> grows (r_log r) (r_log r').
Proof. exact on_persist_entries_grows. Qed.
Print Assumptions C05_node_on_persist_entries_grows.

Theorem C05_node_raft_apply_conf_change_grows :
  forall rw r cc r' ocs,
  raft_apply_conf_change r cc = Ok (r', ocs) -> LI rw r -> grows (r_log r) (r_log r').
Proof. exact raft_apply_conf_change_grows. Qed.
Print Assumptions C05_node_raft_apply_conf_change_grows.

Theorem C05_node_commit_apply_rel :
  forall rw r a r',
  commit_apply r a = Ok r' -> LI rw r -> (is_leader r = true -> room 1 r) ->
  rcrel r r' /\ grows (r_log r) (r_log r').
Proof. exact commit_apply_rel. Qed.
Print Assumptions C05_node_commit_apply_rel.

Theorem C05_node_exec_leader_append_only :
  forall rw n o n' ot,
  exec n o = Ok (n', ot) -> op_wf n o -> NLI rw n -> (forall m, o <> OSetStore m) ->
  r_state (rn_raft n) = Leader -> r_state (rn_raft n') = Leader ->
  r_term (rn_raft n') = r_term (rn_raft n) -> grows (nlog n) (nlog n').
Proof. exact exec_leader_append_only. Qed.
Print Assumptions C05_node_exec_leader_append_only.

Theorem C05_node_store_write_forgets_prefix :
  forall rw l st',
  store_write l st' -> RepInv rw l ->
  abs (set_store l st') = abs l
  \/ exists k, ll_ents (abs (set_store l st')) = skipn k (ll_ents (abs l))
       /\ ll_base (abs (set_store l st')) = ll_base (abs l) + N.of_nat k
       /\ ll_base (abs (set_store l st')) < applied l.
Proof. exact store_write_forgets_prefix. Qed.
Print Assumptions C05_node_store_write_forgets_prefix.

Theorem C05_node_store_write_base :
  forall rw l st',
  store_write l st' -> RepInv rw l -> ll_base (abs l) <= ll_base (abs (set_store l st')).
Proof. exact store_write_base. Qed.
Print Assumptions C05_node_store_write_base.

(* (2) committed prefix immutable *)
Theorem C05_node_handle_append_entries_rcrel :
  forall rw r m r',
  handle_append_entries r m = Ok r' -> append_wf m -> LI rw r -> rcrel r r'.
Proof. exact handle_append_entries_rcrel. Qed.
Print Assumptions C05_node_handle_append_entries_rcrel.

Theorem C05_node_handle_heartbeat_rcrel :
  forall rw r m r',
  handle_heartbeat r m = Ok r' -> LI rw r -> rcrel r r'.
Proof. exact handle_heartbeat_rcrel. Qed.
Print Assumptions C05_node_handle_heartbeat_rcrel.

Theorem C05_node_restore_rcrel :
  forall rw r s r' b,
  restore r s = Ok (r', b) -> s_index s < u64_max -> LI rw r -> rcrel r r'.
Proof. exact restore_rcrel. Qed.
Print Assumptions C05_node_restore_rcrel.

Theorem C05_node_restore_installs :
  forall rw r s r',
  restore r s = Ok (r', true) -> s_index s < u64_max -> LI rw r ->
  abs (r_log r') = mkLL (s_index s) (Some (s_term s)) []
  /\ committed (r_log r) <= s_index s /\ s_index s <= committed (r_log r').
Proof. exact restore_installs. Qed.
Print Assumptions C05_node_restore_installs.

Theorem C05_node_step_rcrel :
  forall rw r m r' c,
  step r m = Ok (r', c) -> msg_wf (last_index (r_log r)) m -> LI rw r -> rcrel r r'.
Proof. exact step_rcrel. Qed.
Print Assumptions C05_node_step_rcrel.

Theorem C05_node_tick_rcrel :
  forall rw r r' b,
  tick r = Ok (r', b) -> LI rw r -> room 1 r -> rcrel r r'.
Proof. exact tick_rcrel. Qed.
Print Assumptions C05_node_tick_rcrel.

Theorem C05_node_on_persist_entries_rcrel :
  forall rw r i t r',
  on_persist_entries r i t = Ok r' -> LI rw r -> rcrel r r'.
Proof. exact on_persist_entries_rcrel. Qed.
Print Assumptions C05_node_on_persist_entries_rcrel.

Theorem C05_node_on_persist_snap_rcrel :
  forall rw r i r',
  on_persist_snap r i = Ok r' -> LI rw r ->
  (persisted (r_log r) < i -> i < next_of (store (r_log r))) -> rcrel r r'.
Proof. exact on_persist_snap_rcrel. Qed.
Print Assumptions C05_node_on_persist_snap_rcrel.

Theorem C05_node_raft_apply_conf_change_rcrel :
  forall rw r cc r' ocs,
  raft_apply_conf_change r cc = Ok (r', ocs) -> LI rw r -> rcrel r r'.
Proof. exact raft_apply_conf_change_rcrel. Qed.
Print Assumptions C05_node_raft_apply_conf_change_rcrel.

Theorem C05_node_load_state_rcrel :
  forall r hs r',
  load_state r hs = Ok r' -> rcrel r r'.
Proof. exact load_state_rcrel. Qed.
Print Assumptions C05_node_load_state_rcrel.

Theorem C05_node_exec_crel :
  forall rw n o n' ot,
  exec n o = Ok (n', ot) -> op_wf n o -> NLI rw n -> crel (nlog n) (nlog n').
Proof. exact exec_crel. Qed.
Print Assumptions C05_node_exec_crel.

Theorem C05_node_wrun_crel :
  forall rw n n',
  wrun n n' -> NLI rw n -> crel (nlog n) (nlog n').
Proof. exact wrun_crel. Qed.
Print Assumptions C05_node_wrun_crel.

Theorem C05_node_committed_entries_stable :
  forall c st sa dr n0 n n',
  rn_new c st sa dr = Ok (inr n0) -> SInv st -> trig_log st = false ->
  wrun n0 n -> wrun n n' ->
  committed (nlog n) <= committed (nlog n')
  /\ forall i e, i <= committed (nlog n) -> ll_get (abs (nlog n)) i = Some e ->
       ll_base (abs (nlog n')) < i -> ll_get (abs (nlog n')) i = Some e.
Proof. exact committed_entries_stable. Qed.
Print Assumptions C05_node_committed_entries_stable.

(* (3) the consistency check *)
Theorem C05_node_append_check :
  forall rw r m r',
  handle_append_entries r m = Ok r' -> LI rw r ->
  contiguous_from (m_index m + 1) (m_entries m) -> nz_terms (m_entries m) ->
  (m_index m <= last_index (r_log r) \/ m_log_term m <> 0) ->
  m_index m + N.of_nat (length (m_entries m)) < u64_max ->
  let L := abs (r_log r) in
  let i := m_index m in
  let lastnew := m_index m + N.of_nat (length (m_entries m)) in
  exists resp, r_msgs r' = r_msgs r ++ [resp] /\ m_type resp = MsgAppendResponse /\
  ( (* (0) a snapshot was requested: the append is not looked at *)
    (r_pending_request_snapshot r <> INVALID_INDEX /\ r_log r' = r_log r /\ m_reject resp = true)
    \/ (* (1) stale: everything up to the commit index is known to match *)
    (r_pending_request_snapshot r = INVALID_INDEX /\ i < committed (r_log r) /\ r_log r' = r_log r
     /\ m_reject resp = false /\ m_index resp = committed (r_log r))
    \/ (* (2) accepted *)
    (r_pending_request_snapshot r = INVALID_INDEX /\ committed (r_log r) <= i
     /\ ll_term L i = SOk (m_log_term m)
     /\ m_reject resp = false /\ m_index resp = lastnew
     /\ abs (r_log r') = ll_maybe_append L i (m_entries m)
     /\ committed (r_log r') = N.max (committed (r_log r)) (N.min (m_commit m) lastnew)
     /\ (forall k e, nth_error (m_entries m) k = Some e ->
           exists e', ll_get (abs (r_log r')) (i + 1 + N.of_nat k) = Some e'
                      /\ e_term e' = e_term e /\ e_index e' = e_index e)
     /\ (forall k e, nth_error (m_entries m) k = Some e ->
           ll_find_conflict L (m_entries m) <> 0 ->
           ll_find_conflict L (m_entries m) <= i + 1 + N.of_nat k ->
           ll_get (abs (r_log r')) (i + 1 + N.of_nat k) = Some e))
    \/ (* (3) rejected: no such term at m_index *)
    (r_pending_request_snapshot r = INVALID_INDEX /\ committed (r_log r) <= i
     /\ ll_term L i <> SOk (m_log_term m) /\ r_log r' = r_log r
     /\ m_reject resp = true /\ m_index resp = i) ).
Proof. exact append_check. Qed.
Print Assumptions C05_node_append_check.

Import Samples RepInvSamples C05Samples.

(* the literal reading of (3) is false: the stale case *)
Theorem C05_node_stale_append_not_checked :
  committed (nlog f3) = 1
    /\ ll_term (abs (nlog f3)) 0 = SOk 0
    /\ exists r' resp, handle_append_entries (rn_raft f3) stale = Ok r'
         /\ r_msgs r' = r_msgs (rn_raft f3) ++ [resp]
         /\ m_reject resp = false /\ m_index resp = 1 /\ r_log r' = r_log (rn_raft f3).
Proof. exact stale_append_not_checked. Qed.
Print Assumptions C05_node_stale_append_not_checked.

