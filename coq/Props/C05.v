(* C05 — Log matching, leader append-only, committed prefix immutable.
   Only pinned statements; proofs live in P/LogProofs.v.  They are about the
   abstract log protocol P/Log.v superposed on the election protocol
   P/Election.v (every execution: any interleaving of campaigns, grants under the
   election restriction, proposals, log adoption by followers, acknowledgements,
   leader / follower commits, persistence of votes and of log images (hand-out /
   fsync), message duplication / delay / reordering, crashes at any point (the
   volatile log falls back to the durable log) and restarts).  The voter
   configuration (simple or joint) is fixed within an execution, and no single
   node is a quorum.  Logs are uncompacted lists of (term, payload), index 1 first. *)
From RV Require Import Base.Prelude M.Quorum P.Election P.ElectionProofs P.Log P.LogProofs.
Local Open Scope N_scope.

(* Log matching: any two logs among the volatile logs (entries not yet persisted
   included), the durable logs and the log images handed out for persistence, of any
   two nodes, that have the same term at an index j, are identical up to j. *)
Theorem C05_log_matching :
  forall inc out, inc <> [] -> no_single_quorum inc out ->
  forall s n1 n2 L1 L2 j, lreachable inc out s ->
    (L1 = l_log (ln s n1) \/ L1 = l_dlog (ln s n1) \/ In L1 (l_imgs (ln s n1))) ->
    (L2 = l_log (ln s n2) \/ L2 = l_dlog (ln s n2) \/ In L2 (l_imgs (ln s n2))) ->
    (1 <= j)%nat -> (j <= length L1)%nat -> (j <= length L2)%nat ->
    term_at L1 j = term_at L2 j -> firstn j L1 = firstn j L2.
Proof. exact log_matching. Qed.
Print Assumptions C05_log_matching.

(* entry by entry (0-based position i < j) *)
Theorem C05_log_matching_entries :
  forall inc out, inc <> [] -> no_single_quorum inc out ->
  forall s n1 n2 L1 L2 j i, lreachable inc out s ->
    (L1 = l_log (ln s n1) \/ L1 = l_dlog (ln s n1) \/ In L1 (l_imgs (ln s n1))) ->
    (L2 = l_log (ln s n2) \/ L2 = l_dlog (ln s n2) \/ In L2 (l_imgs (ln s n2))) ->
    (1 <= j)%nat -> (j <= length L1)%nat -> (j <= length L2)%nat ->
    term_at L1 j = term_at L2 j -> (i < j)%nat -> nth_error L1 i = nth_error L2 i.
Proof. exact log_matching_entries. Qed.
Print Assumptions C05_log_matching_entries.

(* Leader append-only: over any step, a node that is in the leader role of the same
   term before and after only appends to its log. *)
Theorem C05_leader_append_only :
  forall inc out, inc <> [] -> no_single_quorum inc out ->
  forall s l s' c, lreachable inc out s -> lrule inc out l s = Some s' ->
    p_role (nodes (el s) c) = PL -> p_role (nodes (el s') c) = PL ->
    p_term (nodes (el s') c) = p_term (nodes (el s) c) ->
    exists suffix, l_log (ln s' c) = l_log (ln s c) ++ suffix.
Proof. exact leader_append_only_roles. Qed.
Print Assumptions C05_leader_append_only.

(* Committed prefix immutable: over any step other than the node's own crash, the
   commit index of a node does not decrease and its log is unchanged up to the old
   commit index; the commit index is always within the volatile log. *)
Theorem C05_commit_prefix_immutable :
  forall inc out, inc <> [] -> no_single_quorum inc out ->
  forall s l s' n, lreachable inc out s -> lrule inc out l s = Some s' ->
    l <> LEl (LCrash n) ->
    (l_commit (ln s n) <= l_commit (ln s' n))%nat /\
    firstn (l_commit (ln s n)) (l_log (ln s' n)) = firstn (l_commit (ln s n)) (l_log (ln s n)).
Proof. exact commit_prefix_immutable. Qed.
Print Assumptions C05_commit_prefix_immutable.

Theorem C05_commit_within_log :
  forall inc out, inc <> [] -> no_single_quorum inc out ->
  forall s n, lreachable inc out s -> (l_commit (ln s n) <= length (l_log (ln s n)))%nat.
Proof. exact commit_within_log. Qed.
Print Assumptions C05_commit_within_log.

(* The excluded step: the node's own crash resets its commit index to 0 and its
   volatile log falls back to the durable log (what a restart reads); nothing is
   claimed here about the relation of that log to the old committed prefix (that is
   C01 / C04: durable-quorum and state-machine safety). *)
Theorem C05_crash_falls_back :
  forall inc out s n s', lrule inc out (LEl (LCrash n)) s = Some s' ->
    l_commit (ln s' n) = 0%nat /\ l_log (ln s' n) = l_dlog (ln s n) /\ l_dlog (ln s' n) = l_dlog (ln s n).
Proof. exact crash_falls_back. Qed.
Print Assumptions C05_crash_falls_back.

(* sanity scenario: election of 1, a proposal, replication to 2, quorum commit,
   late follower 3 catches up to a prefix and commits it *)
Example C05_scenario :
  exists s, lrun [1;2;3] [] sc linit = Some s /\
    l_log (ln s 1) = [(1,0);(1,7)] /\ l_log (ln s 3) = [(1,0)] /\
    l_commit (ln s 1) = 2%nat /\ l_commit (ln s 2) = 2%nat /\ l_commit (ln s 3) = 1%nat /\
    cpts s = [(1,2%nat)] /\ acked s 2 1 = 2%nat.
Proof. exact sc_runs. Qed.
