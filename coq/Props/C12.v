(* C12  Configuration-change algebra keeps invariants and quorum overlap.
   Pinned statements only.  Model: M/ConfChange.v (faithful port of
   src/confchange/{changer,restore}.rs, tracker.rs apply_conf/to_conf_state,
   proto confchange.rs/confstate.rs, Raft::apply_conf_change dispatch, the
   restore part of Raft::new).  Definitions used in the statements:
     ValidB c p   all invariants except "at least one voter" (holds of the bootstrap tracker)
     Valid c p    ValidB c p /\ incoming c <> []
     decides q c  q contains a majority of each non-empty half of c
     same_set l s the vector l lists exactly the ids of s (any order, duplicates allowed)
     reachable t  closure of the empty tracker under restore(any ConfState), simple,
                  enter_joint, leave_joint, apply_conf_change *)
From RV Require Import Base.Prelude Base.IdSet M.ConfChange M.ConfChangeProofs.
From Coq Require Import Permutation.

(* a non-trivial joint state meeting the hypotheses of the implications below:
   voters (1 2 3)&&(1 2 4 6), learners (5), learners_next (4), auto_leave *)
Example C12_example_reachable : reachable (ex_conf, ex_prs).
Proof. exact ex_reachable. Qed.
Print Assumptions C12_example_reachable.

Example C12_example_valid : Valid ex_conf ex_prs.
Proof. exact ex_valid. Qed.
Print Assumptions C12_example_valid.

Theorem C12_bootstrap_valid : ValidB empty_conf [].
Proof. exact ValidB_empty. Qed.
Print Assumptions C12_bootstrap_valid.

(* --- invariants are kept --- *)

Theorem C12_changer_preserves : forall c p,
  ValidB c p ->
  (forall ccs c' chs, simple c p ccs = ROk (c', chs) -> Valid c' (apply_conf p chs)) /\
  (forall al ccs c' chs, enter_joint al c p ccs = ROk (c', chs) -> Valid c' (apply_conf p chs)) /\
  (forall c' chs, leave_joint c p = ROk (c', chs) ->
     ValidB c' (apply_conf p chs) /\ incoming c' = incoming c).
Proof. exact changer_preserves. Qed.
Print Assumptions C12_changer_preserves.

Theorem C12_check_invariants_accepts_valid : forall c p,
  ValidB c p -> check_invariants c p [] = ROk tt.
Proof. exact check_invariants_accepts_valid. Qed.
Print Assumptions C12_check_invariants_accepts_valid.

(* the model equals the set-algebra specification, error codes included *)
Theorem C12_simple_is_spec : forall c p ccs,
  ValidB c p -> do_simple (c, p) ccs = spec_simple (c, p) ccs.
Proof. exact do_simple_spec. Qed.
Print Assumptions C12_simple_is_spec.

Theorem C12_enter_joint_is_spec : forall al c p ccs,
  ValidB c p -> do_enter_joint al (c, p) ccs = spec_enter al (c, p) ccs.
Proof. exact do_enter_joint_spec. Qed.
Print Assumptions C12_enter_joint_is_spec.

Theorem C12_leave_joint_is_spec : forall c p,
  ValidB c p -> do_leave_joint (c, p) = spec_leave (c, p).
Proof. exact do_leave_joint_spec. Qed.
Print Assumptions C12_leave_joint_is_spec.

Theorem C12_simple_errors : forall c p ccs e,
  ValidB c p -> simple c p ccs = RErr e ->
  (e = e_simple_in_joint /\ joint c = true) \/ e = e_removed_all \/ e = e_more_than_one.
Proof. exact simple_errors. Qed.
Print Assumptions C12_simple_errors.

Theorem C12_enter_joint_errors : forall al c p ccs e,
  ValidB c p -> enter_joint al c p ccs = RErr e ->
  (e = e_already_joint /\ joint c = true) \/
  (e = e_zero_voter_joint /\ incoming c = []) \/ e = e_removed_all.
Proof. exact enter_joint_errors. Qed.
Print Assumptions C12_enter_joint_errors.

Theorem C12_leave_joint_errors : forall c p e,
  ValidB c p -> leave_joint c p = RErr e -> e = e_leave_nonjoint /\ joint c = false.
Proof. exact leave_joint_errors. Qed.
Print Assumptions C12_leave_joint_errors.

Theorem C12_restore_valid : forall cs t,
  restore empty_tracker cs = ROk t ->
  ValidB (fst t) (snd t) /\ (t = empty_tracker \/ incoming (fst t) <> []).
Proof. exact restore_valid. Qed.
Print Assumptions C12_restore_valid.

Theorem C12_reachable_valid : forall t,
  reachable t ->
  ValidB (fst t) (snd t) /\ (t = empty_tracker \/ incoming (fst t) <> []).
Proof. exact reachable_good. Qed.
Print Assumptions C12_reachable_valid.

(* --- shape of the changes --- *)

Theorem C12_simple_delta : forall c p ccs c' chs,
  simple c p ccs = ROk (c', chs) ->
  (symdiff_count (incoming c') (incoming c) <= 1)%nat /\ outgoing c = [] /\ incoming c' <> [].
Proof. exact simple_delta. Qed.
Print Assumptions C12_simple_delta.

(* "a simple change alters the voter set by at most one member" as sets *)
Theorem C12_simple_delta_cases : forall c p ccs c' chs,
  ValidB c p -> simple c p ccs = ROk (c', chs) ->
  incoming c' = incoming c \/
  (exists x, mem x (incoming c) = false /\ incoming c' = insert x (incoming c)) \/
  (exists x, mem x (incoming c') = false /\ incoming c = insert x (incoming c')).
Proof. exact simple_delta_cases. Qed.
Print Assumptions C12_simple_delta_cases.

Theorem C12_joint_shape : forall c p,
  ValidB c p ->
  (forall al ccs c' chs, enter_joint al c p ccs = ROk (c', chs) ->
     outgoing c = [] /\ incoming c <> [] /\
     outgoing c' = incoming c /\ auto_leave c' = al /\ incoming c' <> []) /\
  (forall c' chs, leave_joint c p = ROk (c', chs) ->
     outgoing c <> [] /\
     incoming c' = incoming c /\ outgoing c' = [] /\
     learners c' = union (learners c) (learners_next c) /\
     learners_next c' = [] /\ auto_leave c' = false /\
     (forall x, mem x (apply_conf p chs) = mem x (incoming c) || mem x (learners c'))).
Proof. exact joint_shape. Qed.
Print Assumptions C12_joint_shape.

Theorem C12_zero_ids_skipped_simple : forall c p ccs,
  simple c p ccs = simple c p (filter nonzero ccs).
Proof. exact zero_ids_skipped_simple. Qed.
Print Assumptions C12_zero_ids_skipped_simple.

Theorem C12_zero_ids_skipped_enter : forall al c p ccs,
  enter_joint al c p ccs = enter_joint al c p (filter nonzero ccs).
Proof. exact zero_ids_skipped_enter. Qed.
Print Assumptions C12_zero_ids_skipped_enter.

Theorem C12_remove_unknown_noop : forall c p id,
  Valid c p -> joint c = false -> mem id p = false ->
  simple c p [(RemoveNode, id)] = ROk (c, []).
Proof. exact remove_unknown_noop. Qed.
Print Assumptions C12_remove_unknown_noop.

(* --- restore round trip --- *)

Theorem C12_restore_roundtrip : forall c p cs,
  Valid c p ->
  same_set (cs_voters cs) (incoming c) -> same_set (cs_learners cs) (learners c) ->
  same_set (cs_voters_outgoing cs) (outgoing c) ->
  same_set (cs_learners_next cs) (learners_next c) ->
  cs_auto_leave cs = auto_leave c ->
  restore empty_tracker cs = ROk (c, p).
Proof. exact restore_roundtrip. Qed.
Print Assumptions C12_restore_roundtrip.

Theorem C12_restore_roundtrip_perm : forall c p cs,
  Valid c p ->
  Permutation (cs_voters cs) (incoming c) -> Permutation (cs_learners cs) (learners c) ->
  Permutation (cs_voters_outgoing cs) (outgoing c) ->
  Permutation (cs_learners_next cs) (learners_next c) ->
  cs_auto_leave cs = auto_leave c ->
  restore empty_tracker cs = ROk (c, p).
Proof. exact restore_roundtrip_perm. Qed.
Print Assumptions C12_restore_roundtrip_perm.

(* Raft::new: restore succeeds and the "invalid restore" fatal does not fire *)
Theorem C12_raft_new_roundtrip : forall c p cs,
  Valid c p ->
  same_set (cs_voters cs) (incoming c) -> same_set (cs_learners cs) (learners c) ->
  same_set (cs_voters_outgoing cs) (outgoing c) ->
  same_set (cs_learners_next cs) (learners_next c) ->
  cs_auto_leave cs = auto_leave c ->
  raft_new_restore cs = Ok (ROk (c, p)).
Proof. exact raft_new_roundtrip. Qed.
Print Assumptions C12_raft_new_roundtrip.

Theorem C12_restore_roundtrip_reachable : forall c p,
  reachable (c, p) -> incoming c <> [] ->
  restore empty_tracker (to_conf_state c) = ROk (c, p) /\
  raft_new_restore (to_conf_state c) = Ok (ROk (c, p)).
Proof. exact restore_roundtrip_reachable. Qed.
Print Assumptions C12_restore_roundtrip_reachable.

(* --- quorum overlap --- *)

Theorem C12_overlap_simple : forall c p ccs c' chs q1 q2,
  Valid c p -> simple c p ccs = ROk (c', chs) ->
  decides q1 c = true -> decides q2 c' = true ->
  exists x, mem x q1 = true /\ mem x q2 = true.
Proof. exact overlap_simple. Qed.
Print Assumptions C12_overlap_simple.

Theorem C12_overlap_enter : forall al c p ccs c' chs q1 q2,
  Valid c p -> enter_joint al c p ccs = ROk (c', chs) ->
  decides q1 c = true -> decides q2 c' = true ->
  exists x, mem x q1 = true /\ mem x q2 = true.
Proof. exact overlap_enter. Qed.
Print Assumptions C12_overlap_enter.

Theorem C12_overlap_leave : forall c p c' chs q1 q2,
  Valid c p -> leave_joint c p = ROk (c', chs) ->
  decides q1 c = true -> decides q2 c' = true ->
  exists x, mem x q1 = true /\ mem x q2 = true.
Proof. exact overlap_leave. Qed.
Print Assumptions C12_overlap_leave.

(* "at least one voter" is necessary for overlap: the change that creates the
   first voter of the bootstrap configuration has no overlap (every set decides
   the empty configuration) *)
Theorem C12_overlap_bootstrap_refuted :
  ValidB empty_conf [] /\
  simple empty_conf [] [(AddNode, 1%N)] = ROk (mkConf [1%N] [] [] [] false, [(1%N, MAdd)]) /\
  decides [] empty_conf = true /\
  decides [1%N] (mkConf [1%N] [] [] [] false) = true /\
  ~ exists x, mem x [] = true /\ mem x [1%N] = true.
Proof. exact overlap_bootstrap_refuted. Qed.
Print Assumptions C12_overlap_bootstrap_refuted.

(* --- ConfChangeV2 classification --- *)

Theorem C12_classify : forall tr chs,
  v2_leave_joint (mkV2 tr chs) =
    match tr, chs with Auto, [] => true | _, _ => false end /\
  v2_enter_joint (mkV2 tr chs) =
    match tr with
    | Auto => match chs with [] | [_] => None | _ => Some true end
    | Implicit => Some true
    | Explicit => Some false
    end.
Proof. exact classify. Qed.
Print Assumptions C12_classify.

Theorem C12_classify_v1 : forall ty id,
  v2_leave_joint (v1_into_v2 ty id) = false /\ v2_enter_joint (v1_into_v2 ty id) = None.
Proof. exact classify_v1. Qed.
Print Assumptions C12_classify_v1.

Theorem C12_classify_dispatch : forall t tr chs,
  apply_conf_change t (mkV2 tr chs) =
    match tr with
    | Auto => match chs with
              | [] => do_leave_joint t
              | [_] => do_simple t chs
              | _ => do_enter_joint true t chs
              end
    | Implicit => do_enter_joint true t chs
    | Explicit => do_enter_joint false t chs
    end.
Proof. exact classify_dispatch. Qed.
Print Assumptions C12_classify_dispatch.
