(* C06 — Promises survive crashes: persist-before-send, one vote per term.
   Only pinned statements; proofs live in P/ElectionProofs.v (abstract election
   protocol; crashes may fall between any two steps; a restart sees exactly the
   durable image; images handed out for persistence become durable in order).
   Covered promise classes: vote grants, vote requests, leader traffic (election
   layer, P/Election.v) and append acknowledgements / the log (log layer, P/Log.v:
   an acknowledgement is recorded as released only while the node's durable log
   covers it, and a crash falls back to exactly the durable log; the last two
   theorems, proofs in P/LogSafety.v and P/LogProofs.v). *)
From RV Require Import Base.Prelude M.Quorum P.Election P.ElectionProofs P.Log P.LogProofs P.LogSafety.
Local Open Scope N_scope.

(* a node grants at most one candidate its vote in any term, ever *)
Theorem C06_one_vote_ever :
  forall inc out s n t c1 c2,
    reachable inc out s -> In (Grant n c1 t) (net s) -> In (Grant n c2 t) (net s) -> c1 = c2.
Proof. exact one_vote_ever. Qed.
Print Assumptions C06_one_vote_ever.

(* every released promise is covered by the sender's durable (term, vote) and by its
   volatile state: across crash and restart the node is never behind what it told others *)
Theorem C06_promises_survive :
  forall inc out s n t c,
    reachable inc out s ->
    (In (Grant n c t) (net s) \/ (c = n /\ (In (VoteReq n t) (net s) \/ In (LeaderMsg n t) (net s)))) ->
    (t < p_dterm (nodes s n) \/ (t = p_dterm (nodes s n) /\ p_dvote (nodes s n) = c)) /\
    (t < p_term (nodes s n) \/ (t = p_term (nodes s n) /\ p_vote (nodes s n) = c)).
Proof. exact promises_survive. Qed.
Print Assumptions C06_promises_survive.

(* within one incarnation the term never decreases *)
Theorem C06_term_monotone :
  forall inc out s l s' n,
    prule inc out l s = Some s' -> (forall k, l <> LCrash k) ->
    p_term (nodes s n) <= p_term (nodes s' n).
Proof. exact term_monotone. Qed.
Print Assumptions C06_term_monotone.

(* Append acknowledgements: the index a node is recorded to have acknowledged in a
   term is only ever raised while its DURABLE log covers that index with the entries
   of that term's leader log - by the release of an acknowledgement it created, or
   (ghost) for the leader itself when it counts its own durable log in a commit. *)
Theorem C06_ack_released_only_when_durable :
  forall inc out, inc <> [] -> no_single_quorum inc out ->
  forall s l s' q t, lreachable inc out s -> lrule inc out l s = Some s' ->
    (acked s q t < acked s' q t)%nat ->
    (acked s' q t <= length (llog s t))%nat /\
    (exists suf, l_dlog (ln s q) = firstn (acked s' q t) (llog s t) ++ suf) /\
    (l = LRelAck q t (acked s' q t) \/
     (l = LCommitL q (acked s' q t) /\ t = p_term (nodes (el s) q) /\ p_role (nodes (el s) q) = PL)).
Proof. exact ack_record_rule. Qed.
Print Assumptions C06_ack_released_only_when_durable.

(* A crash loses nothing durable: the restarted node's log is exactly its durable log,
   which the crash leaves untouched (so it still covers every acknowledgement released
   before, until a newer leader's entries legitimately replace an uncommitted suffix). *)
Theorem C06_crash_keeps_durable_log :
  forall inc out s n s', lrule inc out (LEl (LCrash n)) s = Some s' ->
    l_commit (ln s' n) = 0%nat /\ l_log (ln s' n) = l_dlog (ln s n) /\ l_dlog (ln s' n) = l_dlog (ln s n).
Proof. exact crash_falls_back. Qed.
Print Assumptions C06_crash_keeps_durable_log.

(* ================================================================== *)
(* NODE LEVEL (M/RaftProofsC06.v): the per-call facts about the node model M/Raft.v /
   M/RawNode.v that justify the rules of the abstract protocol above.  From here on the
   names of the model shadow those of P.

   What is proved where.
   P level (above): over every execution of P/Election.v and P/Log.v with crashes between
     any two steps - one vote per term ever, promises covered by the durable state, term
     monotone, acknowledgements only for durable prefixes, a crash loses nothing durable.
   Node level (below), each for ALL states and inputs of the model (no reachability):
   1. TERM MONOTONE.  C06n_step_vote_step / C06n_tick_tv: over step and tick the term never
      decreases; C06n_raft_api_keeps_term_vote: raft_apply_conf_change, on_persist_entries,
      on_persist_snap, commit_apply, ping, request_snapshot leave term and vote alone
      (load_state, the only other writer, is internal to Raft::new: clause 5);
      C06n_exec_tv: every RawNode call of C07's alphabet [op] (step, tick, campaign, propose,
      propose_conf_change, apply_conf_change, ping, ready, advance, advance_append,
      advance_append_async, on_persist_ready, advance_apply(_to), report_unreachable,
      report_snapshot, request_snapshot, transfer_leader, read_index, and the application's
      storage writes); C06n_trace_term_monotone: along ANY non-panicking sequence of such
      calls - in particular from rn_new (C06n_trace_from_new) - the term never decreases.
   2. ONE VOTE PER TERM.  [vote_step m r r'] (C06n_def_vote_step): within the term the vote
      is kept, or cast for the first time (it was 0) by granting the MsgRequestVote m to its
      sender; when the term grows the vote is 0 (term adopted from a message, check-quorum
      step-down ...), or the node's own id (a campaign), or the sender of the MsgRequestVote
      that carried the new term (adopt and grant in one step).  For every call other than
      step on a vote request the second alternative is absent ([tv_plain]).
      C06n_step_vote_kept: the plain per-step form.  C06n_trace_one_vote_per_term: along any
      trace, a later state of the same term as an earlier one whose vote is non-zero has
      the same vote.
   3. GRANTS MATCH THE VOTE.  C06n_grant_matches_vote: the MsgRequestVoteResponse messages
      in the queue change only by what the vote branch appends; a non-rejecting one answers
      a MsgRequestVote, is addressed to its sender, which is the node recorded in r_vote
      after the step, and carries the node's term after the step (= the request's term) and
      the node's id.  (C03_vote_grant_restricted is the log-side condition of the same
      grant.)  Together with 2: at most one candidate per term is ever granted a vote by
      one incarnation.
   4. HARD STATE HAND-OUT.  C06n_ready_hands_out_hard_state: if the node's (term, vote)
      differ from rn_prev_hs, rn_ready returns the current hard state, must_sync = true,
      is_persisted_msg = true (every message of this Ready waits for the persistence
      report) and pushes a record with hs_changed; term and vote are not touched by ready.
      C06n_tv_change_no_immediate_msgs / C06n_immediate_msgs_only_leader_settled: the
      release discipline (C07's theorems, re-pinned: they are C06's persist-before-send
      clause at node level): a Ready that changes term or vote releases no message before
      persistence; messages released before persistence come only from a leader whose
      (term, vote) are the handed-out ones and with no hs-changing Ready outstanding.
   5. RESTART.  C06n_raft_new_resumes / C06n_rn_new_resumes: a node constructed over a store
      whose hard state is hs has r_term = hs_term hs and r_vote = hs_vote hs (and prev_hs
      likewise, role Follower, no outstanding records): a restart resumes exactly the
      durable term and vote.
   Still assumed (not a property of the library): the APPLICATION writes the hard state of
   a Ready to stable storage before it sends that Ready's persisted messages and before it
   reports the Ready persisted (on_persist_ready / advance), and hands rn_new the store it
   wrote.  This is the simulator's contract (SimStorage) and what the P-level acceptor
   checks on recorded runs; with it, 1-5 are the node-level counterparts of P's rules
   (grant: 2+3; durable image handed out before release: 4; restart from the image: 5). *)
From RV Require Import Base.IdSet M.Progress M.MemStorage M.Msg M.Raft M.RawNode M.RaftProofs
  M.RaftProofsC17 M.RaftProofsC07 M.RaftProofsC06.

Theorem C06n_def_vote_step : forall m r r',
  vote_step m r r' <->
  r_id r' = r_id r /\ r_term r <= r_term r' /\
  (r_term r' = r_term r ->
   r_vote r' = r_vote r \/
   (r_vote r = INVALID_ID /\ m_type m = MsgRequestVote /\ r_vote r' = m_from m)) /\
  (r_term r < r_term r' ->
   r_vote r' = INVALID_ID \/ r_vote r' = r_id r \/
   (m_type m = MsgRequestVote /\ m_term m = r_term r' /\ r_vote r' = m_from m)).
Proof. exact def_vote_step. Qed.
Print Assumptions C06n_def_vote_step.

Theorem C06n_def_tv_plain : forall r r',
  tv_plain r r' <->
  r_id r' = r_id r /\ r_term r <= r_term r' /\
  (r_term r' = r_term r -> r_vote r' = r_vote r) /\
  (r_term r < r_term r' -> r_vote r' = INVALID_ID \/ r_vote r' = r_id r).
Proof. exact def_tv_plain. Qed.
Print Assumptions C06n_def_tv_plain.

(* 1+2: step *)
Theorem C06n_step_vote_step :
  forall r m r' c, step r m = Ok (r', c) -> vote_step m r r'.
Proof. exact step_vote_step. Qed.
Print Assumptions C06n_step_vote_step.

Theorem C06n_step_term_monotone :
  forall r m r' c, step r m = Ok (r', c) -> r_term r <= r_term r'.
Proof. exact step_term_monotone. Qed.
Print Assumptions C06n_step_term_monotone.

Theorem C06n_step_vote_kept :
  forall r m r' c, step r m = Ok (r', c) -> r_term r' = r_term r ->
    r_vote r = INVALID_ID \/ r_vote r' = r_vote r.
Proof. exact step_vote_kept. Qed.
Print Assumptions C06n_step_vote_kept.

(* 1+2: tick *)
Theorem C06n_tick_tv :
  forall r r' b, tick r = Ok (r', b) -> tv_plain r r'.
Proof. exact tick_tv_plain. Qed.
Print Assumptions C06n_tick_tv.

(* 1+2: the rest of the Raft API *)
Theorem C06n_raft_api_keeps_term_vote :
  (forall r cc r' ocs, raft_apply_conf_change r cc = Ok (r', ocs) ->
     r_term r' = r_term r /\ r_vote r' = r_vote r) /\
  (forall r i t r', on_persist_entries r i t = Ok r' -> r_term r' = r_term r /\ r_vote r' = r_vote r) /\
  (forall r i r', on_persist_snap r i = Ok r' -> r_term r' = r_term r /\ r_vote r' = r_vote r) /\
  (forall r a r', commit_apply r a = Ok r' -> r_term r' = r_term r /\ r_vote r' = r_vote r) /\
  (forall r r', ping r = Ok r' -> r_term r' = r_term r /\ r_vote r' = r_vote r) /\
  (forall r r' c, request_snapshot r = Ok (r', c) -> r_term r' = r_term r /\ r_vote r' = r_vote r).
Proof. exact raft_api_keeps_term_vote. Qed.
Print Assumptions C06n_raft_api_keeps_term_vote.

(* 1+2: every RawNode call ([op] / [exec]: the alphabet of C07) *)
Theorem C06n_exec_tv :
  forall n o n' ot, exec n o = Ok (n', ot) ->
    match o with
    | OStep m => vote_step m (rn_raft n) (rn_raft n')
    | _ => tv_plain (rn_raft n) (rn_raft n')
    end.
Proof. exact exec_tv. Qed.
Print Assumptions C06n_exec_tv.

Theorem C06n_rn_step_vote_step :
  forall n m n' c, rn_step n m = Ok (n', c) -> vote_step m (rn_raft n) (rn_raft n').
Proof. exact rn_step_vote_step. Qed.
Print Assumptions C06n_rn_step_vote_step.

Theorem C06n_rn_tick_tv :
  forall n n' b, rn_tick n = Ok (n', b) -> tv_plain (rn_raft n) (rn_raft n').
Proof. exact rn_tick_tv. Qed.
Print Assumptions C06n_rn_tick_tv.

(* traces: [ntrace n n'] = n' is reached from n by some sequence of calls, none panicking
   (constructors ntrace_nil : ntrace n n; ntrace_cons : exec n o = Ok (n1, ot) ->
   ntrace n1 n' -> ntrace n n') *)
Theorem C06n_trace_term_monotone :
  forall n n', ntrace n n' -> r_term (rn_raft n) <= r_term (rn_raft n').
Proof. exact ntrace_term_monotone. Qed.
Print Assumptions C06n_trace_term_monotone.

Theorem C06n_trace_one_vote_per_term :
  forall n1 n2, ntrace n1 n2 -> r_term (rn_raft n2) = r_term (rn_raft n1) ->
    r_vote (rn_raft n1) <> INVALID_ID -> r_vote (rn_raft n2) = r_vote (rn_raft n1).
Proof. exact ntrace_one_vote_per_term. Qed.
Print Assumptions C06n_trace_one_vote_per_term.

Theorem C06n_trace_from_new :
  forall c st sa dr n0 n1 n2,
    rn_new c st sa dr = Ok (inr n0) -> ntrace n0 n1 -> ntrace n1 n2 ->
    r_term (rn_raft n0) <= r_term (rn_raft n1) /\ r_term (rn_raft n1) <= r_term (rn_raft n2) /\
    (r_term (rn_raft n2) = r_term (rn_raft n1) -> r_vote (rn_raft n1) <> INVALID_ID ->
     r_vote (rn_raft n2) = r_vote (rn_raft n1)).
Proof. exact ntrace_from_new. Qed.
Print Assumptions C06n_trace_from_new.

(* 3: grants match the vote ([sel ty l] = the messages of type ty in l, in order) *)
Theorem C06n_def_sel : forall ty l, sel ty l = filter (fun x => m_type x =? ty) l.
Proof. exact def_sel. Qed.
Print Assumptions C06n_def_sel.

Theorem C06n_grant_matches_vote :
  forall r m r' c, step r m = Ok (r', c) ->
    exists new,
      sel MsgRequestVoteResponse (r_msgs r') = sel MsgRequestVoteResponse (r_msgs r) ++ new /\
      forall x, In x new -> m_reject x = false ->
        m_type m = MsgRequestVote /\ m_to x = m_from m /\ r_vote r' = m_from m /\
        m_term x = r_term r' /\ m_term x = m_term m /\ m_from x = r_id r'.
Proof. exact grant_matches_vote. Qed.
Print Assumptions C06n_grant_matches_vote.

(* 4: the hard state hand-out and the release discipline *)
Theorem C06n_ready_hands_out_hard_state :
  forall n n' rd, rn_ready n = Ok (n', rd) ->
    (r_term (rn_raft n) <> hs_term (rn_prev_hs n) \/ r_vote (rn_raft n) <> hs_vote (rn_prev_hs n)) ->
    rd_hs rd = Some (Raft.hard_state_of (rn_raft n)) /\
    rd_must_sync rd = true /\ rd_is_persisted_msg rd = true /\
    (exists recs rr, rn_records n' = recs ++ [rr] /\ rr_number rr = rd_number rd /\
                     rr_hs_changed rr = true) /\
    r_term (rn_raft n') = r_term (rn_raft n) /\ r_vote (rn_raft n') = r_vote (rn_raft n).
Proof. exact ready_hands_out_hard_state. Qed.
Print Assumptions C06n_ready_hands_out_hard_state.

Theorem C06n_tv_change_no_immediate_msgs :
  forall n n' rd, rn_ready n = Ok (n', rd) ->
    forall hs, rd_hs rd = Some hs ->
      (hs_term hs <> hs_term (rn_prev_hs n) \/ hs_vote hs <> hs_vote (rn_prev_hs n)) ->
      (if rd_is_persisted_msg rd then [] else lr_messages (rd_light rd)) = []
      /\ (if rd_is_persisted_msg rd then lr_messages (rd_light rd) else []) = lr_messages (rd_light rd).
Proof. exact tv_change_no_immediate_msgs. Qed.
Print Assumptions C06n_tv_change_no_immediate_msgs.

Theorem C06n_immediate_msgs_only_leader_settled :
  forall n n' rd, rn_ready n = Ok (n', rd) ->
    (if rd_is_persisted_msg rd then [] else lr_messages (rd_light rd)) <> [] ->
    is_leader (rn_raft n) = true
    /\ ~ (r_term (rn_raft n) <> hs_term (rn_prev_hs n) \/ r_vote (rn_raft n) <> hs_vote (rn_prev_hs n))
    /\ exists recs, ready_records n recs /\ forall rr, In rr recs -> rr_hs_changed rr = false.
Proof. exact immediate_msgs_only_leader_settled. Qed.
Print Assumptions C06n_immediate_msgs_only_leader_settled.

(* 5: restart *)
Theorem C06n_raft_new_resumes :
  forall c st sa dr r, raft_new c st sa dr = Ok (inr r) ->
    r_term r = hs_term (MemStorage.hs st) /\ r_vote r = hs_vote (MemStorage.hs st) /\
    r_id r = c_id c /\ r_state r = Follower /\ r_leader_id r = INVALID_ID.
Proof. exact raft_new_resumes. Qed.
Print Assumptions C06n_raft_new_resumes.

Theorem C06n_rn_new_resumes :
  forall c st sa dr n, rn_new c st sa dr = Ok (inr n) ->
    r_term (rn_raft n) = hs_term (MemStorage.hs st) /\
    r_vote (rn_raft n) = hs_vote (MemStorage.hs st) /\
    hs_term (rn_prev_hs n) = hs_term (MemStorage.hs st) /\
    hs_vote (rn_prev_hs n) = hs_vote (MemStorage.hs st) /\
    r_id (rn_raft n) = c_id c /\ r_state (rn_raft n) = Follower /\ rn_records n = [].
Proof. exact rn_new_resumes. Qed.
Print Assumptions C06n_rn_new_resumes.

(* non-vacuity: node 3 (term 2, no vote, no leader known) grants node 2 its vote for term 3
   and then refuses node 1 in that term *)
Example C06n_one_vote_example :
  exists r1 c1 r2 c2 g rj,
    step x6_r0 (x6_req 2) = Ok (r1, c1) /\ r_term r1 = 3 /\ r_vote r1 = 2 /\
    r_msgs r1 = [g] /\ m_type g = MsgRequestVoteResponse /\ m_reject g = false /\ m_to g = 2 /\ m_term g = 3 /\
    step r1 (x6_req 1) = Ok (r2, c2) /\ r_term r2 = 3 /\ r_vote r2 = 2 /\
    r_msgs r2 = [g; rj] /\ m_reject rj = true /\ m_to rj = 1.
Proof. exact x6_one_vote. Qed.
