(* C06 — Promises survive crashes: persist-before-send, one vote per term.
   Only pinned statements; proofs live in P/ElectionProofs.v (abstract election
   protocol; crashes may fall between any two steps; a restart sees exactly the
   durable image; images handed out for persistence become durable in order).
   Covered promise classes: vote grants, vote requests, leader traffic (election
   layer, P/Election.v) and append acknowledgements / the log (log layer, P/Log.v:
   an acknowledgement is recorded as released only while the node's durable log
   covers it, and a crash falls back to exactly the durable log; the last two
   theorems, proofs in P/LogSafety.v and P/LogProofs.v). *)
From RV Require Import Base.Prelude M.Quorum P.Election P.ElectionProofs P.Log P.LogProofs P.LogSafety.
Local Open Scope N_scope.

(* a node grants at most one candidate its vote in any term, ever *)
Theorem C06_one_vote_ever :
  forall inc out s n t c1 c2,
    reachable inc out s -> In (Grant n c1 t) (net s) -> In (Grant n c2 t) (net s) -> c1 = c2.
Proof. exact one_vote_ever. Qed.
Print Assumptions C06_one_vote_ever.

(* every released promise is covered by the sender's durable (term, vote) and by its
   volatile state: across crash and restart the node is never behind what it told others *)
Theorem C06_promises_survive :
  forall inc out s n t c,
    reachable inc out s ->
    (In (Grant n c t) (net s) \/ (c = n /\ (In (VoteReq n t) (net s) \/ In (LeaderMsg n t) (net s)))) ->
    (t < p_dterm (nodes s n) \/ (t = p_dterm (nodes s n) /\ p_dvote (nodes s n) = c)) /\
    (t < p_term (nodes s n) \/ (t = p_term (nodes s n) /\ p_vote (nodes s n) = c)).
Proof. exact promises_survive. Qed.
Print Assumptions C06_promises_survive.

(* within one incarnation the term never decreases *)
Theorem C06_term_monotone :
  forall inc out s l s' n,
    prule inc out l s = Some s' -> (forall k, l <> LCrash k) ->
    p_term (nodes s n) <= p_term (nodes s' n).
Proof. exact term_monotone. Qed.
Print Assumptions C06_term_monotone.

(* Append acknowledgements: the index a node is recorded to have acknowledged in a
   term is only ever raised while its DURABLE log covers that index with the entries
   of that term's leader log - by the release of an acknowledgement it created, or
   (ghost) for the leader itself when it counts its own durable log in a commit. *)
Theorem C06_ack_released_only_when_durable :
  forall inc out, inc <> [] -> no_single_quorum inc out ->
  forall s l s' q t, lreachable inc out s -> lrule inc out l s = Some s' ->
    (acked s q t < acked s' q t)%nat ->
    (acked s' q t <= length (llog s t))%nat /\
    (exists suf, l_dlog (ln s q) = firstn (acked s' q t) (llog s t) ++ suf) /\
    (l = LRelAck q t (acked s' q t) \/
     (l = LCommitL q (acked s' q t) /\ t = p_term (nodes (el s) q) /\ p_role (nodes (el s) q) = PL)).
Proof. exact ack_record_rule. Qed.
Print Assumptions C06_ack_released_only_when_durable.

(* A crash loses nothing durable: the restarted node's log is exactly its durable log,
   which the crash leaves untouched (so it still covers every acknowledgement released
   before, until a newer leader's entries legitimately replace an uncommitted suffix). *)
Theorem C06_crash_keeps_durable_log :
  forall inc out s n s', lrule inc out (LEl (LCrash n)) s = Some s' ->
    l_commit (ln s' n) = 0%nat /\ l_log (ln s' n) = l_dlog (ln s n) /\ l_dlog (ln s' n) = l_dlog (ln s n).
Proof. exact crash_falls_back. Qed.
Print Assumptions C06_crash_keeps_durable_log.
