(* C06 — Promises survive crashes: persist-before-send, one vote per term.
   Only pinned statements; proofs live in P/ElectionProofs.v (abstract election
   protocol; crashes may fall between any two steps; a restart sees exactly the
   durable image; images handed out for persistence become durable in order).
   Covered promise classes: vote grants, vote requests, leader traffic.  NOT yet
   covered (partial): append acknowledgements and the log part of "never behind"
   (they need the log layer of P). *)
From RV Require Import Base.Prelude M.Quorum P.Election P.ElectionProofs.
Local Open Scope N_scope.

(* a node grants at most one candidate its vote in any term, ever *)
Theorem C06_one_vote_ever :
  forall inc out s n t c1 c2,
    reachable inc out s -> In (Grant n c1 t) (net s) -> In (Grant n c2 t) (net s) -> c1 = c2.
Proof. exact one_vote_ever. Qed.
Print Assumptions C06_one_vote_ever.

(* every released promise is covered by the sender's durable (term, vote) and by its
   volatile state: across crash and restart the node is never behind what it told others *)
Theorem C06_promises_survive :
  forall inc out s n t c,
    reachable inc out s ->
    (In (Grant n c t) (net s) \/ (c = n /\ (In (VoteReq n t) (net s) \/ In (LeaderMsg n t) (net s)))) ->
    (t < p_dterm (nodes s n) \/ (t = p_dterm (nodes s n) /\ p_dvote (nodes s n) = c)) /\
    (t < p_term (nodes s n) \/ (t = p_term (nodes s n) /\ p_vote (nodes s n) = c)).
Proof. exact promises_survive. Qed.
Print Assumptions C06_promises_survive.

(* within one incarnation the term never decreases *)
Theorem C06_term_monotone :
  forall inc out s l s' n,
    prule inc out l s = Some s' -> (forall k, l <> LCrash k) ->
    p_term (nodes s n) <= p_term (nodes s' n).
Proof. exact term_monotone. Qed.
Print Assumptions C06_term_monotone.
