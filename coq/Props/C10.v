(* C10 — Progress after stabilisation: leader elected, logs converge, proposals commit.
   Only pinned statements (generated verbatim from the proof files by
   tools_c10/genprops.py) and non-vacuity Examples; proofs live in M/RaftProofsC10.v,
   M/RaftProofsC10Pair.v, M/RaftProofsC10Star.v and M/RaftProofsC10Prop.v.  The models M/Raft.v, M/Progress.v, M/Inflights.v, M/RaftLog.v
   are taken as given.

   WHAT THE PROPERTY SAYS AND WHAT CAN BE A THEOREM.
   "Within a bounded number of election timeouts exactly one leader exists" depends on the
   DISTRIBUTION of the randomized election timeouts: two candidates may draw equal timeouts
   for ever, so no statement over ALL oracle sequences [r_draws] has that conclusion.  It is
   NOT provable as stated and NOT proved here.  What is deterministic - and proved, per
   step, for every state and every input, or for the pair schedule of section 6 - are the
   mechanisms that exclude a permanent stall.

   PROVED.
   1. heartbeat_response_unsticks (+ heartbeat_response_eq): for a tracked peer, after
      handle_heartbeat_response: paused = false, recent_active = true; in Replicate with a
      full window free_first_one was applied: the count strictly decreases, and the window
      is not full afterwards when no capacity shrink is pending and the capacity is
      positive (free_first_one_spec / _unfull; exactly the head is freed under the
      Inflights invariant with increasing contents: free_first_one_exactly_one); so
      is_paused = false unless the state is Snapshot; maybe_send_append is attempted with
      allow_empty = true iff matched < last_index or a snapshot is requested; every other
      peer and every other field is untouched except the read-index bookkeeping.
      probe_resumes: a Probe peer, PAUSED OR NOT, that answers a heartbeat while behind
      gets the exact MsgAppend (index next_idx-1, its term, the entries from next_idx,
      the commit index) appended to the queue in that same step, provided the two log
      lookups succeed (stated without batch_append; with batching the append is merged
      into a queued MsgAppend for the peer: maybe_send_append_facts).
      probe_resumes_snapshot: if instead the entries / the probe term are compacted away
      or a snapshot was requested, and the storage can produce a snapshot, the MsgSnapshot
      is queued in that step and the peer is tracked in Snapshot state.  (If the snapshot
      is temporarily unavailable nothing is sent but the peer stays un-paused: clause
      "b = false -> pr' = pr1" of maybe_send_append_facts.)
      REMARK (degenerate, not a defect of normal use): with Inflights capacity 0
      (adjust_max_inflight_msgs(_, 0), which the Rust does not validate) a Replicate peer
      is paused for ever: full = (count = cap) holds with count = 0 and free_first_one has
      nothing to free.  With a pending shrink to c < count the window needs
      count - c + 1 heartbeat responses to open.
   2. reject_repairs_next: handle_append_response with m_reject = true, plain (no snapshot
      request).  Probe (or Snapshot) state: the rejection is non-stale iff
      next_idx - 1 = m_index; then next_idx := max (min m_index (npi+1)) (matched+1),
      paused := false, and send_append_to runs at once (reject_repairs_next_probe;
      exact message: reject_reprobes); otherwise only recent_active / committed_index
      change.  repaired_next_bounds: the new next_idx is > matched, never above the old
      one, STRICTLY below it whenever next_idx > matched + 1, equal to matched + 1
      otherwise; the probed index is <= the leader-side hint npi or equals matched.
      Replicate state: non-stale iff m_index > matched; the peer becomes Probe with
      next_idx = matched + 1, empty window, not paused, and an append is sent at once
      (reject_repairs_next_replicate).  Hints: reject_npi_spec (npi <= m_reject_hint; it is
      the largest index <= hint whose leader term is <= the hint term) and
      follower_reject_hint (the follower's hint index is <= min (probed index, own last
      index), carries the own term there, which is <= the leader's term at the probed
      index), both from RaftLog find_conflict_by_term_spec.
      NOT PROVED: the "at most one rejection per term" bound (it needs terms to be
      monotone along both logs, a cluster invariant); the bound proved is linear:
      next_idx - matched strictly decreases.
   3. no Progress state is absorbing: ack_raises_matched (a successful acknowledgement
      above matched sets matched to the acknowledged index in every state, Probe ->
      Replicate, Snapshot -> Probe once the pending snapshot is reached, and the tail of
      the handler never changes matched of any peer), snapshot_state_exits (MsgSnapStatus,
      either result: Snapshot -> paused Probe, un-paused by the next heartbeat response,
      clause 1), unreachable_leaves_replicate, no_progress_state_absorbing (summary).
      (C15 already pins snapshot_resume / snapshot_ack; they are reused.)
   4. election_timeout_fires: on a promotable non-leader that receives nothing, the counter
      goes up by one per tick (tick_election_waits) and after exactly
      max 1 (randomized_election_timeout - election_elapsed) ticks - at most
      max 1 randomized_election_timeout (election_timeout_bound) - the counter is cleared and
      hup runs (tick_election_fires).  hup_campaigns: hup on a promotable (fix 8deb47c) non-leader whose window scan
      (C09 hup_scan, the window of fix a8252b4) finds no unapplied membership change ends
      as PreCandidate (pre_vote), as Candidate of term+1 that voted
      for itself, or as Leader of term+1 (own vote = quorum); never as Follower (the own
      vote cannot lose: vote_result_not_lost).  randomized_timeout_range: reset installs
      the oracle's next draw as randomized_election_timeout and clears both counters
      (model-side fact; the draws are the values thread_rng produced in
      [min_election_timeout, max_election_timeout)).
      The events that set election_elapsed (read off M/Raft.v): reset (every become_X function),
      step_follower on MsgAppend / MsgHeartbeat / MsgSnapshot, granting a MsgRequestVote,
      handle_transfer_leader on the leader, tick_election when it fires, tick_heartbeat
      at the election timeout.  NOT PROVED as a theorem: that no other path changes it.
   5. checkquorum_stepdown: at election_elapsed + 1 >= election_timeout a leader tick
      clears the counter; with check_quorum it steps down (Follower, same term, no leader)
      iff the recently-active set - itself included - is not a quorum
      (active_quorum_spec: a majority of each non-empty half of the joint configuration),
      and otherwise clears every recent_active flag but its own and aborts a pending
      leader transfer.  leader_heartbeats + bcast_heartbeat_eq: when heartbeat_elapsed + 1
      reaches heartbeat_timeout the counter is cleared and exactly one MsgHeartbeat per
      other tracked peer is queued (commit = min (matched, committed), the pending
      read-index context).
   6. pair_convergence (M/RaftProofsC10Pair.v): ONE leader L and ONE follower F of the
      same term under the deterministic lock-step schedule [pair_round]:
        (i) everything L has queued for F is delivered to F, in order, through Raft::step;
        (ii) everything F has queued for L is delivered to L, in order, through Raft::step;
        (iii) both nodes tick once.
      ASSUMED (all stated in the theorem): L's log is well formed (RaftLogProofs.RepInv),
      its entries have non-zero terms, and L still holds it from [matched] on (no compaction
      past what F acknowledged, so no snapshot is needed); no batch_append, no pending
      leader transfer, check_quorum off (with only F answering L would otherwise step down
      when {L,F} is not a quorum), no pending read-index request, heartbeat_timeout >= 1;
      NOTHING IS IN FLIGHT at the start (L has nothing queued for F, F's queue is empty);
      L's Progress for F is Probe or Replicate - paused or not, any next_idx with
      matched < next_idx <= last_index + 1, any window contents - with no snapshot request,
      no pending window shrink and positive window capacity (a Snapshot peer enters this
      set by one status report, clause 3); F's log agrees with L's on [matched, a] and
      holds no entry of L's log above a (a = the exact agreement frontier; F may hold any
      divergent tail; by Raft's Log Matching property the maximal agreeing prefix of a
      follower's log has exactly this form - Log Matching itself is a cluster invariant
      and is not proved here), commit index <= a, no snapshot request pending; F's election timer is
      not due before the first heartbeat (or F is not promotable).  PERSISTENCE is not
      modelled and not needed: at Raft level (below RawNode) replies are queued at once and
      nothing in the exchange reads [persisted].  NO PROPOSAL arrives during the run (L's
      log only moves its commit index).
      CONCLUSION: if (heartbeat_timeout + 2) * ((last - matched) * (last + 3) + last + 2)
      rounds run without a panic (last = last_index L), then L's Progress for F has
      matched = last_index L, F's log agrees with L's up to last_index L, L is still the
      leader and F still a follower of that term.  Mechanism of the proof: a measure
      (last - matched, then Replicate above every Probe value, then next_idx - matched)
      never increases, and goes down within heartbeat_timeout + 2 rounds: a heartbeat is
      queued, its response makes L send an append (clause 1), the append is accepted
      (matched grows) or rejected (next_idx shrinks, or Replicate falls back to Probe:
      clause 2).  Non-vacuity: xp_converges_probe / xp_converges_repl instantiate every
      hypothesis on a concrete pair (paused Probe at next_idx 5; Replicate with a FULL
      window of stale indexes), and xp_run_* compute the 188 rounds: no panic,
      matched = 5, F's log and commit index reach 5.

   7. star_convergence / star_commit_all (M/RaftProofsC10Star.v): the pair theorem lifted to
      ONE leader L and a LIST of followers Fs (distinct ids, voters or learners, all tracked
      by L, same term) under the lock-step schedule [star_round]:
        (i) every message L has queued is delivered to its addressee among Fs, in order;
        (ii) the replies of each follower go back to L, follower after follower in list
             order; (iii) everybody ticks once.
      star_frame (the independence lemma): while L handles a response of ANOTHER follower,
      follower f's Progress keeps its state, its matched and - while probing - its
      next_idx, and the invariant of the pair proof; whatever L queues for f meanwhile is a
      sound MsgAppend, built from (L's log, f's Progress) only.  The stronger wording "never
      changes f's next_idx / window" is FALSE and is refuted by a concrete witness
      (other_response_moves_next_refuted: an acknowledgement of follower 2 advances the
      commit index, bcast_append sends entries 3..5 to the replicating follower 3, whose
      next_idx goes 3 -> 6 and whose window fills); this is harmless: the measure of the
      pair proof ignores next_idx while replicating.  Hence every follower's measure goes
      down independently, every heartbeat_timeout + 2 rounds.
      star_convergence: under the hypotheses of pair_convergence for L (star_leader) and
      for each follower (star_start: nothing in flight, Progress Probe or Replicate in any
      pause / window state, log agreeing up to its frontier, log of L not compacted past its
      matched, ...), if N0 rounds run without a panic, N0 >= (heartbeat_timeout + 2) *
      pair_measure_bound last_index matched_F for EVERY follower F (the MAXIMUM of the pair
      bounds, not their sum), then for every follower: matched = last_index L and its log
      agrees with L's up to last_index L; L is still the leader.
      star_commit_all (the commit clause): if in addition the last entry of L's log has L's
      term (the no-op of become_leader), L's own Progress has matched = last_index (its log
      is persisted - persistence itself is not modelled, this is assumed of the start state
      and is preserved), the voters are L and (some of) the followers, and L's commit index
      is consistent with the Progress map at the start (CommitInv: <= last_index, and
      = last_index if every voter's matched already is), then at the end of the N0 rounds
      committed L = last_index, and after heartbeat_timeout + 1 more rounds every follower's
      commit index is last_index too (heartbeats carry min (matched, committed)).  Quorum
      fact used: when every voter's matched is q, the quorum index of the (joint, with or
      without group commit) configuration is q (mci_all_at); the commit then happens in the
      maybe_commit of the acknowledgement that made the last voter reach q
      (leader_step_CommitInv).  follower_steps_commit: a follower's commit index never goes
      back and reaches the commit index of every heartbeat it handles.
      Non-vacuity: sp_commit_applies instantiates every hypothesis on a 3-node star (leader,
      a follower tracked as a PAUSED probe with a divergent entry, a follower tracked as
      Replicate with a FULL window of stale indexes); sp_run computes the 191 rounds: no
      panic, everybody has the 5 entries and commit index 5.

   8. star_propose_all (M/RaftProofsC10Prop.v): the PROPOSAL clause, at Raft level.  Two
      steps are added to the schedule: the application steps one MsgPropose with a normal
      entry into the leader (prop_msg; step_propose: for a leader that tracks itself, has no
      transfer pending and no uncommitted-size limit, Raft::step appends the stamped entry
      and runs bcast_append), and the leader PERSISTS its unstable entries - what the
      application does with the Ready that carries them - persist_leader =
      MemStorage::append, RaftLog::stable_entries, Raft::on_persist_entries (the three model
      functions, in that order; propose_persist_parts decomposes the two steps and shows
      the log keeps its representation invariant; on_persist_own: the leader's own Progress
      gets matched = last_index + 1).  The followers' persistence is abstracted as in the
      pair theorem.
      star_propose_all: a star that starts as in star_convergence runs its N0 rounds and
      reaches a converged state in which, in addition (all stated as hypotheses on that
      state): the leader's log is well formed with no pending snapshot, it has no
      uncommitted-size limit, its own matched = last_index, EVERY FOLLOWER'S LOG ENDS AT
      THE LEADER'S LAST INDEX (it holds nothing above it - true of a converged follower
      whose last_index equals the leader's; without it an old entry above last_index could
      sit where the new one goes, and the agreement invariant says nothing about it), the
      voters are the leader and some followers, at least one follower is a voter (so that
      the all-voters form of the quorum argument applies: the commit happens when the last
      voter acknowledges).  After propose + persist and N1 + K more star rounds
      (N1 = (heartbeat_timeout + 2) * pair_measure_bound (last_index + 1) matched0 for every
      follower, K >= heartbeat_timeout + 1): committed L = last_index + 1, and for every
      follower matched = last_index + 1, its log agrees with the leader's NEW log up to
      last_index + 1 (same term at the new index) and its commit index is last_index + 1.
      The invariant form (from any state satisfying the star invariant) is star_propose in
      the proof file.  Agreement is on (index, term); that the DATA of the entry is the
      proposed one follows from Raft's Log Matching and is shown on the example only.
      Non-vacuity: C10_propose_applies instantiates every hypothesis on the 3-node star
      after its 191 rounds; C10_propose_run computes propose + persist + 251 rounds: entry 6
      with data [42] is in all three logs and committed everywhere.
      HAND-OUT (remark, not re-proved here): once the commit index has moved, RawNode::ready
      hands the application exactly the committed, persisted, not yet applied entries
      (C07_handout_range, C07_handout_abs, C07_handout_persisted_only, C07_handout_bound),
      so the new entry is handed out on every member at its next Ready.

   NOT PROVED (beyond the items marked above).
   * the probabilistic clause: eventually exactly one leader (see top);
   * whole-cluster convergence BEYOND the star: the followers only talk to the leader
     (no second leader, no candidate, no message between followers);
   * the proposal clause with a majority only (a voter that never answers): the commit
     argument used is the all-voters form; with several proposals in flight; with an
     uncommitted-size limit; with conf-change entries; the equality of the entry DATA on
     the followers (only index and term are tracked); the RawNode-level schedule
     (Ready / persist / advance / apply) - the hand-out is cited from C07, not composed
     with the run;
   * the pair / star theorems with messages already in flight at the start, with
     batch_append, with check_quorum, with pending read-index requests, with a compacted
     leader log (snapshot path inside the run), with a pending window shrink;
   * "within a bounded number of ELECTION timeouts": the bounds are in rounds (ticks),
     quadratic in last_index; no attempt at the tight bound. *)
From RV Require Import Base.Prelude Base.IdSet M.Util M.Proto M.MemStorage M.MemStorageProofs
  M.Inflights M.InflightsProofs M.Progress M.RaftLog M.RaftLogProofs M.Quorum M.ConfChange
  M.Msg M.Raft M.RaftProofs M.RaftProofsC15 M.RaftProofsC09 M.RaftProofsC10 M.RaftProofsC10Pair
  M.RaftProofsC10Star M.RaftProofsC10Prop.
From RV Require M.QuorumProofs.
From RecordUpdate Require Import RecordSet.
Import RecordSetNotations.
Local Open Scope N_scope.

(* ---- 1. a heartbeat response un-sticks the peer ---- *)
(* handle_heartbeat_response, decomposed: window step, send step, read-index tail *)
Theorem C10_heartbeat_response_eq :
  forall r m,
  handle_heartbeat_response r m =
  match get_pr r (m_from m) with
  | None => Ok r
  | Some pr0 =>
      pr1 <- hb_window (hb_pr pr0 (m_commit m)) ;;
      r1 <- (if hb_wants_send r pr1 then
               y <- maybe_send_append r (m_from m) pr1 true ;;
               let '(r', pr', _) := y in Ok (put_pr r' (m_from m) pr')
             else Ok (put_pr r (m_from m) pr1)) ;;
      hb_ro_tail r1 m
  end.
Proof. exact heartbeat_response_eq. Qed.
Print Assumptions C10_heartbeat_response_eq.

(* the full per-step statement (every state, every message, tracked peer) *)
Theorem C10_heartbeat_response_unsticks :
  forall r m pr0 r',
  get_pr r (m_from m) = Some pr0 ->
  handle_heartbeat_response r m = Ok r' ->
  exists pr1 r1 pr' b,
    hb_window (hb_pr pr0 (m_commit m)) = Ok pr1 /\
    paused pr1 = false /\ recent_active pr1 = true /\
    matched pr1 = matched pr0 /\ next_idx pr1 = next_idx pr0 /\ pr_state pr1 = pr_state pr0 /\
    pending_request_snapshot pr1 = pending_request_snapshot pr0 /\
    (* the window *)
    (pr_state pr0 = Replicate -> Inflights.full (ins pr0) = true ->
       Inflights.free_first_one (ins pr0) = Ok (ins pr1) /\
       ((0 < count (ins pr0))%nat -> (count (ins pr1) < count (ins pr0))%nat) /\
       (incoming_cap (ins pr0) = None -> (0 < cap (ins pr0))%nat -> is_paused pr1 = false)) /\
    (pr_state pr0 = Replicate -> Inflights.full (ins pr0) = false -> is_paused pr1 = false) /\
    (pr_state pr0 = Probe -> is_paused pr1 = false) /\
    (* the send *)
    (if (matched pr0 <? last_index (r_log r)) || negb (pending_request_snapshot pr0 =? 0)
     then maybe_send_append r (m_from m) pr1 true = Ok (r1, pr', b)
     else r1 = r /\ pr' = pr1 /\ b = false) /\
    msgs_only r r1 /\ matched pr' = matched pr0 /\
    (* the result *)
    get_pr r' (m_from m) = Some pr' /\
    (forall id, id <> m_from m -> get_pr r' id = get_pr r id) /\
    ro_only (put_pr r1 (m_from m) pr') r' /\
    exists extra, r_msgs r' = r_msgs r1 ++ extra /\ Forall is_read_resp extra /\
      (m_context m = [] \/ ro_option (r_read_only r) <> 0 -> extra = []).
Proof. exact heartbeat_response_unsticks. Qed.
Print Assumptions C10_heartbeat_response_unsticks.

(* Inflights: free_first_one on a full window without pending shrink frees room; and under the representation invariant with increasing contents exactly the head *)
Theorem C10_free_first_one_spec :
  forall s s',
  free_first_one s = Ok s' -> (0 < count s)%nat ->
  exists i, (1 <= i <= count s)%nat /\ count s' = (count s - i)%nat /\
    ((count s - i <> 0)%nat -> cap s' = cap s /\ incoming_cap s' = incoming_cap s) /\
    ((count s - i = 0)%nat -> incoming_cap s' = None /\
        cap s' = match incoming_cap s with Some ic => ic | None => cap s end).
Proof. exact free_first_one_spec. Qed.
Print Assumptions C10_free_first_one_spec.

Theorem C10_free_first_one_unfull :
  forall s s',
  free_first_one s = Ok s' -> full s = true -> incoming_cap s = None -> (0 < cap s)%nat ->
  full s' = false /\ (count s' < count s)%nat.
Proof. exact free_first_one_unfull. Qed.
Print Assumptions C10_free_first_one_unfull.

Theorem C10_free_first_one_exactly_one :
  forall s,
  InflightsProofs.Inv s -> incr (InflightsProofs.abs s) ->
  exists s', free_first_one s = Ok s' /\ InflightsProofs.Inv s' /\
    InflightsProofs.abs s' = tl (InflightsProofs.abs s).
Proof. exact free_first_one_exactly_one. Qed.
Print Assumptions C10_free_first_one_exactly_one.

(* probe_resumes: a Probe peer (paused or not) answering a heartbeat gets its append in the same step *)
Theorem C10_probe_resumes :
  forall r m pr0 ents t r',
  get_pr r (m_from m) = Some pr0 -> pr_state pr0 = Probe ->
  matched pr0 < last_index (r_log r) -> pending_request_snapshot pr0 = 0 ->
  next_idx pr0 <> 0 ->
  log_entries (r_log r) (next_idx pr0) (Some (r_max_msg_size r)) = Ok (SOk ents) ->
  RaftLog.term (r_log r) (next_idx pr0 - 1) = Ok (SOk t) ->
  r_batch_append r = false ->
  handle_heartbeat_response r m = Ok r' ->
  let pr := hb_pr pr0 (m_commit m) in
  exists extra,
    r_msgs r' = r_msgs r ++ app_msg r (m_from m) pr t ents :: extra /\
    Forall is_read_resp extra /\
    get_pr r' (m_from m) = Some (match ents with [] => pr | _ => pause pr end).
Proof. exact probe_resumes. Qed.
Print Assumptions C10_probe_resumes.

Theorem C10_probe_resumes_snapshot :
  forall r m pr0 sn r',
  get_pr r (m_from m) = Some pr0 -> pr_state pr0 = Probe ->
  (matched pr0 < last_index (r_log r) \/ pending_request_snapshot pr0 <> 0) ->
  (pending_request_snapshot pr0 <> 0 \/
   (exists e, log_entries (r_log r) (next_idx pr0) (Some (r_max_msg_size r)) = Ok (SErr e) /\
              e <> LogTemporarilyUnavailable /\ next_idx pr0 <> 0 /\
              exists x, RaftLog.term (r_log r) (next_idx pr0 - 1) = Ok x) \/
   (exists ents e, log_entries (r_log r) (next_idx pr0) (Some (r_max_msg_size r)) = Ok (SOk ents) /\
              next_idx pr0 <> 0 /\ RaftLog.term (r_log r) (next_idx pr0 - 1) = Ok (SErr e))) ->
  raft_snapshot r (pending_request_snapshot pr0) (m_from m) = Ok (SOk sn) -> s_index sn <> 0 ->
  handle_heartbeat_response r m = Ok r' ->
  exists extra,
    r_msgs r' = r_msgs r ++ snap_msg r (m_from m) sn :: extra /\
    Forall is_read_resp extra /\
    get_pr r' (m_from m) = Some (become_snapshot (hb_pr pr0 (m_commit m)) (s_index sn)).
Proof. exact probe_resumes_snapshot. Qed.
Print Assumptions C10_probe_resumes_snapshot.

(* what maybe_send_append can do at all (also with batching) *)
Theorem C10_maybe_send_append_facts :
  forall r to pr ae r' pr' b,
  maybe_send_append r to pr ae = Ok (r', pr', b) ->
  msgs_only r r' /\ matched pr' = matched pr /\
  (b = false -> r' = r /\ pr' = pr) /\
  (b = true -> is_paused pr = false /\
     exists mm, In mm (r_msgs r') /\ m_to mm = to /\
                (m_type mm = MsgAppend \/ m_type mm = MsgSnapshot)).
Proof. exact maybe_send_append_facts. Qed.
Print Assumptions C10_maybe_send_append_facts.


(* ---- 2. a rejection repairs next_idx ---- *)
Theorem C10_append_reject_eq :
  forall r m pr0,
  get_pr r (m_from m) = Some pr0 -> m_reject m = true ->
  handle_append_response r m =
  (npi <- reject_npi r m ;;
   let '(pr1, dec) := maybe_decr_to (ack_pr pr0 (m_commit m)) (m_index m) npi (m_request_snapshot m) in
   if dec then
     send_append_to
       (put_pr r (m_from m) (if pstate_eqb (pr_state pr1) Replicate then become_probe pr1 else pr1))
       (m_from m)
   else Ok (put_pr r (m_from m) pr1)).
Proof. exact append_reject_eq. Qed.
Print Assumptions C10_append_reject_eq.

Theorem C10_maybe_decr_to_probe :
  forall p rej hint,
  pr_state p <> Replicate ->
  maybe_decr_to p rej hint 0 =
  if (next_idx p =? 0) || negb (next_idx p - 1 =? rej) then (p, false)
  else (resume (set_next_idx p (N.max (N.min rej (hint + 1)) (matched p + 1))), true).
Proof. exact maybe_decr_to_probe. Qed.
Print Assumptions C10_maybe_decr_to_probe.

Theorem C10_maybe_decr_to_replicate :
  forall p rej hint,
  pr_state p = Replicate ->
  maybe_decr_to p rej hint 0 =
  if rej <=? matched p then (p, false) else (set_next_idx p (matched p + 1), true).
Proof. exact maybe_decr_to_replicate. Qed.
Print Assumptions C10_maybe_decr_to_replicate.

Theorem C10_reject_repairs_next_probe :
  forall r m pr0 npi,
  get_pr r (m_from m) = Some pr0 -> m_reject m = true -> m_request_snapshot m = 0 ->
  pr_state pr0 <> Replicate -> reject_npi r m = Ok npi ->
  (next_idx pr0 <> 0 /\ next_idx pr0 - 1 = m_index m ->
     handle_append_response r m =
     send_append_to (put_pr r (m_from m) (repaired_probe pr0 (m_commit m) (m_index m) npi)) (m_from m)) /\
  (next_idx pr0 = 0 \/ next_idx pr0 - 1 <> m_index m ->
     handle_append_response r m = Ok (put_pr r (m_from m) (ack_pr pr0 (m_commit m)))).
Proof. exact reject_repairs_next_probe. Qed.
Print Assumptions C10_reject_repairs_next_probe.

Theorem C10_reject_repairs_next_replicate :
  forall r m pr0 npi,
  get_pr r (m_from m) = Some pr0 -> m_reject m = true -> m_request_snapshot m = 0 ->
  pr_state pr0 = Replicate -> reject_npi r m = Ok npi ->
  (matched pr0 < m_index m ->
     handle_append_response r m =
     send_append_to (put_pr r (m_from m) (repaired_replicate pr0 (m_commit m))) (m_from m)) /\
  (m_index m <= matched pr0 ->
     handle_append_response r m = Ok (put_pr r (m_from m) (ack_pr pr0 (m_commit m)))).
Proof. exact reject_repairs_next_replicate. Qed.
Print Assumptions C10_reject_repairs_next_replicate.

(* the measure: next_idx stays above matched, never grows, and strictly decreases while next_idx > matched + 1 *)
Theorem C10_repaired_next_bounds :
  forall pr0 rej npi,
  next_idx pr0 <> 0 -> next_idx pr0 - 1 = rej ->
  matched pr0 < repaired_next pr0 rej npi /\
  repaired_next pr0 rej npi <= N.max rej (matched pr0 + 1) /\
  (matched pr0 + 1 < next_idx pr0 -> repaired_next pr0 rej npi < next_idx pr0) /\
  (next_idx pr0 <= matched pr0 + 1 -> repaired_next pr0 rej npi = matched pr0 + 1) /\
  (* the probed index next-1 never goes above the leader-side hint, except to stay
     right after [matched] *)
  (repaired_next pr0 rej npi - 1 <= npi \/ repaired_next pr0 rej npi = matched pr0 + 1).
Proof. exact repaired_next_bounds. Qed.
Print Assumptions C10_repaired_next_bounds.

Theorem C10_reject_reprobes :
  forall r m pr0 npi ents t,
  get_pr r (m_from m) = Some pr0 -> m_reject m = true -> m_request_snapshot m = 0 ->
  pr_state pr0 = Probe -> reject_npi r m = Ok npi ->
  next_idx pr0 <> 0 -> next_idx pr0 - 1 = m_index m ->
  pending_request_snapshot pr0 = 0 ->
  let pr2 := repaired_probe pr0 (m_commit m) (m_index m) npi in
  log_entries (r_log r) (next_idx pr2) (Some (r_max_msg_size r)) = Ok (SOk ents) ->
  RaftLog.term (r_log r) (next_idx pr2 - 1) = Ok (SOk t) ->
  r_batch_append r = false ->
  handle_append_response r m =
  Ok (put_pr (r <| r_msgs := r_msgs r ++ [app_msg r (m_from m) pr2 t ents] |>) (m_from m)
             (match ents with [] => pr2 | _ => pause pr2 end)).
Proof. exact reject_reprobes. Qed.
Print Assumptions C10_reject_reprobes.

(* the hints (RaftLog find_conflict_by_term_spec), leader side and follower side *)
Theorem C10_reject_npi_spec :
  forall rw r m npi,
  RepInv rw (r_log r) -> m_reject m = true -> reject_npi r m = Ok npi ->
  npi <= m_reject_hint m /\
  (0 < m_log_term m -> m_reject_hint m <= last_index (r_log r) ->
     (forall j, npi < j <= m_reject_hint m -> above_term (abs (r_log r)) (m_log_term m) j) /\
     match ll_term (abs (r_log r)) npi with
     | SOk t' => t' <= m_log_term m
     | SErr _ => True
     end).
Proof. exact reject_npi_spec. Qed.
Print Assumptions C10_reject_npi_spec.

Theorem C10_follower_reject_hint :
  forall rw r m r',
  RepInv rw (r_log r) -> r_pending_request_snapshot r = 0 ->
  committed (r_log r) <= m_index m ->
  ll_match (abs (r_log r)) (m_index m) (m_log_term m) = false ->
  handle_append_entries r m = Ok r' ->
  exists hi ht,
    r' = r <| r_msgs := r_msgs r ++
           [msg_default <| m_to := m_from m |> <| m_type := MsgAppendResponse |>
              <| m_index := m_index m |> <| m_reject := true |> <| m_reject_hint := hi |>
              <| m_log_term := ht |> <| m_commit := committed (r_log r) |>
              <| m_from := r_id r |> <| m_term := r_term r |>] |> /\
    hi <= N.min (m_index m) (last_index (r_log r)) /\
    ll_term (abs (r_log r)) hi = SOk ht /\ ht <= m_log_term m /\
    (forall j, hi < j <= N.min (m_index m) (last_index (r_log r)) ->
       above_term (abs (r_log r)) (m_log_term m) j).
Proof. exact follower_reject_hint. Qed.
Print Assumptions C10_follower_reject_hint.


(* ---- 3. no Progress state is absorbing ---- *)
Theorem C10_append_ack_eq :
  forall r m pr0,
  get_pr r (m_from m) = Some pr0 -> m_reject m = false ->
  handle_append_response r m =
  let pr := ack_pr pr0 (m_commit m) in
  if matched pr0 <? m_index m then
    pr2 <- acked_pr pr (m_index m) ;;
    ack_tail (put_pr r (m_from m) pr2) m (is_paused pr)
  else Ok (put_pr r (m_from m) (fst (maybe_update pr (m_index m)))).
Proof. exact append_ack_eq. Qed.
Print Assumptions C10_append_ack_eq.

Theorem C10_ack_raises_matched :
  forall r m pr0 r',
  get_pr r (m_from m) = Some pr0 -> m_reject m = false -> matched pr0 < m_index m ->
  handle_append_response r m = Ok r' ->
  exists pr2 pr',
    acked_pr (ack_pr pr0 (m_commit m)) (m_index m) = Ok pr2 /\
    ack_tail (put_pr r (m_from m) pr2) m (is_paused pr0) = Ok r' /\
    match pr_state pr0 with
    | Probe => pr_state pr2 = Replicate /\ next_idx pr2 = m_index m + 1
    | Replicate => pr_state pr2 = Replicate
    | Snapshot => if pending_snapshot pr0 <=? m_index m
                  then pr_state pr2 = Probe /\ next_idx pr2 = m_index m + 1 /\ paused pr2 = false
                  else pr_state pr2 = Snapshot
    end /\
    get_pr r' (m_from m) = Some pr' /\ matched pr' = m_index m /\
    (forall id p, id <> m_from m -> get_pr r id = Some p ->
       exists p', get_pr r' id = Some p' /\ matched p' = matched p).
Proof. exact ack_raises_matched. Qed.
Print Assumptions C10_ack_raises_matched.

Theorem C10_snapshot_state_exits :
  forall r m pr0,
  get_pr r (m_from m) = Some pr0 -> pr_state pr0 = Snapshot ->
  handle_snapshot_status r m = Ok (put_pr r (m_from m) (resumed_pr pr0 (m_reject m))) /\
  pr_state (resumed_pr pr0 (m_reject m)) = Probe /\
  paused (resumed_pr pr0 (m_reject m)) = true /\
  pending_request_snapshot (resumed_pr pr0 (m_reject m)) = 0 /\
  matched (resumed_pr pr0 (m_reject m)) = matched pr0 /\
  matched pr0 < next_idx (resumed_pr pr0 (m_reject m)) /\
  next_idx (resumed_pr pr0 (m_reject m)) =
    (if m_reject m then matched pr0 + 1 else N.max (matched pr0 + 1) (pending_snapshot pr0 + 1)).
Proof. exact snapshot_state_exits. Qed.
Print Assumptions C10_snapshot_state_exits.

Theorem C10_unreachable_leaves_replicate :
  forall r m pr0,
  get_pr r (m_from m) = Some pr0 ->
  handle_unreachable r m =
  Ok (match pr_state pr0 with
      | Replicate => put_pr r (m_from m) (become_probe pr0)
      | _ => r
      end) /\
  (pr_state pr0 = Replicate ->
     pr_state (become_probe pr0) = Probe /\ next_idx (become_probe pr0) = matched pr0 + 1 /\
     paused (become_probe pr0) = false /\ matched (become_probe pr0) = matched pr0).
Proof. exact unreachable_leaves_replicate. Qed.
Print Assumptions C10_unreachable_leaves_replicate.

Theorem C10_no_progress_state_absorbing :
  forall r pr0 from,
  get_pr r from = Some pr0 ->
  match pr_state pr0 with
  | Snapshot =>
      forall m, m_from m = from ->
        exists r' pr', handle_snapshot_status r m = Ok r' /\ get_pr r' from = Some pr' /\
                       pr_state pr' = Probe
  | Replicate =>
      forall m, m_from m = from ->
        exists r' pr', handle_unreachable r m = Ok r' /\ get_pr r' from = Some pr' /\
                       pr_state pr' = Probe
  | Probe =>
      forall m r', m_from m = from -> m_reject m = false -> matched pr0 < m_index m ->
        handle_append_response r m = Ok r' ->
        exists pr2, acked_pr (ack_pr pr0 (m_commit m)) (m_index m) = Ok pr2 /\
                    pr_state pr2 = Replicate /\
                    ack_tail (put_pr r from pr2) m (paused pr0) = Ok r'
  end.
Proof. exact no_progress_state_absorbing. Qed.
Print Assumptions C10_no_progress_state_absorbing.


(* ---- 4. the election timeout fires ---- *)
Theorem C10_tick_election_waits :
  forall r,
  r_state r <> Leader ->
  r_election_elapsed r + 1 < r_randomized_election_timeout r \/ r_promotable r = false ->
  tick r = Ok (r <| r_election_elapsed := r_election_elapsed r + 1 |>, false).
Proof. exact tick_election_waits. Qed.
Print Assumptions C10_tick_election_waits.

Theorem C10_tick_election_fires :
  forall r,
  r_state r <> Leader -> r_promotable r = true ->
  r_randomized_election_timeout r <= r_election_elapsed r + 1 ->
  tick r = (r' <- hup (r <| r_election_elapsed := 0 |>) false ;; Ok (r', true)).
Proof. exact tick_election_fires. Qed.
Print Assumptions C10_tick_election_fires.

Theorem C10_election_timeout_fires :
  forall n,
  forall r,
  r_state r <> Leader -> r_promotable r = true ->
  r_election_elapsed r + N.of_nat (S n) =
    N.max (r_randomized_election_timeout r) (r_election_elapsed r + 1) ->
  ticks (S n) r = hup (r <| r_election_elapsed := 0 |>) false /\
  forall k, (k <= n)%nat ->
    ticks k r = Ok (r <| r_election_elapsed := r_election_elapsed r + N.of_nat k |>).
Proof. exact election_timeout_fires. Qed.
Print Assumptions C10_election_timeout_fires.

Theorem C10_election_timeout_bound :
  forall r,
  r_state r <> Leader -> r_promotable r = true ->
  exists n, (N.of_nat n <= N.max 1 (r_randomized_election_timeout r)) /\ (1 <= n)%nat /\
            ticks n r = hup (r <| r_election_elapsed := 0 |>) false.
Proof. exact election_timeout_bound. Qed.
Print Assumptions C10_election_timeout_bound.

Theorem C10_randomized_timeout_range :
  forall r t r',
  reset r t = Ok r' ->
  exists d ds, r_draws r = d :: ds /\ r_randomized_election_timeout r' = d /\ r_draws r' = ds /\
    r_election_elapsed r' = 0 /\ r_heartbeat_elapsed r' = 0 /\
    r_min_election_timeout r' = r_min_election_timeout r /\
    r_max_election_timeout r' = r_max_election_timeout r.
Proof. exact randomized_timeout_range. Qed.
Print Assumptions C10_randomized_timeout_range.

Theorem C10_hup_campaigns :
  forall r r',
  is_leader r = false ->
  r_promotable r = true ->
  hup_scan r false ->
  hup r false = Ok r' ->
  (r_state r' = PreCandidate /\ r_pre_vote r = true /\ r_term r' = r_term r) \/
  (r_state r' = Candidate /\ r_term r' = r_term r + 1 /\ r_vote r' = r_id r) \/
  (r_state r' = Leader /\ r_term r' = r_term r + 1).
Proof. exact hup_campaigns. Qed.
Print Assumptions C10_hup_campaigns.


(* ---- 5. check-quorum step-down and leader heartbeats ---- *)
Theorem C10_active_quorum_spec :
  forall t self,
  prs_has_quorum t (active_ids t self) = true <->
  (incoming (t_conf t) = [] \/
   (majority (length (incoming (t_conf t))) <=
    QuorumProofs.count (fun v => Quorum.mem v (active_ids t self)) (incoming (t_conf t)))%nat) /\
  (outgoing (t_conf t) = [] \/
   (majority (length (outgoing (t_conf t))) <=
    QuorumProofs.count (fun v => Quorum.mem v (active_ids t self)) (outgoing (t_conf t)))%nat).
Proof. exact active_quorum_spec. Qed.
Print Assumptions C10_active_quorum_spec.

Theorem C10_checkquorum_stepdown :
  forall r,
  r_state r = Leader -> r_election_timeout r <= r_election_elapsed r + 1 ->
  tick r =
  if r_check_quorum r then
    if prs_has_quorum (r_prs r) (active_ids (r_prs r) (r_id r)) then
      beat_phase (after_check r true) true
    else
      r' <- become_follower
              (ticked r <| r_election_elapsed := 0 |> <| r_prs := clear_active (r_prs r) (r_id r) |>)
              (r_term r) INVALID_ID ;;
      Ok (r', true)
  else beat_phase (after_check r false) false.
Proof. exact checkquorum_stepdown. Qed.
Print Assumptions C10_checkquorum_stepdown.

Theorem C10_checkquorum_stepdown_follower :
  forall r r' b,
  r_state r = Leader -> r_election_timeout r <= r_election_elapsed r + 1 ->
  r_check_quorum r = true ->
  prs_has_quorum (r_prs r) (active_ids (r_prs r) (r_id r)) = false ->
  tick r = Ok (r', b) ->
  r_state r' = Follower /\ r_term r' = r_term r /\ r_leader_id r' = INVALID_ID /\ b = true.
Proof. exact checkquorum_stepdown_follower. Qed.
Print Assumptions C10_checkquorum_stepdown_follower.

Theorem C10_checkquorum_stays_leader :
  forall r r' b,
  r_state r = Leader -> r_election_timeout r <= r_election_elapsed r + 1 ->
  r_check_quorum r = true ->
  prs_has_quorum (r_prs r) (active_ids (r_prs r) (r_id r)) = true ->
  tick r = Ok (r', b) ->
  r_state r' = Leader /\ r_term r' = r_term r /\ r_election_elapsed r' = 0 /\
  r_lead_transferee r' = None /\ b = true /\
  forall id, get_pr r' id =
             option_map (fun p => set_recent_active p (id =? r_id r)) (get_pr r id).
Proof. exact checkquorum_stays_leader. Qed.
Print Assumptions C10_checkquorum_stays_leader.

Theorem C10_leader_heartbeats :
  forall r,
  r_state r = Leader -> r_election_elapsed r + 1 < r_election_timeout r ->
  tick r = beat_phase (ticked r) false.
Proof. exact leader_heartbeats. Qed.
Print Assumptions C10_leader_heartbeats.

Theorem C10_bcast_heartbeat_eq :
  forall r,
  bcast_heartbeat r =
  Ok (r <| r_msgs := r_msgs r ++
        map (hb_msg r (ro_last_pending_request_ctx (r_read_only r)))
            (filter (fun id => negb (id =? r_id r)) (pids (t_progress (r_prs r)))) |>).
Proof. exact bcast_heartbeat_eq. Qed.
Print Assumptions C10_bcast_heartbeat_eq.


(* ---- 6. pair convergence ---- *)
Theorem C10_pair_convergence :
    forall (L F : raft) (rwl rwf : bool) (pr : progress) (a : N) (N0 : nat) (L' F' : raft),
  (* the leader *)
  r_state L = Leader -> r_term L <> 0 -> r_id L <> r_id F ->
  RepInv rwl (r_log L) -> (forall e, In e (ll_ents (abs (r_log L))) -> e_term e <> 0) ->
  r_batch_append L = false -> r_lead_transferee L = None -> r_check_quorum L = false ->
  ro_queue (r_read_only L) = [] -> 1 <= r_heartbeat_timeout L ->
  to_peer (r_id F) (r_msgs L) = [] ->
  (* the leader's bookkeeping for the follower *)
  get_pr L (r_id F) = Some pr -> (pr_state pr = Probe \/ pr_state pr = Replicate) ->
  matched pr < next_idx pr -> next_idx pr <= last_index (r_log L) + 1 ->
  pending_request_snapshot pr = 0 ->
  incoming_cap (ins pr) = None -> (0 < cap (ins pr))%nat ->
  ll_base (abs (r_log L)) <= matched pr ->
  (exists t, ll_term (abs (r_log L)) (matched pr) = SOk t) ->
  (* the follower *)
  r_state F = Follower -> r_term F = r_term L -> RepInv rwf (r_log F) ->
  r_pending_request_snapshot F = 0 -> r_msgs F = [] ->
  Agree (abs (r_log L)) (abs (r_log F)) (matched pr) a -> committed (r_log F) <= a ->
  (r_promotable F = false \/
   r_election_elapsed F + r_heartbeat_timeout L + 1 < r_randomized_election_timeout F) ->
  (* the run *)
  (N.to_nat (r_heartbeat_timeout L + 2) *
   N.to_nat (pair_measure_bound (last_index (r_log L)) (matched pr)) <= N0)%nat ->
  rounds N0 L F = Ok (L', F') ->
  exists pr',
    get_pr L' (r_id F) = Some pr' /\ matched pr' = last_index (r_log L) /\
    last_index (r_log L') = last_index (r_log L) /\
    Agree (abs (r_log L)) (abs (r_log F')) (matched pr) (last_index (r_log L)) /\
    r_state L' = Leader /\ r_term L' = r_term L /\ r_state F' = Follower /\ r_term F' = r_term L.
Proof. exact pair_convergence. Qed.
Print Assumptions C10_pair_convergence.


(* ---- 7. star convergence and the commit clause ---- *)
(* the independence lemma, and the refutation of its stronger wording *)
Theorem C10_star_frame :
    forall (LL : LL) (T l f lo : N) (rwl : bool) (l0 : raft_log) (b : N)
         (L : raft) (pr : progress) (m : msg) (L' : raft) (c : N),
  LeaderLog LL -> ll_base LL <= lo -> (exists t, ll_term LL lo = SOk t) -> T <> 0 -> l <> f ->
  RepInv rwl l0 -> abs l0 = LL ->
  LCore T l l0 L -> get_pr L f = Some pr -> PrInv LL lo b pr ->
  m_term m = T -> m_from m <> f ->
  (m_type m = MsgAppendResponse \/ (m_type m = MsgHeartbeatResponse /\ m_context m = [])) ->
  step L m = Ok (L', c) ->
  exists pr',
    get_pr L' f = Some pr' /\ PrInv LL lo b pr' /\
    pr_state pr' = pr_state pr /\ matched pr' = matched pr /\
    (pr_state pr = Probe -> next_idx pr' = next_idx pr) /\
    lfr L L' /\ LCore T l l0 L' /\
    exists new, r_msgs L' = r_msgs L ++ new /\
                Forall (fun x => m_to x = f -> snd_app LL T l f lo x) new.
Proof. exact star_frame. Qed.
Print Assumptions C10_star_frame.

Theorem C10_other_response_moves_next_refuted :
    exists L' p3 p3',
    step rf_L rf_m = Ok (L', E_OK) /\ m_from rf_m = 2 /\
    get_pr rf_L 3 = Some p3 /\ get_pr L' 3 = Some p3' /\
    next_idx p3 = 3 /\ next_idx p3' = 6 /\ count (ins p3) = 0%nat /\ count (ins p3') = 1%nat /\
    matched p3' = matched p3 /\ pr_state p3' = pr_state p3 /\ committed (r_log L') = 5.
Proof. exact other_response_moves_next_refuted. Qed.
Print Assumptions C10_other_response_moves_next_refuted.

(* what a leader does with a response as far as log and matched are concerned *)
Theorem C10_leader_resp_cases :
  forall T L m L' c,
  T <> 0 -> r_state L = Leader -> r_term L = T -> m_term m = T ->
  (m_type m = MsgAppendResponse \/ (m_type m = MsgHeartbeatResponse /\ m_context m = [])) ->
  step L m = Ok (L', c) ->
  conf_of L' = conf_of L /\
  ((r_log L' = r_log L /\ same_matched L L') \/
   (exists pg pr2 r1 cmt,
      get_pr L (m_from m) = Some pg /\ matched pg < matched pr2 /\
      (forall id p, id <> m_from m -> get_pr L id = Some p ->
                    get_pr (put_pr L (m_from m) pr2) id = Some p) /\
      maybe_commit (put_pr L (m_from m) pr2) = Ok (r1, cmt) /\
      r_log L' = r_log r1 /\ same_matched (put_pr L (m_from m) pr2) L')).
Proof. exact leader_resp_cases. Qed.
Print Assumptions C10_leader_resp_cases.

(* the quorum index when every voter has the same matched; the commit invariant of one step *)
Theorem C10_mci_all_at :
  forall r q,
  all_voters_at r q -> incoming (conf_of r) <> [] -> q <= u64_max ->
  fst (prs_maximal_committed_index (r_prs r)) = q.
Proof. exact mci_all_at. Qed.
Print Assumptions C10_mci_all_at.

Theorem C10_leader_step_CommitInv :
  forall T last L m L' c,
  T <> 0 -> r_state L = Leader -> r_term L = T -> m_term m = T ->
  (m_type m = MsgAppendResponse \/ (m_type m = MsgHeartbeatResponse /\ m_context m = [])) ->
  last_index (r_log L) = last -> last <= u64_max ->
  RaftLog.term (r_log L) last = Ok (SOk T) ->
  incoming (conf_of L) <> [] ->
  CommitInv last L -> step L m = Ok (L', c) ->
  CommitInv last L' /\ committed (r_log L) <= committed (r_log L').
Proof. exact leader_step_CommitInv. Qed.
Print Assumptions C10_leader_step_CommitInv.

(* a follower's commit index under same-term appends and heartbeats *)
Theorem C10_follower_steps_commit :
  forall T,
  forall q F F',
  T <> 0 -> r_state F = Follower -> r_term F = T ->
  Forall (fun m => m_term m = T /\ (m_type m = MsgAppend \/ m_type m = MsgHeartbeat)) q ->
  steps F q = Ok F' ->
  committed (r_log F) <= committed (r_log F') /\
  (forall x, In x q -> m_type x = MsgHeartbeat -> m_commit x <= committed (r_log F')).
Proof. exact follower_steps_commit. Qed.
Print Assumptions C10_follower_steps_commit.

Theorem C10_star_convergence :
    forall (L : raft) (Fs : list raft) (rwl rwf : bool) (N0 : nat) (L' : raft) (Fs' : list raft),
  star_leader L rwl -> Fs <> [] -> NoDup (map r_id Fs) -> Forall (star_start L rwf) Fs ->
  (forall F, In F Fs ->
     (N.to_nat (r_heartbeat_timeout L + 2) *
      N.to_nat (pair_measure_bound (last_index (r_log L)) (start_matched L (r_id F))) <= N0)%nat) ->
  star_rounds N0 L Fs = Ok (L', Fs') ->
  Forall2 (star_done L L') Fs Fs' /\
  r_state L' = Leader /\ r_term L' = r_term L /\ last_index (r_log L') = last_index (r_log L).
Proof. exact star_convergence. Qed.
Print Assumptions C10_star_convergence.

Theorem C10_star_commit_all :
    forall (L : raft) (Fs : list raft) (rwl rwf : bool) (pl : progress) (N0 K : nat)
         (L' : raft) (Fs' : list raft),
  star_leader L rwl -> Fs <> [] -> NoDup (map r_id Fs) -> Forall (star_start L rwf) Fs ->
  (forall F, In F Fs ->
     (N.to_nat (r_heartbeat_timeout L + 2) *
      N.to_nat (pair_measure_bound (last_index (r_log L)) (start_matched L (r_id F))) <= N0)%nat) ->
  (* commit *)
  ll_term (abs (r_log L)) (last_index (r_log L)) = SOk (r_term L) ->
  incoming (conf_of L) <> [] ->
  (forall v, In v (incoming (conf_of L)) \/ In v (outgoing (conf_of L)) ->
             v = r_id L \/ In v (map r_id Fs)) ->
  get_pr L (r_id L) = Some pl -> matched pl = last_index (r_log L) ->
  CommitInv (last_index (r_log L)) L ->
  (N.to_nat (r_heartbeat_timeout L + 1) <= K)%nat ->
  star_rounds (N0 + K) L Fs = Ok (L', Fs') ->
  committed (r_log L') = last_index (r_log L) /\
  Forall2 (fun F F' => star_done L L' F F' /\ committed (r_log F') = last_index (r_log L)) Fs Fs'.
Proof. exact star_commit_all. Qed.
Print Assumptions C10_star_commit_all.


(* ---- 8. the proposal clause ---- *)
(* Raft::step on the proposal; the leader through propose + persist; its own Progress after the report *)
Theorem C10_step_propose :
  forall L d ps,
  r_state L = Leader -> get_pr L (r_id L) = Some ps -> r_lead_transferee L = None ->
  r_max_uncommitted_size L = u64_max ->
  step L (prop_msg d) =
  (x <- log_append (r_log L) [new_ent L d] ;;
   r3 <- bcast_append (L <| r_log := fst x |>) ;; Ok (r3, E_OK)).
Proof. exact step_propose. Qed.
Print Assumptions C10_step_propose.

Theorem C10_propose_persist_parts :
  forall rwl L d ps L2,
  r_state L = Leader -> get_pr L (r_id L) = Some ps -> r_lead_transferee L = None ->
  r_max_uncommitted_size L = u64_max ->
  RepInv rwl (r_log L) -> u_snapshot (unst (r_log L)) = None ->
  committed (r_log L) <= last_index (r_log L) -> last_index (r_log L) + 1 < u64_max ->
  r_term L <> 0 ->
  propose_persist L d = Ok L2 ->
  let LL1 := ll_append (abs (r_log L)) [new_ent L d] in
  let last1 := last_index (r_log L) + 1 in
  exists lg1 L1 lg2,
    RepInv rwl lg1 /\ abs lg1 = LL1 /\ committed lg1 = committed (r_log L) /\
    bcast_append (L <| r_log := lg1 |>) = Ok L1 /\ r_log L1 = lg1 /\
    RepInv rwl lg2 /\ abs lg2 = LL1 /\ committed lg2 = committed (r_log L) /\
    maybe_persist lg2 last1 (r_term L) = Ok (set_persisted lg2 last1, true) /\
    RepInv rwl (set_persisted lg2 last1) /\
    on_persist_entries (L1 <| r_log := lg2 |>) last1 (r_term L) = Ok L2.
Proof. exact propose_persist_parts. Qed.
Print Assumptions C10_propose_persist_parts.

Theorem C10_on_persist_own :
  forall r idx t lg r' ps,
  on_persist_entries r idx t = Ok r' ->
  maybe_persist (r_log r) idx t = Ok (lg, true) -> r_state r = Leader ->
  get_pr r (r_id r) = Some ps -> matched ps < idx ->
  (exists p, get_pr r' (r_id r) = Some p /\ matched p = idx) /\
  committed (r_log r') <= N.max (committed lg) (last_index lg).
Proof. exact on_persist_own. Qed.
Print Assumptions C10_on_persist_own.

Theorem C10_star_propose_all :
    forall (L : raft) (Fs : list raft) (rwl rwf : bool) (N0 : nat) (Lc : raft) (Fsc : list raft)
         (pl : progress) (d : list N) (L2 : raft) (N1 K : nat) (L' : raft) (Fs' : list raft),
  (* the first run *)
  star_leader L rwl -> Fs <> [] -> NoDup (map r_id Fs) -> Forall (star_start L rwf) Fs ->
  (forall F, In F Fs ->
     (N.to_nat (r_heartbeat_timeout L + 2) *
      N.to_nat (pair_measure_bound (last_index (r_log L)) (start_matched L (r_id F))) <= N0)%nat) ->
  star_rounds N0 L Fs = Ok (Lc, Fsc) ->
  (* the converged state *)
  RepInv rwl (r_log Lc) -> u_snapshot (unst (r_log Lc)) = None ->
  last_index (r_log L) + 1 < u64_max -> r_max_uncommitted_size Lc = u64_max ->
  (forall Fc, In Fc Fsc -> last_index (r_log Fc) = last_index (r_log L)) ->
  get_pr Lc (r_id L) = Some pl -> matched pl = last_index (r_log L) ->
  incoming (conf_of Lc) <> [] ->
  (forall v, In v (incoming (conf_of Lc)) \/ In v (outgoing (conf_of Lc)) ->
             v = r_id L \/ In v (map r_id Fsc)) ->
  (exists Fc, In Fc Fsc /\
     (In (r_id Fc) (incoming (conf_of Lc)) \/ In (r_id Fc) (outgoing (conf_of Lc)))) ->
  (* the proposal, the persistence, the second run *)
  propose_persist Lc d = Ok L2 ->
  (forall F, In F Fs ->
     (N.to_nat (r_heartbeat_timeout L + 2) *
      N.to_nat (pair_measure_bound (last_index (r_log L) + 1) (start_matched L (r_id F))) <= N1)%nat) ->
  (N.to_nat (r_heartbeat_timeout L + 1) <= K)%nat ->
  star_rounds (N1 + K) L2 Fsc = Ok (L', Fs') ->
  committed (r_log L') = last_index (r_log L) + 1 /\
  Forall2 (prop_done L Lc d L') Fsc Fs'.
Proof. exact star_propose_all. Qed.
Print Assumptions C10_star_propose_all.


(* ---- non-vacuity ---- *)

(* 6: every hypothesis of pair_convergence holds of a concrete pair: leader 1 (term 2,
   entries 1..5 of terms 1,1,2,2,2) and follower 2 (entries 1..3 of terms 1,1,1: entry 3
   diverges, agreement frontier 2), the leader tracking the follower as a PAUSED probe at
   next_idx 5 ... *)
Example C10_pair_convergence_applies_probe :
  forall L' F', rounds 188 (xp_L xp_pr_probe) xp_F = Ok (L', F') ->
  exists pr', get_pr L' 2 = Some pr' /\ matched pr' = 5 /\
    Agree (abs xp_logL) (abs (r_log F')) 0 5 /\ r_state L' = Leader /\ r_state F' = Follower.
Proof. exact xp_converges_probe. Qed.

(* ... or as Replicate with a full window of stale indexes and an optimistic next_idx *)
Example C10_pair_convergence_applies_replicate :
  forall L' F', rounds 188 (xp_L xp_pr_repl) xp_F = Ok (L', F') ->
  exists pr', get_pr L' 2 = Some pr' /\ matched pr' = 5 /\
    Agree (abs xp_logL) (abs (r_log F')) 0 5 /\ r_state L' = Leader /\ r_state F' = Follower.
Proof. exact xp_converges_repl. Qed.

(* and the 188 rounds do run without a panic (computed): matched = 5, the follower's log
   and commit index reach 5 *)
Example C10_pair_run_probe :
  exists L' F' pr', rounds 188 (xp_L xp_pr_probe) xp_F = Ok (L', F') /\
    get_pr L' 2 = Some pr' /\ matched pr' = 5 /\ pr_state pr' = Replicate /\
    last_index (r_log F') = 5 /\ committed (r_log F') = 5.
Proof. exact xp_run_probe. Qed.

Example C10_pair_run_replicate :
  exists L' F' pr', rounds 188 (xp_L xp_pr_repl) xp_F = Ok (L', F') /\
    get_pr L' 2 = Some pr' /\ matched pr' = 5 /\ pr_state pr' = Replicate /\
    last_index (r_log F') = 5 /\ committed (r_log F') = 5.
Proof. exact xp_run_repl. Qed.

(* 1: a paused Probe peer answers a heartbeat: the append goes out in that step *)
Example C10_probe_resumes_example :
  exists r' x,
    handle_heartbeat_response (xp_L xp_pr_probe)
      (msg_default <| m_type := MsgHeartbeatResponse |> <| m_from := 2 |> <| m_to := 1 |>
                   <| m_term := 2 |>) = Ok r' /\
    r_msgs r' = [x] /\ m_type x = MsgAppend /\ m_to x = 2 /\ m_index x = 4 /\ m_log_term x = 2 /\
    length (m_entries x) = 1%nat /\
    option_map paused (get_pr r' 2) = Some true.
Proof. vm_compute. do 2 eexists. repeat split; reflexivity. Qed.

(* 1: a Replicate peer with a full window answers a heartbeat: one slot is freed *)
Example C10_full_window_example :
  exists r' p,
    handle_heartbeat_response (xp_L xp_pr_repl)
      (msg_default <| m_type := MsgHeartbeatResponse |> <| m_from := 2 |> <| m_to := 1 |>
                   <| m_term := 2 |>) = Ok r' /\
    Inflights.full (ins xp_pr_repl) = true /\
    get_pr r' 2 = Some p /\ pr_state p = Replicate /\ length (r_msgs r') = 1%nat.
Proof. vm_compute. do 2 eexists. repeat split; reflexivity. Qed.

(* 2: a non-stale rejection in Probe state lowers next_idx from 5 to 3 (hint 2) and
   re-probes at index 2 in the same step *)
Example C10_reject_example :
  exists r' x p,
    handle_append_response (xp_L (resume xp_pr_probe))
      (msg_default <| m_type := MsgAppendResponse |> <| m_from := 2 |> <| m_to := 1 |>
                   <| m_term := 2 |> <| m_index := 4 |> <| m_reject := true |>
                   <| m_reject_hint := 3 |> <| m_log_term := 1 |>) = Ok r' /\
    r_msgs r' = [x] /\ m_type x = MsgAppend /\ m_index x = 2 /\
    get_pr r' 2 = Some p /\ next_idx p = 3 /\ paused p = true.
Proof. vm_compute. do 3 eexists. repeat split; reflexivity. Qed.

(* 4: fifteen ticks on the follower (randomized timeout 15) end in a campaign *)
Example C10_election_timeout_example :
  exists r', ticks 15 (xp_F <| r_draws := [17] |>) = Ok r' /\ r_state r' = Candidate /\ r_term r' = 3 /\
             r_randomized_election_timeout r' = 17.
Proof. vm_compute. eexists. repeat split; reflexivity. Qed.

(* 5: a leader with check_quorum whose peer has not been heard from steps down at the
   election timeout *)
Example C10_checkquorum_example :
  exists r' b,
    tick (xp_L xp_pr_probe <| r_check_quorum := true |> <| r_election_elapsed := 9 |>
                           <| r_draws := [12] |>) = Ok (r', b) /\
    r_state r' = Follower /\ r_term r' = 2 /\ r_leader_id r' = 0.
Proof. vm_compute. do 2 eexists. repeat split; reflexivity. Qed.

(* 5: a leader tick that reaches heartbeat_timeout queues the heartbeat *)
Example C10_heartbeat_example :
  exists r' b x,
    tick (xp_L xp_pr_probe <| r_heartbeat_elapsed := 1 |>) = Ok (r', b) /\
    r_msgs r' = [x] /\ m_type x = MsgHeartbeat /\ m_to x = 2 /\ r_heartbeat_elapsed r' = 0.
Proof. vm_compute. do 3 eexists. repeat split; reflexivity. Qed.

(* 7: every hypothesis of star_commit_all holds of a concrete 3-node star: leader 1 (term 2,
   entries 1..5 of terms 1,1,2,2,2, nothing committed), follower 2 (entries 1..3, entry 3
   diverging) tracked as a PAUSED probe at next_idx 5, follower 3 (entries 1..2) tracked
   as Replicate with a FULL window of stale indexes;
   191 = (heartbeat_timeout + 2) * pair_measure_bound 5 0 + heartbeat_timeout + 1 *)
Example C10_star_commit_applies :
  forall L' Fs', star_rounds (188 + 3) sp_L [sp_F2; sp_F3] = Ok (L', Fs') ->
  committed (r_log L') = 5 /\
  Forall2 (fun F F' => star_done sp_L L' F F' /\ committed (r_log F') = 5) [sp_F2; sp_F3] Fs'.
Proof. exact sp_commit_applies. Qed.

(* and the 191 rounds do run without a panic (computed): everybody has the whole log and
   has committed it *)
Example C10_star_run :
  exists L' F2' F3' p2 p3,
    star_rounds (188 + 3) sp_L [sp_F2; sp_F3] = Ok (L', [F2'; F3']) /\
    committed (r_log L') = 5 /\
    get_pr L' 2 = Some p2 /\ matched p2 = 5 /\ get_pr L' 3 = Some p3 /\ matched p3 = 5 /\
    last_index (r_log F2') = 5 /\ committed (r_log F2') = 5 /\
    last_index (r_log F3') = 5 /\ committed (r_log F3') = 5.
Proof. exact sp_run. Qed.

(* 8: the 3-node star, continued: after its 191 rounds (state pp_Lc, pp_Fsc) every hypothesis
   of star_propose_all holds; 251 = (heartbeat_timeout + 2) * pair_measure_bound 6 0 +
   heartbeat_timeout + 1 *)
Example C10_propose_applies :
  forall L2 L' Fs',
  propose_persist pp_Lc [42] = Ok L2 ->
  star_rounds (248 + 3) L2 pp_Fsc = Ok (L', Fs') ->
  committed (r_log L') = last_index (r_log sp_L) + 1 /\
  Forall2 (prop_done sp_L pp_Lc [42] L') pp_Fsc Fs'.
Proof. exact pp_applies. Qed.

(* and it all runs (computed): the first run, propose + persist, the second run; the proposed
   entry (data [42]) is entry 6 of all three logs and everybody has committed it *)
Example C10_propose_run :
  star_rounds (188 + 3) sp_L [sp_F2; sp_F3] = Ok (pp_Lc, pp_Fsc) /\
  propose_persist pp_Lc [42] = Ok pp_L2 /\
  star_rounds (248 + 3) pp_L2 pp_Fsc = Ok pp_end /\
  committed (r_log (fst pp_end)) = 6 /\
  map (fun F => log_entries (r_log F) 6 None) (fst pp_end :: snd pp_end) =
    [Ok (SOk [mkEntry EntryNormal 2 6 [42] []]); Ok (SOk [mkEntry EntryNormal 2 6 [42] []]);
     Ok (SOk [mkEntry EntryNormal 2 6 [42] []])] /\
  map (fun F => committed (r_log F)) (snd pp_end) = [6; 6] /\
  map r_id (snd pp_end) = [2; 3].
Proof. split; [exact pp_mid_ok|]. split; [exact pp_L2_ok|exact pp_run]. Qed.
