(* C02 — Election safety: at most one leader per term.
   Only pinned statements; proofs live in P/ElectionProofs.v.  They are about the
   abstract election protocol P/Election.v (every execution: any interleaving of
   campaigns, grants, persistence (image hand-out / fsync), releases, message
   duplication/delay/reordering (the network is a growing set), crashes at any
   point and restarts from the durable image; timers, pre-vote, leases,
   priorities and transfers are over-approximated by free choice).  The voter
   configuration (simple or joint) is fixed within an execution: elections racing
   a membership change are NOT covered by these theorems (partial). *)
From RV Require Import Base.Prelude M.Quorum P.Election P.ElectionProofs.
Local Open Scope N_scope.

(* At most one node ever takes the leader role in a term (history-wide: the ghost
   [leaders] records every node that ever led), for every configuration in which
   no single node is a quorum. *)
Theorem C02_election_safety :
  forall inc out, inc <> [] -> forall s t c1 c2,
    no_single_quorum inc out -> reachable inc out s ->
    In c1 (leaders s t) -> In c2 (leaders s t) -> c1 = c2.
Proof. exact election_safety. Qed.
Print Assumptions C02_election_safety.

(* the same, read off the current roles *)
Theorem C02_election_safety_roles :
  forall inc out, inc <> [] -> forall s a b,
    no_single_quorum inc out -> reachable inc out s ->
    p_role (nodes s a) = PL -> p_role (nodes s b) = PL ->
    p_term (nodes s a) = p_term (nodes s b) -> a = b.
Proof. exact election_safety_roles. Qed.
Print Assumptions C02_election_safety_roles.

(* the hypothesis holds for every duplicate-free incoming voter set with >= 2 voters *)
Theorem C02_no_single_quorum_of_two :
  forall inc out, NoDup inc -> (2 <= length inc)%nat -> no_single_quorum inc out.
Proof. exact no_single_quorum_of_two. Qed.
Print Assumptions C02_no_single_quorum_of_two.

(* Every configuration, single-voter groups (with learners) included: leaders whose
   own vote is durable are unique per term, and at most one node ever RELEASES
   traffic as leader of a term. *)
Theorem C02_election_safety_durable :
  forall inc out, inc <> [] -> forall s t c1 c2,
    reachable inc out s -> In c1 (leaders s t) -> In c2 (leaders s t) ->
    voted s c1 t = Some c1 -> voted s c2 t = Some c2 -> c1 = c2.
Proof. exact election_safety_durable. Qed.
Print Assumptions C02_election_safety_durable.

Theorem C02_leader_traffic_unique :
  forall inc out, inc <> [] -> forall s t a b,
    reachable inc out s -> In (LeaderMsg a t) (net s) -> In (LeaderMsg b t) (net s) -> a = b.
Proof. exact leader_traffic_unique. Qed.
Print Assumptions C02_leader_traffic_unique.

(* The role-level statement is FALSE for a single-voter group when the leader's own
   vote need not be durable before it leads (the implementation's single-voter fast
   path, finding F1): an explicit witness execution of P. *)
Theorem C02_single_voter_refuted :
  exists s, prun [1] [] single_voter_witness pinit = Some s /\ leaders s 1 = [2; 1].
Proof. exact election_safety_single_voter_refuted. Qed.
Print Assumptions C02_single_voter_refuted.
