(* C11  Quorum arithmetic: commit index and vote tallies are exact.
   Pinned statements only; proofs are in M/QuorumProofs.v, the model in M/Quorum.v.

   Vocabulary (M/QuorumProofs.v):
     idx_of a v / grp_of a v   index / group acknowledged by v, (0,0) if v has no entry
     count p l                 = length (filter p l); for a duplicate-free l (a HashSet)
                                 the number of members satisfying p
     cnt_ge a r V              = count (fun v => (r <=? idx_of a v)%N) V
     quorum_acked a V r        = majority |V| <= cnt_ge a r V
     joint_acked a inc out r   = each NON-EMPTY half has quorum_acked
     yes_count/missing_count/no_count c V   voters with c v = Some true / None / Some false
     half_won V c              = V = [] \/ majority |V| <= yes_count c V
     half_lost V c             = V <> [] /\ yes_count + missing_count < majority |V|
     all_grouped a V           = every voter has a non-zero group
     spans_two a V i           = two voters of different groups both have index >= i
     two_groups a V i          = the same, both groups non-zero
   All theorems hold for voter lists of any length (no bound), and, where NoDup is not
   assumed, even for lists with repetitions (counting positions). *)
From RV Require Import Base.Prelude M.Quorum M.QuorumProofs.
From Coq Require Import Permutation Sorted.
Local Open Scope N_scope.

(* ---------------- majority ---------------- *)

Theorem C11_majority_spec : forall n, majority n = (n / 2 + 1)%nat.
Proof. exact majority_spec. Qed.
Print Assumptions C11_majority_spec.

Theorem C11_majority_least : forall n,
  (n < 2 * majority n)%nat /\ (forall k, (n < 2 * k)%nat -> (majority n <= k)%nat).
Proof. exact majority_least. Qed.
Print Assumptions C11_majority_least.

(* the two array reads of committed_index are in bounds *)
Theorem C11_majority_index_in_bounds : forall n, (0 < n)%nat -> (majority n - 1 < n)%nat.
Proof. exact majority_pos_lt. Qed.
Print Assumptions C11_majority_index_in_bounds.

(* ---------------- the sort is a stable descending sort ---------------- *)

Theorem C11_sort_desc_correct : forall l,
  Permutation (sort_desc l) l /\
  StronglySorted (fun x y => fst y <= fst x) (sort_desc l) /\
  (forall k, filter (fun m => fst m =? k) (sort_desc l) = filter (fun m => fst m =? k) l).
Proof.
  exact (fun l => conj (sort_desc_perm l)
                       (conj (sort_desc_sorted l) (fun k => sort_desc_stable k l))).
Qed.
Print Assumptions C11_sort_desc_correct.

(* ---------------- commit index, simple config ---------------- *)

(* at least a majority acknowledged r = the result; fewer than a majority
   acknowledged anything larger (missing voter counts as index 0) *)
Theorem C11_committed_index_spec : forall V a, V <> [] ->
  let r := fst (committed_index false V a) in
  (majority (length V) <= length (filter (fun v => (r <=? idx_of a v)%N) V))%nat /\
  (forall r', r < r' ->
     (length (filter (fun v => (r' <=? idx_of a v)%N) V) < majority (length V))%nat).
Proof. exact committed_index_spec. Qed.
Print Assumptions C11_committed_index_spec.

Example C11_committed_index_spec_ex :
  [1;2;3;4;5] <> [] /\
  committed_index false [1;2;3;4;5]
    (acked_list [(1,(2,0));(2,(2,0));(3,(2,0));(4,(4,0));(5,(5,0))]) = (2, false).
Proof. split; [discriminate|vm_compute; reflexivity]. Qed.

Theorem C11_committed_index_largest : forall V a, V <> [] ->
  quorum_acked a V (fst (committed_index false V a)) /\
  (forall i, quorum_acked a V i -> i <= fst (committed_index false V a)).
Proof. exact committed_index_largest. Qed.
Print Assumptions C11_committed_index_largest.

Theorem C11_committed_index_iff : forall V a i, V <> [] ->
  (i <= fst (committed_index false V a) <-> quorum_acked a V i).
Proof. exact committed_index_iff. Qed.
Print Assumptions C11_committed_index_iff.

Theorem C11_committed_index_flag : forall V a, V <> [] ->
  snd (committed_index false V a) = false.
Proof. exact committed_index_flag_plain. Qed.
Print Assumptions C11_committed_index_flag.

Theorem C11_committed_index_empty : forall gc a, committed_index gc [] a = (u64_max, true).
Proof. exact committed_index_empty. Qed.
Print Assumptions C11_committed_index_empty.

(* the result is one of the acknowledged indexes (or the default 0 of a missing voter) *)
Theorem C11_committed_index_acked : forall V a, V <> [] ->
  exists v, In v V /\ fst (committed_index false V a) = idx_of a v.
Proof. exact committed_index_acked. Qed.
Print Assumptions C11_committed_index_acked.

(* witness set for a duplicate-free voter set *)
Theorem C11_committed_index_witness : forall V a i, V <> [] -> NoDup V ->
  i <= fst (committed_index false V a) ->
  exists S, NoDup S /\ incl S V /\ (majority (length V) <= length S)%nat /\
            (forall v, In v S -> i <= idx_of a v).
Proof. exact committed_index_witness. Qed.
Print Assumptions C11_committed_index_witness.

(* hash-iteration order is irrelevant, with and without group commit *)
Theorem C11_committed_index_perm : forall gc V V' a, Permutation V V' ->
  committed_index gc V a = committed_index gc V' a.
Proof.
  exact (fun gc => if gc as b return forall V V' a, Permutation V V' ->
                        committed_index b V a = committed_index b V' a
                   then committed_index_gc_perm else committed_index_perm).
Qed.
Print Assumptions C11_committed_index_perm.

(* ---------------- commit index, joint config ---------------- *)

Theorem C11_joint_committed_index_min : forall gc inc out a,
  joint_committed_index gc inc out a =
  (N.min (fst (committed_index gc inc a)) (fst (committed_index gc out a)),
   snd (committed_index gc inc a) && snd (committed_index gc out a)).
Proof. exact joint_committed_index_min. Qed.
Print Assumptions C11_joint_committed_index_min.

Theorem C11_joint_committed_index_iff : forall inc out a i, i <= u64_max ->
  (i <= fst (joint_committed_index false inc out a) <-> joint_acked a inc out i).
Proof. exact joint_committed_index_iff. Qed.
Print Assumptions C11_joint_committed_index_iff.

(* largest index acknowledged by a majority of each non-empty half *)
Theorem C11_joint_committed_index_largest : forall inc out a,
  acked_bounded a -> (inc <> [] \/ out <> []) ->
  let r := fst (joint_committed_index false inc out a) in
  joint_acked a inc out r /\ (forall i, joint_acked a inc out i -> i <= r).
Proof. exact joint_committed_index_largest. Qed.
Print Assumptions C11_joint_committed_index_largest.

Example C11_joint_committed_index_largest_ex :
  let a := acked_list [(1,(5,0));(2,(3,0));(3,(9,0));(4,(1,0))] in
  acked_bounded a /\
  joint_committed_index false [1;2;3] [2;3;4] a = (3, false).
Proof.
  split; [|vm_compute; reflexivity].
  intros v i g H. cbn in H.
  repeat match type of H with
  | (if ?b then _ else _) = _ => destruct b
  end; inversion H; subst; unfold u64_max; lia.
Qed.

Theorem C11_joint_committed_index_empty : forall gc a,
  joint_committed_index gc [] [] a = (u64_max, true).
Proof. exact joint_committed_index_empty. Qed.
Print Assumptions C11_joint_committed_index_empty.

Theorem C11_joint_committed_index_empty_out : forall V a, acked_bounded a ->
  fst (joint_committed_index false V [] a) = fst (committed_index false V a).
Proof. exact joint_committed_index_empty_out. Qed.
Print Assumptions C11_joint_committed_index_empty_out.

Theorem C11_joint_committed_index_perm : forall gc inc inc' out out' a,
  Permutation inc inc' -> Permutation out out' ->
  joint_committed_index gc inc out a = joint_committed_index gc inc' out' a.
Proof. exact joint_committed_index_gc_perm. Qed.
Print Assumptions C11_joint_committed_index_perm.

Theorem C11_maximal_committed_index : forall gc inc out p,
  maximal_committed_index gc inc out p = joint_committed_index gc inc out (acked_of p).
Proof. exact maximal_committed_index_spec. Qed.
Print Assumptions C11_maximal_committed_index.

(* ---------------- vote tallies ---------------- *)

Theorem C11_vote_result_spec : forall V c, V <> [] ->
  let q := majority (length V) in
  let yes := yes_count c V in
  let missing := missing_count c V in
  (vote_result V c = VoteWon <-> (q <= yes)%nat) /\
  (vote_result V c = VoteLost <-> (yes + missing < q)%nat) /\
  (vote_result V c = VotePending <-> (yes < q /\ q <= yes + missing)%nat).
Proof. exact vote_result_spec. Qed.
Print Assumptions C11_vote_result_spec.

Theorem C11_vote_result_empty : forall c, vote_result [] c = VoteWon.
Proof. exact vote_result_empty. Qed.
Print Assumptions C11_vote_result_empty.

Theorem C11_vote_partition : forall V c,
  (yes_count c V + no_count c V + missing_count c V = length V)%nat.
Proof. exact vote_partition. Qed.
Print Assumptions C11_vote_partition.

Theorem C11_vote_result_perm : forall V V' c, Permutation V V' ->
  vote_result V c = vote_result V' c.
Proof. exact vote_result_perm. Qed.
Print Assumptions C11_vote_result_perm.

Theorem C11_joint_vote_result_spec : forall inc out c,
  (joint_vote_result inc out c = VoteWon <->
     vote_result inc c = VoteWon /\ vote_result out c = VoteWon) /\
  (joint_vote_result inc out c = VoteLost <->
     vote_result inc c = VoteLost \/ vote_result out c = VoteLost) /\
  (joint_vote_result inc out c = VotePending <->
     vote_result inc c <> VoteLost /\ vote_result out c <> VoteLost /\
     ~ (vote_result inc c = VoteWon /\ vote_result out c = VoteWon)).
Proof. exact joint_vote_result_spec. Qed.
Print Assumptions C11_joint_vote_result_spec.

(* won exactly when a majority of each set granted, lost exactly when some set can
   no longer reach a majority, pending otherwise *)
Theorem C11_joint_vote_result_counts : forall inc out c,
  (joint_vote_result inc out c = VoteWon <-> half_won inc c /\ half_won out c) /\
  (joint_vote_result inc out c = VoteLost <-> half_lost inc c \/ half_lost out c) /\
  (joint_vote_result inc out c = VotePending <->
     ~ (half_won inc c /\ half_won out c) /\ ~ (half_lost inc c \/ half_lost out c)).
Proof. exact joint_vote_result_counts. Qed.
Print Assumptions C11_joint_vote_result_counts.

Theorem C11_joint_vote_result_empty_out : forall inc c,
  joint_vote_result inc [] c = vote_result inc c.
Proof. exact joint_vote_result_empty_out. Qed.
Print Assumptions C11_joint_vote_result_empty_out.

Theorem C11_joint_vote_result_empty_inc : forall out c,
  joint_vote_result [] out c = vote_result out c.
Proof. exact joint_vote_result_empty_inc. Qed.
Print Assumptions C11_joint_vote_result_empty_inc.

(* tracker level *)
Theorem C11_record_vote : forall m id vote,
  (forall k, assoc (record_vote m id vote) k =
             match assoc m k with
             | Some b => Some b
             | None => if id =? k then Some vote else None
             end) /\
  (NoDup (map fst m) -> NoDup (map fst (record_vote m id vote))).
Proof.
  exact (fun m id vote => conj (record_vote_assoc m id vote) (record_vote_NoDup m id vote)).
Qed.
Print Assumptions C11_record_vote.

Theorem C11_tally_votes_spec : forall inc out votes,
  tally_votes inc out votes =
  (count (fun kv => joint_contains inc out (fst kv) && snd kv) votes,
   count (fun kv => joint_contains inc out (fst kv) && negb (snd kv)) votes,
   joint_vote_result inc out (assoc votes)).
Proof. exact tally_votes_spec. Qed.
Print Assumptions C11_tally_votes_spec.

Theorem C11_joint_contains : forall inc out id,
  joint_contains inc out id = true <-> In id inc \/ In id out.
Proof. exact joint_contains_spec. Qed.
Print Assumptions C11_joint_contains.

Theorem C11_tally_votes_simple_counts : forall V votes g r res,
  NoDup V -> NoDup (map fst votes) ->
  tally_votes V [] votes = (g, r, res) ->
  g = yes_count (assoc votes) V /\ r = no_count (assoc votes) V /\
  res = vote_result V (assoc votes).
Proof. exact tally_votes_simple_counts. Qed.
Print Assumptions C11_tally_votes_simple_counts.

Example C11_tally_votes_simple_counts_ex :
  NoDup [1;2;3] /\ NoDup (map fst [(3,true);(1,false);(9,true)]) /\
  tally_votes [1;2;3] [] [(3,true);(1,false);(9,true)] = (1%nat, 1%nat, VotePending).
Proof.
  repeat split; try (vm_compute; reflexivity);
  repeat constructor; cbn; intuition discriminate.
Qed.

Theorem C11_has_quorum_spec : forall inc out S,
  has_quorum inc out S = true <->
  (inc = [] \/ (majority (length inc) <= count (fun v => mem v S) inc)%nat) /\
  (out = [] \/ (majority (length out) <= count (fun v => mem v S) out)%nat).
Proof. exact has_quorum_spec. Qed.
Print Assumptions C11_has_quorum_spec.

(* ---------------- quorum intersection ---------------- *)

Theorem C11_quorum_intersect : forall (V A B : list N),
  NoDup V -> NoDup A -> NoDup B -> incl A V -> incl B V ->
  (majority (length V) <= length A)%nat ->
  (majority (length V) <= length B)%nat ->
  exists x, In x A /\ In x B.
Proof. exact quorum_intersect. Qed.
Print Assumptions C11_quorum_intersect.

Example C11_quorum_intersect_ex :
  NoDup [1;2;3;4;5] /\ NoDup [1;2;3] /\ NoDup [3;4;5] /\
  incl [1;2;3] [1;2;3;4;5] /\ incl [3;4;5] [1;2;3;4;5] /\
  (majority (length [1;2;3;4;5]) <= length [1;2;3])%nat.
Proof.
  repeat split; try (repeat constructor; cbn; intuition discriminate);
  try (intros x Hx; cbn in *; tauto); cbn; lia.
Qed.

Theorem C11_quorum_intersect_pred : forall (V : list N) (p q : N -> bool),
  (majority (length V) <= count p V)%nat ->
  (majority (length V) <= count q V)%nat ->
  exists v, In v V /\ p v = true /\ q v = true.
Proof. exact quorum_intersect_pred. Qed.
Print Assumptions C11_quorum_intersect_pred.

Theorem C11_vote_won_intersect : forall V c1 c2, V <> [] ->
  vote_result V c1 = VoteWon -> vote_result V c2 = VoteWon ->
  exists v, In v V /\ c1 v = Some true /\ c2 v = Some true.
Proof. exact vote_won_intersect. Qed.
Print Assumptions C11_vote_won_intersect.

Theorem C11_joint_vote_won_intersect : forall inc out c1 c2,
  joint_vote_result inc out c1 = VoteWon -> joint_vote_result inc out c2 = VoteWon ->
  (inc <> [] -> exists v, In v inc /\ c1 v = Some true /\ c2 v = Some true) /\
  (out <> [] -> exists v, In v out /\ c1 v = Some true /\ c2 v = Some true).
Proof. exact joint_vote_won_intersect. Qed.
Print Assumptions C11_joint_vote_won_intersect.

Theorem C11_has_quorum_intersect : forall inc out S1 S2,
  has_quorum inc out S1 = true -> has_quorum inc out S2 = true ->
  (inc <> [] -> exists v, In v inc /\ In v S1 /\ In v S2) /\
  (out <> [] -> exists v, In v out /\ In v S1 /\ In v S2).
Proof. exact has_quorum_intersect. Qed.
Print Assumptions C11_has_quorum_intersect.

Theorem C11_vote_commit_intersect : forall V c a i, V <> [] ->
  vote_result V c = VoteWon ->
  i <= fst (committed_index false V a) ->
  exists v, In v V /\ c v = Some true /\ i <= idx_of a v.
Proof. exact vote_commit_intersect. Qed.
Print Assumptions C11_vote_commit_intersect.

Theorem C11_joint_vote_commit_intersect : forall inc out c a i,
  joint_vote_result inc out c = VoteWon ->
  i <= fst (joint_committed_index false inc out a) ->
  (inc <> [] -> exists v, In v inc /\ c v = Some true /\ i <= idx_of a v) /\
  (out <> [] -> exists v, In v out /\ c v = Some true /\ i <= idx_of a v).
Proof. exact joint_vote_commit_intersect. Qed.
Print Assumptions C11_joint_vote_commit_intersect.

(* ---------------- group commit ---------------- *)

(* never exceeds the plain quorum index: ANY group assignment, group 0 and missing
   voters included *)
Theorem C11_gc_le_plain : forall V a,
  fst (committed_index true V a) <= fst (committed_index false V a).
Proof. exact gc_le_plain. Qed.
Print Assumptions C11_gc_le_plain.

Theorem C11_joint_gc_le_plain : forall inc out a,
  fst (joint_committed_index true inc out a) <=
  fst (joint_committed_index false inc out a).
Proof. exact joint_gc_le_plain. Qed.
Print Assumptions C11_joint_gc_le_plain.

(* every voter has a group and at least two groups occur: the flag is true and the
   result is the largest index i <= plain such that the voters with index >= i span
   two groups *)
Theorem C11_gc_all_grouped : forall V a, V <> [] -> all_grouped a V -> spans_two a V 0 ->
  let r := fst (committed_index true V a) in
  let plain := fst (committed_index false V a) in
  snd (committed_index true V a) = true /\
  r <= plain /\ spans_two a V r /\
  (forall i, i <= plain -> spans_two a V i -> i <= r).
Proof. exact gc_all_grouped. Qed.
Print Assumptions C11_gc_all_grouped.

Example C11_gc_all_grouped_ex :
  let a := acked_list [(1,(1,1));(2,(2,2));(3,(3,2))] in
  all_grouped a [1;2;3] /\ spans_two a [1;2;3] 0 /\
  committed_index true [1;2;3] a = (1, true) /\
  committed_index false [1;2;3] a = (2, false).
Proof.
  cbn zeta. split; [|split; [|split; vm_compute; reflexivity]].
  - intros v Hv. cbn in Hv.
    destruct Hv as [<-|[<-|[<-|[]]]]; vm_compute; discriminate.
  - exists 1, 2. repeat split; try (cbn; tauto); vm_compute; discriminate.
Qed.

(* ... i.e. min(plain, G) where G is the largest index replicated into two groups *)
Theorem C11_gc_all_grouped_min : forall V a G, V <> [] -> all_grouped a V ->
  spans_two a V G -> (forall i, spans_two a V i -> i <= G) ->
  committed_index true V a = (N.min (fst (committed_index false V a)) G, true).
Proof. exact gc_all_grouped_min. Qed.
Print Assumptions C11_gc_all_grouped_min.

(* every voter has a group, one group only: plain index, flag false *)
Theorem C11_gc_all_grouped_one : forall V a, V <> [] -> all_grouped a V ->
  (forall u v, In u V -> In v V -> grp_of a u = grp_of a v) ->
  committed_index true V a = (fst (committed_index false V a), false).
Proof. exact gc_all_grouped_one. Qed.
Print Assumptions C11_gc_all_grouped_one.

(* beyond the property text: the remaining cases, so the result is characterised for
   EVERY group assignment.  (A) two distinct non-zero groups occur (ungrouped voters
   are simply ignored): *)
Theorem C11_gc_two_groups : forall V a, V <> [] -> two_groups a V 0 ->
  let r := fst (committed_index true V a) in
  let plain := fst (committed_index false V a) in
  snd (committed_index true V a) = true /\
  r <= plain /\ two_groups a V r /\
  (forall i, i <= plain -> two_groups a V i -> i <= r).
Proof. exact gc_two_groups. Qed.
Print Assumptions C11_gc_two_groups.

(* (C) some voter is ungrouped and the grouped ones do not span two groups: the
   SMALLEST acknowledged index, flag false *)
Theorem C11_gc_zero_group : forall V a, V <> [] ->
  (exists v, In v V /\ grp_of a v = 0) ->
  (forall u v, In u V -> In v V -> grp_of a u <> 0 -> grp_of a v <> 0 ->
               grp_of a u = grp_of a v) ->
  let r := fst (committed_index true V a) in
  snd (committed_index true V a) = false /\
  (forall v, In v V -> r <= idx_of a v) /\ (exists v, In v V /\ r = idx_of a v).
Proof. exact gc_zero_group. Qed.
Print Assumptions C11_gc_zero_group.

Example C11_gc_zero_group_ex :
  let a := acked_list [(1,(5,0));(2,(4,1));(3,(3,1))] in
  committed_index true [1;2;3] a = (3, false) /\
  committed_index false [1;2;3] a = (4, false).
Proof. split; vm_compute; reflexivity. Qed.
