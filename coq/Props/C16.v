(* C16 — PreVote + CheckQuorum: a node that cannot win does not disrupt the cluster.
   Only pinned statements and non-vacuity Examples; proofs live in M/RaftProofs.v (the
   first two) and M/RaftProofsC16.v.  The model M/Raft.v is taken as given.  Every
   statement is over ALL states [r : raft] and ALL messages; the hypothesis
   [f ... = Ok ...] only excludes panics.

   PROVED (single node, per step / per tick / over arbitrary input sequences).
   0. C16_prevote_req_no_change, C16_lease_ignores_vote_requests (as before).
   1. The pre-vote campaign.  C16_become_pre_candidate: only role (PreCandidate),
      leader id (none) and the vote tally (emptied) change; term, vote, log, outbox,
      timers untouched.  C16_campaign_pre (exact) / C16_campaign_pre_pending (readable):
      unless the node's own vote already is a quorum (single voter / empty
      configuration: then campaign_real runs on top), term and vote are unchanged, the
      role is PreCandidate, the tally holds exactly the own grant, and the outbox grows
      by exactly one MsgRequestPreVote per OTHER voter (incoming or outgoing half:
      C16_prevote_recipients), each carrying term r_term+1, the node's last
      (index, term), its commit (index, term), reject = false, empty context — nothing
      else is queued and nothing else changes (the result is given as a record
      equation).  C16_hup_pre_vote: with r_pre_vote = true a MsgHup either does nothing
      or runs exactly campaign_pre.  C16_precandidate_tick: a PreCandidate's tick
      either counts up or (timeout, promotable) clears the timer and runs hup: nothing,
      or campaign_pre again; term, vote and role unchanged.
   2. "A node that fails to gather a pre-vote quorum does not raise its term unless a
      peer tells it of a higher one".  C16_step_term_cases: complete case analysis of the
      term over one step for EVERY role and message: unchanged | raised by exactly 1 by
      the node itself in one of three situations ([raises]: MsgHup on a promotable
      non-leader without pre-vote or whose own vote is a quorum; MsgTimeoutNow on a
      promotable follower (the transfer exception); MsgRequestPreVoteResponse on a
      PreCandidate whose tally after recording it is Won) | a higher message term is
      adopted, which happens for every message type EXCEPT MsgRequestPreVote, a
      MsgRequestPreVoteResponse with reject = false ([exempt]) and a (pre-)vote
      request dropped by the lease ([lease_drop]); on top of an adopted term a
      MsgHup / MsgTimeoutNow may campaign (+1).  C16_precandidate_term_cases: the same
      read off for a PreCandidate, with case (b) spelled out: the state after the
      winning response is campaign_real false on the state with the vote recorded
      followed by maybe_commit_by_vote; C16_campaign_real_facts says what campaign_real
      does (term+1, vote for self, Candidate, or Leader when the own vote is a quorum).
      Trace form C16_quiet_run_term: with r_pre_vote = true, over ANY sequence of
      delivered messages and ticks each of which is [quiet] in the state it meets (no
      adoptable higher term, no MsgTimeoutNow, no pre-vote response completing a quorum
      of grants, the node is not its own quorum), the term never changes, whatever roles
      the node passes through (PreCandidate -> Follower on a lost pre-vote or a leader's
      message -> PreCandidate again on timeout ...).  C16_tick_term: a tick raises the
      term only by a real campaign (no pre-vote, or own vote a quorum).
   3. A pre-vote request on the receiver.  C16_prevote_req_receiver: the four paths,
      exactly (lease: dropped, r' = r | lower term: explicit rejection at the
      receiver's term, nothing else | granted: ONE response carrying the request's
      term and nothing else: no vote recorded, election timer NOT reset, leader id and
      role untouched | rejected: one response at the receiver's term with its commit
      info, then maybe_commit_by_vote).  C16_prevote_req_no_trace: at most one message
      is queued; every field except outbox and log is untouched (and the log too for a
      Leader and on a grant; a rejecting Follower may advance its commit index from the
      request), EXCEPT:
      REFUTED C16_prevote_req_role_refuted: "a pre-vote request never changes role /
      leader id / election timer of the receiver" is FALSE for a Candidate or
      PreCandidate receiver: rejecting the request it still fast-forwards its commit
      index from it (maybe_commit_by_vote) and, if the newly committed range holds an
      unapplied membership change, abandons its campaign (Follower of the same term,
      timers reset via reset()).  Concrete witness pinned.  Term and vote are still
      unchanged (clause 0).
   4. The lease and the leader.  C16_lease_trace: inside the lease any number of
      higher-term non-transfer (pre-)vote requests leaves the node IDENTICAL (nothing
      queued).  C16_leader_vote_request: a (pre-)vote request with m_term <= r_term never
      changes a Leader's term, role, leader id or log: lower-term MsgRequestVote is
      ignored (r' = r), lower-term MsgRequestPreVote is rejected explicitly (one
      response at the leader's term), a same-term request gets exactly one response.
   5. C16_prevote_reject_higher_term: a MsgRequestPreVoteResponse with reject = true and
      a higher term makes the receiver (PreCandidate or not) exactly
      become_follower r (m_term m) INVALID_ID: Follower of that term, vote and leader
      cleared, nothing queued.
   6. Window theorem, single leader.  C16_leader_step: no message without an adoptable
      higher term changes a Leader's term; its role changes only on a local
      MsgCheckQuorum that finds no quorum recently active.  C16_leader_tick: a tick
      never changes the term; the leader steps down only at an election-timeout
      boundary with check_quorum on and no quorum recently active.  C16_leader_window:
      over ANY input sequence in which every boundary tick sees a quorum recently
      active and no message carries an adoptable higher term, the leader keeps role,
      term and leader id.
   7. Window theorem, single majority member (lease_maintained of DESIGN.md and its
      use).  C16_follower_leader_msg: a MsgHeartbeat / MsgAppend of the current term on
      a Follower clears the election timer and records the sender as leader; besides
      that only log and outbox change.  C16_follower_lease_window: a Follower with
      check_quorum and a known leader whose inputs are [on_schedule] — ticks that keep
      the timer below election_timeout (boundary ticks included: e + 1 < timeout is
      required of every tick), heartbeats/appends of its term from its leader, and
      ANY higher-term non-transfer MsgRequestVote / MsgRequestPreVote at any point —
      stays Follower with the same term, vote and leader and inside the lease
      throughout (invariant [lease_inv]); needs election_timeout <= randomized
      timeout (what Config::validate + reset guarantee; hypothesis here).

   8. THE CLUSTER-LEVEL WINDOW (M/RaftProofsC16Window.v; pinned at the end of this file).
      Setting: a leader L and a list Fs of followers of L's term that together with L
      are a quorum of L's configuration (has_quorum over incoming/outgoing), all with
      check_quorum on, run the lock-step round [star_round] of M/RaftProofsC10Star.v
      (L's queued messages are delivered to their addressees in Fs, every follower's
      replies go back to L, everybody ticks).  One WINDOW ROUND [window_round adv] first
      delivers an arbitrary list [adv] of (target id, message) pairs to L / members of
      Fs, then runs star_round.  Every adversarial message must satisfy [adv_ok]:
      sender outside {L} + Fs; not a local message (MsgHup, MsgBeat, MsgCheckQuorum,
      MsgUnreachable, MsgSnapStatus: RawNode::step refuses them from the network) and
      not MsgTransferLeader / MsgTimeoutNow (the transfer exception of the property); and
        - a MsgRequestPreVote of ANY term and context, or
        - ANY other message of a stale non-zero term < t, or
        - any message of term <= t (0 included) except MsgAppend / MsgHeartbeat /
          MsgSnapshot / MsgReadIndexResp (at term t only the leader of t, L, sends those).
      C16_window_rounds_safe: from a start state [window_start] (stated on the model's
      fields; timing hypothesis: L's heartbeat_timeout < L's election_timeout, and
      < election_timeout and < randomized_election_timeout of every member of Fs; L has
      heard from every member since its last check, or its next heartbeat precedes its
      next check-quorum boundary), for ANY number of rounds and ANY adversarial lists
      (arbitrary length, one per round), if no panic occurs: L is still Leader of term t
      with itself as leader, every member of Fs is still Follower of term t with leader
      L, the same id and the SAME VOTE, and inside its lease (election_elapsed <
      election_timeout).  Proof: C16_window_round_inv (one round preserves the invariant
      WInv) + induction.  Inside: the leader frame LF (every leader step under an allowed
      message keeps role/term/leader, the transfer target, heartbeat counter,
      configuration, never un-tracks a peer or clears a recent_active flag, queues for
      members of Fs only leader messages stamped (L, t)); a heartbeat/append response of a
      member sets its recent_active flag; every heartbeat of L is answered in the same
      round; the leader's tick via C10's leader_heartbeats / checkquorum_stepdown /
      bcast_heartbeat_eq: at a check-quorum boundary all of Fs are flagged, so with
      has_quorum(L :: Fs) the active set is a quorum (active_quorum_spec/has_quorum_spec).
      What the adversary may NOT send and why: a message of a term > t other than a
      pre-vote request would need an outsider with a real term > t; a node that runs
      pre-vote raises its term only after a quorum of pre-vote grants
      (C16_step_term_cases, C16_precandidate_term_cases, C16_quiet_run_term), every
      quorum contains a member of {L} + Fs, and C16_window_members_deny shows that in
      every state of the window L and every member of Fs answer a higher-term
      non-transfer MsgRequestVote / MsgRequestPreVote with NOTHING (lease): no grant ever
      leaves the majority.  Leader-only messages of term t from somebody else contradict
      election safety (C02).  Pre-vote is not needed ON the majority for the theorem (its
      hypotheses do not mention r_pre_vote of L or Fs); it is what justifies [adv_ok] for
      the outsiders.
      Non-vacuity: C16_window_example (3 voters, leader 1, follower 2, outsider 3 sending
      pre-vote requests of terms 3 and 7, a stale and a current-term vote request every
      round for 30 rounds = three election timeouts: hypotheses hold, the run computes).

   9. THE CLOSED CLUSTER (M/RaftProofsC16Closed.v; pinned at the end of this file).
      The nodes outside the majority run this library too: no hypothesis on their messages.
      Model: cluster = (L, Fs, Os, pool).  [pool] is the list of all messages emitted so
      far by the outsiders Os and (copied each round from their queues) by L and Fs; it only
      grows.  One closed round [closed_round acts adv]: first the outsiders perform any
      list [acts] of actions - OStep i m: outsider i handles ANY message m of the pool
      (any pick, any number of times, in any order: duplication, delay, reordering, loss);
      OTick i: it ticks; ORestart i r: it crashes and comes back as any state r with the
      same id, pre-vote on, a term not above its old one, not leader, nothing queued, no
      votes counted (restart_ok) - and whatever an outsider queues goes to the pool at
      once; then [adv] = any list of pool messages sent by outsiders and addressed to
      window members is delivered (deliver_all), the members' queues are copied to the
      pool, and the majority runs star_round.  So the member part of a closed round IS a
      window_round whose adversarial list is drawn from what the outsiders really sent.
      C16_closed_window: from closed_start (window_start; every window member has voted for
      a window member; every outsider runs pre-vote, has a term <= t, is not a leader, has
      no grant of a window member on record, an empty queue, and a non-empty configuration
      of which the window members are a quorum; the pool is empty), for ANY number of
      rounds and ANY schedule (closed_sched: picks are pool members, restarts are
      restart_ok, and a MsgSnapshot handed to an outsider keeps the window members a quorum
      of its configuration), if no panic occurs: the conclusion of C16_window_rounds_safe
      for L and Fs, AND every outsider still has term <= t, is not leader and runs
      pre-vote, AND every message ever put into the pool is of the class PC.
      Ingredients, each proved for ALL states / messages:
      - C16_outsider_step / C16_outsider_tick (part (1) of the closing step): for a node O
        outside the window with invariant OInv (pre-vote on, term <= t, not leader, window
        members a quorum of its non-empty configuration, no grant from a window member in
        its tally, queue of class PC), handling ANY message of class PC, or a tick, keeps
        OInv.  So O's term never exceeds t, O never becomes leader (neither by the
        pre-vote nor by a real election: C16_no_win, via QuorumProofs.
        joint_vote_won_intersect: a tally whose grants all come from outside a quorum is
        never Won), and everything O queues is of class PC: pre-vote requests of term
        r_term+1 with empty context, (pre-)vote responses (grants only to other
        outsiders' requests), MsgAppendResponse / MsgHeartbeatResponse stamped with a term
        <= t, forwarded MsgPropose / MsgReadIndex - in particular [adv_ok] whenever
        addressed to a window member.  Election safety at term t (C02) is not assumed: it
        follows here (no outsider ever wins).
      - what window members emit is of class PC too (leader_step_PC, follower_step_PC,
        leader_tick_PC over the generic queue-predicate frame GQ): terms <= t, no transfer
        or local message, and NO GRANT - a member inside its lease that has voted for a
        member answers every pool (pre-)vote request with a rejection or nothing
        (member_no_grant).
      - closed_round_inv: one closed round keeps CInv = MInv (WInv + member votes + member
        queues of class PC) /\ OsInv (every outsider OInv, pool of class PC).
      Non-vacuity: C16_closed_example_* (leader 1, follower 2, outsider 3 cut off for 30
      rounds = three election timeouts, pre-campaigning into the void - four pre-vote
      requests of term 3 in the pool, its own term still 2 - then rejoining for six rounds:
      leader and follower undisturbed in term 2, the outsider back as follower of 1 in
      term 2; hypotheses checked by computation through an index-level schedule).

   NOT PROVED (listed honestly).
   * Clause 9 closes the window for outsiders that START as non-leaders with pre-vote on.
     Not covered: an outsider that is a stale LEADER of a lower term at the start (its
     MsgAppend / MsgHeartbeat of a term < t are in adv_ok and harmless to the majority by
     clause 8, but its own outputs are not characterised here); outsiders WITHOUT pre-vote
     (they do disrupt: C16_step_term_cases, third disjunct); leadership transfer.
   * Start hypotheses that are assumed, not derived: every window member's vote is for a
     window member (true of the majority that elected L; a member that voted for an
     outsider in term t could still grant it a term-t vote); the window members are a
     quorum of every outsider's configuration, also after a restart (restart_ok) and after
     a snapshot install (schedule condition on MsgSnapshot picks: it depends on what L's
     storage hands out, which the model takes from the application).  No membership change
     is applied inside the window (raft_apply_conf_change is not an action of the rounds).
   * A restart is modelled as replacement by any state satisfying restart_ok, not as
     raft_new over the node's persisted storage (C06 ties the two: term and vote restored
     from the HardState are not above the persisted ones).
   * The majority itself runs lock-step: message loss, delay, duplication or reordering
     BETWEEN L and members of Fs is not covered (star_round delivers every message of a
     round in that round; old member-to-member messages of the pool are not re-delivered
     to members), members tick once per round, adversarial deliveries happen before each
     round.  Panics are excluded by hypothesis (run = Ok).
   * That [quiet] inputs (clause 2) are what a partitioned node receives is now a
     consequence for the term (OInv) but quiet_run itself is still stated on the states met. *)
From RV Require Import Base.Prelude Base.IdSet M.Progress M.Quorum M.ConfChange M.Msg M.RaftLog M.Raft
  M.RaftProofs M.RaftProofsC16.
From RecordUpdate Require Import RecordSet.
Import RecordSetNotations.
Local Open Scope N_scope.

(* ================================================================== *)
(* 0. the two statements pinned earlier *)

(* Handling a pre-vote request never changes the receiver's term or vote: every
   state, every message (any term, any sender, any log position), every path
   (lease drop, lower-term explicit reject, grant, reject + commit fast-forward
   incl. its step-down at the same term). *)
Theorem C16_prevote_req_no_change :
  forall r m r' c, m_type m = MsgRequestPreVote -> step r m = Ok (r', c) ->
    r_term r' = r_term r /\ r_vote r' = r_vote r.
Proof. exact prevote_req_no_change. Qed.
Print Assumptions C16_prevote_req_no_change.

(* The lease: with check_quorum, while a leader was heard from within
   election_timeout, a higher-term vote or pre-vote request that is not a forced
   transfer changes nothing and produces no message. *)
Theorem C16_lease_ignores_vote_requests :
  forall r m,
    (m_type m = MsgRequestVote \/ m_type m = MsgRequestPreVote) ->
    r_term r < m_term m ->
    r_check_quorum r = true -> r_leader_id r <> Progress.INVALID_ID ->
    r_election_elapsed r < r_election_timeout r ->
    list_eqb (m_context m) CAMPAIGN_TRANSFER = false ->
    step r m = Ok (r, E_OK).
Proof. exact lease_ignores_vote_requests. Qed.
Print Assumptions C16_lease_ignores_vote_requests.

(* ================================================================== *)
(* the definitions used below, unfolded *)

(* the vote result of the node's configuration for a votes map *)
Theorem C16_def_tally : forall r v,
  tally r v = Quorum.tracker_vote_result (incoming (t_conf (r_prs r))) (outgoing (t_conf (r_prs r))) v.
Proof. exact def_tally. Qed.
Print Assumptions C16_def_tally.

(* the node's own grant alone is a quorum (single voter, or no voters at all) *)
Theorem C16_def_self_wins : forall r, self_wins r <-> tally r [(r_id r, true)] = VoteWon.
Proof. exact def_self_wins. Qed.
Print Assumptions C16_def_self_wins.

(* the tally after recording the response [m] (first answer of a peer counts) *)
Theorem C16_def_prevote_tally : forall r m,
  prevote_tally r m =
  tally r (Quorum.record_vote (t_votes (r_prs r)) (m_from m) (negb (m_reject m))).
Proof. exact def_prevote_tally. Qed.
Print Assumptions C16_def_prevote_tally.

(* the lease test of step: a non-transfer (pre-)vote request while a leader is known
   and election_elapsed < election_timeout, with check_quorum *)
Theorem C16_def_lease_drop : forall r m,
  lease_drop r m =
  ((m_type m =? MsgRequestVote) || (m_type m =? MsgRequestPreVote))
  && negb (list_eqb (m_context m) CAMPAIGN_TRANSFER)
  && (r_check_quorum r && negb (r_leader_id r =? INVALID_ID)
      && (r_election_elapsed r <? r_election_timeout r)).
Proof. exact def_lease_drop. Qed.
Print Assumptions C16_def_lease_drop.

(* the two kinds of message whose higher term is never adopted *)
Theorem C16_def_exempt : forall m,
  exempt m = (m_type m =? MsgRequestPreVote)
             || ((m_type m =? MsgRequestPreVoteResponse) && negb (m_reject m)).
Proof. exact def_exempt. Qed.
Print Assumptions C16_def_exempt.

Theorem C16_def_cfg_of : forall r,
  cfg_of r = (r_id r, r_pre_vote r, r_check_quorum r, r_election_timeout r, r_heartbeat_timeout r).
Proof. exact def_cfg_of. Qed.
Print Assumptions C16_def_cfg_of.

Theorem C16_def_check_quorum_active : forall r,
  check_quorum_active r = snd (quorum_recently_active (r_prs r) (r_id r)).
Proof. exact def_check_quorum_active. Qed.
Print Assumptions C16_def_check_quorum_active.

Theorem C16_def_pre_candidate_of : forall r,
  pre_candidate_of r =
  r <| r_state := PreCandidate |> <| r_prs := (r_prs r) <| t_votes := [(r_id r, true)] |> |>
    <| r_leader_id := INVALID_ID |>.
Proof. exact def_pre_candidate_of. Qed.
Print Assumptions C16_def_pre_candidate_of.

Theorem C16_def_with_votes : forall r v,
  with_votes r v = r <| r_prs := (r_prs r) <| t_votes := v |> |>.
Proof. exact def_with_votes. Qed.
Print Assumptions C16_def_with_votes.

Theorem C16_def_others : forall self ids,
  others self ids = filter (fun id => negb (id =? self)) ids.
Proof. exact def_others. Qed.
Print Assumptions C16_def_others.

Theorem C16_def_push : forall r x, push r x = r <| r_msgs := r_msgs r ++ [x] |>.
Proof. exact def_push. Qed.
Print Assumptions C16_def_push.

(* the (pre-)vote request queued for peer [id] *)
Theorem C16_def_vote_req : forall self l prio vm t c ct tr lt id,
  vote_req self l prio vm t c ct tr lt id =
  let m := msg_default <| m_type := vm |> <| m_to := id |> <| m_from := self |> <| m_term := t |>
             <| m_index := last_index l |> <| m_log_term := lt |>
             <| m_commit := c |> <| m_commit_term := ct |>
             <| m_context := if tr then CAMPAIGN_TRANSFER else [] |> <| m_priority := prio |> in
  if (0 <? prio)%Z then m <| m_deprecated_priority := Z.to_N prio |> else m.
Proof. exact def_vote_req. Qed.
Print Assumptions C16_def_vote_req.

(* the response to a (pre-)vote request *)
Theorem C16_def_vote_resp : forall r m rt reject t ci,
  vote_resp r m rt reject t ci =
  msg_default <| m_type := rt |> <| m_to := m_from m |> <| m_from := r_id r |>
              <| m_term := t |> <| m_reject := reject |>
              <| m_commit := fst ci |> <| m_commit_term := snd ci |>.
Proof. exact def_vote_resp. Qed.
Print Assumptions C16_def_vote_resp.

Theorem C16_def_resp_type : forall m,
  resp_type m = if m_type m =? MsgRequestVote then MsgRequestVoteResponse
                else MsgRequestPreVoteResponse.
Proof. exact def_resp_type. Qed.
Print Assumptions C16_def_resp_type.

(* the grant condition of step *)
Theorem C16_def_grants : forall r m,
  grants r m =
  (utd <- is_up_to_date (r_log r) (m_index m) (m_log_term m) ;;
   Ok (((r_vote r =? m_from m)
        || ((r_vote r =? INVALID_ID) && (r_leader_id r =? INVALID_ID))
        || ((m_type m =? MsgRequestPreVote) && (r_term r <? m_term m)))
       && utd
       && ((last_index (r_log r) <? m_index m) || (r_priority r <=? get_priority m)%Z))).
Proof. exact def_grants. Qed.
Print Assumptions C16_def_grants.

Theorem C16_def_only_msgs_log : forall r r',
  only_msgs_log r r' <-> r' = r <| r_msgs := r_msgs r' |> <| r_log := r_log r' |>.
Proof. exact def_only_msgs_log. Qed.
Print Assumptions C16_def_only_msgs_log.

Theorem C16_def_lease_request : forall r m,
  lease_request r m <->
  (m_type m = MsgRequestVote \/ m_type m = MsgRequestPreVote) /\
  r_term r < m_term m /\ list_eqb (m_context m) CAMPAIGN_TRANSFER = false.
Proof. exact def_lease_request. Qed.
Print Assumptions C16_def_lease_request.

(* inputs and runs: [input] has the two constructors IStep (m : msg) and ITick *)
Theorem C16_def_apply_input : forall r i,
  apply_input r i = match i with
                    | IStep m => x <- step r m ;; Ok (fst x)
                    | ITick => x <- tick r ;; Ok (fst x)
                    end.
Proof. exact def_apply_input. Qed.
Print Assumptions C16_def_apply_input.

Theorem C16_def_run : forall r ins,
  run r ins = match ins with
              | [] => Ok r
              | i :: rest => r1 <- apply_input r i ;; run r1 rest
              end.
Proof. exact def_run. Qed.
Print Assumptions C16_def_run.

Theorem C16_def_quiet : forall r i,
  quiet r i <->
  match i with
  | ITick => ~ self_wins r
  | IStep m =>
      (m_term m <= r_term r \/ exempt m = true \/ lease_drop r m = true) /\
      m_type m <> MsgTimeoutNow /\
      (m_type m = MsgHup -> ~ self_wins r) /\
      (m_type m = MsgRequestPreVoteResponse -> r_state r = PreCandidate ->
       prevote_tally r m <> VoteWon)
  end.
Proof. exact def_quiet. Qed.
Print Assumptions C16_def_quiet.

Theorem C16_def_quiet_run : forall r ins,
  quiet_run r ins <->
  match ins with
  | [] => True
  | i :: rest => quiet r i /\ forall r1, apply_input r i = Ok r1 -> quiet_run r1 rest
  end.
Proof. exact def_quiet_run. Qed.
Print Assumptions C16_def_quiet_run.

Theorem C16_def_leader_safe : forall r i,
  leader_safe r i <->
  match i with
  | ITick => r_election_timeout r <= r_election_elapsed r + 1 -> r_check_quorum r = true ->
             check_quorum_active r = true
  | IStep m => (m_term m <= r_term r \/ exempt m = true \/ lease_drop r m = true) /\
               (m_type m = MsgCheckQuorum -> check_quorum_active r = true)
  end.
Proof. exact def_leader_safe. Qed.
Print Assumptions C16_def_leader_safe.

Theorem C16_def_leader_safe_run : forall r ins,
  leader_safe_run r ins <->
  match ins with
  | [] => True
  | i :: rest => leader_safe r i /\ forall r1, apply_input r i = Ok r1 -> leader_safe_run r1 rest
  end.
Proof. exact def_leader_safe_run. Qed.
Print Assumptions C16_def_leader_safe_run.

(* ================================================================== *)
(* 1. the pre-vote campaign *)

Theorem C16_become_pre_candidate :
  forall r r', become_pre_candidate r = Ok r' ->
    r_state r <> Leader /\
    r_term r' = r_term r /\ r_vote r' = r_vote r /\ r_state r' = PreCandidate /\
    r_leader_id r' = INVALID_ID /\ t_votes (r_prs r') = [] /\
    r_msgs r' = r_msgs r /\ r_log r' = r_log r /\
    r_election_elapsed r' = r_election_elapsed r /\
    r_randomized_election_timeout r' = r_randomized_election_timeout r /\
    r' = r <| r_state := PreCandidate |> <| r_prs := (r_prs r) <| t_votes := [] |> |>
           <| r_leader_id := INVALID_ID |>.
Proof. exact become_pre_candidate_spec. Qed.
Print Assumptions C16_become_pre_candidate.

(* exact: either the own vote is a quorum and the real campaign runs on the
   pre-candidate state, or the result is the pre-candidate state with one request per
   other voter appended to the outbox *)
Theorem C16_campaign_pre :
  forall r r', campaign_pre r = Ok r' ->
    r_state r <> Leader /\
    ((tally r [(r_id r, true)] = VoteWon /\ campaign_real false (pre_candidate_of r) = Ok r') \/
     (tally r [(r_id r, true)] = VotePending /\
      exists ci new,
        commit_info (r_log r) = Ok ci /\
        r' = (pre_candidate_of r) <| r_msgs := r_msgs r ++ new |> /\
        map m_to new = others (r_id r) (voter_ids (conf_of r)) /\
        forall x, In x new -> exists lt, last_term (r_log r) = Ok lt /\
          x = vote_req (r_id r) (r_log r) (r_priority r) MsgRequestPreVote (r_term r + 1)
                       (fst ci) (snd ci) false lt (m_to x))).
Proof. exact campaign_pre_spec. Qed.
Print Assumptions C16_campaign_pre.

Theorem C16_campaign_pre_pending :
  forall r r', campaign_pre r = Ok r' -> tally r [(r_id r, true)] <> VoteWon ->
    r_term r' = r_term r /\ r_vote r' = r_vote r /\ r_state r' = PreCandidate /\
    r_leader_id r' = INVALID_ID /\ t_votes (r_prs r') = [(r_id r, true)] /\
    r_log r' = r_log r /\ r_election_elapsed r' = r_election_elapsed r /\
    exists new, r_msgs r' = r_msgs r ++ new /\
      r' = (pre_candidate_of r) <| r_msgs := r_msgs r ++ new |> /\
      map m_to new = others (r_id r) (voter_ids (conf_of r)) /\
      forall x, In x new ->
        m_type x = MsgRequestPreVote /\ m_term x = r_term r + 1 /\ m_from x = r_id r /\
        m_index x = last_index (r_log r) /\ last_term (r_log r) = Ok (m_log_term x) /\
        commit_info (r_log r) = Ok (m_commit x, m_commit_term x) /\
        m_reject x = false /\ m_entries x = [] /\ m_context x = [] /\
        m_priority x = r_priority r.
Proof. exact campaign_pre_pending. Qed.
Print Assumptions C16_campaign_pre_pending.

(* the recipients: every voter of either half except the node itself *)
Theorem C16_prevote_recipients :
  forall c self id,
    In id (others self (voter_ids c)) <-> id <> self /\ voters_contains c id = true.
Proof. exact others_voters. Qed.
Print Assumptions C16_prevote_recipients.

(* hup (MsgHup, election timeout): nothing, or the campaign selected by the flags *)
Theorem C16_hup_cases :
  forall r tl r', hup r tl = Ok r' ->
    r' = r \/
    (r_state r <> Leader /\ r_promotable r = true /\
     if tl then campaign_real true r = Ok r'
     else if r_pre_vote r then campaign_pre r = Ok r' else campaign_real false r = Ok r').
Proof. exact hup_cases. Qed.
Print Assumptions C16_hup_cases.

(* what the real campaign does (reached from a pre-vote only after winning it) *)
Theorem C16_campaign_real_facts :
  forall tr r r', campaign_real tr r = Ok r' ->
    r_term r' = r_term r + 1 /\ cfg_of r' = cfg_of r /\ r_vote r' = r_id r /\ r_state r <> Leader /\
    ((tally r [(r_id r, true)] = VoteWon /\ r_state r' = Leader /\ r_leader_id r' = r_id r) \/
     (tally r [(r_id r, true)] = VotePending /\ r_state r' = Candidate /\
      r_leader_id r' = INVALID_ID)).
Proof. exact campaign_real_facts. Qed.
Print Assumptions C16_campaign_real_facts.

(* a pre-candidate's tick *)
Theorem C16_precandidate_tick :
  forall r r' b,
    r_state r = PreCandidate -> r_pre_vote r = true -> ~ self_wins r ->
    tick r = Ok (r', b) ->
    r_term r' = r_term r /\ r_vote r' = r_vote r /\ r_state r' = PreCandidate /\
    ((b = false /\ r' = r <| r_election_elapsed := r_election_elapsed r + 1 |>) \/
     (b = true /\ r_randomized_election_timeout r <= r_election_elapsed r + 1 /\
      r_promotable r = true /\
      (r' = r <| r_election_elapsed := 0 |> \/
       campaign_pre (r <| r_election_elapsed := 0 |>) = Ok r'))).
Proof. exact precandidate_tick. Qed.
Print Assumptions C16_precandidate_tick.

(* ================================================================== *)
(* 2. when the term changes *)

(* the three ways a step raises the term by one on its own *)
Theorem C16_def_raises : forall r m,
  raises r m <->
  (m_type m = MsgHup /\ r_state r <> Leader /\ r_promotable r = true /\
   (r_pre_vote r = false \/ self_wins r)) \/
  (m_type m = MsgTimeoutNow /\ r_state r = Follower /\ r_promotable r = true) \/
  (m_type m = MsgRequestPreVoteResponse /\ r_state r = PreCandidate /\
   prevote_tally r m = VoteWon).
Proof. exact def_raises. Qed.
Print Assumptions C16_def_raises.

Theorem C16_step_term_cases :
  forall r m r' c, step r m = Ok (r', c) ->
    cfg_of r' = cfg_of r /\
    (r_term r' = r_term r \/
     (r_term r' = r_term r + 1 /\ raises r m /\
      (m_term m = 0 \/ m_term m = r_term r \/
       (r_term r < m_term m /\ lease_drop r m = false /\ exempt m = true))) \/
     (r_term r < m_term m /\ lease_drop r m = false /\ exempt m = false /\
      (r_term r' = m_term m \/
       (r_term r' = m_term m + 1 /\ (m_type m = MsgHup \/ m_type m = MsgTimeoutNow))))).
Proof. exact step_term_cases. Qed.
Print Assumptions C16_step_term_cases.

Theorem C16_precandidate_term_cases :
  forall r m r' c,
    r_state r = PreCandidate -> step r m = Ok (r', c) ->
    (* unchanged *)
    r_term r' = r_term r \/
    (* (a) a higher term is adopted: any message type except MsgRequestPreVote and a
       granted MsgRequestPreVoteResponse, unless dropped by the lease *)
    (r_term r < m_term m /\ lease_drop r m = false /\ exempt m = false /\
     (r_term r' = m_term m \/
      (r_term r' = m_term m + 1 /\ (m_type m = MsgHup \/ m_type m = MsgTimeoutNow)))) \/
    (* (b) this response completes a quorum of grants: the real campaign runs *)
    (m_type m = MsgRequestPreVoteResponse /\
     (m_term m = 0 \/ m_term m = r_term r \/ (r_term r < m_term m /\ m_reject m = false)) /\
     prevote_tally r m = VoteWon /\ r_term r' = r_term r + 1 /\
     exists r1,
       campaign_real false (with_votes r (Quorum.record_vote (t_votes (r_prs r)) (m_from m)
                                            (negb (m_reject m)))) = Ok r1 /\
       maybe_commit_by_vote r1 m = Ok r') \/
    (* (c) a local MsgHup: pre-vote again (term unchanged, first disjunct) unless pre-vote
       is off or the own vote is a quorum *)
    (m_type m = MsgHup /\ (m_term m = 0 \/ m_term m = r_term r) /\ r_promotable r = true /\
     (r_pre_vote r = false \/ self_wins r) /\ r_term r' = r_term r + 1).
Proof. exact precandidate_term_cases. Qed.
Print Assumptions C16_precandidate_term_cases.

Theorem C16_tick_term :
  forall r r' b, tick r = Ok (r', b) ->
    cfg_of r' = cfg_of r /\
    (r_term r' = r_term r \/
     (r_term r' = r_term r + 1 /\ r_state r <> Leader /\ r_promotable r = true /\
      r_randomized_election_timeout r <= r_election_elapsed r + 1 /\
      (r_pre_vote r = false \/ self_wins r))).
Proof. exact tick_term. Qed.
Print Assumptions C16_tick_term.

Theorem C16_quiet_input_term :
  forall r i r',
    r_pre_vote r = true -> quiet r i -> apply_input r i = Ok r' ->
    r_term r' = r_term r /\ cfg_of r' = cfg_of r.
Proof. exact quiet_input_term. Qed.
Print Assumptions C16_quiet_input_term.

(* trace form: any sequence of messages and ticks, any roles in between *)
Theorem C16_quiet_run_term :
  forall ins r r',
    r_pre_vote r = true -> quiet_run r ins -> run r ins = Ok r' ->
    r_term r' = r_term r /\ cfg_of r' = cfg_of r.
Proof. exact quiet_run_term. Qed.
Print Assumptions C16_quiet_run_term.

(* ================================================================== *)
(* 3. the receiver of a pre-vote request *)

Theorem C16_prevote_req_receiver :
  forall r m r' c,
    m_type m = MsgRequestPreVote -> step r m = Ok (r', c) ->
    c = E_OK /\
    ((* inside the lease: dropped *)
     (r_term r < m_term m /\ lease_drop r m = true /\ r' = r) \/
     (* lower term: explicit rejection at the receiver's term, nothing else *)
     (m_term m <> 0 /\ m_term m < r_term r /\
      r' = push r (vote_resp r m MsgRequestPreVoteResponse true (r_term r) (0, 0))) \/
     (* granted: one response carrying the request's term, nothing else *)
     ((m_term m = 0 \/ m_term m = r_term r \/ (r_term r < m_term m /\ lease_drop r m = false)) /\
      grants r m = Ok true /\
      r' = push r (vote_resp r m MsgRequestPreVoteResponse false (m_term m) (0, 0))) \/
     (* rejected: one response at the receiver's term with its commit info, then the
        commit fast-forward from the request *)
     ((m_term m = 0 \/ m_term m = r_term r \/ (r_term r < m_term m /\ lease_drop r m = false)) /\
      grants r m = Ok false /\
      exists ci, commit_info (r_log r) = Ok ci /\
        maybe_commit_by_vote (push r (vote_resp r m MsgRequestPreVoteResponse true (r_term r) ci)) m
        = Ok r')).
Proof. exact prevote_req_receiver. Qed.
Print Assumptions C16_prevote_req_receiver.

(* what maybe_commit_by_vote can do: only the log changes, or a (Pre)Candidate steps
   down at its own term *)
Theorem C16_maybe_commit_by_vote_cases :
  forall r m r', maybe_commit_by_vote r m = Ok r' ->
    r' = r <| r_log := r_log r' |> \/
    ((r_state r = Candidate \/ r_state r = PreCandidate) /\
     exists l', become_follower (r <| r_log := l' |>) (r_term r) INVALID_ID = Ok r').
Proof. exact maybe_commit_by_vote_cases. Qed.
Print Assumptions C16_maybe_commit_by_vote_cases.

Theorem C16_prevote_req_no_trace :
  forall r m r' c,
    m_type m = MsgRequestPreVote -> step r m = Ok (r', c) ->
    (exists new, r_msgs r' = r_msgs r ++ new /\ (length new <= 1)%nat /\
       forall x, In x new -> m_type x = MsgRequestPreVoteResponse /\ m_to x = m_from m /\
                             m_from x = r_id r /\
                             (m_reject x = false -> m_term x = m_term m /\ grants r m = Ok true) /\
                             (m_reject x = true -> m_term x = r_term r)) /\
    (only_msgs_log r r' /\ (r_state r = Leader \/ grants r m = Ok true -> r_log r' = r_log r) \/
     ((r_state r = Candidate \/ r_state r = PreCandidate) /\ grants r m = Ok false /\
      r_state r' = Follower /\ r_term r' = r_term r /\ r_vote r' = r_vote r /\
      r_leader_id r' = INVALID_ID /\ r_election_elapsed r' = 0 /\ cfg_of r' = cfg_of r)).
Proof. exact prevote_req_no_trace. Qed.
Print Assumptions C16_prevote_req_no_trace.

(* REFUTED: a pre-vote request CAN change role and timers of the receiver: a
   Candidate that rejects it but learns from it that a membership change it has not
   applied is committed abandons its campaign *)
Theorem C16_prevote_req_role_refuted :
  exists r m r' c x,
    m_type m = MsgRequestPreVote /\ step r m = Ok (r', c) /\
    r_state r = Candidate /\ r_state r' = Follower /\
    r_term r' = r_term r /\ r_vote r' = r_vote r /\
    r_msgs r' = [x] /\ m_reject x = true /\
    committed (r_log r) = 1 /\ committed (r_log r') = 2 /\
    r_randomized_election_timeout r' <> r_randomized_election_timeout r.
Proof. exact prevote_req_role_refuted. Qed.
Print Assumptions C16_prevote_req_role_refuted.

(* ================================================================== *)
(* 4. the lease and the leader *)

Theorem C16_lease_trace :
  forall ms r,
    r_check_quorum r = true -> r_leader_id r <> INVALID_ID ->
    r_election_elapsed r < r_election_timeout r ->
    Forall (lease_request r) ms ->
    run r (map IStep ms) = Ok r.
Proof. exact lease_trace. Qed.
Print Assumptions C16_lease_trace.

Theorem C16_leader_vote_request :
  forall r m r' c,
    r_state r = Leader ->
    (m_type m = MsgRequestVote \/ m_type m = MsgRequestPreVote) ->
    m_term m <= r_term r -> step r m = Ok (r', c) ->
    r_term r' = r_term r /\ r_state r' = Leader /\ r_leader_id r' = r_leader_id r /\
    r_log r' = r_log r /\ c = E_OK /\
    ((m_term m <> 0 /\ m_term m < r_term r /\
      if m_type m =? MsgRequestVote then r' = r
      else r' = push r (vote_resp r m MsgRequestPreVoteResponse true (r_term r) (0, 0))) \/
     ((m_term m = 0 \/ m_term m = r_term r) /\
      ((grants r m = Ok true /\
        r' = if m_type m =? MsgRequestVote
             then (push r (vote_resp r m (resp_type m) false (m_term m) (0, 0)))
                    <| r_election_elapsed := 0 |> <| r_vote := m_from m |>
             else push r (vote_resp r m (resp_type m) false (m_term m) (0, 0))) \/
       (grants r m = Ok false /\ exists ci, commit_info (r_log r) = Ok ci /\
        r' = push r (vote_resp r m (resp_type m) true (r_term r) ci))))).
Proof. exact leader_vote_request. Qed.
Print Assumptions C16_leader_vote_request.

(* ================================================================== *)
(* 5. a rejection from a higher term *)

Theorem C16_prevote_reject_higher_term :
  forall r m r' c,
    m_type m = MsgRequestPreVoteResponse -> m_reject m = true -> r_term r < m_term m ->
    step r m = Ok (r', c) ->
    c = E_OK /\ become_follower r (m_term m) INVALID_ID = Ok r' /\
    r_term r' = m_term m /\ r_state r' = Follower /\ r_vote r' = INVALID_ID /\
    r_leader_id r' = INVALID_ID /\ r_msgs r' = r_msgs r /\ r_election_elapsed r' = 0.
Proof. exact prevote_reject_higher_term. Qed.
Print Assumptions C16_prevote_reject_higher_term.

(* ================================================================== *)
(* 6. the leader's window *)

Theorem C16_leader_step :
  forall r m r' c,
    r_state r = Leader -> step r m = Ok (r', c) ->
    (m_term m <= r_term r \/ exempt m = true \/ lease_drop r m = true) ->
    r_term r' = r_term r /\ cfg_of r' = cfg_of r /\
    ((r_state r' = Leader /\ r_leader_id r' = r_leader_id r) \/
     (m_type m = MsgCheckQuorum /\ check_quorum_active r = false /\
      r_state r' = Follower /\ r_leader_id r' = INVALID_ID)).
Proof. exact leader_step. Qed.
Print Assumptions C16_leader_step.

Theorem C16_leader_tick :
  forall r r' b,
    r_state r = Leader -> tick r = Ok (r', b) ->
    r_term r' = r_term r /\ cfg_of r' = cfg_of r /\
    ((r_state r' = Leader /\ r_leader_id r' = r_leader_id r) \/
     (r_election_timeout r <= r_election_elapsed r + 1 /\ r_check_quorum r = true /\
      check_quorum_active r = false /\ r_state r' = Follower /\ r_leader_id r' = INVALID_ID)).
Proof. exact leader_tick. Qed.
Print Assumptions C16_leader_tick.

Theorem C16_leader_window :
  forall ins r r',
    r_state r = Leader -> leader_safe_run r ins -> run r ins = Ok r' ->
    r_state r' = Leader /\ r_term r' = r_term r /\ r_leader_id r' = r_leader_id r /\
    cfg_of r' = cfg_of r.
Proof. exact leader_window. Qed.
Print Assumptions C16_leader_window.

(* ================================================================== *)
(* non-vacuity: three voters 1 2 3, pre_vote and check_quorum on, election timeout 10.
   xs_follower: node 3, follower of leader 1 in term 2; xs_leader: node 1, leader of
   term 2 that has heard from node 2. *)

(* 1: node 3's pre-vote campaign: two requests of term 3, own term and vote unchanged *)
Example C16_campaign_example :
  exists r' x1 x2,
    campaign_pre xs_follower = Ok r' /\ tally xs_follower [(3, true)] = VotePending /\
    r_state r' = PreCandidate /\ r_term r' = 2 /\ r_vote r' = 0 /\ r_msgs r' = [x1; x2] /\
    m_to x1 = 1 /\ m_to x2 = 2 /\ m_term x1 = 3 /\ m_term x2 = 3 /\
    m_type x1 = MsgRequestPreVote /\ m_index x1 = 3 /\ m_log_term x1 = 1.
Proof. exact xs_campaign. Qed.
Print Assumptions C16_campaign_example.

(* 2: eighteen quiet inputs (time out, pre-campaign, both peers reject => Follower,
   twelve ticks => pre-campaign again, another rejection): hypotheses of
   C16_quiet_run_term hold, and the run does not panic *)
Example C16_quiet_run_example : quiet_run xs_follower xs_quiet_inputs.
Proof. exact xs_quiet_run. Qed.
Print Assumptions C16_quiet_run_example.

Example C16_quiet_run_result :
  exists r', run xs_follower xs_quiet_inputs = Ok r' /\
    r_term r' = 2 /\ r_vote r' = 0 /\ r_state r' = PreCandidate.
Proof. exact xs_quiet_result. Qed.
Print Assumptions C16_quiet_run_result.

(* 2b: a granted response completing the quorum: Candidate of term 3 *)
Example C16_prevote_won_example :
  run xs_follower [IStep xs_hup] = Ok xs_precandidate /\
  r_state xs_precandidate = PreCandidate /\ r_term xs_precandidate = 2 /\
  prevote_tally xs_precandidate (xs_prevote_resp 1 3 false) = VoteWon /\
  exists r'' c, step xs_precandidate (xs_prevote_resp 1 3 false) = Ok (r'', c) /\
    r_state r'' = Candidate /\ r_term r'' = 3 /\ r_vote r'' = 3.
Proof. exact xs_prevote_won. Qed.
Print Assumptions C16_prevote_won_example.

(* 0/3/4: the lease drops the request; once it has run out the pre-vote is granted,
   leaving term, vote, timer and leader id alone *)
Example C16_lease_example :
  step xs_follower (xs_prevote_req 2 3 3 3 1 3 1) = Ok (xs_follower, E_OK) /\
  lease_request xs_follower (xs_prevote_req 2 3 3 3 1 3 1) /\
  exists r' x, step (xs_follower <| r_election_elapsed := 10 |>) (xs_prevote_req 2 3 3 3 1 3 1)
               = Ok (r', E_OK) /\
    r_msgs r' = [x] /\ m_reject x = false /\ m_term x = 3 /\ r_term r' = 2 /\ r_vote r' = 0 /\
    r_election_elapsed r' = 10 /\ r_leader_id r' = 1.
Proof. exact xs_lease. Qed.
Print Assumptions C16_lease_example.

(* 6: the leader over two election-timeout boundaries with a heartbeat response from
   node 2 in between and (pre-)vote traffic from node 3: hypotheses of
   C16_leader_window hold; without the response it steps down at the second boundary *)
Example C16_leader_window_example : leader_safe_run xs_leader xs_leader_inputs.
Proof. exact xs_leader_safe_run. Qed.
Print Assumptions C16_leader_window_example.

Example C16_leader_window_result :
  exists r', run xs_leader xs_leader_inputs = Ok r' /\ r_state r' = Leader /\ r_term r' = 2.
Proof. exact xs_leader_result. Qed.
Print Assumptions C16_leader_window_result.

Example C16_leader_stepdown_example :
  exists r', run xs_leader (repeat ITick 20) = Ok r' /\ r_state r' = Follower /\ r_term r' = 2.
Proof. exact xs_leader_stepdown. Qed.
Print Assumptions C16_leader_stepdown_example.


(* ================================================================== *)
(* 7. a majority member inside the lease *)

Theorem C16_def_on_schedule : forall t l et e ins,
  on_schedule t l et e ins <->
  match ins with
  | [] => True
  | ITick :: rest => e + 1 < et /\ on_schedule t l et (e + 1) rest
  | IStep m :: rest =>
      ((m_type m = MsgHeartbeat \/ m_type m = MsgAppend) /\ m_term m = t /\ m_from m = l /\
       on_schedule t l et 0 rest) \/
      ((m_type m = MsgRequestVote \/ m_type m = MsgRequestPreVote) /\ t < m_term m /\
       list_eqb (m_context m) CAMPAIGN_TRANSFER = false /\ on_schedule t l et e rest)
  end.
Proof. exact def_on_schedule. Qed.
Print Assumptions C16_def_on_schedule.

Theorem C16_def_lease_inv : forall r0 r,
  lease_inv r0 r <->
  r_state r = Follower /\ r_term r = r_term r0 /\ r_vote r = r_vote r0 /\
  r_leader_id r = r_leader_id r0 /\ r_check_quorum r = true /\
  r_election_timeout r = r_election_timeout r0 /\
  r_randomized_election_timeout r = r_randomized_election_timeout r0 /\
  r_election_elapsed r < r_election_timeout r.
Proof. exact def_lease_inv. Qed.
Print Assumptions C16_def_lease_inv.

Theorem C16_follower_leader_msg :
  forall r m r' c,
    r_state r = Follower -> (m_type m = MsgHeartbeat \/ m_type m = MsgAppend) ->
    m_term m = r_term r -> step r m = Ok (r', c) ->
    only_msgs_log (r <| r_election_elapsed := 0 |> <| r_leader_id := m_from m |>) r'.
Proof. exact follower_leader_msg. Qed.
Print Assumptions C16_follower_leader_msg.

Theorem C16_tick_waits :
  forall r, r_state r <> Leader -> r_election_elapsed r + 1 < r_randomized_election_timeout r ->
    tick r = Ok (r <| r_election_elapsed := r_election_elapsed r + 1 |>, false).
Proof. exact tick_waits. Qed.
Print Assumptions C16_tick_waits.

Theorem C16_follower_lease_window :
  forall ins r0 r r',
    r_leader_id r0 <> INVALID_ID ->
    r_election_timeout r0 <= r_randomized_election_timeout r0 ->
    lease_inv r0 r ->
    on_schedule (r_term r0) (r_leader_id r0) (r_election_timeout r0) (r_election_elapsed r) ins ->
    run r ins = Ok r' -> lease_inv r0 r'.
Proof. exact follower_lease_window. Qed.
Print Assumptions C16_follower_lease_window.

(* 7: node 3: nine ticks, a pre-vote request of term 3, a heartbeat of its leader, a vote
   request of term 5, nine more ticks: on schedule, and the run does not panic *)
Example C16_on_schedule_example :
  lease_inv xs_follower xs_follower /\
  on_schedule (r_term xs_follower) (r_leader_id xs_follower) (r_election_timeout xs_follower)
              (r_election_elapsed xs_follower) xs_schedule /\
  exists r', run xs_follower xs_schedule = Ok r' /\ r_election_elapsed r' = 9 /\ r_term r' = 2.
Proof. exact xs_on_schedule. Qed.
Print Assumptions C16_on_schedule_example.


(* ================================================================== *)
(* 8. the cluster-level window (M/RaftProofsC16Window.v) *)
From RV Require Import M.RaftProofsC10 M.RaftProofsC10Pair M.RaftProofsC10Star M.RaftProofsC16
  M.RaftProofsC16Window.

(* the lock-step round of C10 (restated; the definition is M/RaftProofsC10Star.v's) *)
Theorem C16_def_star_round : forall L Fs,
  star_round L Fs =
  (Fs1 <- mapM (fun F => steps F (to_peer (r_id F) (r_msgs L))) Fs ;;
   L1 <- steps (L <| r_msgs := [] |>) (concat (map (replies (r_id L)) Fs1)) ;;
   L2 <- tick L1 ;;
   Fs2 <- mapM (fun F1 => x <- tick (F1 <| r_msgs := [] |>) ;; Ok (fst x)) Fs1 ;;
   Ok (fst L2, Fs2)).
Proof. exact def_star_round. Qed.
Print Assumptions C16_def_star_round.

Theorem C16_def_act : forall L id,
  act L id <-> exists p, get_pr L id = Some p /\ recent_active p = true.
Proof. exact def_act. Qed.
Print Assumptions C16_def_act.

Theorem C16_def_netmsg : forall ty,
  netmsg ty <->
  ty <> MsgHup /\ ty <> MsgBeat /\ ty <> MsgCheckQuorum /\ ty <> MsgUnreachable /\
  ty <> MsgSnapStatus /\ ty <> MsgTransferLeader /\ ty <> MsgTimeoutNow.
Proof. exact def_netmsg. Qed.
Print Assumptions C16_def_netmsg.

Theorem C16_def_from_leader : forall m,
  from_leader m = (m_type m =? MsgAppend) || (m_type m =? MsgHeartbeat) || (m_type m =? MsgSnapshot).
Proof. exact def_from_leader. Qed.
Print Assumptions C16_def_from_leader.

(* the adversary: what a node outside {l} + ids may deliver to the majority of term t *)
Theorem C16_def_adv_ok : forall ids l t m,
  adv_ok ids l t m <->
  ~ In (m_from m) (l :: ids) /\ netmsg (m_type m) /\
  (m_type m = MsgRequestPreVote \/
   (m_term m <> 0 /\ m_term m < t) \/
   (m_term m <= t /\ from_leader m = false /\ m_type m <> MsgReadIndexResp)).
Proof. exact def_adv_ok. Qed.
Print Assumptions C16_def_adv_ok.

Theorem C16_def_deliver : forall st tm,
  deliver st tm =
  if fst tm =? r_id (fst st) then x <- step (fst st) (snd tm) ;; Ok (fst x, snd st)
  else Fs' <- mapM (fun F => if r_id F =? fst tm then x <- step F (snd tm) ;; Ok (fst x)
                             else Ok F) (snd st) ;;
       Ok (fst st, Fs').
Proof. exact def_deliver. Qed.
Print Assumptions C16_def_deliver.

Theorem C16_def_deliver_all : forall st adv,
  deliver_all st adv = match adv with
                       | [] => Ok st
                       | tm :: rest => st' <- deliver st tm ;; deliver_all st' rest
                       end.
Proof. exact def_deliver_all. Qed.
Print Assumptions C16_def_deliver_all.

Theorem C16_def_window_round : forall adv L Fs,
  window_round adv L Fs = (st <- deliver_all (L, Fs) adv ;; star_round (fst st) (snd st)).
Proof. exact def_window_round. Qed.
Print Assumptions C16_def_window_round.

Theorem C16_def_window_rounds : forall advs L Fs,
  window_rounds advs L Fs =
  match advs with
  | [] => Ok (L, Fs)
  | adv :: rest => x <- window_round adv L Fs ;; window_rounds rest (fst x) (snd x)
  end.
Proof. exact def_window_rounds. Qed.
Print Assumptions C16_def_window_rounds.

Theorem C16_def_adv_schedule : forall L Fs advs,
  adv_schedule L Fs advs <->
  Forall (Forall (fun tm => adv_ok (map r_id Fs) (r_id L) (r_term L) (snd tm))) advs.
Proof. exact def_adv_schedule. Qed.
Print Assumptions C16_def_adv_schedule.

(* the start of a window, on the model's fields *)
Theorem C16_def_window_start : forall L Fs,
  window_start L Fs <->
  r_term L <> 0 /\ r_id L <> INVALID_ID /\ ~ In (r_id L) (map r_id Fs) /\
  r_heartbeat_timeout L < r_election_timeout L /\
  Quorum.has_quorum (incoming (t_conf (r_prs L))) (outgoing (t_conf (r_prs L)))
                    (r_id L :: map r_id Fs) = true /\
  r_state L = Leader /\ r_leader_id L = r_id L /\ r_check_quorum L = true /\
  r_lead_transferee L = None /\
  r_heartbeat_elapsed L < r_heartbeat_timeout L /\ r_election_elapsed L < r_election_timeout L /\
  (forall id, In id (r_id L :: map r_id Fs) -> get_pr L id <> None) /\
  r_msgs L = [] /\
  ((forall id, In id (map r_id Fs) -> act L id) \/
   r_heartbeat_timeout L + r_election_elapsed L < r_election_timeout L + r_heartbeat_elapsed L) /\
  Forall (fun F =>
    r_state F = Follower /\ r_term F = r_term L /\ r_leader_id F = r_id L /\
    r_check_quorum F = true /\
    r_heartbeat_timeout L < r_election_timeout F /\
    r_heartbeat_timeout L < r_randomized_election_timeout F /\
    r_msgs F = [] /\ r_election_elapsed F <= r_heartbeat_elapsed L) Fs.
Proof. exact def_window_start. Qed.
Print Assumptions C16_def_window_start.

(* THE WINDOW THEOREM: any number of rounds, any adversarial lists *)
Theorem C16_window_rounds_safe :
  forall L Fs advs L' Fs',
    window_start L Fs -> adv_schedule L Fs advs ->
    window_rounds advs L Fs = Ok (L', Fs') ->
    r_state L' = Leader /\ r_term L' = r_term L /\ r_leader_id L' = r_id L /\ r_id L' = r_id L /\
    Forall2 (fun F F' =>
      r_id F' = r_id F /\ r_vote F' = r_vote F /\ r_state F' = Follower /\
      r_term F' = r_term L /\ r_leader_id F' = r_id L /\ r_check_quorum F' = true /\
      r_election_elapsed F' < r_election_timeout F') Fs Fs'.
Proof. exact window_rounds_safe. Qed.
Print Assumptions C16_window_rounds_safe.

(* one round preserves the window invariant ([window_inv L0 Fs0] = WInv instantiated
   with the ids, votes, term, timeouts and configuration of the start state; it holds at
   the start: window_start_WInv) *)
Theorem C16_window_start_inv :
  forall L Fs, window_start L Fs -> window_inv L Fs L Fs.
Proof. exact window_start_WInv. Qed.
Print Assumptions C16_window_start_inv.

Theorem C16_window_round_inv :
  forall L0 Fs0 adv L Fs L' Fs',
    window_start L0 Fs0 -> window_inv L0 Fs0 L Fs ->
    Forall (fun tm => adv_ok (map r_id Fs0) (r_id L0) (r_term L0) (snd tm)) adv ->
    window_round adv L Fs = Ok (L', Fs') -> window_inv L0 Fs0 L' Fs'.
Proof. exact window_round_inv. Qed.
Print Assumptions C16_window_round_inv.

(* in every state of the window no member of the majority answers a higher-term
   non-transfer (pre-)vote request: the step returns the state unchanged, nothing queued *)
Theorem C16_window_members_deny :
  forall L0 Fs0 L Fs m,
    window_start L0 Fs0 -> window_inv L0 Fs0 L Fs ->
    (m_type m = MsgRequestVote \/ m_type m = MsgRequestPreVote) -> r_term L0 < m_term m ->
    list_eqb (m_context m) CAMPAIGN_TRANSFER = false ->
    step L m = Ok (L, E_OK) /\ Forall (fun F => step F m = Ok (F, E_OK)) Fs.
Proof. exact window_members_deny. Qed.
Print Assumptions C16_window_members_deny.

(* 8: three voters, leader 1 and follower 2 against outsider 3 for thirty rounds (three
   election timeouts of the leader): the start and schedule hypotheses hold, the run
   computes and shows leader and follower where the theorem says *)
Example C16_window_example_start : window_start xs_leader [xw_F2].
Proof. exact xw_start. Qed.

Example C16_window_example_schedule : forall n, adv_schedule xs_leader [xw_F2] (repeat xw_adv n).
Proof. exact xw_schedule. Qed.

Example C16_window_example :
  exists L' F',
    window_rounds (repeat xw_adv 30) xs_leader [xw_F2] = Ok (L', [F']) /\
    r_state L' = Leader /\ r_term L' = 2 /\ r_election_elapsed L' = 0 /\
    r_state F' = Follower /\ r_term F' = 2 /\ r_vote F' = 1 /\ r_leader_id F' = 1.
Proof. exact xw_run. Qed.


(* ================================================================== *)
(* 9. the closed cluster (M/RaftProofsC16Closed.v) *)
From RV Require Import M.RaftProofsC16Closed.

Theorem C16_def_vresp : forall x,
  vresp x <-> m_type x = MsgRequestVoteResponse \/ m_type x = MsgRequestPreVoteResponse.
Proof. exact def_vresp. Qed.
Print Assumptions C16_def_vresp.

Theorem C16_def_vreq : forall x,
  vreq x <-> m_type x = MsgRequestVote \/ m_type x = MsgRequestPreVote.
Proof. exact def_vreq. Qed.
Print Assumptions C16_def_vreq.

(* the class of every message in flight in the closed window *)
Theorem C16_def_PC : forall ids l t x,
  PC ids l t x <->
  (m_term x <= t \/ exempt x = true) /\
  netmsg (m_type x) /\
  (vresp x -> m_reject x = false -> ~ In (m_from x) (l :: ids)) /\
  (vreq x -> ~ In (m_from x) (l :: ids) /\ list_eqb (m_context x) CAMPAIGN_TRANSFER = false) /\
  (~ In (m_from x) (l :: ids) -> In (m_to x) (l :: ids) -> adv_ok ids l t x).
Proof. exact def_PC. Qed.
Print Assumptions C16_def_PC.

Theorem C16_def_votes_ok : forall ids l r,
  votes_ok ids l r <->
  forall id, Quorum.assoc (t_votes (r_prs r)) id = Some true -> ~ In id (l :: ids).
Proof. exact def_votes_ok. Qed.
Print Assumptions C16_def_votes_ok.

Theorem C16_def_confq : forall ids l r,
  confq ids l r <->
  incoming (conf_of r) <> [] /\
  Quorum.has_quorum (incoming (conf_of r)) (outgoing (conf_of r)) (l :: ids) = true.
Proof. exact def_confq. Qed.
Print Assumptions C16_def_confq.

Theorem C16_def_snapq : forall ids l s,
  snapq ids l s <->
  forall c' i, ConfChange.restore empty_tracker (s_cs s) = ROk (c', i) ->
    incoming c' <> [] /\ Quorum.has_quorum (incoming c') (outgoing c') (l :: ids) = true.
Proof. exact def_snapq. Qed.
Print Assumptions C16_def_snapq.

(* the outsider's invariant *)
Theorem C16_def_OInv : forall ids l t o r,
  OInv ids l t o r <->
  r_pre_vote r = true /\ r_id r = o /\ r_term r <= t /\ r_state r <> Leader /\
  confq ids l r /\ votes_ok ids l r /\ Forall (PC ids l t) (r_msgs r).
Proof. exact def_OInv. Qed.
Print Assumptions C16_def_OInv.

(* a tally whose grants all come from outside the window members is never Won *)
Theorem C16_no_win :
  forall ids l r v,
    confq ids l r -> (forall id, Quorum.assoc v id = Some true -> ~ In id (l :: ids)) ->
    tally r v <> VoteWon.
Proof. exact no_win. Qed.
Print Assumptions C16_no_win.

(* (1) the outsider's step and tick *)
Theorem C16_outsider_step :
  forall ids l t, t <> 0 -> l <> INVALID_ID ->
  forall o, ~ In o (l :: ids) ->
  forall r m r' c,
    OInv ids l t o r -> PC ids l t m ->
    (m_type m = MsgSnapshot -> snapq ids l (m_snapshot m)) ->
    step r m = Ok (r', c) -> OInv ids l t o r'.
Proof. exact outsider_step. Qed.
Print Assumptions C16_outsider_step.

Theorem C16_outsider_tick :
  forall ids l t o, ~ In o (l :: ids) ->
  forall r r' b, OInv ids l t o r -> tick r = Ok (r', b) -> OInv ids l t o r'.
Proof. exact outsider_tick. Qed.
Print Assumptions C16_outsider_tick.

(* the closed cluster: [oact] has the constructors OStep (i : nat) (m : msg),
   OTick (i : nat), ORestart (i : nat) (r : raft); cluster = raft * list raft * list raft
   * list msg (leader, majority followers, outsiders, pool) *)
Theorem C16_def_oact_apply : forall st a,
  oact_apply st a =
  match a with
  | OStep i m =>
      match nth_error (fst st) i with
      | None => Ok st
      | Some o1 => x <- step o1 m ;;
                   Ok (upd (fst st) i ((fst x) <| r_msgs := [] |>), snd st ++ r_msgs (fst x))
      end
  | OTick i =>
      match nth_error (fst st) i with
      | None => Ok st
      | Some o1 => x <- tick o1 ;;
                   Ok (upd (fst st) i ((fst x) <| r_msgs := [] |>), snd st ++ r_msgs (fst x))
      end
  | ORestart i r =>
      match nth_error (fst st) i with
      | None => Ok st
      | Some o1 => Ok (upd (fst st) i r, snd st)
      end
  end.
Proof. exact def_oact_apply. Qed.
Print Assumptions C16_def_oact_apply.

Theorem C16_def_oacts_apply : forall st acts,
  oacts_apply st acts = match acts with
                        | [] => Ok st
                        | a :: rest => st' <- oact_apply st a ;; oacts_apply st' rest
                        end.
Proof. exact def_oacts_apply. Qed.
Print Assumptions C16_def_oacts_apply.

Theorem C16_def_restart_ok : forall ids l O r,
  restart_ok ids l O r <->
  r_id r = r_id O /\ r_pre_vote r = true /\ r_term r <= r_term O /\ r_state r <> Leader /\
  confq ids l r /\ t_votes (r_prs r) = [] /\ r_msgs r = [].
Proof. exact def_restart_ok. Qed.
Print Assumptions C16_def_restart_ok.

Theorem C16_def_oact_ok : forall ids l st a,
  oact_ok ids l st a <->
  match a with
  | OStep i m => In m (snd st) /\ (m_type m = MsgSnapshot -> snapq ids l (m_snapshot m))
  | OTick i => True
  | ORestart i r => forall O, nth_error (fst st) i = Some O -> restart_ok ids l O r
  end.
Proof. exact def_oact_ok. Qed.
Print Assumptions C16_def_oact_ok.

Theorem C16_def_oacts_ok : forall ids l st acts,
  oacts_ok ids l st acts <->
  match acts with
  | [] => True
  | a :: rest => oact_ok ids l st a /\
                 forall st', oact_apply st a = Ok st' -> oacts_ok ids l st' rest
  end.
Proof. exact def_oacts_ok. Qed.
Print Assumptions C16_def_oacts_ok.

Theorem C16_def_adv_from_pool : forall ids l pool adv,
  adv_from_pool ids l pool adv <->
  Forall (fun tm => In (snd tm) pool /\ ~ In (m_from (snd tm)) (l :: ids) /\
                    In (m_to (snd tm)) (l :: ids) /\ fst tm = m_to (snd tm)) adv.
Proof. exact def_adv_from_pool. Qed.
Print Assumptions C16_def_adv_from_pool.

Theorem C16_def_closed_round : forall acts adv L Fs Os pool,
  closed_round acts adv (L, Fs, Os, pool) =
  (op1 <- oacts_apply (Os, pool) acts ;;
   ma <- deliver_all (L, Fs) adv ;;
   mb <- star_round (fst ma) (snd ma) ;;
   Ok (fst mb, snd mb, fst op1, snd op1 ++ r_msgs (fst ma) ++ concat (map r_msgs (snd ma)))).
Proof. exact def_closed_round. Qed.
Print Assumptions C16_def_closed_round.

Theorem C16_def_round_ok : forall ids l acts adv L Fs Os pool,
  round_ok ids l acts adv (L, Fs, Os, pool) <->
  oacts_ok ids l (Os, pool) acts /\
  forall op1, oacts_apply (Os, pool) acts = Ok op1 -> adv_from_pool ids l (snd op1) adv.
Proof. exact def_round_ok. Qed.
Print Assumptions C16_def_round_ok.

Theorem C16_def_closed_rounds : forall sched st,
  closed_rounds sched st =
  match sched with
  | [] => Ok st
  | (acts, adv) :: rest => st' <- closed_round acts adv st ;; closed_rounds rest st'
  end.
Proof. exact def_closed_rounds. Qed.
Print Assumptions C16_def_closed_rounds.

Theorem C16_def_sched_ok : forall ids l sched st,
  sched_ok ids l sched st <->
  match sched with
  | [] => True
  | (acts, adv) :: rest =>
      round_ok ids l acts adv st /\
      forall st', closed_round acts adv st = Ok st' -> sched_ok ids l rest st'
  end.
Proof. exact def_sched_ok. Qed.
Print Assumptions C16_def_sched_ok.

Theorem C16_def_closed_start : forall L Fs Os,
  closed_start L Fs Os <->
  window_start L Fs /\
  In (r_vote L) (r_id L :: map r_id Fs) /\
  Forall (fun F => In (r_vote F) (r_id L :: map r_id Fs)) Fs /\
  Forall (fun O =>
    ~ In (r_id O) (r_id L :: map r_id Fs) /\ r_pre_vote O = true /\ r_term O <= r_term L /\
    r_state O <> Leader /\ confq (map r_id Fs) (r_id L) O /\
    votes_ok (map r_id Fs) (r_id L) O /\ r_msgs O = []) Os.
Proof. exact def_closed_start. Qed.
Print Assumptions C16_def_closed_start.

Theorem C16_def_closed_sched : forall L Fs Os sched,
  closed_sched L Fs Os sched <-> sched_ok (map r_id Fs) (r_id L) sched (L, Fs, Os, []).
Proof. exact def_closed_sched. Qed.
Print Assumptions C16_def_closed_sched.

(* THE CLOSED WINDOW *)
Theorem C16_closed_window :
  forall L Fs Os sched L' Fs' Os' pool',
    closed_start L Fs Os -> closed_sched L Fs Os sched ->
    closed_rounds sched (L, Fs, Os, []) = Ok (L', Fs', Os', pool') ->
    r_state L' = Leader /\ r_term L' = r_term L /\ r_leader_id L' = r_id L /\ r_id L' = r_id L /\
    Forall2 (fun F F' =>
      r_id F' = r_id F /\ r_vote F' = r_vote F /\ r_state F' = Follower /\
      r_term F' = r_term L /\ r_leader_id F' = r_id L /\ r_check_quorum F' = true /\
      r_election_elapsed F' < r_election_timeout F') Fs Fs' /\
    Forall (fun O' => r_term O' <= r_term L /\ r_state O' <> Leader /\ r_pre_vote O' = true /\
                      ~ In (r_id O') (r_id L :: map r_id Fs)) Os' /\
    Forall (PC (map r_id Fs) (r_id L) (r_term L)) pool'.
Proof. exact closed_window. Qed.
Print Assumptions C16_closed_window.

(* 9: leader 1, follower 2, outsider 3: cut off for thirty rounds, then rejoining for six *)
Example C16_closed_example_start : closed_start xs_leader [xw_F2] [xs_follower].
Proof. exact xc_start. Qed.

Example C16_closed_example_sched : closed_sched xs_leader [xw_F2] [xs_follower] xc_sched.
Proof. exact xc_sched_ok. Qed.

Example C16_closed_example_isolated :
  exists L' F' O' pool',
    closed_rounds (firstn 30 xc_sched) xc_st0 = Ok (L', [F'], [O'], pool') /\
    r_state L' = Leader /\ r_term L' = 2 /\
    r_state O' = PreCandidate /\ r_term O' = 2 /\
    length (filter (fun m => (m_type m =? MsgRequestPreVote) && (m_from m =? 3)) pool') = 4%nat /\
    Forall (fun m => (m_type m =? MsgRequestPreVote) && (m_from m =? 3) = true -> m_term m = 3) pool'.
Proof. exact xc_isolated. Qed.

Example C16_closed_example_rejoined :
  exists L' F' O' pool',
    closed_rounds xc_sched xc_st0 = Ok (L', [F'], [O'], pool') /\
    r_state L' = Leader /\ r_term L' = 2 /\
    r_state F' = Follower /\ r_term F' = 2 /\ r_vote F' = 1 /\
    r_state O' = Follower /\ r_term O' = 2 /\ r_leader_id O' = 1 /\
    length xc_sched = 36%nat.
Proof. exact xc_run. Qed.
