(* C16 — PreVote + CheckQuorum: a node that cannot win does not disrupt the cluster.
   Only pinned statements; proofs live in M/RaftProofs.v.
   Full property (for reference): besides the two per-step statements below, (a) a
   pre-candidate raises its term only when told of a higher one or after winning the
   pre-vote, and (b) the cluster-level window statement (a lock-step majority with
   leases keeps its leader and terms whatever the minority does).  (a) and (b) are not
   yet proved; the proved part is named _partial in MANIFEST/evidence. *)
From RV Require Import Base.Prelude Base.IdSet M.Msg M.RaftLog M.Raft M.RaftProofs.
Local Open Scope N_scope.

(* Handling a pre-vote request never changes the receiver's term or vote: every
   state, every message (any term, any sender, any log position), every path
   (lease drop, lower-term explicit reject, grant, reject + commit fast-forward
   incl. its step-down at the same term). *)
Theorem C16_prevote_req_no_change :
  forall r m r' c, m_type m = MsgRequestPreVote -> step r m = Ok (r', c) ->
    r_term r' = r_term r /\ r_vote r' = r_vote r.
Proof. exact prevote_req_no_change. Qed.
Print Assumptions C16_prevote_req_no_change.

(* The lease: with check_quorum, while a leader was heard from within
   election_timeout, a higher-term vote or pre-vote request that is not a forced
   transfer changes nothing and produces no message. *)
Theorem C16_lease_ignores_vote_requests :
  forall r m,
    (m_type m = MsgRequestVote \/ m_type m = MsgRequestPreVote) ->
    r_term r < m_term m ->
    r_check_quorum r = true -> r_leader_id r <> Progress.INVALID_ID ->
    r_election_elapsed r < r_election_timeout r ->
    list_eqb (m_context m) CAMPAIGN_TRANSFER = false ->
    step r m = Ok (r, E_OK).
Proof. exact lease_ignores_vote_requests. Qed.
Print Assumptions C16_lease_ignores_vote_requests.
