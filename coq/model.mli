
val negb : bool -> bool

type nat =
| O
| S of nat

val option_map : ('a1 -> 'a2) -> 'a1 option -> 'a2 option

val fst : ('a1 * 'a2) -> 'a1

val snd : ('a1 * 'a2) -> 'a2

val length : 'a1 list -> nat

val app : 'a1 list -> 'a1 list -> 'a1 list

type comparison =
| Eq
| Lt
| Gt

val add : nat -> nat -> nat

val sub : nat -> nat -> nat

val eqb : bool -> bool -> bool

module Nat :
 sig
  val eqb : nat -> nat -> bool

  val leb : nat -> nat -> bool

  val ltb : nat -> nat -> bool

  val compare : nat -> nat -> comparison
 end

val nth_error : 'a1 list -> nat -> 'a1 option

val map : ('a1 -> 'a2) -> 'a1 list -> 'a2 list

val flat_map : ('a1 -> 'a2 list) -> 'a1 list -> 'a2 list

val fold_left : ('a1 -> 'a2 -> 'a1) -> 'a2 list -> 'a1 -> 'a1

val fold_right : ('a2 -> 'a1 -> 'a1) -> 'a1 -> 'a2 list -> 'a1

val forallb : ('a1 -> bool) -> 'a1 list -> bool

val filter : ('a1 -> bool) -> 'a1 list -> 'a1 list

val firstn : nat -> 'a1 list -> 'a1 list

val skipn : nat -> 'a1 list -> 'a1 list

type positive =
| XI of positive
| XO of positive
| XH

type n =
| N0
| Npos of positive

module Pos :
 sig
  type mask =
  | IsNul
  | IsPos of positive
  | IsNeg
 end

module Coq_Pos :
 sig
  val succ : positive -> positive

  val add : positive -> positive -> positive

  val add_carry : positive -> positive -> positive

  val pred_double : positive -> positive

  type mask = Pos.mask =
  | IsNul
  | IsPos of positive
  | IsNeg

  val succ_double_mask : mask -> mask

  val double_mask : mask -> mask

  val double_pred_mask : positive -> mask

  val sub_mask : positive -> positive -> mask

  val sub_mask_carry : positive -> positive -> mask

  val mul : positive -> positive -> positive

  val compare_cont : comparison -> positive -> positive -> comparison

  val compare : positive -> positive -> comparison

  val eqb : positive -> positive -> bool

  val iter_op : ('a1 -> 'a1 -> 'a1) -> positive -> 'a1 -> 'a1

  val to_nat : positive -> nat

  val of_succ_nat : nat -> positive
 end

module N :
 sig
  val succ_double : n -> n

  val double : n -> n

  val add : n -> n -> n

  val sub : n -> n -> n

  val mul : n -> n -> n

  val compare : n -> n -> comparison

  val eqb : n -> n -> bool

  val leb : n -> n -> bool

  val ltb : n -> n -> bool

  val pos_div_eucl : positive -> n -> n * n

  val div_eucl : n -> n -> n * n

  val to_nat : n -> nat

  val of_nat : nat -> n
 end

type site = n

type 'a res =
| Ok of 'a
| Panic of site

val bind : 'a1 res -> ('a1 -> 'a2 res) -> 'a2 res

val idx : 'a1 list -> nat -> site -> 'a1 res

val upd : 'a1 list -> nat -> 'a1 -> 'a1 list

val enc_opt : n option -> n list

val enc_bool : bool -> n

val enc_list : n list -> n list

type inflights = { start : nat; count : nat; buffer : n list; cap : nat;
                   incoming_cap : nat option; allocated : bool }

val site_add_full : site

val site_add_dbg_count : site

val site_add_dbg_start : site

val site_add_dbg_incoming : site

val site_add_next : site

val site_setcap_dbg_len : site

val site_setcap_slice : site

val site_free_index : site

val site_first_index : site

val site_count_underflow : site

val new0 : nat -> inflights

val full : inflights -> bool

val set_cap : inflights -> nat -> inflights res

val add0 : inflights -> n -> inflights res

val free_loop : n list -> nat -> n -> nat -> nat -> nat -> (nat * nat) res

val free_to : inflights -> n -> inflights res

val free_first_one : inflights -> inflights res

val reset : inflights -> inflights

val maybe_free_buffer : inflights -> inflights

type op =
| OAdd of n
| OFreeTo of n
| OFreeFirst
| OReset
| OSetCap of nat
| OMaybeFree

val step : inflights -> op -> inflights res

val dump : inflights -> n list

val decode_op : n -> n -> op option

val decode_ops : n list -> op list

val run_ops : bool -> inflights -> op list -> n list

val run_inflights : n list -> n list

type idset = n list

val mem : n -> n list -> bool

val insert : n -> idset -> idset

val remove : n -> idset -> idset

val union : idset -> idset -> idset

val is_empty : idset -> bool

val diff : idset -> idset -> idset

val symdiff_count : idset -> idset -> nat

val list_eqb : n list -> n list -> bool

type err = n

type 'a r =
| ROk of 'a
| RErr of err

val rbind : 'a1 r -> ('a1 -> 'a2 r) -> 'a2 r

val e_no_progress_voter : err

val e_no_progress_learner : err

val e_learner_outgoing : err

val e_learner_incoming : err

val e_no_progress_next : err

val e_next_not_outgoing : err

val e_next_nonjoint : err

val e_autoleave_nonjoint : err

val e_already_joint : err

val e_zero_voter_joint : err

val e_leave_nonjoint : err

val e_not_joint : err

val e_simple_in_joint : err

val e_more_than_one : err

val e_removed_all : err

val site_invalid_restore : site

type conf = { incoming : idset; outgoing : idset; learners : idset;
              learners_next : idset; auto_leave : bool }

val empty_conf : conf

type cctype =
| AddNode
| RemoveNode
| AddLearnerNode

type ccsingle = cctype * n

type mct =
| MAdd
| MRemove

type changes = (n * mct) list

type conf_state = { cs_voters : n list; cs_learners : n list;
                    cs_voters_outgoing : n list; cs_learners_next : n list;
                    cs_auto_leave : bool }

val last_change : n -> changes -> mct option

val contains : idset -> changes -> n -> bool

val joint : conf -> bool

val check_learners : conf -> idset -> changes -> n list -> unit r

val check_learners_next : conf -> idset -> changes -> n list -> unit r

val check_invariants : conf -> idset -> changes -> unit r

val set_incoming : conf -> idset -> conf

val set_outgoing : conf -> idset -> conf

val set_learners : conf -> idset -> conf

val set_auto_leave : conf -> bool -> conf

val init_progress : conf -> changes -> n -> bool -> conf * changes

val make_voter : idset -> conf -> changes -> n -> conf * changes

val make_learner : idset -> conf -> changes -> n -> conf * changes

val remove_node : idset -> conf -> changes -> n -> conf * changes

val apply_one : idset -> (conf * changes) -> ccsingle -> conf * changes

val apply_loop : idset -> (conf * changes) -> ccsingle list -> conf * changes

val apply_changes :
  idset -> conf -> changes -> ccsingle list -> (conf * changes) r

val check_and_copy : conf -> idset -> unit r

val simple : conf -> idset -> ccsingle list -> (conf * changes) r

val enter_joint : bool -> conf -> idset -> ccsingle list -> (conf * changes) r

val leave_removals : conf -> changes

val leave_joint : conf -> idset -> (conf * changes) r

val apply_change : idset -> (n * mct) -> idset

val apply_conf : idset -> changes -> idset

type tracker = conf * idset

val empty_tracker : tracker

val commit : tracker -> (conf * changes) r -> tracker r

val do_simple : tracker -> ccsingle list -> tracker r

val do_enter_joint : bool -> tracker -> ccsingle list -> tracker r

val do_leave_joint : tracker -> tracker r

val to_conf_change_single : conf_state -> ccsingle list * ccsingle list

val simple_each : tracker -> ccsingle list -> tracker r

val restore : tracker -> conf_state -> tracker r

val to_conf_state : conf -> conf_state

val eq_without_order : n list -> n list -> bool

val conf_state_eq : conf_state -> conf_state -> bool

val raft_new_restore : conf_state -> tracker r res

type transition =
| Auto
| Implicit
| Explicit

type ccv2 = { v2_transition : transition; v2_changes : ccsingle list }

val v2_enter_joint : ccv2 -> bool option

val v2_leave_joint : ccv2 -> bool

val v1_into_v2 : cctype -> n -> ccv2

val apply_conf_change : tracker -> ccv2 -> tracker r

val dump_tracker : tracker -> n list

val enc_mct : mct -> n

val dump_changes : changes -> n list

val malformed : n list

val take_list : n list -> (n list * n list) option

val dec_type : n -> cctype option

val dec_trans : n -> transition option

val take_pairs : nat -> n list -> (ccsingle list * n list) option

val take_ccs : n list -> (ccsingle list * n list) option

val take_cs : n list -> (conf_state * n list) option

val enc_restore : tracker r res -> n list

val changer_step : tracker -> (conf * changes) r -> tracker * n list

val v2_step : tracker -> ccv2 -> tracker * n list

val run_ops0 : nat -> tracker -> n list -> n list

val run_confchange : n list -> n list
