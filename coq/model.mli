
val negb : bool -> bool

type nat =
| O
| S of nat

val option_map : ('a1 -> 'a2) -> 'a1 option -> 'a2 option

val length : 'a1 list -> nat

val app : 'a1 list -> 'a1 list -> 'a1 list

type comparison =
| Eq
| Lt
| Gt

val add : nat -> nat -> nat

val sub : nat -> nat -> nat

module Nat :
 sig
  val eqb : nat -> nat -> bool

  val leb : nat -> nat -> bool

  val ltb : nat -> nat -> bool

  val compare : nat -> nat -> comparison
 end

val nth_error : 'a1 list -> nat -> 'a1 option

val firstn : nat -> 'a1 list -> 'a1 list

val skipn : nat -> 'a1 list -> 'a1 list

type positive =
| XI of positive
| XO of positive
| XH

type n =
| N0
| Npos of positive

module Pos :
 sig
  type mask =
  | IsNul
  | IsPos of positive
  | IsNeg
 end

module Coq_Pos :
 sig
  val succ : positive -> positive

  val add : positive -> positive -> positive

  val add_carry : positive -> positive -> positive

  val pred_double : positive -> positive

  type mask = Pos.mask =
  | IsNul
  | IsPos of positive
  | IsNeg

  val succ_double_mask : mask -> mask

  val double_mask : mask -> mask

  val double_pred_mask : positive -> mask

  val sub_mask : positive -> positive -> mask

  val sub_mask_carry : positive -> positive -> mask

  val mul : positive -> positive -> positive

  val compare_cont : comparison -> positive -> positive -> comparison

  val compare : positive -> positive -> comparison

  val eqb : positive -> positive -> bool

  val iter_op : ('a1 -> 'a1 -> 'a1) -> positive -> 'a1 -> 'a1

  val to_nat : positive -> nat

  val of_succ_nat : nat -> positive
 end

module N :
 sig
  val succ_double : n -> n

  val double : n -> n

  val add : n -> n -> n

  val sub : n -> n -> n

  val mul : n -> n -> n

  val compare : n -> n -> comparison

  val eqb : n -> n -> bool

  val leb : n -> n -> bool

  val ltb : n -> n -> bool

  val pos_div_eucl : positive -> n -> n * n

  val div_eucl : n -> n -> n * n

  val to_nat : n -> nat

  val of_nat : nat -> n
 end

type site = n

type 'a res =
| Ok of 'a
| Panic of site

val bind : 'a1 res -> ('a1 -> 'a2 res) -> 'a2 res

val idx : 'a1 list -> nat -> site -> 'a1 res

val upd : 'a1 list -> nat -> 'a1 -> 'a1 list

val enc_opt : n option -> n list

val enc_bool : bool -> n

val enc_list : n list -> n list

type inflights = { start : nat; count : nat; buffer : n list; cap : nat;
                   incoming_cap : nat option; allocated : bool }

val site_add_full : site

val site_add_dbg_count : site

val site_add_dbg_start : site

val site_add_dbg_incoming : site

val site_add_next : site

val site_setcap_dbg_len : site

val site_setcap_slice : site

val site_free_index : site

val site_first_index : site

val site_count_underflow : site

val new0 : nat -> inflights

val full : inflights -> bool

val set_cap : inflights -> nat -> inflights res

val add0 : inflights -> n -> inflights res

val free_loop : n list -> nat -> n -> nat -> nat -> nat -> (nat * nat) res

val free_to : inflights -> n -> inflights res

val free_first_one : inflights -> inflights res

val reset : inflights -> inflights

val maybe_free_buffer : inflights -> inflights

type op =
| OAdd of n
| OFreeTo of n
| OFreeFirst
| OReset
| OSetCap of nat
| OMaybeFree

val step : inflights -> op -> inflights res

val dump : inflights -> n list

val decode_op : n -> n -> op option

val decode_ops : n list -> op list

val run_ops : bool -> inflights -> op list -> n list

val run_inflights : n list -> n list
