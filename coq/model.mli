
val negb : bool -> bool

type nat =
| O
| S of nat

val option_map : ('a1 -> 'a2) -> 'a1 option -> 'a2 option

val fst : ('a1 * 'a2) -> 'a1

val snd : ('a1 * 'a2) -> 'a2

val length : 'a1 list -> nat

val app : 'a1 list -> 'a1 list -> 'a1 list

type comparison =
| Eq
| Lt
| Gt

val add : nat -> nat -> nat

val sub : nat -> nat -> nat

val eqb : bool -> bool -> bool

module Nat :
 sig
  val eqb : nat -> nat -> bool

  val leb : nat -> nat -> bool

  val ltb : nat -> nat -> bool

  val compare : nat -> nat -> comparison
 end

val nth_error : 'a1 list -> nat -> 'a1 option

val last : 'a1 list -> 'a1 -> 'a1

val map : ('a1 -> 'a2) -> 'a1 list -> 'a2 list

val flat_map : ('a1 -> 'a2 list) -> 'a1 list -> 'a2 list

val fold_right : ('a2 -> 'a1 -> 'a1) -> 'a1 -> 'a2 list -> 'a1

val firstn : nat -> 'a1 list -> 'a1 list

val skipn : nat -> 'a1 list -> 'a1 list

val repeat : 'a1 -> nat -> 'a1 list

type positive =
| XI of positive
| XO of positive
| XH

type n =
| N0
| Npos of positive

module Pos :
 sig
  type mask =
  | IsNul
  | IsPos of positive
  | IsNeg
 end

module Coq_Pos :
 sig
  val succ : positive -> positive

  val add : positive -> positive -> positive

  val add_carry : positive -> positive -> positive

  val pred_double : positive -> positive

  type mask = Pos.mask =
  | IsNul
  | IsPos of positive
  | IsNeg

  val succ_double_mask : mask -> mask

  val double_mask : mask -> mask

  val double_pred_mask : positive -> mask

  val sub_mask : positive -> positive -> mask

  val sub_mask_carry : positive -> positive -> mask

  val mul : positive -> positive -> positive

  val compare_cont : comparison -> positive -> positive -> comparison

  val compare : positive -> positive -> comparison

  val eqb : positive -> positive -> bool

  val iter_op : ('a1 -> 'a1 -> 'a1) -> positive -> 'a1 -> 'a1

  val to_nat : positive -> nat

  val of_succ_nat : nat -> positive
 end

module N :
 sig
  val succ_double : n -> n

  val double : n -> n

  val add : n -> n -> n

  val sub : n -> n -> n

  val mul : n -> n -> n

  val compare : n -> n -> comparison

  val eqb : n -> n -> bool

  val leb : n -> n -> bool

  val ltb : n -> n -> bool

  val max : n -> n -> n

  val pos_div_eucl : positive -> n -> n * n

  val div_eucl : n -> n -> n * n

  val to_nat : n -> nat

  val of_nat : nat -> n
 end

type site = n

type 'a res =
| Ok of 'a
| Panic of site

val bind : 'a1 res -> ('a1 -> 'a2 res) -> 'a2 res

val idx : 'a1 list -> nat -> site -> 'a1 res

val upd : 'a1 list -> nat -> 'a1 -> 'a1 list

val u64_max : n

val enc_opt : n option -> n list

val enc_bool : bool -> n

val enc_list : n list -> n list

type inflights = { start : nat; count : nat; buffer : n list; cap : nat;
                   incoming_cap : nat option; allocated : bool }

val site_add_full : site

val site_add_dbg_count : site

val site_add_dbg_start : site

val site_add_dbg_incoming : site

val site_add_next : site

val site_setcap_dbg_len : site

val site_setcap_slice : site

val site_free_index : site

val site_first_index : site

val site_count_underflow : site

val new0 : nat -> inflights

val full : inflights -> bool

val set_cap : inflights -> nat -> inflights res

val add0 : inflights -> n -> inflights res

val free_loop : n list -> nat -> n -> nat -> nat -> nat -> (nat * nat) res

val free_to : inflights -> n -> inflights res

val free_first_one : inflights -> inflights res

val reset : inflights -> inflights

val maybe_free_buffer : inflights -> inflights

type op =
| OAdd of n
| OFreeTo of n
| OFreeFirst
| OReset
| OSetCap of nat
| OMaybeFree

val step : inflights -> op -> inflights res

val dump : inflights -> n list

val decode_op : n -> n -> op option

val decode_ops : n list -> op list

val run_ops : bool -> inflights -> op list -> n list

val run_inflights : n list -> n list

type entry = { e_type : n; e_term : n; e_index : n; e_data : n list;
               e_context : n list }

val varint_len : n -> n

val varint_field_size : n -> n

val bytes_field_size : n list -> n

val entry_size : entry -> n

val nO_LIMIT : n

val limit_count : ('a1 -> n) -> 'a1 list -> n -> n -> nat

val limit_size_by : ('a1 -> n) -> 'a1 list -> n option -> 'a1 list

val limit_size : entry list -> n option -> entry list

type hard_state = { hs_term : n; hs_vote : n; hs_commit : n }

type conf_state = { cs_voters : n list; cs_learners : n list;
                    cs_voters_outgoing : n list; cs_learners_next : n list;
                    cs_auto_leave : bool }

val hs_default : hard_state

val cs_default : conf_state

val list_eqb : n list -> n list -> bool

val cs_eqb : conf_state -> conf_state -> bool

type snapshot = { s_index : n; s_term : n; s_cs : conf_state }

type gectx =
| CtxSendAppend of n * n * bool
| CtxGenReady
| CtxTransferLeader
| CtxCommitByVote
| CtxEmpty of bool

val can_async : gectx -> bool

type serr =
| Compacted
| Unavailable
| SnapshotOutOfDate
| SnapshotTemporarilyUnavailable
| LogTemporarilyUnavailable

val serr_code : serr -> n

type 'a sres =
| SOk of 'a
| SErr of serr

type mem = { hs : hard_state; cs : conf_state; entries : entry list;
             snap_index : n; snap_term : n; trig_snap : bool;
             trig_log : bool; ge_ctx : gectx option }

val set_hs : mem -> hard_state -> mem

val set_cs : mem -> conf_state -> mem

val set_entries : mem -> entry list -> mem

val set_trig_snap : mem -> bool -> mem

val set_trig_log : mem -> bool -> mem

val set_ge_ctx : mem -> gectx option -> mem

val site_first_overflow : site

val site_commit_to_assert : site

val site_commit_to_index : site

val site_snapshot_entries0 : site

val site_snapshot_underflow : site

val site_snapshot_index : site

val site_snapshot_commit_lt : site

val site_compact_last_overflow : site

val site_compact_oob : site

val site_compact_drain : site

val site_append_compacted : site

val site_append_last_overflow : site

val site_append_gap : site

val site_append_drain : site

val site_entries_last_overflow : site

val site_entries_oob : site

val site_entries_entries0 : site

val site_entries_hi_underflow : site

val site_entries_slice_order : site

val site_entries_slice_end : site

val site_term_index : site

val site_init_assert : site

val new1 : mem

val initialized : mem -> bool

val cs_from : n list -> n list -> conf_state

val initialize_with_conf_state : mem -> conf_state -> mem res

val new_with_conf_state : conf_state -> mem res

val set_hardstate : mem -> hard_state -> mem

val hard_state_of : mem -> hard_state

val set_commit : mem -> n -> mem

val set_conf_state : mem -> conf_state -> mem

val first_index : mem -> n res

val last_index : mem -> n

val has_entry_at : mem -> n -> bool

val commit_to : mem -> n -> mem res

val apply_snapshot : mem -> snapshot -> (mem * unit sres) res

val make_snapshot : mem -> snapshot res

val compact : mem -> n -> mem res

val append : mem -> entry list -> mem res

val commit_to_and_set_conf_states : mem -> n -> conf_state option -> mem res

val trigger_snap_unavailable : mem -> mem

val trigger_log_unavailable : mem -> bool -> mem

val take_get_entries_context : mem -> mem * gectx option

val initial_state : mem -> hard_state * conf_state

val storage_entries :
  mem -> n -> n -> n option -> gectx -> (mem * entry list sres) res

val storage_term : mem -> n -> n sres res

val storage_first_index : mem -> n res

val storage_last_index : mem -> n

val storage_snapshot : mem -> n -> n -> (mem * snapshot sres) res

type op0 =
| OSetHardState of hard_state
| OSetCommit of n
| OCommitTo of n
| OSetConfState of conf_state
| OApplySnapshot of snapshot
| OCompact of n
| OAppend of entry list
| OCommitToConf of n * conf_state option
| OTrigSnap
| OTrigLog of bool
| OTakeCtx
| OInitConf of conf_state
| QInitialState
| QEntries of n * n * n option * gectx
| QTerm of n
| QFirstIndex
| QLastIndex
| QSnapshot of n * n
| QHardState

type ret =
| RUnit
| RNum of n
| REntries of entry list
| RSnap of snapshot
| RState of hard_state * conf_state
| RHard of hard_state
| RCtx of gectx option

val ok_unit : mem res -> (mem * ret sres) res

val map_sres : ('a1 -> 'a2) -> 'a1 sres -> 'a2 sres

val step0 : mem -> op0 -> (mem * ret sres) res

val dec_list : n list -> (n list * n list) option

val parse_cs : n list -> (conf_state * n list) option

val parse_vl : n list -> (conf_state * n list) option

val parse_entries : nat -> n list -> (entry list * n list) option

type cmd =
| COp of op0
| CDump

val parse_cmd : n list -> (cmd * n list) option

val enc_hs : hard_state -> n list

val enc_cs : conf_state -> n list

val sum_bytes : n list -> n

val enc_entry_c : entry -> n list

val enc_entries_c : entry list -> n list

val enc_snap : snapshot -> n list

val enc_ctx : gectx option -> n list

val enc_ret : ret -> n list

val enc_sres : ret sres -> n list

val pANIC : n

val dump0 : mem -> n list * bool

val run_cmds : nat -> mem -> n list -> n list

val run_memstorage : n list -> n list
