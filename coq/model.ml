
(** val negb : bool -> bool **)

let negb = function
| true -> false
| false -> true

type nat =
| O
| S of nat

(** val option_map : ('a1 -> 'a2) -> 'a1 option -> 'a2 option **)

let option_map f = function
| Some a -> Some (f a)
| None -> None

(** val fst : ('a1 * 'a2) -> 'a1 **)

let fst = function
| (x, _) -> x

(** val snd : ('a1 * 'a2) -> 'a2 **)

let snd = function
| (_, y) -> y

(** val length : 'a1 list -> nat **)

let rec length = function
| [] -> O
| _ :: l' -> S (length l')

(** val app : 'a1 list -> 'a1 list -> 'a1 list **)

let rec app l m =
  match l with
  | [] -> m
  | a :: l1 -> a :: (app l1 m)

type comparison =
| Eq
| Lt
| Gt

module Coq__1 = struct
 (** val add : nat -> nat -> nat **)
 let rec add n0 m =
   match n0 with
   | O -> m
   | S p -> S (add p m)
end
include Coq__1

(** val sub : nat -> nat -> nat **)

let rec sub n0 m =
  match n0 with
  | O -> n0
  | S k -> (match m with
            | O -> n0
            | S l -> sub k l)

(** val eqb : bool -> bool -> bool **)

let eqb b1 b2 =
  if b1 then b2 else if b2 then false else true

module Nat =
 struct
  (** val eqb : nat -> nat -> bool **)

  let rec eqb n0 m =
    match n0 with
    | O -> (match m with
            | O -> true
            | S _ -> false)
    | S n' -> (match m with
               | O -> false
               | S m' -> eqb n' m')

  (** val leb : nat -> nat -> bool **)

  let rec leb n0 m =
    match n0 with
    | O -> true
    | S n' -> (match m with
               | O -> false
               | S m' -> leb n' m')

  (** val ltb : nat -> nat -> bool **)

  let ltb n0 m =
    leb (S n0) m

  (** val compare : nat -> nat -> comparison **)

  let rec compare n0 m =
    match n0 with
    | O -> (match m with
            | O -> Eq
            | S _ -> Lt)
    | S n' -> (match m with
               | O -> Gt
               | S m' -> compare n' m')
 end

(** val nth_error : 'a1 list -> nat -> 'a1 option **)

let rec nth_error l = function
| O -> (match l with
        | [] -> None
        | x :: _ -> Some x)
| S n1 -> (match l with
           | [] -> None
           | _ :: l0 -> nth_error l0 n1)

(** val last : 'a1 list -> 'a1 -> 'a1 **)

let rec last l d =
  match l with
  | [] -> d
  | a :: l0 -> (match l0 with
                | [] -> a
                | _ :: _ -> last l0 d)

(** val map : ('a1 -> 'a2) -> 'a1 list -> 'a2 list **)

let rec map f = function
| [] -> []
| a :: t -> (f a) :: (map f t)

(** val flat_map : ('a1 -> 'a2 list) -> 'a1 list -> 'a2 list **)

let rec flat_map f = function
| [] -> []
| x :: t -> app (f x) (flat_map f t)

(** val fold_right : ('a2 -> 'a1 -> 'a1) -> 'a1 -> 'a2 list -> 'a1 **)

let rec fold_right f a0 = function
| [] -> a0
| b :: t -> f b (fold_right f a0 t)

(** val firstn : nat -> 'a1 list -> 'a1 list **)

let rec firstn n0 l =
  match n0 with
  | O -> []
  | S n1 -> (match l with
             | [] -> []
             | a :: l0 -> a :: (firstn n1 l0))

(** val skipn : nat -> 'a1 list -> 'a1 list **)

let rec skipn n0 l =
  match n0 with
  | O -> l
  | S n1 -> (match l with
             | [] -> []
             | _ :: l0 -> skipn n1 l0)

(** val repeat : 'a1 -> nat -> 'a1 list **)

let rec repeat x = function
| O -> []
| S k -> x :: (repeat x k)

type positive =
| XI of positive
| XO of positive
| XH

type n =
| N0
| Npos of positive

module Pos =
 struct
  type mask =
  | IsNul
  | IsPos of positive
  | IsNeg
 end

module Coq_Pos =
 struct
  (** val succ : positive -> positive **)

  let rec succ = function
  | XI p -> XO (succ p)
  | XO p -> XI p
  | XH -> XO XH

  (** val add : positive -> positive -> positive **)

  let rec add x y =
    match x with
    | XI p ->
      (match y with
       | XI q -> XO (add_carry p q)
       | XO q -> XI (add p q)
       | XH -> XO (succ p))
    | XO p ->
      (match y with
       | XI q -> XI (add p q)
       | XO q -> XO (add p q)
       | XH -> XI p)
    | XH -> (match y with
             | XI q -> XO (succ q)
             | XO q -> XI q
             | XH -> XO XH)

  (** val add_carry : positive -> positive -> positive **)

  and add_carry x y =
    match x with
    | XI p ->
      (match y with
       | XI q -> XI (add_carry p q)
       | XO q -> XO (add_carry p q)
       | XH -> XI (succ p))
    | XO p ->
      (match y with
       | XI q -> XO (add_carry p q)
       | XO q -> XI (add p q)
       | XH -> XO (succ p))
    | XH ->
      (match y with
       | XI q -> XI (succ q)
       | XO q -> XO (succ q)
       | XH -> XI XH)

  (** val pred_double : positive -> positive **)

  let rec pred_double = function
  | XI p -> XI (XO p)
  | XO p -> XI (pred_double p)
  | XH -> XH

  type mask = Pos.mask =
  | IsNul
  | IsPos of positive
  | IsNeg

  (** val succ_double_mask : mask -> mask **)

  let succ_double_mask = function
  | IsNul -> IsPos XH
  | IsPos p -> IsPos (XI p)
  | IsNeg -> IsNeg

  (** val double_mask : mask -> mask **)

  let double_mask = function
  | IsPos p -> IsPos (XO p)
  | x0 -> x0

  (** val double_pred_mask : positive -> mask **)

  let double_pred_mask = function
  | XI p -> IsPos (XO (XO p))
  | XO p -> IsPos (XO (pred_double p))
  | XH -> IsNul

  (** val sub_mask : positive -> positive -> mask **)

  let rec sub_mask x y =
    match x with
    | XI p ->
      (match y with
       | XI q -> double_mask (sub_mask p q)
       | XO q -> succ_double_mask (sub_mask p q)
       | XH -> IsPos (XO p))
    | XO p ->
      (match y with
       | XI q -> succ_double_mask (sub_mask_carry p q)
       | XO q -> double_mask (sub_mask p q)
       | XH -> IsPos (pred_double p))
    | XH -> (match y with
             | XH -> IsNul
             | _ -> IsNeg)

  (** val sub_mask_carry : positive -> positive -> mask **)

  and sub_mask_carry x y =
    match x with
    | XI p ->
      (match y with
       | XI q -> succ_double_mask (sub_mask_carry p q)
       | XO q -> double_mask (sub_mask p q)
       | XH -> IsPos (pred_double p))
    | XO p ->
      (match y with
       | XI q -> double_mask (sub_mask_carry p q)
       | XO q -> succ_double_mask (sub_mask_carry p q)
       | XH -> double_pred_mask p)
    | XH -> IsNeg

  (** val mul : positive -> positive -> positive **)

  let rec mul x y =
    match x with
    | XI p -> add y (XO (mul p y))
    | XO p -> XO (mul p y)
    | XH -> y

  (** val compare_cont : comparison -> positive -> positive -> comparison **)

  let rec compare_cont r x y =
    match x with
    | XI p ->
      (match y with
       | XI q -> compare_cont r p q
       | XO q -> compare_cont Gt p q
       | XH -> Gt)
    | XO p ->
      (match y with
       | XI q -> compare_cont Lt p q
       | XO q -> compare_cont r p q
       | XH -> Gt)
    | XH -> (match y with
             | XH -> r
             | _ -> Lt)

  (** val compare : positive -> positive -> comparison **)

  let compare =
    compare_cont Eq

  (** val eqb : positive -> positive -> bool **)

  let rec eqb p q =
    match p with
    | XI p0 -> (match q with
                | XI q0 -> eqb p0 q0
                | _ -> false)
    | XO p0 -> (match q with
                | XO q0 -> eqb p0 q0
                | _ -> false)
    | XH -> (match q with
             | XH -> true
             | _ -> false)

  (** val iter_op : ('a1 -> 'a1 -> 'a1) -> positive -> 'a1 -> 'a1 **)

  let rec iter_op op1 p a =
    match p with
    | XI p0 -> op1 a (iter_op op1 p0 (op1 a a))
    | XO p0 -> iter_op op1 p0 (op1 a a)
    | XH -> a

  (** val to_nat : positive -> nat **)

  let to_nat x =
    iter_op Coq__1.add x (S O)

  (** val of_succ_nat : nat -> positive **)

  let rec of_succ_nat = function
  | O -> XH
  | S x -> succ (of_succ_nat x)
 end

module N =
 struct
  (** val succ_double : n -> n **)

  let succ_double = function
  | N0 -> Npos XH
  | Npos p -> Npos (XI p)

  (** val double : n -> n **)

  let double = function
  | N0 -> N0
  | Npos p -> Npos (XO p)

  (** val add : n -> n -> n **)

  let add n0 m =
    match n0 with
    | N0 -> m
    | Npos p -> (match m with
                 | N0 -> n0
                 | Npos q -> Npos (Coq_Pos.add p q))

  (** val sub : n -> n -> n **)

  let sub n0 m =
    match n0 with
    | N0 -> N0
    | Npos n' ->
      (match m with
       | N0 -> n0
       | Npos m' ->
         (match Coq_Pos.sub_mask n' m' with
          | Coq_Pos.IsPos p -> Npos p
          | _ -> N0))

  (** val mul : n -> n -> n **)

  let mul n0 m =
    match n0 with
    | N0 -> N0
    | Npos p -> (match m with
                 | N0 -> N0
                 | Npos q -> Npos (Coq_Pos.mul p q))

  (** val compare : n -> n -> comparison **)

  let compare n0 m =
    match n0 with
    | N0 -> (match m with
             | N0 -> Eq
             | Npos _ -> Lt)
    | Npos n' -> (match m with
                  | N0 -> Gt
                  | Npos m' -> Coq_Pos.compare n' m')

  (** val eqb : n -> n -> bool **)

  let eqb n0 m =
    match n0 with
    | N0 -> (match m with
             | N0 -> true
             | Npos _ -> false)
    | Npos p -> (match m with
                 | N0 -> false
                 | Npos q -> Coq_Pos.eqb p q)

  (** val leb : n -> n -> bool **)

  let leb x y =
    match compare x y with
    | Gt -> false
    | _ -> true

  (** val ltb : n -> n -> bool **)

  let ltb x y =
    match compare x y with
    | Lt -> true
    | _ -> false

  (** val max : n -> n -> n **)

  let max n0 n' =
    match compare n0 n' with
    | Gt -> n0
    | _ -> n'

  (** val pos_div_eucl : positive -> n -> n * n **)

  let rec pos_div_eucl a b =
    match a with
    | XI a' ->
      let (q, r) = pos_div_eucl a' b in
      let r' = succ_double r in
      if leb b r' then ((succ_double q), (sub r' b)) else ((double q), r')
    | XO a' ->
      let (q, r) = pos_div_eucl a' b in
      let r' = double r in
      if leb b r' then ((succ_double q), (sub r' b)) else ((double q), r')
    | XH ->
      (match b with
       | N0 -> (N0, (Npos XH))
       | Npos p -> (match p with
                    | XH -> ((Npos XH), N0)
                    | _ -> (N0, (Npos XH))))

  (** val div_eucl : n -> n -> n * n **)

  let div_eucl a b =
    match a with
    | N0 -> (N0, N0)
    | Npos na -> (match b with
                  | N0 -> (N0, a)
                  | Npos _ -> pos_div_eucl na b)

  (** val to_nat : n -> nat **)

  let to_nat = function
  | N0 -> O
  | Npos p -> Coq_Pos.to_nat p

  (** val of_nat : nat -> n **)

  let of_nat = function
  | O -> N0
  | S n' -> Npos (Coq_Pos.of_succ_nat n')
 end

type site = n

type 'a res =
| Ok of 'a
| Panic of site

(** val bind : 'a1 res -> ('a1 -> 'a2 res) -> 'a2 res **)

let bind r f =
  match r with
  | Ok a -> f a
  | Panic s -> Panic s

(** val idx : 'a1 list -> nat -> site -> 'a1 res **)

let idx l i s =
  match nth_error l i with
  | Some a -> Ok a
  | None -> Panic s

(** val upd : 'a1 list -> nat -> 'a1 -> 'a1 list **)

let rec upd l i a =
  match l with
  | [] -> []
  | h :: t -> (match i with
               | O -> a :: t
               | S j -> h :: (upd t j a))

(** val u64_max : n **)

let u64_max =
  Npos (XI (XI (XI (XI (XI (XI (XI (XI (XI (XI (XI (XI (XI (XI (XI (XI (XI
    (XI (XI (XI (XI (XI (XI (XI (XI (XI (XI (XI (XI (XI (XI (XI (XI (XI (XI
    (XI (XI (XI (XI (XI (XI (XI (XI (XI (XI (XI (XI (XI (XI (XI (XI (XI (XI
    (XI (XI (XI (XI (XI (XI (XI (XI (XI (XI
    XH)))))))))))))))))))))))))))))))))))))))))))))))))))))))))))))))

(** val enc_opt : n option -> n list **)

let enc_opt = function
| Some v -> (Npos XH) :: (v :: [])
| None -> N0 :: []

(** val enc_bool : bool -> n **)

let enc_bool = function
| true -> Npos XH
| false -> N0

(** val enc_list : n list -> n list **)

let enc_list l =
  (N.of_nat (length l)) :: l

type inflights = { start : nat; count : nat; buffer : n list; cap : nat;
                   incoming_cap : nat option; allocated : bool }

(** val site_add_full : site **)

let site_add_full =
  Npos (XI (XO (XO (XI (XO (XO (XO (XO (XI (XI XH))))))))))

(** val site_add_dbg_count : site **)

let site_add_dbg_count =
  Npos (XO (XI (XO (XI (XO (XO (XO (XO (XI (XI XH))))))))))

(** val site_add_dbg_start : site **)

let site_add_dbg_start =
  Npos (XI (XI (XO (XI (XO (XO (XO (XO (XI (XI XH))))))))))

(** val site_add_dbg_incoming : site **)

let site_add_dbg_incoming =
  Npos (XO (XO (XI (XI (XO (XO (XO (XO (XI (XI XH))))))))))

(** val site_add_next : site **)

let site_add_next =
  Npos (XI (XO (XI (XI (XO (XO (XO (XO (XI (XI XH))))))))))

(** val site_setcap_dbg_len : site **)

let site_setcap_dbg_len =
  Npos (XO (XI (XI (XI (XO (XO (XO (XO (XI (XI XH))))))))))

(** val site_setcap_slice : site **)

let site_setcap_slice =
  Npos (XI (XI (XI (XI (XO (XO (XO (XO (XI (XI XH))))))))))

(** val site_free_index : site **)

let site_free_index =
  Npos (XO (XO (XO (XO (XI (XO (XO (XO (XI (XI XH))))))))))

(** val site_first_index : site **)

let site_first_index =
  Npos (XI (XO (XO (XO (XI (XO (XO (XO (XI (XI XH))))))))))

(** val site_count_underflow : site **)

let site_count_underflow =
  Npos (XO (XI (XO (XO (XI (XO (XO (XO (XI (XI XH))))))))))

(** val new0 : nat -> inflights **)

let new0 c =
  { start = O; count = O; buffer = []; cap = c; incoming_cap = None;
    allocated = (Nat.ltb O c) }

(** val full : inflights -> bool **)

let full s =
  (||) (Nat.eqb s.count s.cap)
    (match s.incoming_cap with
     | Some c -> Nat.leb c s.count
     | None -> false)

(** val set_cap : inflights -> nat -> inflights res **)

let set_cap s ic =
  match Nat.compare s.cap ic with
  | Eq ->
    Ok { start = s.start; count = s.count; buffer = s.buffer; cap = s.cap;
      incoming_cap = None; allocated = s.allocated }
  | Lt ->
    if Nat.leb (add s.start s.count) s.cap
    then Ok { start = s.start; count = s.count; buffer = s.buffer; cap = ic;
           incoming_cap = None; allocated = s.allocated }
    else if negb (Nat.eqb s.cap (length s.buffer))
         then Panic site_setcap_dbg_len
         else if Nat.ltb (length s.buffer) s.start
              then Panic site_setcap_slice
              else if Nat.ltb s.cap s.start
                   then Panic site_count_underflow
                   else if Nat.ltb s.count (sub s.cap s.start)
                        then Panic site_count_underflow
                        else if Nat.ltb (length s.buffer)
                                  (sub s.count (sub s.cap s.start))
                             then Panic site_setcap_slice
                             else let buf =
                                    app (skipn s.start s.buffer)
                                      (firstn
                                        (sub s.count (sub s.cap s.start))
                                        s.buffer)
                                  in
                                  Ok { start = O; count = s.count; buffer =
                                  buf; cap = ic; incoming_cap = None;
                                  allocated = (Nat.ltb O ic) }
  | Gt ->
    if Nat.eqb s.count O
    then Ok { start = O; count = O; buffer =
           (if s.allocated then [] else s.buffer); cap = ic; incoming_cap =
           None; allocated = (if s.allocated then Nat.ltb O ic else false) }
    else Ok { start = s.start; count = s.count; buffer = s.buffer; cap =
           s.cap; incoming_cap = (Some ic); allocated = s.allocated }

(** val add0 : inflights -> n -> inflights res **)

let add0 s x =
  if full s
  then Panic site_add_full
  else bind
         (if s.allocated
          then Ok s
          else if negb (Nat.eqb s.count O)
               then Panic site_add_dbg_count
               else if negb (Nat.eqb s.start O)
                    then Panic site_add_dbg_start
                    else (match s.incoming_cap with
                          | Some _ -> Panic site_add_dbg_incoming
                          | None ->
                            Ok { start = s.start; count = s.count; buffer =
                              []; cap = s.cap; incoming_cap = None;
                              allocated = (Nat.ltb O s.cap) })) (fun s1 ->
         let next0 = add s1.start s1.count in
         let next = if Nat.leb s1.cap next0 then sub next0 s1.cap else next0
         in
         if Nat.ltb (length s1.buffer) next
         then Panic site_add_next
         else let buf =
                if Nat.eqb next (length s1.buffer)
                then app s1.buffer (x :: [])
                else upd s1.buffer next x
              in
              Ok { start = s1.start; count = (S s1.count); buffer = buf;
              cap = s1.cap; incoming_cap = s1.incoming_cap; allocated =
              s1.allocated })

(** val free_loop :
    n list -> nat -> n -> nat -> nat -> nat -> (nat * nat) res **)

let rec free_loop buf c to0 fuel i ix =
  match fuel with
  | O -> Ok (i, ix)
  | S fuel' ->
    bind (idx buf ix site_free_index) (fun b ->
      if N.ltb to0 b
      then Ok (i, ix)
      else let ix1 = S ix in
           let ix2 = if Nat.leb c ix1 then sub ix1 c else ix1 in
           free_loop buf c to0 fuel' (S i) ix2)

(** val free_to : inflights -> n -> inflights res **)

let free_to s to0 =
  if Nat.eqb s.count O
  then Ok s
  else bind (idx s.buffer s.start site_free_index) (fun b0 ->
         if N.ltb to0 b0
         then Ok s
         else bind (free_loop s.buffer s.cap to0 s.count O s.start) (fun r ->
                let (i, ix) = r in
                let cnt = sub s.count i in
                if Nat.eqb cnt O
                then (match s.incoming_cap with
                      | Some ic ->
                        Ok { start = O; count = O; buffer = []; cap = ic;
                          incoming_cap = None; allocated = (Nat.ltb O ic) }
                      | None ->
                        Ok { start = ix; count = O; buffer = s.buffer; cap =
                          s.cap; incoming_cap = None; allocated =
                          s.allocated })
                else Ok { start = ix; count = cnt; buffer = s.buffer; cap =
                       s.cap; incoming_cap = s.incoming_cap; allocated =
                       s.allocated }))

(** val free_first_one : inflights -> inflights res **)

let free_first_one s =
  if Nat.ltb O s.count
  then bind (idx s.buffer s.start site_first_index) (fun b -> free_to s b)
  else Ok s

(** val reset : inflights -> inflights **)

let reset s =
  { start = O; count = O; buffer = []; cap =
    (match s.incoming_cap with
     | Some c -> c
     | None -> s.cap); incoming_cap = None; allocated = false }

(** val maybe_free_buffer : inflights -> inflights **)

let maybe_free_buffer s =
  if Nat.eqb s.count O
  then { start = O; count = O; buffer = []; cap = s.cap; incoming_cap =
         s.incoming_cap; allocated = false }
  else s

type op =
| OAdd of n
| OFreeTo of n
| OFreeFirst
| OReset
| OSetCap of nat
| OMaybeFree

(** val step : inflights -> op -> inflights res **)

let step s = function
| OAdd x -> add0 s x
| OFreeTo x -> free_to s x
| OFreeFirst -> free_first_one s
| OReset -> Ok (reset s)
| OSetCap c -> set_cap s c
| OMaybeFree -> Ok (maybe_free_buffer s)

(** val dump : inflights -> n list **)

let dump s =
  app
    ((N.of_nat s.start) :: ((N.of_nat s.count) :: ((N.of_nat s.cap) :: [])))
    (app (enc_opt (option_map N.of_nat s.incoming_cap))
      (app ((enc_bool s.allocated) :: ((enc_bool (full s)) :: []))
        (enc_list s.buffer)))

(** val decode_op : n -> n -> op option **)

let decode_op code arg =
  match code with
  | N0 -> Some (OAdd arg)
  | Npos p ->
    (match p with
     | XI p0 ->
       (match p0 with
        | XI _ -> None
        | XO p1 -> (match p1 with
                    | XH -> Some OMaybeFree
                    | _ -> None)
        | XH -> Some OReset)
     | XO p0 ->
       (match p0 with
        | XI _ -> None
        | XO p1 ->
          (match p1 with
           | XH -> Some (OSetCap (N.to_nat arg))
           | _ -> None)
        | XH -> Some OFreeFirst)
     | XH -> Some (OFreeTo arg))

(** val decode_ops : n list -> op list **)

let rec decode_ops = function
| [] -> []
| code :: l0 ->
  (match l0 with
   | [] -> []
   | arg :: rest ->
     (match decode_op code arg with
      | Some o -> o :: (decode_ops rest)
      | None -> []))

(** val run_ops : bool -> inflights -> op list -> n list **)

let rec run_ops every s = function
| [] -> if every then [] else dump s
| o :: rest ->
  (match step s o with
   | Ok s' -> app (if every then dump s' else []) (run_ops every s' rest)
   | Panic site0 ->
     (Npos (XI (XI (XI (XI (XI (XI (XO (XO (XO (XI (XO (XO (XO (XO (XI (XO
       (XI (XI (XI XH)))))))))))))))))))) :: (site0 :: []))

(** val run_inflights : n list -> n list **)

let run_inflights = function
| [] ->
  (Npos (XO (XO (XO (XI (XI (XI (XO (XO (XO (XO (XO (XO (XI (XO (XO (XI (XI
    (XO (XI XH)))))))))))))))))))) :: []
| mode :: l ->
  (match l with
   | [] ->
     (Npos (XO (XO (XO (XI (XI (XI (XO (XO (XO (XO (XO (XO (XI (XO (XO (XI
       (XI (XO (XI XH)))))))))))))))))))) :: []
   | c :: ops ->
     run_ops (N.eqb mode (Npos XH)) (new0 (N.to_nat c)) (decode_ops ops))

type entry = { e_type : n; e_term : n; e_index : n; e_data : n list;
               e_context : n list }

(** val varint_len : n -> n **)

let varint_len v =
  if N.ltb v (Npos (XO (XO (XO (XO (XO (XO (XO XH))))))))
  then Npos XH
  else if N.ltb v (Npos (XO (XO (XO (XO (XO (XO (XO (XO (XO (XO (XO (XO (XO
            (XO XH)))))))))))))))
       then Npos (XO XH)
       else if N.ltb v (Npos (XO (XO (XO (XO (XO (XO (XO (XO (XO (XO (XO (XO
                 (XO (XO (XO (XO (XO (XO (XO (XO (XO XH))))))))))))))))))))))
            then Npos (XI XH)
            else if N.ltb v (Npos (XO (XO (XO (XO (XO (XO (XO (XO (XO (XO (XO
                      (XO (XO (XO (XO (XO (XO (XO (XO (XO (XO (XO (XO (XO (XO
                      (XO (XO (XO XH)))))))))))))))))))))))))))))
                 then Npos (XO (XO XH))
                 else if N.ltb v (Npos (XO (XO (XO (XO (XO (XO (XO (XO (XO
                           (XO (XO (XO (XO (XO (XO (XO (XO (XO (XO (XO (XO
                           (XO (XO (XO (XO (XO (XO (XO (XO (XO (XO (XO (XO
                           (XO (XO XH))))))))))))))))))))))))))))))))))))
                      then Npos (XI (XO XH))
                      else if N.ltb v (Npos (XO (XO (XO (XO (XO (XO (XO (XO
                                (XO (XO (XO (XO (XO (XO (XO (XO (XO (XO (XO
                                (XO (XO (XO (XO (XO (XO (XO (XO (XO (XO (XO
                                (XO (XO (XO (XO (XO (XO (XO (XO (XO (XO (XO
                                (XO
                                XH)))))))))))))))))))))))))))))))))))))))))))
                           then Npos (XO (XI XH))
                           else if N.ltb v (Npos (XO (XO (XO (XO (XO (XO (XO
                                     (XO (XO (XO (XO (XO (XO (XO (XO (XO (XO
                                     (XO (XO (XO (XO (XO (XO (XO (XO (XO (XO
                                     (XO (XO (XO (XO (XO (XO (XO (XO (XO (XO
                                     (XO (XO (XO (XO (XO (XO (XO (XO (XO (XO
                                     (XO (XO
                                     XH))))))))))))))))))))))))))))))))))))))))))))))))))
                                then Npos (XI (XI XH))
                                else if N.ltb v (Npos (XO (XO (XO (XO (XO (XO
                                          (XO (XO (XO (XO (XO (XO (XO (XO (XO
                                          (XO (XO (XO (XO (XO (XO (XO (XO (XO
                                          (XO (XO (XO (XO (XO (XO (XO (XO (XO
                                          (XO (XO (XO (XO (XO (XO (XO (XO (XO
                                          (XO (XO (XO (XO (XO (XO (XO (XO (XO
                                          (XO (XO (XO (XO (XO
                                          XH)))))))))))))))))))))))))))))))))))))))))))))))))))))))))
                                     then Npos (XO (XO (XO XH)))
                                     else if N.ltb v (Npos (XO (XO (XO (XO
                                               (XO (XO (XO (XO (XO (XO (XO
                                               (XO (XO (XO (XO (XO (XO (XO
                                               (XO (XO (XO (XO (XO (XO (XO
                                               (XO (XO (XO (XO (XO (XO (XO
                                               (XO (XO (XO (XO (XO (XO (XO
                                               (XO (XO (XO (XO (XO (XO (XO
                                               (XO (XO (XO (XO (XO (XO (XO
                                               (XO (XO (XO (XO (XO (XO (XO
                                               (XO (XO (XO
                                               XH))))))))))))))))))))))))))))))))))))))))))))))))))))))))))))))))
                                          then Npos (XI (XO (XO XH)))
                                          else Npos (XO (XI (XO XH)))

(** val varint_field_size : n -> n **)

let varint_field_size v =
  if N.eqb v N0 then N0 else N.add (Npos XH) (varint_len v)

(** val bytes_field_size : n list -> n **)

let bytes_field_size b = match b with
| [] -> N0
| _ :: _ ->
  N.add (N.add (Npos XH) (varint_len (N.of_nat (length b))))
    (N.of_nat (length b))

(** val entry_size : entry -> n **)

let entry_size e =
  N.add
    (N.add
      (N.add
        (N.add (varint_field_size e.e_type) (varint_field_size e.e_term))
        (varint_field_size e.e_index)) (bytes_field_size e.e_data))
    (bytes_field_size e.e_context)

(** val nO_LIMIT : n **)

let nO_LIMIT =
  u64_max

(** val limit_count : ('a1 -> n) -> 'a1 list -> n -> n -> nat **)

let rec limit_count sz l size max0 =
  match l with
  | [] -> O
  | e :: t ->
    let size' = N.add size (sz e) in
    if N.eqb size N0
    then S (limit_count sz t size' max0)
    else if N.leb size' max0 then S (limit_count sz t size' max0) else O

(** val limit_size_by : ('a1 -> n) -> 'a1 list -> n option -> 'a1 list **)

let limit_size_by sz l max0 =
  if Nat.leb (length l) (S O)
  then l
  else (match max0 with
        | Some m ->
          if N.eqb m nO_LIMIT then l else firstn (limit_count sz l N0 m) l
        | None -> l)

(** val limit_size : entry list -> n option -> entry list **)

let limit_size =
  limit_size_by entry_size

type hard_state = { hs_term : n; hs_vote : n; hs_commit : n }

type conf_state = { cs_voters : n list; cs_learners : n list;
                    cs_voters_outgoing : n list; cs_learners_next : n list;
                    cs_auto_leave : bool }

(** val hs_default : hard_state **)

let hs_default =
  { hs_term = N0; hs_vote = N0; hs_commit = N0 }

(** val cs_default : conf_state **)

let cs_default =
  { cs_voters = []; cs_learners = []; cs_voters_outgoing = [];
    cs_learners_next = []; cs_auto_leave = false }

(** val list_eqb : n list -> n list -> bool **)

let rec list_eqb a b =
  match a with
  | [] -> (match b with
           | [] -> true
           | _ :: _ -> false)
  | x :: a' ->
    (match b with
     | [] -> false
     | y :: b' -> (&&) (N.eqb x y) (list_eqb a' b'))

(** val cs_eqb : conf_state -> conf_state -> bool **)

let cs_eqb a b =
  (&&)
    ((&&)
      ((&&)
        ((&&) (list_eqb a.cs_voters b.cs_voters)
          (list_eqb a.cs_learners b.cs_learners))
        (list_eqb a.cs_voters_outgoing b.cs_voters_outgoing))
      (list_eqb a.cs_learners_next b.cs_learners_next))
    (eqb a.cs_auto_leave b.cs_auto_leave)

type snapshot = { s_index : n; s_term : n; s_cs : conf_state }

type gectx =
| CtxSendAppend of n * n * bool
| CtxGenReady
| CtxTransferLeader
| CtxCommitByVote
| CtxEmpty of bool

(** val can_async : gectx -> bool **)

let can_async = function
| CtxSendAppend (_, _, _) -> true
| CtxEmpty b -> b
| _ -> false

type serr =
| Compacted
| Unavailable
| SnapshotOutOfDate
| SnapshotTemporarilyUnavailable
| LogTemporarilyUnavailable

(** val serr_code : serr -> n **)

let serr_code = function
| Compacted -> Npos XH
| Unavailable -> Npos (XO XH)
| SnapshotOutOfDate -> Npos (XI XH)
| SnapshotTemporarilyUnavailable -> Npos (XO (XO XH))
| LogTemporarilyUnavailable -> Npos (XI (XO XH))

type 'a sres =
| SOk of 'a
| SErr of serr

type mem = { hs : hard_state; cs : conf_state; entries : entry list;
             snap_index : n; snap_term : n; trig_snap : bool;
             trig_log : bool; ge_ctx : gectx option }

(** val set_hs : mem -> hard_state -> mem **)

let set_hs m h =
  { hs = h; cs = m.cs; entries = m.entries; snap_index = m.snap_index;
    snap_term = m.snap_term; trig_snap = m.trig_snap; trig_log = m.trig_log;
    ge_ctx = m.ge_ctx }

(** val set_cs : mem -> conf_state -> mem **)

let set_cs m c =
  { hs = m.hs; cs = c; entries = m.entries; snap_index = m.snap_index;
    snap_term = m.snap_term; trig_snap = m.trig_snap; trig_log = m.trig_log;
    ge_ctx = m.ge_ctx }

(** val set_entries : mem -> entry list -> mem **)

let set_entries m l =
  { hs = m.hs; cs = m.cs; entries = l; snap_index = m.snap_index; snap_term =
    m.snap_term; trig_snap = m.trig_snap; trig_log = m.trig_log; ge_ctx =
    m.ge_ctx }

(** val set_trig_snap : mem -> bool -> mem **)

let set_trig_snap m b =
  { hs = m.hs; cs = m.cs; entries = m.entries; snap_index = m.snap_index;
    snap_term = m.snap_term; trig_snap = b; trig_log = m.trig_log; ge_ctx =
    m.ge_ctx }

(** val set_trig_log : mem -> bool -> mem **)

let set_trig_log m b =
  { hs = m.hs; cs = m.cs; entries = m.entries; snap_index = m.snap_index;
    snap_term = m.snap_term; trig_snap = m.trig_snap; trig_log = b; ge_ctx =
    m.ge_ctx }

(** val set_ge_ctx : mem -> gectx option -> mem **)

let set_ge_ctx m c =
  { hs = m.hs; cs = m.cs; entries = m.entries; snap_index = m.snap_index;
    snap_term = m.snap_term; trig_snap = m.trig_snap; trig_log = m.trig_log;
    ge_ctx = c }

(** val site_first_overflow : site **)

let site_first_overflow =
  Npos (XI (XO (XI (XI (XO (XI (XI (XO (XI (XI XH))))))))))

(** val site_commit_to_assert : site **)

let site_commit_to_assert =
  Npos (XO (XI (XI (XI (XO (XI (XI (XO (XI (XI XH))))))))))

(** val site_commit_to_index : site **)

let site_commit_to_index =
  Npos (XI (XI (XI (XI (XO (XI (XI (XO (XI (XI XH))))))))))

(** val site_snapshot_entries0 : site **)

let site_snapshot_entries0 =
  Npos (XO (XO (XO (XO (XI (XI (XI (XO (XI (XI XH))))))))))

(** val site_snapshot_underflow : site **)

let site_snapshot_underflow =
  Npos (XI (XO (XO (XO (XI (XI (XI (XO (XI (XI XH))))))))))

(** val site_snapshot_index : site **)

let site_snapshot_index =
  Npos (XO (XI (XO (XO (XI (XI (XI (XO (XI (XI XH))))))))))

(** val site_snapshot_commit_lt : site **)

let site_snapshot_commit_lt =
  Npos (XI (XI (XO (XO (XI (XI (XI (XO (XI (XI XH))))))))))

(** val site_compact_last_overflow : site **)

let site_compact_last_overflow =
  Npos (XO (XO (XI (XO (XI (XI (XI (XO (XI (XI XH))))))))))

(** val site_compact_oob : site **)

let site_compact_oob =
  Npos (XI (XO (XI (XO (XI (XI (XI (XO (XI (XI XH))))))))))

(** val site_compact_drain : site **)

let site_compact_drain =
  Npos (XO (XI (XI (XO (XI (XI (XI (XO (XI (XI XH))))))))))

(** val site_append_compacted : site **)

let site_append_compacted =
  Npos (XI (XI (XI (XO (XI (XI (XI (XO (XI (XI XH))))))))))

(** val site_append_last_overflow : site **)

let site_append_last_overflow =
  Npos (XO (XO (XO (XI (XI (XI (XI (XO (XI (XI XH))))))))))

(** val site_append_gap : site **)

let site_append_gap =
  Npos (XI (XO (XO (XI (XI (XI (XI (XO (XI (XI XH))))))))))

(** val site_append_drain : site **)

let site_append_drain =
  Npos (XO (XI (XO (XI (XI (XI (XI (XO (XI (XI XH))))))))))

(** val site_entries_last_overflow : site **)

let site_entries_last_overflow =
  Npos (XI (XI (XO (XI (XI (XI (XI (XO (XI (XI XH))))))))))

(** val site_entries_oob : site **)

let site_entries_oob =
  Npos (XO (XO (XI (XI (XI (XI (XI (XO (XI (XI XH))))))))))

(** val site_entries_entries0 : site **)

let site_entries_entries0 =
  Npos (XI (XO (XI (XI (XI (XI (XI (XO (XI (XI XH))))))))))

(** val site_entries_hi_underflow : site **)

let site_entries_hi_underflow =
  Npos (XO (XI (XI (XI (XI (XI (XI (XO (XI (XI XH))))))))))

(** val site_entries_slice_order : site **)

let site_entries_slice_order =
  Npos (XI (XI (XI (XI (XI (XI (XI (XO (XI (XI XH))))))))))

(** val site_entries_slice_end : site **)

let site_entries_slice_end =
  Npos (XO (XO (XO (XO (XO (XO (XO (XI (XI (XI XH))))))))))

(** val site_term_index : site **)

let site_term_index =
  Npos (XI (XO (XO (XO (XO (XO (XO (XI (XI (XI XH))))))))))

(** val site_init_assert : site **)

let site_init_assert =
  Npos (XO (XI (XO (XO (XO (XO (XO (XI (XI (XI XH))))))))))

(** val new1 : mem **)

let new1 =
  { hs = hs_default; cs = cs_default; entries = []; snap_index = N0;
    snap_term = N0; trig_snap = false; trig_log = false; ge_ctx = None }

(** val initialized : mem -> bool **)

let initialized m =
  negb (cs_eqb m.cs cs_default)

(** val cs_from : n list -> n list -> conf_state **)

let cs_from voters learners =
  { cs_voters = voters; cs_learners = learners; cs_voters_outgoing = [];
    cs_learners_next = []; cs_auto_leave = false }

(** val initialize_with_conf_state : mem -> conf_state -> mem res **)

let initialize_with_conf_state m c =
  if initialized m then Panic site_init_assert else Ok (set_cs m c)

(** val new_with_conf_state : conf_state -> mem res **)

let new_with_conf_state c =
  initialize_with_conf_state new1 c

(** val set_hardstate : mem -> hard_state -> mem **)

let set_hardstate =
  set_hs

(** val hard_state_of : mem -> hard_state **)

let hard_state_of m =
  m.hs

(** val set_commit : mem -> n -> mem **)

let set_commit m c =
  set_hs m { hs_term = m.hs.hs_term; hs_vote = m.hs.hs_vote; hs_commit = c }

(** val set_conf_state : mem -> conf_state -> mem **)

let set_conf_state =
  set_cs

(** val first_index : mem -> n res **)

let first_index m =
  match m.entries with
  | [] ->
    if N.eqb m.snap_index u64_max
    then Panic site_first_overflow
    else Ok (N.add m.snap_index (Npos XH))
  | e :: _ -> Ok e.e_index

(** val last_index : mem -> n **)

let last_index m =
  last (map (fun e -> e.e_index) m.entries) m.snap_index

(** val has_entry_at : mem -> n -> bool **)

let has_entry_at m i =
  match m.entries with
  | [] -> false
  | e0 :: _ -> (&&) (N.leb e0.e_index i) (N.leb i (last_index m))

(** val commit_to : mem -> n -> mem res **)

let commit_to m i =
  if negb (has_entry_at m i)
  then Panic site_commit_to_assert
  else (match m.entries with
        | [] -> Panic site_commit_to_assert
        | e0 :: _ ->
          bind
            (idx m.entries (N.to_nat (N.sub i e0.e_index))
              site_commit_to_index) (fun e -> Ok
            (set_hs m { hs_term = e.e_term; hs_vote = m.hs.hs_vote;
              hs_commit = i })))

(** val apply_snapshot : mem -> snapshot -> (mem * unit sres) res **)

let apply_snapshot m s =
  bind (first_index m) (fun f ->
    if N.ltb s.s_index f
    then Ok (m, (SErr SnapshotOutOfDate))
    else Ok ({ hs = { hs_term = (N.max m.hs.hs_term s.s_term); hs_vote =
           m.hs.hs_vote; hs_commit = s.s_index }; cs = s.s_cs; entries = [];
           snap_index = s.s_index; snap_term = s.s_term; trig_snap =
           m.trig_snap; trig_log = m.trig_log; ge_ctx = m.ge_ctx }, (SOk ())))

(** val make_snapshot : mem -> snapshot res **)

let make_snapshot m =
  let c = m.hs.hs_commit in
  bind
    (match N.compare c m.snap_index with
     | Eq -> Ok m.snap_term
     | Lt -> Panic site_snapshot_commit_lt
     | Gt ->
       (match m.entries with
        | [] -> Panic site_snapshot_entries0
        | e0 :: _ ->
          if N.ltb c e0.e_index
          then Panic site_snapshot_underflow
          else bind
                 (idx m.entries (N.to_nat (N.sub c e0.e_index))
                   site_snapshot_index) (fun e -> Ok e.e_term))) (fun t -> Ok
    { s_index = c; s_term = t; s_cs = m.cs })

(** val compact : mem -> n -> mem res **)

let compact m ci =
  bind (first_index m) (fun f ->
    if N.leb ci f
    then Ok m
    else if N.eqb (last_index m) u64_max
         then Panic site_compact_last_overflow
         else if N.ltb (N.add (last_index m) (Npos XH)) ci
              then Panic site_compact_oob
              else (match m.entries with
                    | [] -> Ok m
                    | e0 :: _ ->
                      let offset = N.to_nat (N.sub ci e0.e_index) in
                      if Nat.ltb (length m.entries) offset
                      then Panic site_compact_drain
                      else Ok (set_entries m (skipn offset m.entries))))

(** val append : mem -> entry list -> mem res **)

let append m ents = match ents with
| [] -> Ok m
| n0 :: _ ->
  bind (first_index m) (fun f ->
    if N.ltb n0.e_index f
    then Panic site_append_compacted
    else if N.eqb (last_index m) u64_max
         then Panic site_append_last_overflow
         else if N.ltb (N.add (last_index m) (Npos XH)) n0.e_index
              then Panic site_append_gap
              else let diff = N.to_nat (N.sub n0.e_index f) in
                   if Nat.ltb (length m.entries) diff
                   then Panic site_append_drain
                   else Ok (set_entries m (app (firstn diff m.entries) ents)))

(** val commit_to_and_set_conf_states :
    mem -> n -> conf_state option -> mem res **)

let commit_to_and_set_conf_states m i c =
  bind (commit_to m i) (fun m1 ->
    match c with
    | Some c0 -> Ok (set_cs m1 c0)
    | None -> Ok m1)

(** val trigger_snap_unavailable : mem -> mem **)

let trigger_snap_unavailable m =
  set_trig_snap m true

(** val trigger_log_unavailable : mem -> bool -> mem **)

let trigger_log_unavailable =
  set_trig_log

(** val take_get_entries_context : mem -> mem * gectx option **)

let take_get_entries_context m =
  ((set_ge_ctx m None), m.ge_ctx)

(** val initial_state : mem -> hard_state * conf_state **)

let initial_state m =
  (m.hs, m.cs)

(** val storage_entries :
    mem -> n -> n -> n option -> gectx -> (mem * entry list sres) res **)

let storage_entries m low high max0 ctx =
  bind (first_index m) (fun f ->
    if N.ltb low f
    then Ok (m, (SErr Compacted))
    else if N.eqb (last_index m) u64_max
         then Panic site_entries_last_overflow
         else if N.ltb (N.add (last_index m) (Npos XH)) high
              then Panic site_entries_oob
              else if (&&) m.trig_log (can_async ctx)
                   then Ok ((set_ge_ctx m (Some ctx)), (SErr
                          LogTemporarilyUnavailable))
                   else (match m.entries with
                         | [] -> Panic site_entries_entries0
                         | e0 :: _ ->
                           let offset = e0.e_index in
                           if N.ltb high offset
                           then Panic site_entries_hi_underflow
                           else let lo = N.to_nat (N.sub low offset) in
                                let hi = N.to_nat (N.sub high offset) in
                                if Nat.ltb hi lo
                                then Panic site_entries_slice_order
                                else if Nat.ltb (length m.entries) hi
                                     then Panic site_entries_slice_end
                                     else Ok (m, (SOk
                                            (limit_size
                                              (firstn (sub hi lo)
                                                (skipn lo m.entries)) max0)))))

(** val storage_term : mem -> n -> n sres res **)

let storage_term m i =
  if N.eqb i m.snap_index
  then Ok (SOk m.snap_term)
  else bind (first_index m) (fun f ->
         if N.ltb i f
         then Ok (SErr Compacted)
         else if N.ltb (last_index m) i
              then Ok (SErr Unavailable)
              else bind
                     (idx m.entries (N.to_nat (N.sub i f)) site_term_index)
                     (fun e -> Ok (SOk e.e_term)))

(** val storage_first_index : mem -> n res **)

let storage_first_index =
  first_index

(** val storage_last_index : mem -> n **)

let storage_last_index =
  last_index

(** val storage_snapshot : mem -> n -> n -> (mem * snapshot sres) res **)

let storage_snapshot m request_index _ =
  if m.trig_snap
  then Ok ((set_trig_snap m false), (SErr SnapshotTemporarilyUnavailable))
  else bind (make_snapshot m) (fun s -> Ok (m, (SOk
         (if N.ltb s.s_index request_index
          then { s_index = request_index; s_term = s.s_term; s_cs = s.s_cs }
          else s))))

type op0 =
| OSetHardState of hard_state
| OSetCommit of n
| OCommitTo of n
| OSetConfState of conf_state
| OApplySnapshot of snapshot
| OCompact of n
| OAppend of entry list
| OCommitToConf of n * conf_state option
| OTrigSnap
| OTrigLog of bool
| OTakeCtx
| OInitConf of conf_state
| QInitialState
| QEntries of n * n * n option * gectx
| QTerm of n
| QFirstIndex
| QLastIndex
| QSnapshot of n * n
| QHardState

type ret =
| RUnit
| RNum of n
| REntries of entry list
| RSnap of snapshot
| RState of hard_state * conf_state
| RHard of hard_state
| RCtx of gectx option

(** val ok_unit : mem res -> (mem * ret sres) res **)

let ok_unit r =
  bind r (fun m -> Ok (m, (SOk RUnit)))

(** val map_sres : ('a1 -> 'a2) -> 'a1 sres -> 'a2 sres **)

let map_sres f = function
| SOk a -> SOk (f a)
| SErr e -> SErr e

(** val step0 : mem -> op0 -> (mem * ret sres) res **)

let step0 m = function
| OSetHardState h -> Ok ((set_hardstate m h), (SOk RUnit))
| OSetCommit c -> Ok ((set_commit m c), (SOk RUnit))
| OCommitTo i -> ok_unit (commit_to m i)
| OSetConfState c -> Ok ((set_conf_state m c), (SOk RUnit))
| OApplySnapshot s ->
  bind (apply_snapshot m s) (fun r -> Ok ((fst r),
    (map_sres (fun _ -> RUnit) (snd r))))
| OCompact i -> ok_unit (compact m i)
| OAppend ents -> ok_unit (append m ents)
| OCommitToConf (i, c) -> ok_unit (commit_to_and_set_conf_states m i c)
| OTrigSnap -> Ok ((trigger_snap_unavailable m), (SOk RUnit))
| OTrigLog v -> Ok ((trigger_log_unavailable m v), (SOk RUnit))
| OTakeCtx ->
  let r = take_get_entries_context m in Ok ((fst r), (SOk (RCtx (snd r))))
| OInitConf c -> ok_unit (initialize_with_conf_state m c)
| QInitialState ->
  Ok (m, (SOk (RState ((fst (initial_state m)), (snd (initial_state m))))))
| QEntries (lo, hi, mx, ctx) ->
  bind (storage_entries m lo hi mx ctx) (fun r -> Ok ((fst r),
    (map_sres (fun x -> REntries x) (snd r))))
| QTerm i ->
  bind (storage_term m i) (fun r -> Ok (m, (map_sres (fun x -> RNum x) r)))
| QFirstIndex ->
  bind (storage_first_index m) (fun f -> Ok (m, (SOk (RNum f))))
| QLastIndex -> Ok (m, (SOk (RNum (storage_last_index m))))
| QSnapshot (ri, to0) ->
  bind (storage_snapshot m ri to0) (fun r -> Ok ((fst r),
    (map_sres (fun x -> RSnap x) (snd r))))
| QHardState -> Ok (m, (SOk (RHard (hard_state_of m))))

(** val dec_list : n list -> (n list * n list) option **)

let dec_list = function
| [] -> None
| n0 :: r ->
  let k = N.to_nat n0 in
  if Nat.ltb (length r) k then None else Some ((firstn k r), (skipn k r))

(** val parse_cs : n list -> (conf_state * n list) option **)

let parse_cs l =
  match dec_list l with
  | Some p ->
    let (v, l1) = p in
    (match dec_list l1 with
     | Some p0 ->
       let (le, l2) = p0 in
       (match dec_list l2 with
        | Some p1 ->
          let (vo, l3) = p1 in
          (match dec_list l3 with
           | Some p2 ->
             let (ln, l0) = p2 in
             (match l0 with
              | [] -> None
              | b :: l4 ->
                Some ({ cs_voters = v; cs_learners = le; cs_voters_outgoing =
                  vo; cs_learners_next = ln; cs_auto_leave =
                  (negb (N.eqb b N0)) }, l4))
           | None -> None)
        | None -> None)
     | None -> None)
  | None -> None

(** val parse_vl : n list -> (conf_state * n list) option **)

let parse_vl l =
  match dec_list l with
  | Some p ->
    let (v, l1) = p in
    (match dec_list l1 with
     | Some p0 -> let (le, l2) = p0 in Some ((cs_from v le), l2)
     | None -> None)
  | None -> None

(** val parse_entries : nat -> n list -> (entry list * n list) option **)

let rec parse_entries k l =
  match k with
  | O -> Some ([], l)
  | S k' ->
    (match l with
     | [] -> None
     | ty :: l0 ->
       (match l0 with
        | [] -> None
        | te :: l1 ->
          (match l1 with
           | [] -> None
           | ix :: l2 ->
             (match l2 with
              | [] -> None
              | dl :: l3 ->
                (match l3 with
                 | [] -> None
                 | fill :: l4 ->
                   (match l4 with
                    | [] -> None
                    | cl :: r ->
                      (match parse_entries k' r with
                       | Some p ->
                         let (es, r') = p in
                         Some (({ e_type = ty; e_term = te; e_index = ix;
                         e_data = (repeat fill (N.to_nat dl)); e_context =
                         (repeat fill (N.to_nat cl)) } :: es), r')
                       | None -> None)))))))

type cmd =
| COp of op0
| CDump

(** val parse_cmd : n list -> (cmd * n list) option **)

let parse_cmd = function
| [] -> None
| n0 :: r ->
  (match n0 with
   | N0 ->
     (match r with
      | [] -> None
      | t :: l0 ->
        (match l0 with
         | [] -> None
         | v :: l1 ->
           (match l1 with
            | [] -> None
            | c :: r0 ->
              Some ((COp (OSetHardState { hs_term = t; hs_vote = v;
                hs_commit = c })), r0))))
   | Npos p ->
     (match p with
      | XI p0 ->
        (match p0 with
         | XI p1 ->
           (match p1 with
            | XI p2 ->
              (match p2 with
               | XO p3 ->
                 (match p3 with
                  | XH -> Some ((COp QFirstIndex), r)
                  | _ -> None)
               | _ -> None)
            | XO p2 ->
              (match p2 with
               | XH ->
                 (match parse_vl r with
                  | Some p3 ->
                    let (c, r') = p3 in Some ((COp (OInitConf c)), r')
                  | None -> None)
               | _ -> None)
            | XH ->
              (match r with
               | [] -> None
               | i :: l0 ->
                 (match l0 with
                  | [] -> None
                  | n1 :: r0 ->
                    (match n1 with
                     | N0 -> Some ((COp (OCommitToConf (i, None))), r0)
                     | Npos _ ->
                       (match parse_cs r0 with
                        | Some p2 ->
                          let (c, r') = p2 in
                          Some ((COp (OCommitToConf (i, (Some c)))), r')
                        | None -> None)))))
         | XO p1 ->
           (match p1 with
            | XI p2 ->
              (match p2 with
               | XO p3 ->
                 (match p3 with
                  | XH ->
                    (match r with
                     | [] -> None
                     | lo :: l0 ->
                       (match l0 with
                        | [] -> None
                        | hi :: l1 ->
                          (match l1 with
                           | [] -> None
                           | n1 :: l2 ->
                             (match n1 with
                              | N0 ->
                                (match l2 with
                                 | [] -> None
                                 | mx :: r0 ->
                                   Some ((COp (QEntries (lo, hi, None,
                                     (CtxEmpty (negb (N.eqb mx N0)))))), r0))
                              | Npos _ ->
                                (match l2 with
                                 | [] -> None
                                 | mx :: l3 ->
                                   (match l3 with
                                    | [] -> None
                                    | c :: r0 ->
                                      Some ((COp (QEntries (lo, hi, (Some
                                        mx), (CtxEmpty
                                        (negb (N.eqb c N0)))))), r0)))))))
                  | _ -> None)
               | _ -> None)
            | XO p2 ->
              (match p2 with
               | XI p3 ->
                 (match p3 with
                  | XH ->
                    (match r with
                     | [] -> None
                     | q :: l0 ->
                       (match l0 with
                        | [] -> None
                        | t :: r0 -> Some ((COp (QSnapshot (q, t))), r0)))
                  | _ -> None)
               | XO _ -> None
               | XH ->
                 (match r with
                  | [] -> None
                  | b :: r0 -> Some ((COp (OTrigLog (negb (N.eqb b N0)))), r0)))
            | XH ->
              (match r with
               | [] -> None
               | i :: r0 -> Some ((COp (OCompact i)), r0)))
         | XH ->
           (match parse_cs r with
            | Some p1 ->
              let (c, r') = p1 in Some ((COp (OSetConfState c)), r')
            | None -> None))
      | XO p0 ->
        (match p0 with
         | XI p1 ->
           (match p1 with
            | XI p2 ->
              (match p2 with
               | XI p3 -> (match p3 with
                           | XH -> Some (CDump, r)
                           | _ -> None)
               | XO p3 ->
                 (match p3 with
                  | XH ->
                    (match r with
                     | [] -> None
                     | i :: r0 -> Some ((COp (QTerm i)), r0))
                  | _ -> None)
               | XH -> None)
            | XO p2 ->
              (match p2 with
               | XI p3 ->
                 (match p3 with
                  | XH -> Some ((COp QHardState), r)
                  | _ -> None)
               | XO _ -> None
               | XH -> Some ((COp OTakeCtx), r))
            | XH ->
              (match r with
               | [] -> None
               | n1 :: r0 ->
                 (match parse_entries (N.to_nat n1) r0 with
                  | Some p2 ->
                    let (es, r') = p2 in Some ((COp (OAppend es)), r')
                  | None -> None)))
         | XO p1 ->
           (match p1 with
            | XI p2 ->
              (match p2 with
               | XO p3 ->
                 (match p3 with
                  | XH -> Some ((COp QInitialState), r)
                  | _ -> None)
               | _ -> None)
            | XO p2 ->
              (match p2 with
               | XI p3 ->
                 (match p3 with
                  | XH -> Some ((COp QLastIndex), r)
                  | _ -> None)
               | XO _ -> None
               | XH -> Some ((COp OTrigSnap), r))
            | XH ->
              (match r with
               | [] -> None
               | i :: l0 ->
                 (match l0 with
                  | [] -> None
                  | t :: r0 ->
                    (match parse_cs r0 with
                     | Some p2 ->
                       let (c, r') = p2 in
                       Some ((COp (OApplySnapshot { s_index = i; s_term = t;
                       s_cs = c })), r')
                     | None -> None))))
         | XH ->
           (match r with
            | [] -> None
            | i :: r0 -> Some ((COp (OCommitTo i)), r0)))
      | XH ->
        (match r with
         | [] -> None
         | c :: r0 -> Some ((COp (OSetCommit c)), r0))))

(** val enc_hs : hard_state -> n list **)

let enc_hs h =
  h.hs_term :: (h.hs_vote :: (h.hs_commit :: []))

(** val enc_cs : conf_state -> n list **)

let enc_cs c =
  app (enc_list c.cs_voters)
    (app (enc_list c.cs_learners)
      (app (enc_list c.cs_voters_outgoing)
        (app (enc_list c.cs_learners_next) ((enc_bool c.cs_auto_leave) :: []))))

(** val sum_bytes : n list -> n **)

let sum_bytes l =
  fold_right N.add N0 l

(** val enc_entry_c : entry -> n list **)

let enc_entry_c e =
  e.e_type :: (e.e_term :: (e.e_index :: ((N.of_nat (length e.e_data)) :: (
    (sum_bytes e.e_data) :: ((N.of_nat (length e.e_context)) :: [])))))

(** val enc_entries_c : entry list -> n list **)

let enc_entries_c l =
  (N.of_nat (length l)) :: (flat_map enc_entry_c l)

(** val enc_snap : snapshot -> n list **)

let enc_snap s =
  app (s.s_index :: (s.s_term :: [])) (enc_cs s.s_cs)

(** val enc_ctx : gectx option -> n list **)

let enc_ctx = function
| Some g ->
  (match g with
   | CtxSendAppend (to0, t, a) ->
     (Npos (XO XH)) :: (to0 :: (t :: ((enc_bool a) :: [])))
   | CtxGenReady -> (Npos (XI XH)) :: []
   | CtxTransferLeader -> (Npos (XO (XO XH))) :: []
   | CtxCommitByVote -> (Npos (XI (XO XH))) :: []
   | CtxEmpty b -> (Npos XH) :: ((enc_bool b) :: []))
| None -> N0 :: []

(** val enc_ret : ret -> n list **)

let enc_ret = function
| RUnit -> []
| RNum n0 -> n0 :: []
| REntries l -> enc_entries_c l
| RSnap s -> enc_snap s
| RState (h, c) -> app (enc_hs h) (enc_cs c)
| RHard h -> enc_hs h
| RCtx c -> enc_ctx c

(** val enc_sres : ret sres -> n list **)

let enc_sres = function
| SOk v -> N0 :: (enc_ret v)
| SErr e -> (Npos XH) :: ((serr_code e) :: [])

(** val pANIC : n **)

let pANIC =
  Npos (XI (XI (XI (XI (XI (XI (XO (XO (XO (XI (XO (XO (XO (XO (XI (XO (XI
    (XI (XI XH)))))))))))))))))))

(** val dump0 : mem -> n list * bool **)

let dump0 m =
  let pre = app (enc_hs m.hs) (enc_cs m.cs) in
  (match first_index m with
   | Ok f ->
     let l = last_index m in
     let pre2 = app pre (f :: (l :: [])) in
     if N.leb f l
     then (match storage_entries m f (N.add l (Npos XH)) (Some nO_LIMIT)
                   (CtxEmpty false) with
           | Ok a ->
             let (_, s) = a in
             (match s with
              | SOk es ->
                ((app pre2
                   (app (enc_entries_c es)
                     (m.snap_index :: (m.snap_term :: [])))), true)
              | SErr e ->
                ((app pre2 ((Npos XH) :: ((serr_code e) :: []))), false))
           | Panic s -> ((app pre2 (pANIC :: (s :: []))), false))
     else ((app pre2 (app (N0 :: []) (m.snap_index :: (m.snap_term :: [])))),
            true)
   | Panic s -> ((app pre (pANIC :: (s :: []))), false))

(** val run_cmds : nat -> mem -> n list -> n list **)

let rec run_cmds fuel m l =
  match fuel with
  | O -> []
  | S fuel' ->
    (match l with
     | [] -> []
     | _ :: _ ->
       (match parse_cmd l with
        | Some p ->
          let (c, r) = p in
          (match c with
           | COp o ->
             (match step0 m o with
              | Ok a ->
                let (m', res0) = a in
                app (enc_sres res0) (run_cmds fuel' m' r)
              | Panic s -> pANIC :: (s :: []))
           | CDump ->
             let (out, cont) = dump0 m in
             if cont then app out (run_cmds fuel' m r) else out)
        | None ->
          (Npos (XO (XO (XO (XI (XI (XI (XO (XO (XO (XO (XO (XO (XI (XO (XO
            (XI (XI (XO (XI XH)))))))))))))))))))) :: []))

(** val run_memstorage : n list -> n list **)

let run_memstorage = function
| [] ->
  (Npos (XO (XO (XO (XI (XI (XI (XO (XO (XO (XO (XO (XO (XI (XO (XO (XI (XI
    (XO (XI XH)))))))))))))))))))) :: []
| n0 :: r ->
  (match n0 with
   | N0 -> run_cmds (S (length r)) new1 r
   | Npos p ->
     (match p with
      | XH ->
        (match parse_vl r with
         | Some p0 ->
           let (c, r') = p0 in
           (match new_with_conf_state c with
            | Ok m -> run_cmds (S (length r')) m r'
            | Panic s -> pANIC :: (s :: []))
         | None ->
           (Npos (XO (XO (XO (XI (XI (XI (XO (XO (XO (XO (XO (XO (XI (XO (XO
             (XI (XI (XO (XI XH)))))))))))))))))))) :: [])
      | _ ->
        (Npos (XO (XO (XO (XI (XI (XI (XO (XO (XO (XO (XO (XO (XI (XO (XO (XI
          (XI (XO (XI XH)))))))))))))))))))) :: []))
