
(** val negb : bool -> bool **)

let negb = function
| true -> false
| false -> true

type nat =
| O
| S of nat

(** val option_map : ('a1 -> 'a2) -> 'a1 option -> 'a2 option **)

let option_map f = function
| Some a -> Some (f a)
| None -> None

(** val fst : ('a1 * 'a2) -> 'a1 **)

let fst = function
| (x, _) -> x

(** val snd : ('a1 * 'a2) -> 'a2 **)

let snd = function
| (_, y) -> y

(** val length : 'a1 list -> nat **)

let rec length = function
| [] -> O
| _ :: l' -> S (length l')

(** val app : 'a1 list -> 'a1 list -> 'a1 list **)

let rec app l m =
  match l with
  | [] -> m
  | a :: l1 -> a :: (app l1 m)

type comparison =
| Eq
| Lt
| Gt

module Coq__1 = struct
 (** val add : nat -> nat -> nat **)
 let rec add n0 m =
   match n0 with
   | O -> m
   | S p -> S (add p m)
end
include Coq__1

(** val sub : nat -> nat -> nat **)

let rec sub n0 m =
  match n0 with
  | O -> n0
  | S k -> (match m with
            | O -> n0
            | S l -> sub k l)

(** val eqb : bool -> bool -> bool **)

let eqb b1 b2 =
  if b1 then b2 else if b2 then false else true

module Nat =
 struct
  (** val eqb : nat -> nat -> bool **)

  let rec eqb n0 m =
    match n0 with
    | O -> (match m with
            | O -> true
            | S _ -> false)
    | S n' -> (match m with
               | O -> false
               | S m' -> eqb n' m')

  (** val leb : nat -> nat -> bool **)

  let rec leb n0 m =
    match n0 with
    | O -> true
    | S n' -> (match m with
               | O -> false
               | S m' -> leb n' m')

  (** val ltb : nat -> nat -> bool **)

  let ltb n0 m =
    leb (S n0) m

  (** val compare : nat -> nat -> comparison **)

  let rec compare n0 m =
    match n0 with
    | O -> (match m with
            | O -> Eq
            | S _ -> Lt)
    | S n' -> (match m with
               | O -> Gt
               | S m' -> compare n' m')
 end

(** val nth_error : 'a1 list -> nat -> 'a1 option **)

let rec nth_error l = function
| O -> (match l with
        | [] -> None
        | x :: _ -> Some x)
| S n1 -> (match l with
           | [] -> None
           | _ :: l0 -> nth_error l0 n1)

(** val map : ('a1 -> 'a2) -> 'a1 list -> 'a2 list **)

let rec map f = function
| [] -> []
| a :: t -> (f a) :: (map f t)

(** val flat_map : ('a1 -> 'a2 list) -> 'a1 list -> 'a2 list **)

let rec flat_map f = function
| [] -> []
| x :: t -> app (f x) (flat_map f t)

(** val fold_left : ('a1 -> 'a2 -> 'a1) -> 'a2 list -> 'a1 -> 'a1 **)

let rec fold_left f l a0 =
  match l with
  | [] -> a0
  | b :: t -> fold_left f t (f a0 b)

(** val fold_right : ('a2 -> 'a1 -> 'a1) -> 'a1 -> 'a2 list -> 'a1 **)

let rec fold_right f a0 = function
| [] -> a0
| b :: t -> f b (fold_right f a0 t)

(** val forallb : ('a1 -> bool) -> 'a1 list -> bool **)

let rec forallb f = function
| [] -> true
| a :: l0 -> (&&) (f a) (forallb f l0)

(** val filter : ('a1 -> bool) -> 'a1 list -> 'a1 list **)

let rec filter f = function
| [] -> []
| x :: l0 -> if f x then x :: (filter f l0) else filter f l0

(** val firstn : nat -> 'a1 list -> 'a1 list **)

let rec firstn n0 l =
  match n0 with
  | O -> []
  | S n1 -> (match l with
             | [] -> []
             | a :: l0 -> a :: (firstn n1 l0))

(** val skipn : nat -> 'a1 list -> 'a1 list **)

let rec skipn n0 l =
  match n0 with
  | O -> l
  | S n1 -> (match l with
             | [] -> []
             | _ :: l0 -> skipn n1 l0)

type positive =
| XI of positive
| XO of positive
| XH

type n =
| N0
| Npos of positive

module Pos =
 struct
  type mask =
  | IsNul
  | IsPos of positive
  | IsNeg
 end

module Coq_Pos =
 struct
  (** val succ : positive -> positive **)

  let rec succ = function
  | XI p -> XO (succ p)
  | XO p -> XI p
  | XH -> XO XH

  (** val add : positive -> positive -> positive **)

  let rec add x y =
    match x with
    | XI p ->
      (match y with
       | XI q -> XO (add_carry p q)
       | XO q -> XI (add p q)
       | XH -> XO (succ p))
    | XO p ->
      (match y with
       | XI q -> XI (add p q)
       | XO q -> XO (add p q)
       | XH -> XI p)
    | XH -> (match y with
             | XI q -> XO (succ q)
             | XO q -> XI q
             | XH -> XO XH)

  (** val add_carry : positive -> positive -> positive **)

  and add_carry x y =
    match x with
    | XI p ->
      (match y with
       | XI q -> XI (add_carry p q)
       | XO q -> XO (add_carry p q)
       | XH -> XI (succ p))
    | XO p ->
      (match y with
       | XI q -> XO (add_carry p q)
       | XO q -> XI (add p q)
       | XH -> XO (succ p))
    | XH ->
      (match y with
       | XI q -> XI (succ q)
       | XO q -> XO (succ q)
       | XH -> XI XH)

  (** val pred_double : positive -> positive **)

  let rec pred_double = function
  | XI p -> XI (XO p)
  | XO p -> XI (pred_double p)
  | XH -> XH

  type mask = Pos.mask =
  | IsNul
  | IsPos of positive
  | IsNeg

  (** val succ_double_mask : mask -> mask **)

  let succ_double_mask = function
  | IsNul -> IsPos XH
  | IsPos p -> IsPos (XI p)
  | IsNeg -> IsNeg

  (** val double_mask : mask -> mask **)

  let double_mask = function
  | IsPos p -> IsPos (XO p)
  | x0 -> x0

  (** val double_pred_mask : positive -> mask **)

  let double_pred_mask = function
  | XI p -> IsPos (XO (XO p))
  | XO p -> IsPos (XO (pred_double p))
  | XH -> IsNul

  (** val sub_mask : positive -> positive -> mask **)

  let rec sub_mask x y =
    match x with
    | XI p ->
      (match y with
       | XI q -> double_mask (sub_mask p q)
       | XO q -> succ_double_mask (sub_mask p q)
       | XH -> IsPos (XO p))
    | XO p ->
      (match y with
       | XI q -> succ_double_mask (sub_mask_carry p q)
       | XO q -> double_mask (sub_mask p q)
       | XH -> IsPos (pred_double p))
    | XH -> (match y with
             | XH -> IsNul
             | _ -> IsNeg)

  (** val sub_mask_carry : positive -> positive -> mask **)

  and sub_mask_carry x y =
    match x with
    | XI p ->
      (match y with
       | XI q -> succ_double_mask (sub_mask_carry p q)
       | XO q -> double_mask (sub_mask p q)
       | XH -> IsPos (pred_double p))
    | XO p ->
      (match y with
       | XI q -> double_mask (sub_mask_carry p q)
       | XO q -> succ_double_mask (sub_mask_carry p q)
       | XH -> double_pred_mask p)
    | XH -> IsNeg

  (** val mul : positive -> positive -> positive **)

  let rec mul x y =
    match x with
    | XI p -> add y (XO (mul p y))
    | XO p -> XO (mul p y)
    | XH -> y

  (** val compare_cont : comparison -> positive -> positive -> comparison **)

  let rec compare_cont r0 x y =
    match x with
    | XI p ->
      (match y with
       | XI q -> compare_cont r0 p q
       | XO q -> compare_cont Gt p q
       | XH -> Gt)
    | XO p ->
      (match y with
       | XI q -> compare_cont Lt p q
       | XO q -> compare_cont r0 p q
       | XH -> Gt)
    | XH -> (match y with
             | XH -> r0
             | _ -> Lt)

  (** val compare : positive -> positive -> comparison **)

  let compare =
    compare_cont Eq

  (** val eqb : positive -> positive -> bool **)

  let rec eqb p q =
    match p with
    | XI p0 -> (match q with
                | XI q0 -> eqb p0 q0
                | _ -> false)
    | XO p0 -> (match q with
                | XO q0 -> eqb p0 q0
                | _ -> false)
    | XH -> (match q with
             | XH -> true
             | _ -> false)

  (** val iter_op : ('a1 -> 'a1 -> 'a1) -> positive -> 'a1 -> 'a1 **)

  let rec iter_op op0 p a =
    match p with
    | XI p0 -> op0 a (iter_op op0 p0 (op0 a a))
    | XO p0 -> iter_op op0 p0 (op0 a a)
    | XH -> a

  (** val to_nat : positive -> nat **)

  let to_nat x =
    iter_op Coq__1.add x (S O)

  (** val of_succ_nat : nat -> positive **)

  let rec of_succ_nat = function
  | O -> XH
  | S x -> succ (of_succ_nat x)
 end

module N =
 struct
  (** val succ_double : n -> n **)

  let succ_double = function
  | N0 -> Npos XH
  | Npos p -> Npos (XI p)

  (** val double : n -> n **)

  let double = function
  | N0 -> N0
  | Npos p -> Npos (XO p)

  (** val add : n -> n -> n **)

  let add n0 m =
    match n0 with
    | N0 -> m
    | Npos p -> (match m with
                 | N0 -> n0
                 | Npos q -> Npos (Coq_Pos.add p q))

  (** val sub : n -> n -> n **)

  let sub n0 m =
    match n0 with
    | N0 -> N0
    | Npos n' ->
      (match m with
       | N0 -> n0
       | Npos m' ->
         (match Coq_Pos.sub_mask n' m' with
          | Coq_Pos.IsPos p -> Npos p
          | _ -> N0))

  (** val mul : n -> n -> n **)

  let mul n0 m =
    match n0 with
    | N0 -> N0
    | Npos p -> (match m with
                 | N0 -> N0
                 | Npos q -> Npos (Coq_Pos.mul p q))

  (** val compare : n -> n -> comparison **)

  let compare n0 m =
    match n0 with
    | N0 -> (match m with
             | N0 -> Eq
             | Npos _ -> Lt)
    | Npos n' -> (match m with
                  | N0 -> Gt
                  | Npos m' -> Coq_Pos.compare n' m')

  (** val eqb : n -> n -> bool **)

  let eqb n0 m =
    match n0 with
    | N0 -> (match m with
             | N0 -> true
             | Npos _ -> false)
    | Npos p -> (match m with
                 | N0 -> false
                 | Npos q -> Coq_Pos.eqb p q)

  (** val leb : n -> n -> bool **)

  let leb x y =
    match compare x y with
    | Gt -> false
    | _ -> true

  (** val ltb : n -> n -> bool **)

  let ltb x y =
    match compare x y with
    | Lt -> true
    | _ -> false

  (** val pos_div_eucl : positive -> n -> n * n **)

  let rec pos_div_eucl a b =
    match a with
    | XI a' ->
      let (q, r0) = pos_div_eucl a' b in
      let r' = succ_double r0 in
      if leb b r' then ((succ_double q), (sub r' b)) else ((double q), r')
    | XO a' ->
      let (q, r0) = pos_div_eucl a' b in
      let r' = double r0 in
      if leb b r' then ((succ_double q), (sub r' b)) else ((double q), r')
    | XH ->
      (match b with
       | N0 -> (N0, (Npos XH))
       | Npos p -> (match p with
                    | XH -> ((Npos XH), N0)
                    | _ -> (N0, (Npos XH))))

  (** val div_eucl : n -> n -> n * n **)

  let div_eucl a b =
    match a with
    | N0 -> (N0, N0)
    | Npos na -> (match b with
                  | N0 -> (N0, a)
                  | Npos _ -> pos_div_eucl na b)

  (** val to_nat : n -> nat **)

  let to_nat = function
  | N0 -> O
  | Npos p -> Coq_Pos.to_nat p

  (** val of_nat : nat -> n **)

  let of_nat = function
  | O -> N0
  | S n' -> Npos (Coq_Pos.of_succ_nat n')
 end

type site = n

type 'a res =
| Ok of 'a
| Panic of site

(** val bind : 'a1 res -> ('a1 -> 'a2 res) -> 'a2 res **)

let bind r0 f =
  match r0 with
  | Ok a -> f a
  | Panic s -> Panic s

(** val idx : 'a1 list -> nat -> site -> 'a1 res **)

let idx l i s =
  match nth_error l i with
  | Some a -> Ok a
  | None -> Panic s

(** val upd : 'a1 list -> nat -> 'a1 -> 'a1 list **)

let rec upd l i a =
  match l with
  | [] -> []
  | h :: t -> (match i with
               | O -> a :: t
               | S j -> h :: (upd t j a))

(** val enc_opt : n option -> n list **)

let enc_opt = function
| Some v -> (Npos XH) :: (v :: [])
| None -> N0 :: []

(** val enc_bool : bool -> n **)

let enc_bool = function
| true -> Npos XH
| false -> N0

(** val enc_list : n list -> n list **)

let enc_list l =
  (N.of_nat (length l)) :: l

type inflights = { start : nat; count : nat; buffer : n list; cap : nat;
                   incoming_cap : nat option; allocated : bool }

(** val site_add_full : site **)

let site_add_full =
  Npos (XI (XO (XO (XI (XO (XO (XO (XO (XI (XI XH))))))))))

(** val site_add_dbg_count : site **)

let site_add_dbg_count =
  Npos (XO (XI (XO (XI (XO (XO (XO (XO (XI (XI XH))))))))))

(** val site_add_dbg_start : site **)

let site_add_dbg_start =
  Npos (XI (XI (XO (XI (XO (XO (XO (XO (XI (XI XH))))))))))

(** val site_add_dbg_incoming : site **)

let site_add_dbg_incoming =
  Npos (XO (XO (XI (XI (XO (XO (XO (XO (XI (XI XH))))))))))

(** val site_add_next : site **)

let site_add_next =
  Npos (XI (XO (XI (XI (XO (XO (XO (XO (XI (XI XH))))))))))

(** val site_setcap_dbg_len : site **)

let site_setcap_dbg_len =
  Npos (XO (XI (XI (XI (XO (XO (XO (XO (XI (XI XH))))))))))

(** val site_setcap_slice : site **)

let site_setcap_slice =
  Npos (XI (XI (XI (XI (XO (XO (XO (XO (XI (XI XH))))))))))

(** val site_free_index : site **)

let site_free_index =
  Npos (XO (XO (XO (XO (XI (XO (XO (XO (XI (XI XH))))))))))

(** val site_first_index : site **)

let site_first_index =
  Npos (XI (XO (XO (XO (XI (XO (XO (XO (XI (XI XH))))))))))

(** val site_count_underflow : site **)

let site_count_underflow =
  Npos (XO (XI (XO (XO (XI (XO (XO (XO (XI (XI XH))))))))))

(** val new0 : nat -> inflights **)

let new0 c =
  { start = O; count = O; buffer = []; cap = c; incoming_cap = None;
    allocated = (Nat.ltb O c) }

(** val full : inflights -> bool **)

let full s =
  (||) (Nat.eqb s.count s.cap)
    (match s.incoming_cap with
     | Some c -> Nat.leb c s.count
     | None -> false)

(** val set_cap : inflights -> nat -> inflights res **)

let set_cap s ic =
  match Nat.compare s.cap ic with
  | Eq ->
    Ok { start = s.start; count = s.count; buffer = s.buffer; cap = s.cap;
      incoming_cap = None; allocated = s.allocated }
  | Lt ->
    if Nat.leb (add s.start s.count) s.cap
    then Ok { start = s.start; count = s.count; buffer = s.buffer; cap = ic;
           incoming_cap = None; allocated = s.allocated }
    else if negb (Nat.eqb s.cap (length s.buffer))
         then Panic site_setcap_dbg_len
         else if Nat.ltb (length s.buffer) s.start
              then Panic site_setcap_slice
              else if Nat.ltb s.cap s.start
                   then Panic site_count_underflow
                   else if Nat.ltb s.count (sub s.cap s.start)
                        then Panic site_count_underflow
                        else if Nat.ltb (length s.buffer)
                                  (sub s.count (sub s.cap s.start))
                             then Panic site_setcap_slice
                             else let buf =
                                    app (skipn s.start s.buffer)
                                      (firstn
                                        (sub s.count (sub s.cap s.start))
                                        s.buffer)
                                  in
                                  Ok { start = O; count = s.count; buffer =
                                  buf; cap = ic; incoming_cap = None;
                                  allocated = (Nat.ltb O ic) }
  | Gt ->
    if Nat.eqb s.count O
    then Ok { start = O; count = O; buffer =
           (if s.allocated then [] else s.buffer); cap = ic; incoming_cap =
           None; allocated = (if s.allocated then Nat.ltb O ic else false) }
    else Ok { start = s.start; count = s.count; buffer = s.buffer; cap =
           s.cap; incoming_cap = (Some ic); allocated = s.allocated }

(** val add0 : inflights -> n -> inflights res **)

let add0 s x =
  if full s
  then Panic site_add_full
  else bind
         (if s.allocated
          then Ok s
          else if negb (Nat.eqb s.count O)
               then Panic site_add_dbg_count
               else if negb (Nat.eqb s.start O)
                    then Panic site_add_dbg_start
                    else (match s.incoming_cap with
                          | Some _ -> Panic site_add_dbg_incoming
                          | None ->
                            Ok { start = s.start; count = s.count; buffer =
                              []; cap = s.cap; incoming_cap = None;
                              allocated = (Nat.ltb O s.cap) })) (fun s1 ->
         let next0 = add s1.start s1.count in
         let next = if Nat.leb s1.cap next0 then sub next0 s1.cap else next0
         in
         if Nat.ltb (length s1.buffer) next
         then Panic site_add_next
         else let buf =
                if Nat.eqb next (length s1.buffer)
                then app s1.buffer (x :: [])
                else upd s1.buffer next x
              in
              Ok { start = s1.start; count = (S s1.count); buffer = buf;
              cap = s1.cap; incoming_cap = s1.incoming_cap; allocated =
              s1.allocated })

(** val free_loop :
    n list -> nat -> n -> nat -> nat -> nat -> (nat * nat) res **)

let rec free_loop buf c to0 fuel i ix =
  match fuel with
  | O -> Ok (i, ix)
  | S fuel' ->
    bind (idx buf ix site_free_index) (fun b ->
      if N.ltb to0 b
      then Ok (i, ix)
      else let ix1 = S ix in
           let ix2 = if Nat.leb c ix1 then sub ix1 c else ix1 in
           free_loop buf c to0 fuel' (S i) ix2)

(** val free_to : inflights -> n -> inflights res **)

let free_to s to0 =
  if Nat.eqb s.count O
  then Ok s
  else bind (idx s.buffer s.start site_free_index) (fun b0 ->
         if N.ltb to0 b0
         then Ok s
         else bind (free_loop s.buffer s.cap to0 s.count O s.start)
                (fun r0 ->
                let (i, ix) = r0 in
                let cnt = sub s.count i in
                if Nat.eqb cnt O
                then (match s.incoming_cap with
                      | Some ic ->
                        Ok { start = O; count = O; buffer = []; cap = ic;
                          incoming_cap = None; allocated = (Nat.ltb O ic) }
                      | None ->
                        Ok { start = ix; count = O; buffer = s.buffer; cap =
                          s.cap; incoming_cap = None; allocated =
                          s.allocated })
                else Ok { start = ix; count = cnt; buffer = s.buffer; cap =
                       s.cap; incoming_cap = s.incoming_cap; allocated =
                       s.allocated }))

(** val free_first_one : inflights -> inflights res **)

let free_first_one s =
  if Nat.ltb O s.count
  then bind (idx s.buffer s.start site_first_index) (fun b -> free_to s b)
  else Ok s

(** val reset : inflights -> inflights **)

let reset s =
  { start = O; count = O; buffer = []; cap =
    (match s.incoming_cap with
     | Some c -> c
     | None -> s.cap); incoming_cap = None; allocated = false }

(** val maybe_free_buffer : inflights -> inflights **)

let maybe_free_buffer s =
  if Nat.eqb s.count O
  then { start = O; count = O; buffer = []; cap = s.cap; incoming_cap =
         s.incoming_cap; allocated = false }
  else s

type op =
| OAdd of n
| OFreeTo of n
| OFreeFirst
| OReset
| OSetCap of nat
| OMaybeFree

(** val step : inflights -> op -> inflights res **)

let step s = function
| OAdd x -> add0 s x
| OFreeTo x -> free_to s x
| OFreeFirst -> free_first_one s
| OReset -> Ok (reset s)
| OSetCap c -> set_cap s c
| OMaybeFree -> Ok (maybe_free_buffer s)

(** val dump : inflights -> n list **)

let dump s =
  app
    ((N.of_nat s.start) :: ((N.of_nat s.count) :: ((N.of_nat s.cap) :: [])))
    (app (enc_opt (option_map N.of_nat s.incoming_cap))
      (app ((enc_bool s.allocated) :: ((enc_bool (full s)) :: []))
        (enc_list s.buffer)))

(** val decode_op : n -> n -> op option **)

let decode_op code arg =
  match code with
  | N0 -> Some (OAdd arg)
  | Npos p ->
    (match p with
     | XI p0 ->
       (match p0 with
        | XI _ -> None
        | XO p1 -> (match p1 with
                    | XH -> Some OMaybeFree
                    | _ -> None)
        | XH -> Some OReset)
     | XO p0 ->
       (match p0 with
        | XI _ -> None
        | XO p1 ->
          (match p1 with
           | XH -> Some (OSetCap (N.to_nat arg))
           | _ -> None)
        | XH -> Some OFreeFirst)
     | XH -> Some (OFreeTo arg))

(** val decode_ops : n list -> op list **)

let rec decode_ops = function
| [] -> []
| code :: l0 ->
  (match l0 with
   | [] -> []
   | arg :: rest ->
     (match decode_op code arg with
      | Some o -> o :: (decode_ops rest)
      | None -> []))

(** val run_ops : bool -> inflights -> op list -> n list **)

let rec run_ops every s = function
| [] -> if every then [] else dump s
| o :: rest ->
  (match step s o with
   | Ok s' -> app (if every then dump s' else []) (run_ops every s' rest)
   | Panic site0 ->
     (Npos (XI (XI (XI (XI (XI (XI (XO (XO (XO (XI (XO (XO (XO (XO (XI (XO
       (XI (XI (XI XH)))))))))))))))))))) :: (site0 :: []))

(** val run_inflights : n list -> n list **)

let run_inflights = function
| [] ->
  (Npos (XO (XO (XO (XI (XI (XI (XO (XO (XO (XO (XO (XO (XI (XO (XO (XI (XI
    (XO (XI XH)))))))))))))))))))) :: []
| mode :: l ->
  (match l with
   | [] ->
     (Npos (XO (XO (XO (XI (XI (XI (XO (XO (XO (XO (XO (XO (XI (XO (XO (XI
       (XI (XO (XI XH)))))))))))))))))))) :: []
   | c :: ops ->
     run_ops (N.eqb mode (Npos XH)) (new0 (N.to_nat c)) (decode_ops ops))

type idset = n list

(** val mem : n -> n list -> bool **)

let rec mem x = function
| [] -> false
| y :: t -> (||) (N.eqb x y) (mem x t)

(** val insert : n -> idset -> idset **)

let rec insert x s = match s with
| [] -> x :: []
| y :: t ->
  if N.ltb x y then x :: s else if N.eqb x y then s else y :: (insert x t)

(** val remove : n -> idset -> idset **)

let rec remove x = function
| [] -> []
| y :: t -> if N.eqb x y then remove x t else y :: (remove x t)

(** val union : idset -> idset -> idset **)

let union a b =
  fold_right insert a b

(** val is_empty : idset -> bool **)

let is_empty = function
| [] -> true
| _ :: _ -> false

(** val diff : idset -> idset -> idset **)

let diff a b =
  filter (fun x -> negb (mem x b)) a

(** val symdiff_count : idset -> idset -> nat **)

let symdiff_count a b =
  add (length (diff a b)) (length (diff b a))

(** val list_eqb : n list -> n list -> bool **)

let rec list_eqb a b =
  match a with
  | [] -> (match b with
           | [] -> true
           | _ :: _ -> false)
  | x :: a' ->
    (match b with
     | [] -> false
     | y :: b' -> (&&) (N.eqb x y) (list_eqb a' b'))

type err = n

type 'a r =
| ROk of 'a
| RErr of err

(** val rbind : 'a1 r -> ('a1 -> 'a2 r) -> 'a2 r **)

let rbind r0 f =
  match r0 with
  | ROk a -> f a
  | RErr e -> RErr e

(** val e_no_progress_voter : err **)

let e_no_progress_voter =
  Npos (XI (XO (XO (XO (XI (XI (XO (XI (XO (XO XH))))))))))

(** val e_no_progress_learner : err **)

let e_no_progress_learner =
  Npos (XO (XI (XO (XO (XI (XI (XO (XI (XO (XO XH))))))))))

(** val e_learner_outgoing : err **)

let e_learner_outgoing =
  Npos (XI (XI (XO (XO (XI (XI (XO (XI (XO (XO XH))))))))))

(** val e_learner_incoming : err **)

let e_learner_incoming =
  Npos (XO (XO (XI (XO (XI (XI (XO (XI (XO (XO XH))))))))))

(** val e_no_progress_next : err **)

let e_no_progress_next =
  Npos (XI (XO (XI (XO (XI (XI (XO (XI (XO (XO XH))))))))))

(** val e_next_not_outgoing : err **)

let e_next_not_outgoing =
  Npos (XO (XI (XI (XO (XI (XI (XO (XI (XO (XO XH))))))))))

(** val e_next_nonjoint : err **)

let e_next_nonjoint =
  Npos (XI (XI (XI (XO (XI (XI (XO (XI (XO (XO XH))))))))))

(** val e_autoleave_nonjoint : err **)

let e_autoleave_nonjoint =
  Npos (XO (XO (XO (XI (XI (XI (XO (XI (XO (XO XH))))))))))

(** val e_already_joint : err **)

let e_already_joint =
  Npos (XI (XO (XO (XI (XI (XI (XO (XI (XO (XO XH))))))))))

(** val e_zero_voter_joint : err **)

let e_zero_voter_joint =
  Npos (XO (XI (XO (XI (XI (XI (XO (XI (XO (XO XH))))))))))

(** val e_leave_nonjoint : err **)

let e_leave_nonjoint =
  Npos (XI (XI (XO (XI (XI (XI (XO (XI (XO (XO XH))))))))))

(** val e_not_joint : err **)

let e_not_joint =
  Npos (XO (XO (XI (XI (XI (XI (XO (XI (XO (XO XH))))))))))

(** val e_simple_in_joint : err **)

let e_simple_in_joint =
  Npos (XI (XO (XI (XI (XI (XI (XO (XI (XO (XO XH))))))))))

(** val e_more_than_one : err **)

let e_more_than_one =
  Npos (XO (XI (XI (XI (XI (XI (XO (XI (XO (XO XH))))))))))

(** val e_removed_all : err **)

let e_removed_all =
  Npos (XI (XI (XI (XI (XI (XI (XO (XI (XO (XO XH))))))))))

(** val site_invalid_restore : site **)

let site_invalid_restore =
  Npos (XO (XI (XO (XO (XO (XI (XI (XI (XO (XO XH))))))))))

type conf = { incoming : idset; outgoing : idset; learners : idset;
              learners_next : idset; auto_leave : bool }

(** val empty_conf : conf **)

let empty_conf =
  { incoming = []; outgoing = []; learners = []; learners_next = [];
    auto_leave = false }

type cctype =
| AddNode
| RemoveNode
| AddLearnerNode

type ccsingle = cctype * n

type mct =
| MAdd
| MRemove

type changes = (n * mct) list

type conf_state = { cs_voters : n list; cs_learners : n list;
                    cs_voters_outgoing : n list; cs_learners_next : n list;
                    cs_auto_leave : bool }

(** val last_change : n -> changes -> mct option **)

let rec last_change id = function
| [] -> None
| p :: rest ->
  let (i, t) = p in
  (match last_change id rest with
   | Some t' -> Some t'
   | None -> if N.eqb i id then Some t else None)

(** val contains : idset -> changes -> n -> bool **)

let contains base chs id =
  match last_change id chs with
  | Some m -> (match m with
               | MAdd -> true
               | MRemove -> false)
  | None -> mem id base

(** val joint : conf -> bool **)

let joint c =
  negb (is_empty c.outgoing)

(** val check_learners : conf -> idset -> changes -> n list -> unit r **)

let rec check_learners c base chs = function
| [] -> ROk ()
| id :: rest ->
  if negb (contains base chs id)
  then RErr e_no_progress_learner
  else if mem id c.outgoing
       then RErr e_learner_outgoing
       else if mem id c.incoming
            then RErr e_learner_incoming
            else check_learners c base chs rest

(** val check_learners_next : conf -> idset -> changes -> n list -> unit r **)

let rec check_learners_next c base chs = function
| [] -> ROk ()
| id :: rest ->
  if negb (contains base chs id)
  then RErr e_no_progress_next
  else if negb (mem id c.outgoing)
       then RErr e_next_not_outgoing
       else check_learners_next c base chs rest

(** val check_invariants : conf -> idset -> changes -> unit r **)

let check_invariants c base chs =
  if negb (forallb (contains base chs) (app c.incoming c.outgoing))
  then RErr e_no_progress_voter
  else rbind (check_learners c base chs c.learners) (fun _ ->
         rbind (check_learners_next c base chs c.learners_next) (fun _ ->
           if negb (joint c)
           then if negb (is_empty c.learners_next)
                then RErr e_next_nonjoint
                else if c.auto_leave
                     then RErr e_autoleave_nonjoint
                     else ROk ()
           else ROk ()))

(** val set_incoming : conf -> idset -> conf **)

let set_incoming c s =
  { incoming = s; outgoing = c.outgoing; learners = c.learners;
    learners_next = c.learners_next; auto_leave = c.auto_leave }

(** val set_outgoing : conf -> idset -> conf **)

let set_outgoing c s =
  { incoming = c.incoming; outgoing = s; learners = c.learners;
    learners_next = c.learners_next; auto_leave = c.auto_leave }

(** val set_learners : conf -> idset -> conf **)

let set_learners c s =
  { incoming = c.incoming; outgoing = c.outgoing; learners = s;
    learners_next = c.learners_next; auto_leave = c.auto_leave }

(** val set_auto_leave : conf -> bool -> conf **)

let set_auto_leave c b =
  { incoming = c.incoming; outgoing = c.outgoing; learners = c.learners;
    learners_next = c.learners_next; auto_leave = b }

(** val init_progress : conf -> changes -> n -> bool -> conf * changes **)

let init_progress c chs id is_learner =
  ((if is_learner
    then set_learners c (insert id c.learners)
    else set_incoming c (insert id c.incoming)), (app chs ((id, MAdd) :: [])))

(** val make_voter : idset -> conf -> changes -> n -> conf * changes **)

let make_voter base c chs id =
  if negb (contains base chs id)
  then init_progress c chs id false
  else ({ incoming = (insert id c.incoming); outgoing = c.outgoing;
         learners = (remove id c.learners); learners_next =
         (remove id c.learners_next); auto_leave = c.auto_leave }, chs)

(** val make_learner : idset -> conf -> changes -> n -> conf * changes **)

let make_learner base c chs id =
  if negb (contains base chs id)
  then init_progress c chs id true
  else if mem id c.learners
       then (c, chs)
       else let inc = remove id c.incoming in
            let lrn = remove id c.learners in
            let nxt = remove id c.learners_next in
            if mem id c.outgoing
            then ({ incoming = inc; outgoing = c.outgoing; learners = lrn;
                   learners_next = (insert id nxt); auto_leave =
                   c.auto_leave }, chs)
            else ({ incoming = inc; outgoing = c.outgoing; learners =
                   (insert id lrn); learners_next = nxt; auto_leave =
                   c.auto_leave }, chs)

(** val remove_node : idset -> conf -> changes -> n -> conf * changes **)

let remove_node base c chs id =
  if negb (contains base chs id)
  then (c, chs)
  else ({ incoming = (remove id c.incoming); outgoing = c.outgoing;
         learners = (remove id c.learners); learners_next =
         (remove id c.learners_next); auto_leave = c.auto_leave },
         (if negb (mem id c.outgoing)
          then app chs ((id, MRemove) :: [])
          else chs))

(** val apply_one :
    idset -> (conf * changes) -> ccsingle -> conf * changes **)

let apply_one base st cc =
  let (c, chs) = st in
  let (ty, id) = cc in
  if N.eqb id N0
  then (c, chs)
  else (match ty with
        | AddNode -> make_voter base c chs id
        | RemoveNode -> remove_node base c chs id
        | AddLearnerNode -> make_learner base c chs id)

(** val apply_loop :
    idset -> (conf * changes) -> ccsingle list -> conf * changes **)

let apply_loop base st ccs =
  fold_left (apply_one base) ccs st

(** val apply_changes :
    idset -> conf -> changes -> ccsingle list -> (conf * changes) r **)

let apply_changes base c chs ccs =
  let st = apply_loop base (c, chs) ccs in
  if is_empty (fst st).incoming then RErr e_removed_all else ROk st

(** val check_and_copy : conf -> idset -> unit r **)

let check_and_copy c base =
  check_invariants c base []

(** val simple : conf -> idset -> ccsingle list -> (conf * changes) r **)

let simple c base ccs =
  if joint c
  then RErr e_simple_in_joint
  else rbind (check_and_copy c base) (fun _ ->
         rbind (apply_changes base c [] ccs) (fun st ->
           let (c', chs) = st in
           if Nat.ltb (S O) (symdiff_count c'.incoming c.incoming)
           then RErr e_more_than_one
           else rbind (check_invariants c' base chs) (fun _ -> ROk (c', chs))))

(** val enter_joint :
    bool -> conf -> idset -> ccsingle list -> (conf * changes) r **)

let enter_joint al c base ccs =
  if joint c
  then RErr e_already_joint
  else rbind (check_and_copy c base) (fun _ ->
         if is_empty c.incoming
         then RErr e_zero_voter_joint
         else let c1 = set_outgoing c (union c.outgoing c.incoming) in
              rbind (apply_changes base c1 [] ccs) (fun st ->
                let (c2, chs) = st in
                let c3 = set_auto_leave c2 al in
                rbind (check_invariants c3 base chs) (fun _ -> ROk (c3, chs))))

(** val leave_removals : conf -> changes **)

let leave_removals c =
  map (fun id -> (id, MRemove))
    (filter (fun id ->
      (&&) (negb (mem id c.incoming)) (negb (mem id c.learners))) c.outgoing)

(** val leave_joint : conf -> idset -> (conf * changes) r **)

let leave_joint c base =
  if negb (joint c)
  then RErr e_leave_nonjoint
  else rbind (check_and_copy c base) (fun _ ->
         if is_empty c.outgoing
         then RErr e_not_joint
         else let c1 = { incoming = c.incoming; outgoing = c.outgoing;
                learners = (union c.learners c.learners_next);
                learners_next = []; auto_leave = c.auto_leave }
              in
              let chs = leave_removals c1 in
              let c2 = { incoming = c1.incoming; outgoing = []; learners =
                c1.learners; learners_next = c1.learners_next; auto_leave =
                false }
              in
              rbind (check_invariants c2 base chs) (fun _ -> ROk (c2, chs)))

(** val apply_change : idset -> (n * mct) -> idset **)

let apply_change p ch =
  match snd ch with
  | MAdd -> insert (fst ch) p
  | MRemove -> remove (fst ch) p

(** val apply_conf : idset -> changes -> idset **)

let apply_conf base chs =
  fold_left apply_change chs base

type tracker = conf * idset

(** val empty_tracker : tracker **)

let empty_tracker =
  (empty_conf, [])

(** val commit : tracker -> (conf * changes) r -> tracker r **)

let commit t = function
| ROk a -> let (c', chs) = a in ROk (c', (apply_conf (snd t) chs))
| RErr e -> RErr e

(** val do_simple : tracker -> ccsingle list -> tracker r **)

let do_simple t ccs =
  commit t (simple (fst t) (snd t) ccs)

(** val do_enter_joint : bool -> tracker -> ccsingle list -> tracker r **)

let do_enter_joint al t ccs =
  commit t (enter_joint al (fst t) (snd t) ccs)

(** val do_leave_joint : tracker -> tracker r **)

let do_leave_joint t =
  commit t (leave_joint (fst t) (snd t))

(** val to_conf_change_single :
    conf_state -> ccsingle list * ccsingle list **)

let to_conf_change_single cs =
  let outg = map (fun id -> (AddNode, id)) cs.cs_voters_outgoing in
  let inc =
    app (map (fun id -> (RemoveNode, id)) cs.cs_voters_outgoing)
      (app (map (fun id -> (AddNode, id)) cs.cs_voters)
        (app (map (fun id -> (AddLearnerNode, id)) cs.cs_learners)
          (map (fun id -> (AddLearnerNode, id)) cs.cs_learners_next)))
  in
  (outg, inc)

(** val simple_each : tracker -> ccsingle list -> tracker r **)

let rec simple_each t = function
| [] -> ROk t
| cc :: rest -> rbind (do_simple t (cc :: [])) (fun t' -> simple_each t' rest)

(** val restore : tracker -> conf_state -> tracker r **)

let restore t cs =
  let (outg, inc) = to_conf_change_single cs in
  (match outg with
   | [] -> simple_each t inc
   | _ :: _ ->
     rbind (simple_each t outg) (fun t1 ->
       do_enter_joint cs.cs_auto_leave t1 inc))

(** val to_conf_state : conf -> conf_state **)

let to_conf_state c =
  { cs_voters = c.incoming; cs_learners = c.learners; cs_voters_outgoing =
    c.outgoing; cs_learners_next = c.learners_next; cs_auto_leave =
    c.auto_leave }

(** val eq_without_order : n list -> n list -> bool **)

let eq_without_order l r0 =
  (&&) (forallb (fun x -> mem x r0) l) (forallb (fun x -> mem x l) r0)

(** val conf_state_eq : conf_state -> conf_state -> bool **)

let conf_state_eq l r0 =
  (||)
    ((&&)
      ((&&)
        ((&&)
          ((&&) (list_eqb l.cs_voters r0.cs_voters)
            (list_eqb l.cs_learners r0.cs_learners))
          (list_eqb l.cs_voters_outgoing r0.cs_voters_outgoing))
        (list_eqb l.cs_learners_next r0.cs_learners_next))
      (eqb l.cs_auto_leave r0.cs_auto_leave))
    ((&&)
      ((&&)
        ((&&)
          ((&&) (eq_without_order l.cs_voters r0.cs_voters)
            (eq_without_order l.cs_learners r0.cs_learners))
          (eq_without_order l.cs_voters_outgoing r0.cs_voters_outgoing))
        (eq_without_order l.cs_learners_next r0.cs_learners_next))
      (eqb l.cs_auto_leave r0.cs_auto_leave))

(** val raft_new_restore : conf_state -> tracker r res **)

let raft_new_restore cs =
  match restore empty_tracker cs with
  | ROk t ->
    if conf_state_eq (to_conf_state (fst t)) cs
    then Ok (ROk t)
    else Panic site_invalid_restore
  | RErr e -> Ok (RErr e)

type transition =
| Auto
| Implicit
| Explicit

type ccv2 = { v2_transition : transition; v2_changes : ccsingle list }

(** val v2_enter_joint : ccv2 -> bool option **)

let v2_enter_joint cc =
  if (||) (negb (match cc.v2_transition with
                 | Auto -> true
                 | _ -> false)) (Nat.ltb (S O) (length cc.v2_changes))
  then (match cc.v2_transition with
        | Explicit -> Some false
        | _ -> Some true)
  else None

(** val v2_leave_joint : ccv2 -> bool **)

let v2_leave_joint cc =
  (&&) (match cc.v2_transition with
        | Auto -> true
        | _ -> false) (match cc.v2_changes with
                       | [] -> true
                       | _ :: _ -> false)

(** val v1_into_v2 : cctype -> n -> ccv2 **)

let v1_into_v2 ty id =
  { v2_transition = Auto; v2_changes = ((ty, id) :: []) }

(** val apply_conf_change : tracker -> ccv2 -> tracker r **)

let apply_conf_change t cc =
  if v2_leave_joint cc
  then do_leave_joint t
  else (match v2_enter_joint cc with
        | Some al -> do_enter_joint al t cc.v2_changes
        | None -> do_simple t cc.v2_changes)

(** val dump_tracker : tracker -> n list **)

let dump_tracker t =
  let c = fst t in
  app (enc_list c.incoming)
    (app (enc_list c.outgoing)
      (app (enc_list c.learners)
        (app (enc_list c.learners_next)
          (app ((enc_bool c.auto_leave) :: []) (enc_list (snd t))))))

(** val enc_mct : mct -> n **)

let enc_mct = function
| MAdd -> N0
| MRemove -> Npos XH

(** val dump_changes : changes -> n list **)

let dump_changes chs =
  (N.of_nat (length chs)) :: (flat_map (fun ch ->
                               (fst ch) :: ((enc_mct (snd ch)) :: [])) chs)

(** val malformed : n list **)

let malformed =
  (Npos (XO (XO (XO (XI (XI (XI (XO (XO (XO (XO (XO (XO (XI (XO (XO (XI (XI
    (XO (XI XH)))))))))))))))))))) :: []

(** val take_list : n list -> (n list * n list) option **)

let take_list = function
| [] -> None
| n0 :: rest ->
  let k = N.to_nat n0 in
  if Nat.ltb (length rest) k
  then None
  else Some ((firstn k rest), (skipn k rest))

(** val dec_type : n -> cctype option **)

let dec_type = function
| N0 -> Some AddNode
| Npos p ->
  (match p with
   | XI _ -> None
   | XO p0 -> (match p0 with
               | XH -> Some AddLearnerNode
               | _ -> None)
   | XH -> Some RemoveNode)

(** val dec_trans : n -> transition option **)

let dec_trans = function
| N0 -> Some Auto
| Npos p ->
  (match p with
   | XI _ -> None
   | XO p0 -> (match p0 with
               | XH -> Some Explicit
               | _ -> None)
   | XH -> Some Implicit)

(** val take_pairs : nat -> n list -> (ccsingle list * n list) option **)

let rec take_pairs k l =
  match k with
  | O -> Some ([], l)
  | S k' ->
    (match l with
     | [] -> None
     | ty :: l0 ->
       (match l0 with
        | [] -> None
        | id :: rest ->
          (match dec_type ty with
           | Some t ->
             (match take_pairs k' rest with
              | Some p -> let (ps, rest') = p in Some (((t, id) :: ps), rest')
              | None -> None)
           | None -> None)))

(** val take_ccs : n list -> (ccsingle list * n list) option **)

let take_ccs = function
| [] -> None
| n0 :: rest -> take_pairs (N.to_nat n0) rest

(** val take_cs : n list -> (conf_state * n list) option **)

let take_cs l =
  match take_list l with
  | Some p ->
    let (v, l1) = p in
    (match take_list l1 with
     | Some p0 ->
       let (lr, l2) = p0 in
       (match take_list l2 with
        | Some p1 ->
          let (o, l3) = p1 in
          (match take_list l3 with
           | Some p2 ->
             let (ln, l0) = p2 in
             (match l0 with
              | [] -> None
              | al :: l4 ->
                Some ({ cs_voters = v; cs_learners = lr; cs_voters_outgoing =
                  o; cs_learners_next = ln; cs_auto_leave =
                  (negb (N.eqb al N0)) }, l4))
           | None -> None)
        | None -> None)
     | None -> None)
  | None -> None

(** val enc_restore : tracker r res -> n list **)

let enc_restore = function
| Ok a -> (match a with
           | ROk t -> N0 :: (dump_tracker t)
           | RErr e -> e :: [])
| Panic s ->
  (Npos (XI (XI (XI (XI (XI (XI (XO (XO (XO (XI (XO (XO (XO (XO (XI (XO (XI
    (XI (XI XH)))))))))))))))))))) :: (s :: [])

(** val changer_step : tracker -> (conf * changes) r -> tracker * n list **)

let changer_step t = function
| ROk a ->
  let (c', chs) = a in
  let t' = (c', (apply_conf (snd t) chs)) in
  (t', (N0 :: (app (dump_tracker t') (dump_changes chs))))
| RErr e -> (t, (e :: []))

(** val v2_step : tracker -> ccv2 -> tracker * n list **)

let v2_step t cc =
  let cls =
    (enc_bool (v2_leave_joint cc)) :: (enc_opt
                                        (option_map enc_bool
                                          (v2_enter_joint cc)))
  in
  (match apply_conf_change t cc with
   | ROk t' -> (t', (app cls (N0 :: (dump_tracker t'))))
   | RErr e -> (t, (app cls (e :: []))))

(** val run_ops0 : nat -> tracker -> n list -> n list **)

let rec run_ops0 fuel t l =
  match fuel with
  | O -> []
  | S fuel' ->
    (match l with
     | [] -> []
     | n0 :: rest ->
       (match n0 with
        | N0 -> malformed
        | Npos p ->
          (match p with
           | XI p0 ->
             (match p0 with
              | XI p1 ->
                (match p1 with
                 | XH ->
                   (match rest with
                    | [] -> malformed
                    | ty :: l0 ->
                      (match l0 with
                       | [] -> malformed
                       | id :: rest0 ->
                         (match dec_type ty with
                          | Some ty' ->
                            let (t', out) = v2_step t (v1_into_v2 ty' id) in
                            app out (run_ops0 fuel' t' rest0)
                          | None -> malformed)))
                 | _ -> malformed)
              | XO p1 ->
                (match p1 with
                 | XH ->
                   (match rest with
                    | [] -> malformed
                    | id :: rest0 ->
                      let t' = ((fst t), (remove id (snd t))) in
                      app (dump_tracker t') (run_ops0 fuel' t' rest0))
                 | _ -> malformed)
              | XH ->
                let (t', out) = changer_step t (leave_joint (fst t) (snd t))
                in
                app out (run_ops0 fuel' t' rest))
           | XO p0 ->
             (match p0 with
              | XI p1 ->
                (match p1 with
                 | XH ->
                   (match rest with
                    | [] -> malformed
                    | tr :: rest0 ->
                      (match dec_trans tr with
                       | Some tr' ->
                         (match take_ccs rest0 with
                          | Some p2 ->
                            let (ccs, rest') = p2 in
                            let (t', out) =
                              v2_step t { v2_transition = tr'; v2_changes =
                                ccs }
                            in
                            app out (run_ops0 fuel' t' rest')
                          | None -> malformed)
                       | None -> malformed))
                 | _ -> malformed)
              | XO p1 ->
                (match p1 with
                 | XH ->
                   app
                     (enc_restore (raft_new_restore (to_conf_state (fst t))))
                     (run_ops0 fuel' t rest)
                 | _ -> malformed)
              | XH ->
                (match rest with
                 | [] -> malformed
                 | al :: rest0 ->
                   (match take_ccs rest0 with
                    | Some p1 ->
                      let (ccs, rest') = p1 in
                      let (t', out) =
                        changer_step t
                          (enter_joint (negb (N.eqb al N0)) (fst t) (snd t)
                            ccs)
                      in
                      app out (run_ops0 fuel' t' rest')
                    | None -> malformed)))
           | XH ->
             (match take_ccs rest with
              | Some p0 ->
                let (ccs, rest') = p0 in
                let (t', out) = changer_step t (simple (fst t) (snd t) ccs) in
                app out (run_ops0 fuel' t' rest')
              | None -> malformed))))

(** val run_confchange : n list -> n list **)

let run_confchange = function
| [] -> malformed
| n0 :: rest ->
  (match n0 with
   | N0 -> run_ops0 (length rest) empty_tracker rest
   | Npos p ->
     (match p with
      | XH ->
        (match take_cs rest with
         | Some p0 ->
           let (cs, ops) = p0 in
           let r0 = raft_new_restore cs in
           app (enc_restore r0)
             (match r0 with
              | Ok a ->
                (match a with
                 | ROk t -> run_ops0 (length ops) t ops
                 | RErr _ -> [])
              | Panic _ -> [])
         | None -> malformed)
      | _ -> malformed))
