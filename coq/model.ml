
(** val negb : bool -> bool **)

let negb = function
| true -> false
| false -> true

type nat =
| O
| S of nat

(** val option_map : ('a1 -> 'a2) -> 'a1 option -> 'a2 option **)

let option_map f = function
| Some a -> Some (f a)
| None -> None

(** val length : 'a1 list -> nat **)

let rec length = function
| [] -> O
| _ :: l' -> S (length l')

(** val app : 'a1 list -> 'a1 list -> 'a1 list **)

let rec app l m =
  match l with
  | [] -> m
  | a :: l1 -> a :: (app l1 m)

type comparison =
| Eq
| Lt
| Gt

module Coq__1 = struct
 (** val add : nat -> nat -> nat **)
 let rec add n0 m =
   match n0 with
   | O -> m
   | S p -> S (add p m)
end
include Coq__1

(** val sub : nat -> nat -> nat **)

let rec sub n0 m =
  match n0 with
  | O -> n0
  | S k -> (match m with
            | O -> n0
            | S l -> sub k l)

module Nat =
 struct
  (** val eqb : nat -> nat -> bool **)

  let rec eqb n0 m =
    match n0 with
    | O -> (match m with
            | O -> true
            | S _ -> false)
    | S n' -> (match m with
               | O -> false
               | S m' -> eqb n' m')

  (** val leb : nat -> nat -> bool **)

  let rec leb n0 m =
    match n0 with
    | O -> true
    | S n' -> (match m with
               | O -> false
               | S m' -> leb n' m')

  (** val ltb : nat -> nat -> bool **)

  let ltb n0 m =
    leb (S n0) m

  (** val compare : nat -> nat -> comparison **)

  let rec compare n0 m =
    match n0 with
    | O -> (match m with
            | O -> Eq
            | S _ -> Lt)
    | S n' -> (match m with
               | O -> Gt
               | S m' -> compare n' m')
 end

(** val nth_error : 'a1 list -> nat -> 'a1 option **)

let rec nth_error l = function
| O -> (match l with
        | [] -> None
        | x :: _ -> Some x)
| S n1 -> (match l with
           | [] -> None
           | _ :: l0 -> nth_error l0 n1)

(** val firstn : nat -> 'a1 list -> 'a1 list **)

let rec firstn n0 l =
  match n0 with
  | O -> []
  | S n1 -> (match l with
             | [] -> []
             | a :: l0 -> a :: (firstn n1 l0))

(** val skipn : nat -> 'a1 list -> 'a1 list **)

let rec skipn n0 l =
  match n0 with
  | O -> l
  | S n1 -> (match l with
             | [] -> []
             | _ :: l0 -> skipn n1 l0)

type positive =
| XI of positive
| XO of positive
| XH

type n =
| N0
| Npos of positive

module Pos =
 struct
  type mask =
  | IsNul
  | IsPos of positive
  | IsNeg
 end

module Coq_Pos =
 struct
  (** val succ : positive -> positive **)

  let rec succ = function
  | XI p -> XO (succ p)
  | XO p -> XI p
  | XH -> XO XH

  (** val add : positive -> positive -> positive **)

  let rec add x y =
    match x with
    | XI p ->
      (match y with
       | XI q -> XO (add_carry p q)
       | XO q -> XI (add p q)
       | XH -> XO (succ p))
    | XO p ->
      (match y with
       | XI q -> XI (add p q)
       | XO q -> XO (add p q)
       | XH -> XI p)
    | XH -> (match y with
             | XI q -> XO (succ q)
             | XO q -> XI q
             | XH -> XO XH)

  (** val add_carry : positive -> positive -> positive **)

  and add_carry x y =
    match x with
    | XI p ->
      (match y with
       | XI q -> XI (add_carry p q)
       | XO q -> XO (add_carry p q)
       | XH -> XI (succ p))
    | XO p ->
      (match y with
       | XI q -> XO (add_carry p q)
       | XO q -> XI (add p q)
       | XH -> XO (succ p))
    | XH ->
      (match y with
       | XI q -> XI (succ q)
       | XO q -> XO (succ q)
       | XH -> XI XH)

  (** val pred_double : positive -> positive **)

  let rec pred_double = function
  | XI p -> XI (XO p)
  | XO p -> XI (pred_double p)
  | XH -> XH

  type mask = Pos.mask =
  | IsNul
  | IsPos of positive
  | IsNeg

  (** val succ_double_mask : mask -> mask **)

  let succ_double_mask = function
  | IsNul -> IsPos XH
  | IsPos p -> IsPos (XI p)
  | IsNeg -> IsNeg

  (** val double_mask : mask -> mask **)

  let double_mask = function
  | IsPos p -> IsPos (XO p)
  | x0 -> x0

  (** val double_pred_mask : positive -> mask **)

  let double_pred_mask = function
  | XI p -> IsPos (XO (XO p))
  | XO p -> IsPos (XO (pred_double p))
  | XH -> IsNul

  (** val sub_mask : positive -> positive -> mask **)

  let rec sub_mask x y =
    match x with
    | XI p ->
      (match y with
       | XI q -> double_mask (sub_mask p q)
       | XO q -> succ_double_mask (sub_mask p q)
       | XH -> IsPos (XO p))
    | XO p ->
      (match y with
       | XI q -> succ_double_mask (sub_mask_carry p q)
       | XO q -> double_mask (sub_mask p q)
       | XH -> IsPos (pred_double p))
    | XH -> (match y with
             | XH -> IsNul
             | _ -> IsNeg)

  (** val sub_mask_carry : positive -> positive -> mask **)

  and sub_mask_carry x y =
    match x with
    | XI p ->
      (match y with
       | XI q -> succ_double_mask (sub_mask_carry p q)
       | XO q -> double_mask (sub_mask p q)
       | XH -> IsPos (pred_double p))
    | XO p ->
      (match y with
       | XI q -> double_mask (sub_mask_carry p q)
       | XO q -> succ_double_mask (sub_mask_carry p q)
       | XH -> double_pred_mask p)
    | XH -> IsNeg

  (** val mul : positive -> positive -> positive **)

  let rec mul x y =
    match x with
    | XI p -> add y (XO (mul p y))
    | XO p -> XO (mul p y)
    | XH -> y

  (** val compare_cont : comparison -> positive -> positive -> comparison **)

  let rec compare_cont r x y =
    match x with
    | XI p ->
      (match y with
       | XI q -> compare_cont r p q
       | XO q -> compare_cont Gt p q
       | XH -> Gt)
    | XO p ->
      (match y with
       | XI q -> compare_cont Lt p q
       | XO q -> compare_cont r p q
       | XH -> Gt)
    | XH -> (match y with
             | XH -> r
             | _ -> Lt)

  (** val compare : positive -> positive -> comparison **)

  let compare =
    compare_cont Eq

  (** val eqb : positive -> positive -> bool **)

  let rec eqb p q =
    match p with
    | XI p0 -> (match q with
                | XI q0 -> eqb p0 q0
                | _ -> false)
    | XO p0 -> (match q with
                | XO q0 -> eqb p0 q0
                | _ -> false)
    | XH -> (match q with
             | XH -> true
             | _ -> false)

  (** val iter_op : ('a1 -> 'a1 -> 'a1) -> positive -> 'a1 -> 'a1 **)

  let rec iter_op op0 p a =
    match p with
    | XI p0 -> op0 a (iter_op op0 p0 (op0 a a))
    | XO p0 -> iter_op op0 p0 (op0 a a)
    | XH -> a

  (** val to_nat : positive -> nat **)

  let to_nat x =
    iter_op Coq__1.add x (S O)

  (** val of_succ_nat : nat -> positive **)

  let rec of_succ_nat = function
  | O -> XH
  | S x -> succ (of_succ_nat x)
 end

module N =
 struct
  (** val succ_double : n -> n **)

  let succ_double = function
  | N0 -> Npos XH
  | Npos p -> Npos (XI p)

  (** val double : n -> n **)

  let double = function
  | N0 -> N0
  | Npos p -> Npos (XO p)

  (** val add : n -> n -> n **)

  let add n0 m =
    match n0 with
    | N0 -> m
    | Npos p -> (match m with
                 | N0 -> n0
                 | Npos q -> Npos (Coq_Pos.add p q))

  (** val sub : n -> n -> n **)

  let sub n0 m =
    match n0 with
    | N0 -> N0
    | Npos n' ->
      (match m with
       | N0 -> n0
       | Npos m' ->
         (match Coq_Pos.sub_mask n' m' with
          | Coq_Pos.IsPos p -> Npos p
          | _ -> N0))

  (** val mul : n -> n -> n **)

  let mul n0 m =
    match n0 with
    | N0 -> N0
    | Npos p -> (match m with
                 | N0 -> N0
                 | Npos q -> Npos (Coq_Pos.mul p q))

  (** val compare : n -> n -> comparison **)

  let compare n0 m =
    match n0 with
    | N0 -> (match m with
             | N0 -> Eq
             | Npos _ -> Lt)
    | Npos n' -> (match m with
                  | N0 -> Gt
                  | Npos m' -> Coq_Pos.compare n' m')

  (** val eqb : n -> n -> bool **)

  let eqb n0 m =
    match n0 with
    | N0 -> (match m with
             | N0 -> true
             | Npos _ -> false)
    | Npos p -> (match m with
                 | N0 -> false
                 | Npos q -> Coq_Pos.eqb p q)

  (** val leb : n -> n -> bool **)

  let leb x y =
    match compare x y with
    | Gt -> false
    | _ -> true

  (** val ltb : n -> n -> bool **)

  let ltb x y =
    match compare x y with
    | Lt -> true
    | _ -> false

  (** val pos_div_eucl : positive -> n -> n * n **)

  let rec pos_div_eucl a b =
    match a with
    | XI a' ->
      let (q, r) = pos_div_eucl a' b in
      let r' = succ_double r in
      if leb b r' then ((succ_double q), (sub r' b)) else ((double q), r')
    | XO a' ->
      let (q, r) = pos_div_eucl a' b in
      let r' = double r in
      if leb b r' then ((succ_double q), (sub r' b)) else ((double q), r')
    | XH ->
      (match b with
       | N0 -> (N0, (Npos XH))
       | Npos p -> (match p with
                    | XH -> ((Npos XH), N0)
                    | _ -> (N0, (Npos XH))))

  (** val div_eucl : n -> n -> n * n **)

  let div_eucl a b =
    match a with
    | N0 -> (N0, N0)
    | Npos na -> (match b with
                  | N0 -> (N0, a)
                  | Npos _ -> pos_div_eucl na b)

  (** val to_nat : n -> nat **)

  let to_nat = function
  | N0 -> O
  | Npos p -> Coq_Pos.to_nat p

  (** val of_nat : nat -> n **)

  let of_nat = function
  | O -> N0
  | S n' -> Npos (Coq_Pos.of_succ_nat n')
 end

type site = n

type 'a res =
| Ok of 'a
| Panic of site

(** val bind : 'a1 res -> ('a1 -> 'a2 res) -> 'a2 res **)

let bind r f =
  match r with
  | Ok a -> f a
  | Panic s -> Panic s

(** val idx : 'a1 list -> nat -> site -> 'a1 res **)

let idx l i s =
  match nth_error l i with
  | Some a -> Ok a
  | None -> Panic s

(** val upd : 'a1 list -> nat -> 'a1 -> 'a1 list **)

let rec upd l i a =
  match l with
  | [] -> []
  | h :: t -> (match i with
               | O -> a :: t
               | S j -> h :: (upd t j a))

(** val enc_opt : n option -> n list **)

let enc_opt = function
| Some v -> (Npos XH) :: (v :: [])
| None -> N0 :: []

(** val enc_bool : bool -> n **)

let enc_bool = function
| true -> Npos XH
| false -> N0

(** val enc_list : n list -> n list **)

let enc_list l =
  (N.of_nat (length l)) :: l

type inflights = { start : nat; count : nat; buffer : n list; cap : nat;
                   incoming_cap : nat option; allocated : bool }

(** val site_add_full : site **)

let site_add_full =
  Npos (XI (XO (XO (XI (XO (XO (XO (XO (XI (XI XH))))))))))

(** val site_add_dbg_count : site **)

let site_add_dbg_count =
  Npos (XO (XI (XO (XI (XO (XO (XO (XO (XI (XI XH))))))))))

(** val site_add_dbg_start : site **)

let site_add_dbg_start =
  Npos (XI (XI (XO (XI (XO (XO (XO (XO (XI (XI XH))))))))))

(** val site_add_dbg_incoming : site **)

let site_add_dbg_incoming =
  Npos (XO (XO (XI (XI (XO (XO (XO (XO (XI (XI XH))))))))))

(** val site_add_next : site **)

let site_add_next =
  Npos (XI (XO (XI (XI (XO (XO (XO (XO (XI (XI XH))))))))))

(** val site_setcap_dbg_len : site **)

let site_setcap_dbg_len =
  Npos (XO (XI (XI (XI (XO (XO (XO (XO (XI (XI XH))))))))))

(** val site_setcap_slice : site **)

let site_setcap_slice =
  Npos (XI (XI (XI (XI (XO (XO (XO (XO (XI (XI XH))))))))))

(** val site_free_index : site **)

let site_free_index =
  Npos (XO (XO (XO (XO (XI (XO (XO (XO (XI (XI XH))))))))))

(** val site_first_index : site **)

let site_first_index =
  Npos (XI (XO (XO (XO (XI (XO (XO (XO (XI (XI XH))))))))))

(** val site_count_underflow : site **)

let site_count_underflow =
  Npos (XO (XI (XO (XO (XI (XO (XO (XO (XI (XI XH))))))))))

(** val new0 : nat -> inflights **)

let new0 c =
  { start = O; count = O; buffer = []; cap = c; incoming_cap = None;
    allocated = (Nat.ltb O c) }

(** val full : inflights -> bool **)

let full s =
  (||) (Nat.eqb s.count s.cap)
    (match s.incoming_cap with
     | Some c -> Nat.leb c s.count
     | None -> false)

(** val set_cap : inflights -> nat -> inflights res **)

let set_cap s ic =
  match Nat.compare s.cap ic with
  | Eq ->
    Ok { start = s.start; count = s.count; buffer = s.buffer; cap = s.cap;
      incoming_cap = None; allocated = s.allocated }
  | Lt ->
    if Nat.leb (add s.start s.count) s.cap
    then Ok { start = s.start; count = s.count; buffer = s.buffer; cap = ic;
           incoming_cap = None; allocated = s.allocated }
    else if negb (Nat.eqb s.cap (length s.buffer))
         then Panic site_setcap_dbg_len
         else if Nat.ltb (length s.buffer) s.start
              then Panic site_setcap_slice
              else if Nat.ltb s.cap s.start
                   then Panic site_count_underflow
                   else if Nat.ltb s.count (sub s.cap s.start)
                        then Panic site_count_underflow
                        else if Nat.ltb (length s.buffer)
                                  (sub s.count (sub s.cap s.start))
                             then Panic site_setcap_slice
                             else let buf =
                                    app (skipn s.start s.buffer)
                                      (firstn
                                        (sub s.count (sub s.cap s.start))
                                        s.buffer)
                                  in
                                  Ok { start = O; count = s.count; buffer =
                                  buf; cap = ic; incoming_cap = None;
                                  allocated = (Nat.ltb O ic) }
  | Gt ->
    if Nat.eqb s.count O
    then Ok { start = O; count = O; buffer =
           (if s.allocated then [] else s.buffer); cap = ic; incoming_cap =
           None; allocated = (if s.allocated then Nat.ltb O ic else false) }
    else Ok { start = s.start; count = s.count; buffer = s.buffer; cap =
           s.cap; incoming_cap = (Some ic); allocated = s.allocated }

(** val add0 : inflights -> n -> inflights res **)

let add0 s x =
  if full s
  then Panic site_add_full
  else bind
         (if s.allocated
          then Ok s
          else if negb (Nat.eqb s.count O)
               then Panic site_add_dbg_count
               else if negb (Nat.eqb s.start O)
                    then Panic site_add_dbg_start
                    else (match s.incoming_cap with
                          | Some _ -> Panic site_add_dbg_incoming
                          | None ->
                            Ok { start = s.start; count = s.count; buffer =
                              []; cap = s.cap; incoming_cap = None;
                              allocated = (Nat.ltb O s.cap) })) (fun s1 ->
         let next0 = add s1.start s1.count in
         let next = if Nat.leb s1.cap next0 then sub next0 s1.cap else next0
         in
         if Nat.ltb (length s1.buffer) next
         then Panic site_add_next
         else let buf =
                if Nat.eqb next (length s1.buffer)
                then app s1.buffer (x :: [])
                else upd s1.buffer next x
              in
              Ok { start = s1.start; count = (S s1.count); buffer = buf;
              cap = s1.cap; incoming_cap = s1.incoming_cap; allocated =
              s1.allocated })

(** val free_loop :
    n list -> nat -> n -> nat -> nat -> nat -> (nat * nat) res **)

let rec free_loop buf c to0 fuel i ix =
  match fuel with
  | O -> Ok (i, ix)
  | S fuel' ->
    bind (idx buf ix site_free_index) (fun b ->
      if N.ltb to0 b
      then Ok (i, ix)
      else let ix1 = S ix in
           let ix2 = if Nat.leb c ix1 then sub ix1 c else ix1 in
           free_loop buf c to0 fuel' (S i) ix2)

(** val free_to : inflights -> n -> inflights res **)

let free_to s to0 =
  if Nat.eqb s.count O
  then Ok s
  else bind (idx s.buffer s.start site_free_index) (fun b0 ->
         if N.ltb to0 b0
         then Ok s
         else bind (free_loop s.buffer s.cap to0 s.count O s.start) (fun r ->
                let (i, ix) = r in
                let cnt = sub s.count i in
                if Nat.eqb cnt O
                then (match s.incoming_cap with
                      | Some ic ->
                        Ok { start = O; count = O; buffer = []; cap = ic;
                          incoming_cap = None; allocated = (Nat.ltb O ic) }
                      | None ->
                        Ok { start = ix; count = O; buffer = s.buffer; cap =
                          s.cap; incoming_cap = None; allocated =
                          s.allocated })
                else Ok { start = ix; count = cnt; buffer = s.buffer; cap =
                       s.cap; incoming_cap = s.incoming_cap; allocated =
                       s.allocated }))

(** val free_first_one : inflights -> inflights res **)

let free_first_one s =
  if Nat.ltb O s.count
  then bind (idx s.buffer s.start site_first_index) (fun b -> free_to s b)
  else Ok s

(** val reset : inflights -> inflights **)

let reset s =
  { start = O; count = O; buffer = []; cap =
    (match s.incoming_cap with
     | Some c -> c
     | None -> s.cap); incoming_cap = None; allocated = false }

(** val maybe_free_buffer : inflights -> inflights **)

let maybe_free_buffer s =
  if Nat.eqb s.count O
  then { start = O; count = O; buffer = []; cap = s.cap; incoming_cap =
         s.incoming_cap; allocated = false }
  else s

type op =
| OAdd of n
| OFreeTo of n
| OFreeFirst
| OReset
| OSetCap of nat
| OMaybeFree

(** val step : inflights -> op -> inflights res **)

let step s = function
| OAdd x -> add0 s x
| OFreeTo x -> free_to s x
| OFreeFirst -> free_first_one s
| OReset -> Ok (reset s)
| OSetCap c -> set_cap s c
| OMaybeFree -> Ok (maybe_free_buffer s)

(** val dump : inflights -> n list **)

let dump s =
  app
    ((N.of_nat s.start) :: ((N.of_nat s.count) :: ((N.of_nat s.cap) :: [])))
    (app (enc_opt (option_map N.of_nat s.incoming_cap))
      (app ((enc_bool s.allocated) :: ((enc_bool (full s)) :: []))
        (enc_list s.buffer)))

(** val decode_op : n -> n -> op option **)

let decode_op code arg =
  match code with
  | N0 -> Some (OAdd arg)
  | Npos p ->
    (match p with
     | XI p0 ->
       (match p0 with
        | XI _ -> None
        | XO p1 -> (match p1 with
                    | XH -> Some OMaybeFree
                    | _ -> None)
        | XH -> Some OReset)
     | XO p0 ->
       (match p0 with
        | XI _ -> None
        | XO p1 ->
          (match p1 with
           | XH -> Some (OSetCap (N.to_nat arg))
           | _ -> None)
        | XH -> Some OFreeFirst)
     | XH -> Some (OFreeTo arg))

(** val decode_ops : n list -> op list **)

let rec decode_ops = function
| [] -> []
| code :: l0 ->
  (match l0 with
   | [] -> []
   | arg :: rest ->
     (match decode_op code arg with
      | Some o -> o :: (decode_ops rest)
      | None -> []))

(** val run_ops : bool -> inflights -> op list -> n list **)

let rec run_ops every s = function
| [] -> if every then [] else dump s
| o :: rest ->
  (match step s o with
   | Ok s' -> app (if every then dump s' else []) (run_ops every s' rest)
   | Panic site0 ->
     (Npos (XI (XI (XI (XI (XI (XI (XO (XO (XO (XI (XO (XO (XO (XO (XI (XO
       (XI (XI (XI XH)))))))))))))))))))) :: (site0 :: []))

(** val run_inflights : n list -> n list **)

let run_inflights = function
| [] ->
  (Npos (XO (XO (XO (XI (XI (XI (XO (XO (XO (XO (XO (XO (XI (XO (XO (XI (XI
    (XO (XI XH)))))))))))))))))))) :: []
| mode :: l ->
  (match l with
   | [] ->
     (Npos (XO (XO (XO (XI (XI (XI (XO (XO (XO (XO (XO (XO (XI (XO (XO (XI
       (XI (XO (XI XH)))))))))))))))))))) :: []
   | c :: ops ->
     run_ops (N.eqb mode (Npos XH)) (new0 (N.to_nat c)) (decode_ops ops))
