(* Numeric wire format for the Inflights correspondence check.
   Input  : mode :: cap0 :: (code, arg)*   codes: 0 add, 1 free_to, 2 free_first_one,
            3 reset, 4 set_cap, 5 maybe_free_buffer.   mode 1 = dump after every op.
   Output : state dumps (see [dump]); on a panic: 999999 :: site, and the run stops. *)
From RV Require Import Base.Prelude M.Inflights.

Definition dump (s : inflights) : list N :=
  [N.of_nat (start s); N.of_nat (count s); N.of_nat (cap s)]
  ++ enc_opt (option_map N.of_nat (incoming_cap s))
  ++ [enc_bool (allocated s); enc_bool (full s)]
  ++ enc_list (buffer s).

Definition decode_op (code arg : N) : option op :=
  match code with
  | 0%N => Some (OAdd arg)
  | 1%N => Some (OFreeTo arg)
  | 2%N => Some OFreeFirst
  | 3%N => Some OReset
  | 4%N => Some (OSetCap (N.to_nat arg))
  | 5%N => Some OMaybeFree
  | _ => None
  end.

Fixpoint decode_ops (l : list N) : list op :=
  match l with
  | code :: arg :: rest =>
      match decode_op code arg with
      | Some o => o :: decode_ops rest
      | None => []
      end
  | _ => []
  end.

Fixpoint run_ops (every : bool) (s : inflights) (ops : list op) : list N :=
  match ops with
  | [] => if every then [] else dump s
  | o :: rest =>
      match step s o with
      | Ok s' => (if every then dump s' else []) ++ run_ops every s' rest
      | Panic site => [999999%N; site]
      end
  end.

Definition run_inflights (input : list N) : list N :=
  match input with
  | mode :: c :: ops =>
      run_ops (N.eqb mode 1) (new (N.to_nat c)) (decode_ops ops)
  | _ => [888888%N]
  end.
