(* Wire codec for the node-level (RawNode / Raft) pointwise correspondence check.

   A case    : <rawnode dump> <draws list> <call>
   An answer : SEC_RESULT <0 | 999999 site> <return values> <rawnode dump>   (dump omitted on panic)

   The rawnode dump is a token stream split into sections by marker tokens
   BASE+k (BASE = 2^64, so a marker can never be a u64 data value); the same
   encoder produces the pre-state (decoded here) and the post-state (compared,
   section by section, with the implementation's dump by vlib/node.py).
   Outbound messages are dumped stably sorted by destination. *)
From RV Require Import Base.Prelude Base.IdSet M.Util M.Proto M.MemStorage M.Inflights
  M.Progress M.RaftLog M.Quorum M.ConfChange M.Msg M.Raft M.RawNode Run.Wire.
From RecordUpdate Require Import RecordSet.
Import RecordSetNotations.

Local Open Scope N_scope.

Definition BASE : N := 18446744073709551616.
Definition SEC_RESULT := BASE + 1.
Definition SEC_HARD := BASE + 2.       (* term vote role leader_id votes *)
Definition SEC_LOG := BASE + 3.        (* committed persisted applied limit unstable pending_request_snapshot *)
Definition SEC_TIMERS := BASE + 4.     (* election_elapsed heartbeat_elapsed randomized_election_timeout *)
Definition SEC_PROGRESS := BASE + 5.   (* progress map *)
Definition SEC_CONF := BASE + 6.       (* conf promotable pending_conf_index *)
Definition SEC_MSGS := BASE + 7.       (* outbound messages, each introduced by MSG_MARK *)
Definition SEC_READ := BASE + 8.       (* read_only read_states *)
Definition SEC_TRANSFER := BASE + 9.   (* lead_transferee *)
Definition SEC_UNCOMMITTED := BASE + 10.
Definition SEC_RAWNODE := BASE + 11.   (* prev_ss prev_hs max_number records commit_since_index *)
Definition SEC_CONFIG := BASE + 12.    (* knobs and static configuration *)
Definition SEC_STORE := BASE + 13.     (* storage contents (input only; the library never writes it) *)
Definition SEC_NEW := BASE + 14.       (* a RawNode::new case: configuration, storage, draws *)
Definition MSG_MARK := BASE + 100.

(* ------------------------------------------------------------------ *)
(* parser plumbing *)
Definition P (A : Type) := list N -> option (A * list N).

Definition pbind {A B} (p : P A) (f : A -> P B) : P B :=
  fun l => match p l with Some (a, r) => f a r | None => None end.
Definition pret {A} (a : A) : P A := fun l => Some (a, l).
Notation "x <~ p ;; k" := (pbind p (fun x => k)) (at level 61, p at next level, right associativity).

Definition pnum : P N := fun l => match l with x :: r => Some (x, r) | [] => None end.
Definition pbool : P bool := x <~ pnum ;; pret (negb (x =? 0)).
Definition pnat : P nat := x <~ pnum ;; pret (N.to_nat x).
Definition pexpect (t : N) : P unit :=
  fun l => match l with x :: r => if x =? t then Some (tt, r) else None | [] => None end.
Definition plist : P (list N) := dec_list.
Definition popt : P (option N) := dec_opt.
Definition pseq {A} (p : P A) : P (list A) := dec_seq p.
Definition pentry : P entry := dec_entry.
Definition pz : P Z := s <~ pnum ;; a <~ pnum ;; pret (if s =? 0 then Z.of_N a else (- Z.of_N a)%Z).

Definition enc_z (z : Z) : list N := if (z <? 0)%Z then [1; Z.to_N (- z)] else [0; Z.to_N z].
Definition enc_nat (n : nat) : N := N.of_nat n.
Definition enc_seq {A} (f : A -> list N) (l : list A) : list N := N.of_nat (length l) :: flat_map f l.

(* ------------------------------------------------------------------ *)
(* proto records *)
Definition enc_cs (c : conf_state) : list N :=
  enc_list (cs_voters c) ++ enc_list (cs_learners c) ++ enc_list (cs_voters_outgoing c)
  ++ enc_list (cs_learners_next c) ++ [enc_bool (cs_auto_leave c)].
Definition pcs : P conf_state :=
  a <~ plist ;; b <~ plist ;; c <~ plist ;; d <~ plist ;; e <~ pbool ;; pret (mkCS a b c d e).

Definition enc_snap (s : snapshot) : list N := [s_index s; s_term s] ++ enc_cs (s_cs s).
Definition psnap : P snapshot := i <~ pnum ;; t <~ pnum ;; c <~ pcs ;; pret (mkSnap i t c).

Definition enc_hs (h : hard_state) : list N := [hs_term h; hs_vote h; hs_commit h].
Definition phs : P hard_state := a <~ pnum ;; b <~ pnum ;; c <~ pnum ;; pret (mkHS a b c).

Definition enc_msg (m : msg) : list N :=
  [MSG_MARK; m_type m; m_to m; m_from m; m_term m; m_log_term m; m_index m]
  ++ enc_entries (m_entries m)
  ++ [m_commit m; m_commit_term m] ++ enc_snap (m_snapshot m)
  ++ [m_request_snapshot m; enc_bool (m_reject m); m_reject_hint m]
  ++ enc_list (m_context m) ++ [m_deprecated_priority m] ++ enc_z (m_priority m)
  ++ enc_list (m_ccinfo m).

Definition pmsg : P msg :=
  _ <~ pexpect MSG_MARK ;;
  ty <~ pnum ;; to <~ pnum ;; from <~ pnum ;; te <~ pnum ;; lt <~ pnum ;; ix <~ pnum ;;
  ents <~ dec_entries ;; cm <~ pnum ;; ct <~ pnum ;; sn <~ psnap ;;
  rs <~ pnum ;; rj <~ pbool ;; rh <~ pnum ;; cx <~ plist ;; dp <~ pnum ;; pr <~ pz ;;
  ci <~ plist ;;
  pret (mkMsg ty to from te lt ix ents cm ct sn rs rj rh cx dp pr ci).

(* stable insertion sort of outbound messages by destination *)
Fixpoint insert_msg (m : msg) (l : list msg) : list msg :=
  match l with
  | [] => [m]
  | x :: t => if m_to m <=? m_to x then m :: l else x :: insert_msg m t
  end.
Definition sort_msgs (l : list msg) : list msg := fold_right insert_msg [] l.

(* ------------------------------------------------------------------ *)
(* components *)
Definition enc_inflights (i : inflights) : list N :=
  [enc_nat (Inflights.start i); enc_nat (Inflights.count i); enc_nat (Inflights.cap i)]
  ++ enc_opt (option_map N.of_nat (Inflights.incoming_cap i))
  ++ [enc_bool (Inflights.allocated i)] ++ enc_list (Inflights.buffer i).
Definition pinflights : P inflights :=
  s <~ pnat ;; c <~ pnat ;; cp <~ pnat ;; ic <~ popt ;; al <~ pbool ;; b <~ plist ;;
  pret (mkInf s c b cp (option_map N.to_nat ic) al).

Definition enc_pstate (s : pstate) : N := match s with Probe => 0 | Replicate => 1 | Snapshot => 2 end.
Definition dec_pstate (n : N) : pstate := if n =? 0 then Probe else if n =? 1 then Replicate else Snapshot.

Definition enc_progress (p : progress) : list N :=
  [matched p; next_idx p; enc_pstate (pr_state p); enc_bool (paused p); pending_snapshot p;
   pending_request_snapshot p; enc_bool (recent_active p)]
  ++ enc_inflights (ins p) ++ [commit_group_id p; Progress.committed_index p].
Definition pprogress : P progress :=
  a <~ pnum ;; b <~ pnum ;; c <~ pnum ;; d <~ pbool ;; e <~ pnum ;; f <~ pnum ;; g <~ pbool ;;
  i <~ pinflights ;; h <~ pnum ;; j <~ pnum ;;
  pret (mkPr a b (dec_pstate c) d e f g i h j).

Definition enc_role (r : role) : N :=
  match r with Follower => 0 | Candidate => 1 | Leader => 2 | PreCandidate => 3 end.
Definition dec_role (n : N) : role :=
  if n =? 0 then Follower else if n =? 1 then Candidate else if n =? 2 then Leader else PreCandidate.

Definition enc_store (m : MemStorage.mem) : list N :=
  enc_hs (hs m) ++ enc_cs (cs m) ++ enc_entries (entries m) ++ [snap_index m; snap_term m].
Definition pstore : P MemStorage.mem :=
  h <~ phs ;; c <~ pcs ;; e <~ dec_entries ;; si <~ pnum ;; st <~ pnum ;;
  pret (mkMem h c e si st false false None).

Definition enc_unstable (u : unstable) : list N :=
  match u_snapshot u with None => [0] | Some s => 1 :: enc_snap s end
  ++ enc_entries (u_entries u) ++ [u_entries_size u; u_offset u].
Definition punstable : P unstable :=
  t <~ pnum ;;
  s <~ (if t =? 0 then pret None else x <~ psnap ;; pret (Some x)) ;;
  e <~ dec_entries ;; sz <~ pnum ;; off <~ pnum ;; pret (mkUn s e sz off).

Definition enc_votes (v : list (N * bool)) : list N :=
  enc_seq (fun kv => [fst kv; enc_bool (snd kv)]) v.
Definition pvotes : P (list (N * bool)) := pseq (k <~ pnum ;; b <~ pbool ;; pret (k, b)).

Fixpoint insert_vote (kv : N * bool) (l : list (N * bool)) : list (N * bool) :=
  match l with
  | [] => [kv]
  | x :: t => if fst kv <? fst x then kv :: l else x :: insert_vote kv t
  end.
Definition sort_votes (l : list (N * bool)) : list (N * bool) := fold_right insert_vote [] l.

Definition enc_conf (c : conf) : list N :=
  enc_list (incoming c) ++ enc_list (outgoing c) ++ enc_list (learners c)
  ++ enc_list (learners_next c) ++ [enc_bool (auto_leave c)].
Definition pconf : P conf :=
  a <~ plist ;; b <~ plist ;; c <~ plist ;; d <~ plist ;; e <~ pbool ;; pret (mkConf a b c d e).

Definition enc_read_state (r : read_state) : list N := rs_index r :: enc_list (rs_ctx r).
Definition pread_state : P read_state := i <~ pnum ;; c <~ plist ;; pret (mkRS i c).

(* pending reads are dumped in queue order *)
Definition enc_read_only (ro : read_only) : list N :=
  [ro_option ro]
  ++ enc_seq (fun ctx => enc_list ctx ++
                match ro_find (ro_pending ro) ctx with
                | Some st => [1] ++ enc_msg (ris_req st) ++ [ris_index st] ++ enc_list (ris_acks st)
                | None => [0]
                end) (ro_queue ro).
Definition pread_only : P read_only :=
  o <~ pnum ;;
  items <~ pseq (ctx <~ plist ;; t <~ pnum ;;
                 if t =? 0 then pret (ctx, None)
                 else m <~ pmsg ;; i <~ pnum ;; a <~ plist ;; pret (ctx, Some (mkRIS m i a))) ;;
  pret (mkRO o
          (flat_map (fun x => match snd x with Some st => [(fst x, st)] | None => [] end) items)
          (map fst items)).

(* ------------------------------------------------------------------ *)
(* raft / rawnode dump *)
Definition enc_raft (r : raft) : list N :=
  [SEC_HARD; r_term r; r_vote r; enc_role (r_state r); r_leader_id r]
  ++ enc_votes (sort_votes (t_votes (r_prs r)))
  ++ [SEC_LOG; committed (r_log r); persisted (r_log r); applied (r_log r);
      max_apply_unpersisted_log_limit (r_log r)]
  ++ enc_unstable (unst (r_log r)) ++ [r_pending_request_snapshot r]
  ++ [SEC_TIMERS; r_election_elapsed r; r_heartbeat_elapsed r; r_randomized_election_timeout r]
  ++ [SEC_PROGRESS] ++ enc_seq (fun kp => fst kp :: enc_progress (snd kp)) (t_progress (r_prs r))
  ++ [SEC_CONF] ++ enc_conf (t_conf (r_prs r)) ++ [enc_bool (r_promotable r); r_pending_conf_index r]
  ++ [SEC_MSGS] ++ enc_seq enc_msg (sort_msgs (r_msgs r))
  ++ [SEC_READ] ++ enc_read_only (r_read_only r) ++ enc_seq enc_read_state (r_read_states r)
  ++ [SEC_TRANSFER] ++ enc_opt (r_lead_transferee r)
  ++ [SEC_UNCOMMITTED; r_max_uncommitted_size r; r_uncommitted_size r; r_last_log_tail_index r]
  ++ [SEC_CONFIG; r_id r; enc_nat (r_max_inflight r); r_max_msg_size r;
      enc_bool (r_check_quorum r); enc_bool (r_pre_vote r); enc_bool (r_skip_bcast_commit r);
      enc_bool (r_batch_append r); enc_bool (r_disable_proposal_forwarding r);
      r_heartbeat_timeout r; r_election_timeout r; r_min_election_timeout r;
      r_max_election_timeout r] ++ enc_z (r_priority r)
  ++ [r_max_committed_size_per_ready r; enc_nat (t_max_inflight (r_prs r));
      enc_bool (t_group_commit (r_prs r))]
  ++ [SEC_STORE] ++ enc_store (store (r_log r)) ++ enc_opt (r_snap_app r).

Definition praft : P raft :=
  _ <~ pexpect SEC_HARD ;; term <~ pnum ;; vote <~ pnum ;; st <~ pnum ;; lead <~ pnum ;;
  votes <~ pvotes ;;
  _ <~ pexpect SEC_LOG ;; cm <~ pnum ;; pe <~ pnum ;; ap <~ pnum ;; lim <~ pnum ;;
  un <~ punstable ;; prs_ <~ pnum ;;
  _ <~ pexpect SEC_TIMERS ;; ee <~ pnum ;; he <~ pnum ;; ret <~ pnum ;;
  _ <~ pexpect SEC_PROGRESS ;; pm <~ pseq (k <~ pnum ;; p <~ pprogress ;; pret (k, p)) ;;
  _ <~ pexpect SEC_CONF ;; cf <~ pconf ;; promo <~ pbool ;; pci <~ pnum ;;
  _ <~ pexpect SEC_MSGS ;; msgs <~ pseq pmsg ;;
  _ <~ pexpect SEC_READ ;; ro <~ pread_only ;; rss <~ pseq pread_state ;;
  _ <~ pexpect SEC_TRANSFER ;; lt <~ popt ;;
  _ <~ pexpect SEC_UNCOMMITTED ;; mus <~ pnum ;; us <~ pnum ;; llt <~ pnum ;;
  _ <~ pexpect SEC_CONFIG ;; id <~ pnum ;; mi <~ pnat ;; mms <~ pnum ;;
  cq <~ pbool ;; pv <~ pbool ;; sbc <~ pbool ;; ba <~ pbool ;; dpf <~ pbool ;;
  ht <~ pnum ;; et <~ pnum ;; mine <~ pnum ;; maxe <~ pnum ;; prio <~ pz ;;
  mcs <~ pnum ;; tmi <~ pnat ;; gc <~ pbool ;;
  _ <~ pexpect SEC_STORE ;; sto <~ pstore ;; sapp <~ popt ;;
  pret (mkRaft term vote id rss (mkLog sto un cm pe ap lim) mi mms prs_ (dec_role st) promo lead
               lt pci ro ee he cq pv sbc ba dpf ht et ret mine maxe prio mus us llt mcs
               (mkTr pm cf votes tmi gc) msgs [] sapp).

Definition enc_opt_pair (o : option (N * N)) : list N :=
  match o with None => [0] | Some (a, b) => [1; a; b] end.
Definition popt_pair : P (option (N * N)) :=
  t <~ pnum ;; if t =? 0 then pret None else a <~ pnum ;; b <~ pnum ;; pret (Some (a, b)).

Definition enc_rawnode (n : rawnode) : list N :=
  enc_raft (rn_raft n)
  ++ [SEC_RAWNODE; ss_leader_id (rn_prev_ss n); enc_role (ss_role (rn_prev_ss n))]
  ++ enc_hs (rn_prev_hs n) ++ [rn_max_number n]
  ++ enc_seq (fun rr => [rr_number rr] ++ enc_opt_pair (rr_last_entry rr) ++ enc_opt_pair (rr_snapshot rr)
                        ++ [enc_bool (rr_hs_changed rr)])
             (rn_records n)
  ++ [rn_commit_since_index n].

Definition prawnode : P rawnode :=
  r <~ praft ;;
  _ <~ pexpect SEC_RAWNODE ;; sl <~ pnum ;; sr <~ pnum ;; ph <~ phs ;; mn <~ pnum ;;
  recs <~ pseq (a <~ pnum ;; b <~ popt_pair ;; c <~ popt_pair ;; d <~ pbool ;; pret (mkRR a b c d)) ;;
  csi <~ pnum ;;
  pret (mkRN r (mkSS sl (dec_role sr)) ph mn recs csi).

(* ------------------------------------------------------------------ *)
(* results *)
Definition PANIC_TOK : N := 999999.

Definition enc_ss_opt (o : option soft_state) : list N :=
  match o with None => [0] | Some s => [1; ss_leader_id s; enc_role (ss_role s)] end.
Definition enc_hs_opt (o : option hard_state) : list N :=
  match o with None => [0] | Some h => 1 :: enc_hs h end.

Definition enc_light (l : light_ready) : list N :=
  enc_opt (lr_commit_index l) ++ enc_entries (lr_committed_entries l)
  ++ enc_seq enc_msg (sort_msgs (lr_messages l)).

Definition enc_ready (r : ready) : list N :=
  [rd_number r] ++ enc_ss_opt (rd_ss r) ++ enc_hs_opt (rd_hs r)
  ++ enc_seq enc_read_state (rd_read_states r) ++ enc_entries (rd_entries r)
  ++ enc_snap (rd_snapshot r) ++ [enc_bool (rd_is_persisted_msg r); enc_bool (rd_must_sync r)]
  ++ enc_light (rd_light r).

Definition out_ok (ret : list N) (n : rawnode) : list N :=
  [SEC_RESULT; 0] ++ ret ++ enc_rawnode n.
Definition out_panic (s : site) : list N := [SEC_RESULT; PANIC_TOK; s].

Definition finish {A} (x : Res A) (f : A -> list N * rawnode) : list N :=
  match x with
  | Ok a => let '(ret, n) := f a in out_ok ret n
  | Panic s => out_panic s
  end.

(* ------------------------------------------------------------------ *)
(* calls *)
Definition pcctype : P cctype :=
  t <~ pnum ;; pret (if t =? 0 then AddNode else if t =? 1 then RemoveNode else AddLearnerNode).
Definition pccv2 : P ccv2 :=
  tr <~ pnum ;; chs <~ pseq (t <~ pcctype ;; id <~ pnum ;; pret (t, id)) ;;
  pret (mkV2 (if tr =? 0 then Auto else if tr =? 1 then Implicit else Explicit) chs).

(* the part of a Ready that advance* reads back: number, ss, hs *)
Definition prd_stub : P ready :=
  num <~ pnum ;;
  t1 <~ pnum ;;
  ss <~ (if t1 =? 0 then pret None else a <~ pnum ;; b <~ pnum ;; pret (Some (mkSS a (dec_role b)))) ;;
  t2 <~ pnum ;;
  hs <~ (if t2 =? 0 then pret None else h <~ phs ;; pret (Some h)) ;;
  pret (mkRd num ss hs [] [] snap_default false (mkLR None [] []) false).

Definition set_raft (n : rawnode) (r : raft) : rawnode := n <| rn_raft := r |>.

Definition run_call (n : rawnode) (op : N) : P (list N) :=
  if op =? 0 then pret (finish (rn_tick n) (fun x => ([enc_bool (snd x)], fst x)))
  else if op =? 1 then m <~ pmsg ;; pret (finish (rn_step n m) (fun x => ([snd x], fst x)))
  else if op =? 2 then pret (finish (rn_campaign n) (fun x => ([snd x], fst x)))
  else if op =? 3 then c <~ plist ;; d <~ plist ;;
    pret (finish (rn_propose n c d) (fun x => ([snd x], fst x)))
  else if op =? 4 then c <~ plist ;; d <~ plist ;; ty <~ pnum ;; ci <~ pnum ;;
    pret (finish (rn_propose_conf_change n c d ty ci) (fun x => ([snd x], fst x)))
  else if op =? 5 then cc <~ pccv2 ;;
    pret (finish (rn_apply_conf_change n cc)
            (fun x => (match snd x with None => [0] | Some c => 1 :: enc_cs c end, fst x)))
  else if op =? 6 then pret (finish (rn_ready n) (fun x => (enc_ready (snd x), fst x)))
  else if op =? 7 then pret (finish (rn_has_ready n) (fun b => ([enc_bool b], n)))
  else if op =? 8 then rd <~ prd_stub ;;
    pret (finish (rn_advance_append n rd) (fun x => (enc_light (snd x), fst x)))
  else if op =? 9 then rd <~ prd_stub ;;
    pret (finish (rn_advance n rd) (fun x => (enc_light (snd x), fst x)))
  else if op =? 10 then rd <~ prd_stub ;;
    pret (finish (rn_advance_append_async n rd) (fun x => ([], x)))
  else if op =? 11 then k <~ pnum ;; pret (finish (rn_on_persist_ready n k) (fun x => ([], x)))
  else if op =? 12 then k <~ pnum ;; pret (finish (rn_advance_apply_to n k) (fun x => ([], x)))
  else if op =? 13 then pret (finish (rn_advance_apply n) (fun x => ([], x)))
  else if op =? 14 then k <~ pnum ;; pret (finish (rn_report_unreachable n k) (fun x => ([], x)))
  else if op =? 15 then k <~ pnum ;; f <~ pbool ;;
    pret (finish (rn_report_snapshot n k f) (fun x => ([], x)))
  else if op =? 16 then pret (finish (rn_request_snapshot n) (fun x => ([snd x], fst x)))
  else if op =? 17 then k <~ pnum ;; pret (finish (rn_transfer_leader n k) (fun x => ([], x)))
  else if op =? 18 then c <~ plist ;; pret (finish (rn_read_index n c) (fun x => ([], x)))
  else if op =? 19 then pret (finish (rn_ping n) (fun x => ([], x)))
  else if op =? 20 then p <~ pz ;;
    pret (out_ok [] (set_raft n ((rn_raft n) <| r_priority := p |>)))
  else if op =? 21 then k <~ pnum ;;
    pret (out_ok [] (set_raft n (set_max_apply_unpersisted_log_limit (rn_raft n) k)))
  else if op =? 22 then t <~ pnum ;; c <~ pnat ;;
    pret (finish (adjust_max_inflight_msgs (rn_raft n) t c) (fun x => ([], set_raft n x)))
  else if op =? 23 then b <~ pbool ;;
    pret (out_ok [] (set_raft n ((rn_raft n) <| r_check_quorum := b |>)))
  else if op =? 24 then b <~ pbool ;;
    pret (finish (enable_group_commit (rn_raft n) b) (fun x => ([], set_raft n x)))
  else if op =? 25 then ids <~ pseq (a <~ pnum ;; b <~ pnum ;; pret (a, b)) ;;
    pret (finish (assign_commit_groups (rn_raft n) ids) (fun x => ([], set_raft n x)))
  else if op =? 26 then b <~ pbool ;;
    pret (out_ok [] (set_raft n ((rn_raft n) <| r_skip_bcast_commit := b |>)))
  else if op =? 27 then b <~ pbool ;;
    pret (out_ok [] (set_raft n ((rn_raft n) <| r_batch_append := b |>)))
  else if op =? 28 then pret (out_ok [] (set_raft n (maybe_free_inflight_buffers (rn_raft n))))
  else if op =? 29 then k <~ pnum ;;
    (* adversarial state tweak (pointwise tie only): RaftLog::commit_to called directly on the node's log *)
    pret (finish (RaftLog.commit_to (r_log (rn_raft n)) k)
                 (fun l' => ([], set_raft n ((rn_raft n) <| r_log := l' |>))))
  else fun _ => None.

Definition DECODE_FAIL : N := 888888.

(* RawNode::new cases: [SEC_NEW] config [SEC_STORE] store snap_app draws *)
Definition pconfig : P config :=
  id <~ pnum ;; et <~ pnum ;; ht <~ pnum ;; ap <~ pnum ;; mspm <~ pnum ;; mi <~ pnat ;;
  cq <~ pbool ;; pv <~ pbool ;; mine <~ pnum ;; maxe <~ pnum ;; ro <~ pnum ;;
  sbc <~ pbool ;; ba <~ pbool ;; prio <~ pz ;; mus <~ pnum ;; mcs <~ pnum ;; lim <~ pnum ;;
  dpf <~ pbool ;;
  pret (mkCfg id et ht ap mspm mi cq pv mine maxe ro sbc ba prio mus mcs lim dpf).

Definition run_new : P (list N) :=
  c <~ pconfig ;; _ <~ pexpect SEC_STORE ;; sto <~ pstore ;; sapp <~ popt ;; draws <~ plist ;;
  pret (match rn_new c sto sapp draws with
        | Panic s => out_panic s
        | Ok (inl e) => [SEC_RESULT; 1; e]
        | Ok (inr n) => out_ok [] n
        end).

Definition run_node (input : list N) : list N :=
  match (match input with
         | t :: rest => if t =? SEC_NEW then run_new rest else
             (n <~ prawnode ;; draws <~ plist ;; op <~ pnum ;;
              run_call (set_raft n ((rn_raft n) <| r_draws := draws |>)) op) input
         | [] => None
         end) with
  | Some (out, []) => out
  | Some (_, _ :: _) => [DECODE_FAIL; 2]
  | None => [DECODE_FAIL; 1]
  end.
