(* Numeric wire format for the quorum correspondence check (C11).
   Input  : op :: nin :: in.. :: nout :: out.. :: nacks :: (id idx grp)* ::
            nvotes :: (id v)* :: nset :: set..
            in/out are the two halves in the implementation's iteration order
            (raw_slice()); acks are inserted into the map in wire order
            (HashMap::insert, later wins); votes are recorded in wire order with
            record_vote (first wins); v = 1 yes, 0 no.
     op 0 : MajorityConfig direct (uses in only)
            -> majority(nin), ci(false).idx, .flag, ci(true).idx, .flag, vote_result
     op 1 : JointConfig direct
            -> ci(false).idx, .flag, ci(true).idx, .flag, vote_result
     op 2 : ProgressTracker
            -> mci(false).idx, .flag, mci(true).idx, .flag, granted, rejected,
               vote_result, has_quorum(set)
   vote_result : 0 VotePending, 1 VoteLost, 2 VoteWon.   Malformed input: 888888. *)
From RV Require Import Base.Prelude M.Quorum.

Local Open Scope N_scope.

Definition take_list (k : nat) (l : list N) : list N * list N :=
  match l with
  | [] => ([], [])
  | n :: t => (firstn (k * N.to_nat n) t, skipn (k * N.to_nat n) t)
  end.

Fixpoint triples (l : list N) : progress_map :=
  match l with
  | a :: b :: c :: t => (a, (b, c)) :: triples t
  | _ => []
  end.

Fixpoint pairs (l : list N) : list (N * bool) :=
  match l with
  | a :: b :: t => (a, negb (b =? 0)) :: pairs t
  | _ => []
  end.

Definition enc_vote (r : vote_res) : N :=
  match r with VotePending => 0 | VoteLost => 1 | VoteWon => 2 end.

Definition enc_ci (r : N * bool) : list N := [fst r; enc_bool (snd r)].

Definition record_all (l : list (N * bool)) : votes_map :=
  fold_left (fun m kv => record_vote m (fst kv) (snd kv)) l [].

Definition run_quorum (input : list N) : list N :=
  match input with
  | op :: rest =>
      let '(inc, r1) := take_list 1 rest in
      let '(out, r2) := take_list 1 r1 in
      let '(acks, r3) := take_list 3 r2 in
      let '(vts, r4) := take_list 2 r3 in
      let '(set, _) := take_list 1 r4 in
      let p : progress_map := rev (triples acks) in
      let votes := record_all (pairs vts) in
      match op with
      | 0 =>
          [N.of_nat (majority (length inc))]
          ++ enc_ci (committed_index false inc (acked_of p))
          ++ enc_ci (committed_index true inc (acked_of p))
          ++ [enc_vote (vote_result inc (assoc votes))]
      | 1 =>
          enc_ci (joint_committed_index false inc out (acked_of p))
          ++ enc_ci (joint_committed_index true inc out (acked_of p))
          ++ [enc_vote (joint_vote_result inc out (assoc votes))]
      | 2 =>
          let '(g, r, res) := tally_votes inc out votes in
          enc_ci (maximal_committed_index false inc out p)
          ++ enc_ci (maximal_committed_index true inc out p)
          ++ [N.of_nat g; N.of_nat r; enc_vote res;
              enc_bool (has_quorum inc out set)]
      | _ => [888888]
      end
  | _ => [888888]
  end.
