(* Wire codec for the read-layer acceptor (tie B for C08, cluster level).
   Input : <inc list> <out list> <events>   events: count then
             1..9  election / log events as in Run/RunPLog.v
             10 c ctx idx      RvReadReq   (leader c recorded the request ctx with commit index idx)
             11 q c t ctx      RvHbAck     (q created a term-t heartbeat response to c echoing ctx)
             12 c ctx idx      RvReadServe (c answered the request ctx with index idx)
   Output: 1 <number of events> | 0 <index> <reason> <event code> *)
From RV Require Import Base.Prelude M.Quorum P.Election P.ElectionAccept P.Log P.LogAccept
  P.Read P.ReadAccept Run.Wire Run.RunPElection Run.RunPLog.

Local Open Scope N_scope.

Definition dec_revent (l : list N) : option (revent * list N) :=
  match l with
  | 10 :: c :: ctx :: idx :: rest => Some (RvReadReq c ctx (N.to_nat idx), rest)
  | 11 :: q :: c :: t :: ctx :: rest => Some (RvHbAck q c t ctx, rest)
  | 12 :: c :: ctx :: idx :: rest => Some (RvReadServe c ctx (N.to_nat idx), rest)
  | _ => match dec_levent l with
         | Some (e, r) => Some (RvLog e, r)
         | None => None
         end
  end.

Definition revent_code (e : revent) : N :=
  match e with
  | RvLog ev => levent_code ev
  | RvReadReq _ _ _ => 10 | RvHbAck _ _ _ _ => 11 | RvReadServe _ _ _ => 12
  end.

Definition run_pread (input : list N) : list N :=
  match dec_list input with
  | Some (inc, r1) =>
      match dec_list r1 with
      | Some (out, r2) =>
          match dec_seq dec_revent r2 with
          | Some (es, []) =>
              match raccept_trace inc out rinit es 0 with
              | (_, None) => [1; N.of_nat (length es)]
              | (_, Some (i, why)) => [0; i; why; revent_code (nth (N.to_nat i) es (RvHbAck 0 0 0 0))]
              end
          | _ => [888888; 3]
          end
      | None => [888888; 2]
      end
  | None => [888888; 1]
  end.

(* a decoded run: a read request on a node that is not a leader is rejected at event 0
   with reason 2 (guard), event code 10 *)
Example run_pread_reject : run_pread [3;1;2;3; 0; 1; 10;1;5;0] = [0; 0; 2; 10].
Proof. vm_compute. reflexivity. Qed.

(* a full accepted trace: 1 is elected in term 1 with 2's vote, proposes, 2 replicates and
   acknowledges, 1 commits index 2; read request ctx 5 (index 2), heartbeat ack of 2, answer *)
Definition pread_sample : list N :=
  [3;1;2;3; 0; 16;
   1;1;0;0;0;1;1;1;0;  3;1;1;1;  4;1;1;2;1;
   1;2;0;0;0;1;1;0;0;  3;2;1;1;  4;2;2;1;1;
   1;1;1;1;1;1;1;2;1;2;
   7;1;2;1;0;1;7;0;0;  8;1;2;1;0;1;7;
   7;2;2;1;0;1;7;0;1;2;  8;2;2;1;0;1;7;  9;2;1;2;
   7;1;2;1;0;1;7;2;0;
   10;1;5;2;  11;2;1;1;5;  12;1;5;2].

Example run_pread_accept : run_pread pread_sample = [1; 16].
Proof. vm_compute. reflexivity. Qed.

(* the same trace with the acknowledgement created BEFORE the request is recorded is
   rejected at the acknowledgement (event 13, reason 2 = guard, code 11) *)
Example run_pread_early_ack :
  run_pread (firstn 98 pread_sample ++ [11;2;1;1;5; 10;1;5;2; 12;1;5;2]) = [0; 13; 2; 11].
Proof. vm_compute. reflexivity. Qed.
