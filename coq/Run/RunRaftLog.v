(* Numeric wire format for the RaftLog (C14) correspondence check.

   Input  : dumpq snap_index snap_term <n (term datalen)*> hs_commit limit op*
     The initial store is MemStorage::new(); if snap_index > 0 the snapshot
     (snap_index, snap_term) is applied; the n entries get indexes
     snap_index+1.. and are appended; hard_state.commit := hs_commit; then
     RaftLog::new(store, cfg{max_apply_unpersisted_log_limit = limit}).
     dumpq = 1: dump the state after queries too (else only after mutators).

   <ents> = n (index term datalen)*      <omax> = 0 | 1 v

   Operations (code args) -> result encoding
     mutators (state dump follows the result):
      0 append <ents>                         -> last_index
      1 maybe_append idx term cmt <ents>      -> 0 | 1 conflict last_new
      2 commit_to i                           -> (nothing)
      3 applied_to i                          -> (nothing)
      4 stable_entries index term             -> (nothing)
      5 stable_snap index                     -> (nothing)
      6 restore index term                    -> (nothing)
      7 maybe_commit idx term                 -> bool
      8 maybe_persist idx term                -> bool
      9 maybe_persist_snap idx                -> bool
     28 unstable.truncate_and_append <ents>   -> (nothing)
     30 store.append(unstable entries)        -> (nothing)
     31 store.apply_snapshot(unstable snap)   -> 0 | 1 code   (no-op 0 when none)
     32 store.compact idx                     -> (nothing)
     33 store.commit_to idx                   -> (nothing)
     34 store.append <ents>                   -> (nothing)
     35 store.apply_snapshot index term       -> 0 | 1 code
     36 store.hard_state.commit := c          -> (nothing)
     37 restart: RaftLog::new(same store)     -> (nothing)
     38 max_apply_unpersisted_log_limit := m  -> (nothing)
     39 applied := i (field write, = applied_to_unchecked) -> (nothing)
     queries:
     10 term i                                -> 0 t | 1 code
     11 first_index   12 last_index   13 last_term   -> v
     14 match_term i t                        -> bool
     15 find_conflict <ents>                  -> v
     16 find_conflict_by_term i t             -> i' <opt t'>
     17 is_up_to_date i t                     -> bool
     18 slice lo hi <omax>                    -> 0 <ents> | 1 code
     19 entries i <omax>                      -> 0 <ents> | 1 code
     20 next_entries_since since <omax>       -> 0 | 1 <ents>
     21 next_entries <omax>                   -> 0 | 1 <ents>
     22 has_next_entries_since since          -> bool
     23 snapshot request_index                -> 0 index term | 1 code
     24 commit_info                           -> index term
     25 unstable.maybe_term i                 -> <opt>
     26 unstable.slice lo hi                  -> <ents>
     27 unstable.must_check_outofbounds lo hi -> (nothing)
     29 has_next_entries                      -> bool
   A panic is  999999 site  and ends the run.  A panic inside the state dump
   (only possible in states outside the representation invariant) is
   999998 site  and ends the run as well.  An undecodable tail ends the run
   with 888888.

   State dump: committed persisted applied limit  offset entries_size
     <opt snapshot: 0 | 1 index term>  <ents unstable>
     store_first store_last hs_term hs_commit  <sres store.term(first-1)>
     <store entries: n (index term)*>
     <logical entries via slice(first,last+1,None): 0 n (index term)* | 1 code> *)
From RV Require Import Base.Prelude M.Util M.MemStorage M.RaftLog Run.Wire.

Local Open Scope N_scope.

Definition mk_ent (index term dlen : N) : entry :=
  mkEntry 0 term index (repeat 0 (N.to_nat dlen)) [].

Definition enc_ent3 (e : entry) : list N :=
  [e_index e; e_term e; N.of_nat (length (e_data e))].
Definition enc_ents3 (l : list entry) : list N :=
  N.of_nat (length l) :: flat_map enc_ent3 l.
Definition enc_ent2 (e : entry) : list N := [e_index e; e_term e].
Definition enc_ents2 (l : list entry) : list N :=
  N.of_nat (length l) :: flat_map enc_ent2 l.

Definition dec_ent3 (l : list N) : option (entry * list N) :=
  match l with
  | i :: t :: d :: r => Some (mk_ent i t d, r)
  | _ => None
  end.
Definition dec_ents3 : list N -> option (list entry * list N) := dec_seq dec_ent3.

Definition enc_sres_n (r : sres N) : list N :=
  match r with SOk v => [0; v] | SErr e => [1; serr_code e] end.
Definition enc_sres_ents (r : sres (list entry)) : list N :=
  match r with SOk v => 0 :: enc_ents3 v | SErr e => [1; serr_code e] end.
Definition enc_sres_unit (r : sres unit) : list N :=
  match r with SOk _ => [0] | SErr e => [1; serr_code e] end.
Definition enc_opt_ents (o : option (list entry)) : list N :=
  match o with None => [0] | Some v => 1 :: enc_ents3 v end.

(* ---------- operations ---------- *)
Inductive lop :=
| LAppend (ents : list entry)
| LMaybeAppend (i t c : N) (ents : list entry)
| LCommitTo (i : N)
| LAppliedTo (i : N)
| LStableEntries (i t : N)
| LStableSnap (i : N)
| LRestore (i t : N)
| LMaybeCommit (i t : N)
| LMaybePersist (i t : N)
| LMaybePersistSnap (i : N)
| LUTruncAppend (ents : list entry)
| SAppendUnstable
| SApplyUnstableSnap
| SCompact (i : N)
| SCommitTo (i : N)
| SAppend (ents : list entry)
| SApplySnap (i t : N)
| SSetCommit (c : N)
| LRestart
| LSetLimit (m : N)
| LSetApplied (i : N)
| QTermAt (i : N)
| QFirst | QLast | QLastTerm
| QMatchTerm (i t : N)
| QFindConflict (ents : list entry)
| QFindConflictByTerm (i t : N)
| QUpToDate (i t : N)
| QSlice (lo hi : N) (mx : option N)
| QEntriesFrom (i : N) (mx : option N)
| QNextSince (s : N) (mx : option N)
| QNext (mx : option N)
| QHasNextSince (s : N)
| QSnapshotAt (ri : N)
| QCommitInfo
| QUMaybeTerm (i : N)
| QUSlice (lo hi : N)
| QUCheck (lo hi : N)
| QHasNext.

Definition is_query (o : lop) : bool :=
  match o with
  | QTermAt _ | QFirst | QLast | QLastTerm | QMatchTerm _ _ | QFindConflict _
  | QFindConflictByTerm _ _ | QUpToDate _ _ | QSlice _ _ _ | QEntriesFrom _ _
  | QNextSince _ _ | QNext _ | QHasNextSince _ | QSnapshotAt _ | QCommitInfo
  | QUMaybeTerm _ | QUSlice _ _ | QUCheck _ _ | QHasNext => true
  | _ => false
  end.

(* one operation off the front of the stream *)
Definition dec_op (l : list N) : option (lop * list N) :=
  match l with
  | 0 :: r => match dec_ents3 r with Some (e, r') => Some (LAppend e, r') | None => None end
  | 1 :: i :: t :: c :: r =>
      match dec_ents3 r with Some (e, r') => Some (LMaybeAppend i t c e, r') | None => None end
  | 2 :: i :: r => Some (LCommitTo i, r)
  | 3 :: i :: r => Some (LAppliedTo i, r)
  | 4 :: i :: t :: r => Some (LStableEntries i t, r)
  | 5 :: i :: r => Some (LStableSnap i, r)
  | 6 :: i :: t :: r => Some (LRestore i t, r)
  | 7 :: i :: t :: r => Some (LMaybeCommit i t, r)
  | 8 :: i :: t :: r => Some (LMaybePersist i t, r)
  | 9 :: i :: r => Some (LMaybePersistSnap i, r)
  | 10 :: i :: r => Some (QTermAt i, r)
  | 11 :: r => Some (QFirst, r)
  | 12 :: r => Some (QLast, r)
  | 13 :: r => Some (QLastTerm, r)
  | 14 :: i :: t :: r => Some (QMatchTerm i t, r)
  | 15 :: r => match dec_ents3 r with Some (e, r') => Some (QFindConflict e, r') | None => None end
  | 16 :: i :: t :: r => Some (QFindConflictByTerm i t, r)
  | 17 :: i :: t :: r => Some (QUpToDate i t, r)
  | 18 :: lo :: hi :: r =>
      match dec_opt r with Some (m, r') => Some (QSlice lo hi m, r') | None => None end
  | 19 :: i :: r =>
      match dec_opt r with Some (m, r') => Some (QEntriesFrom i m, r') | None => None end
  | 20 :: s :: r =>
      match dec_opt r with Some (m, r') => Some (QNextSince s m, r') | None => None end
  | 21 :: r => match dec_opt r with Some (m, r') => Some (QNext m, r') | None => None end
  | 22 :: s :: r => Some (QHasNextSince s, r)
  | 23 :: ri :: r => Some (QSnapshotAt ri, r)
  | 24 :: r => Some (QCommitInfo, r)
  | 25 :: i :: r => Some (QUMaybeTerm i, r)
  | 26 :: lo :: hi :: r => Some (QUSlice lo hi, r)
  | 27 :: lo :: hi :: r => Some (QUCheck lo hi, r)
  | 28 :: r => match dec_ents3 r with Some (e, r') => Some (LUTruncAppend e, r') | None => None end
  | 29 :: r => Some (QHasNext, r)
  | 30 :: r => Some (SAppendUnstable, r)
  | 31 :: r => Some (SApplyUnstableSnap, r)
  | 32 :: i :: r => Some (SCompact i, r)
  | 33 :: i :: r => Some (SCommitTo i, r)
  | 34 :: r => match dec_ents3 r with Some (e, r') => Some (SAppend e, r') | None => None end
  | 35 :: i :: t :: r => Some (SApplySnap i t, r)
  | 36 :: c :: r => Some (SSetCommit c, r)
  | 37 :: r => Some (LRestart, r)
  | 38 :: m :: r => Some (LSetLimit m, r)
  | 39 :: i :: r => Some (LSetApplied i, r)
  | _ => None
  end.

Definition snap_of (i t : N) : snapshot := mkSnap i t cs_default.

Definition on_store (l : raft_log) (r : Res mem) : Res (raft_log * list N) :=
  m <- r ;; Ok (set_store l m, []).

(* executes one operation: new state and encoded result *)
Definition exec (l : raft_log) (o : lop) : Res (raft_log * list N) :=
  match o with
  | LAppend e => r <- log_append l e ;; Ok (fst r, [snd r])
  | LMaybeAppend i t c e =>
      r <- maybe_append l i t c e ;;
      Ok (fst r, match snd r with None => [0] | Some (a, b) => [1; a; b] end)
  | LCommitTo i => l' <- commit_to l i ;; Ok (l', [])
  | LAppliedTo i => l' <- applied_to l i ;; Ok (l', [])
  | LStableEntries i t => l' <- stable_entries l i t ;; Ok (l', [])
  | LStableSnap i => l' <- stable_snap l i ;; Ok (l', [])
  | LRestore i t => l' <- log_restore l (snap_of i t) ;; Ok (l', [])
  | LMaybeCommit i t => r <- maybe_commit l i t ;; Ok (fst r, [enc_bool (snd r)])
  | LMaybePersist i t => r <- maybe_persist l i t ;; Ok (fst r, [enc_bool (snd r)])
  | LMaybePersistSnap i => r <- maybe_persist_snap l i ;; Ok (fst r, [enc_bool (snd r)])
  | LUTruncAppend e => u <- u_truncate_and_append (unst l) e ;; Ok (set_unst l u, [])
  | SAppendUnstable => on_store l (append (store l) (u_entries (unst l)))
  | SApplyUnstableSnap =>
      match u_snapshot (unst l) with
      | None => Ok (l, [0])
      | Some s => r <- apply_snapshot (store l) s ;;
                  Ok (set_store l (fst r), enc_sres_unit (snd r))
      end
  | SCompact i => on_store l (compact (store l) i)
  | SCommitTo i => on_store l (MemStorage.commit_to (store l) i)
  | SAppend e => on_store l (append (store l) e)
  | SApplySnap i t =>
      r <- apply_snapshot (store l) (snap_of i t) ;;
      Ok (set_store l (fst r), enc_sres_unit (snd r))
  | SSetCommit c => Ok (set_store l (set_commit (store l) c), [])
  | LRestart =>
      l' <- log_new (store l) (max_apply_unpersisted_log_limit l) ;; Ok (l', [])
  | LSetLimit m => Ok (set_limit l m, [])
  | LSetApplied i => Ok (applied_to_unchecked l i, [])
  | QTermAt i => r <- term l i ;; Ok (l, enc_sres_n r)
  | QFirst => f <- first_index l ;; Ok (l, [f])
  | QLast => Ok (l, [last_index l])
  | QLastTerm => t <- last_term l ;; Ok (l, [t])
  | QMatchTerm i t => b <- match_term l i t ;; Ok (l, [enc_bool b])
  | QFindConflict e => c <- find_conflict l e ;; Ok (l, [c])
  | QFindConflictByTerm i t =>
      r <- find_conflict_by_term l i t ;; Ok (l, fst r :: enc_opt (snd r))
  | QUpToDate i t => b <- is_up_to_date l i t ;; Ok (l, [enc_bool b])
  | QSlice lo hi m => r <- slice l lo hi m ;; Ok (l, enc_sres_ents r)
  | QEntriesFrom i m => r <- log_entries l i m ;; Ok (l, enc_sres_ents r)
  | QNextSince s m => r <- next_entries_since l s m ;; Ok (l, enc_opt_ents r)
  | QNext m => r <- next_entries l m ;; Ok (l, enc_opt_ents r)
  | QHasNextSince s => b <- has_next_entries_since l s ;; Ok (l, [enc_bool b])
  | QHasNext => b <- has_next_entries l ;; Ok (l, [enc_bool b])
  | QSnapshotAt ri =>
      r <- log_snapshot l ri 0 ;;
      Ok (l, match r with SOk s => [0; s_index s; s_term s] | SErr e => [1; serr_code e] end)
  | QCommitInfo => r <- commit_info l ;; Ok (l, [fst r; snd r])
  | QUMaybeTerm i => r <- u_maybe_term (unst l) i ;; Ok (l, enc_opt r)
  | QUSlice lo hi => r <- u_slice (unst l) lo hi ;; Ok (l, enc_ents3 r)
  | QUCheck lo hi => _ <- u_must_check_outofbounds (unst l) lo hi ;; Ok (l, [])
  end.

(* ---------- state dump ---------- *)
Definition dump_body (l : raft_log) : Res (list N) :=
  let u := unst l in
  let st := store l in
  f <- storage_first_index st ;;
  let la := storage_last_index st in
  if f =? 0 then Panic site_l_underflow else
  bt <- storage_term st (f - 1) ;;
  (* also on a store holding no entries: the empty in-range read answers Ok([])
     since /repo 9c2e6d6 *)
  se <- (r <- storage_entries st f (la + 1) None (CtxEmpty false) ;;
         match snd r with SOk v => Ok v | SErr _ => Ok [] end) ;;
  lf <- first_index l ;;
  le <- slice l lf (last_index l + 1) None ;;
  Ok ([committed l; persisted l; applied l; max_apply_unpersisted_log_limit l;
       u_offset u; u_entries_size u]
      ++ match u_snapshot u with None => [0] | Some s => [1; s_index s; s_term s] end
      ++ enc_ents3 (u_entries u)
      ++ [f; la; hs_term (hs st); hs_commit (hs st)]
      ++ enc_sres_n bt
      ++ enc_ents2 se
      ++ match le with SOk v => 0 :: enc_ents2 v | SErr e => [1; serr_code e] end).

Fixpoint run_ops (fuel : nat) (dumpq : bool) (l : raft_log) (inp : list N) : list N :=
  match fuel with
  | O => []
  | S fuel' =>
      match inp with
      | [] => []
      | _ =>
          match dec_op inp with
          | None => [888888]
          | Some (o, rest) =>
              match exec l o with
              | Panic s => [999999; s]
              | Ok (l', out) =>
                  if is_query o && negb dumpq then out ++ run_ops fuel' dumpq l' rest
                  else match dump_body l' with
                       | Panic s => out ++ [999998; s]
                       | Ok d => out ++ d ++ run_ops fuel' dumpq l' rest
                       end
              end
          end
      end
  end.

Fixpoint mk_init_ents (next : N) (l : list (N * N)) : list entry :=
  match l with
  | [] => []
  | (t, d) :: r => mk_ent next t d :: mk_init_ents (next + 1) r
  end.

Definition dec_td (l : list N) : option ((N * N) * list N) :=
  match l with t :: d :: r => Some ((t, d), r) | _ => None end.

Definition init_store (si st : N) (tds : list (N * N)) (c : N) : Res mem :=
  m1 <- (if si =? 0 then Ok MemStorage.new
         else r <- apply_snapshot MemStorage.new (snap_of si st) ;; Ok (fst r)) ;;
  m2 <- append m1 (mk_init_ents (si + 1) tds) ;;
  Ok (set_commit m2 c).

Definition run_raftlog (input : list N) : list N :=
  match input with
  | dq :: si :: st :: r =>
      match dec_seq dec_td r with
      | Some (tds, c :: lim :: ops) =>
          match (m <- init_store si st tds c ;; log_new m lim) with
          | Panic s => [999999; s]
          | Ok l =>
              match dump_body l with
              | Panic s => [999998; s]
              | Ok d => d ++ run_ops (S (length ops)) (dq =? 1) l ops
              end
          end
      | _ => [888888]
      end
  | _ => [888888]
  end.
