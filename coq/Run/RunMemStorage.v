(* Numeric wire format for the MemStorage correspondence check.
   Input  : init ops*
     init : 0                      MemStorage::new()
          | 1 <list voters> <list learners>   MemStorage::new_with_conf_state((v, l))
     <list> = n x1..xn ; <cs> = <list voters> <list learners> <list voters_outgoing>
              <list learners_next> auto_leave ; <entry> = type term index datalen fill ctxlen
              (data = datalen bytes all equal to fill, context = ctxlen bytes equal to fill)
     ops  : 0 term vote commit     set_hardstate
            1 c                    mut_hard_state().set_commit(c)
            2 i                    commit_to
            3 <cs>                 set_conf_state
            4 index term <cs>      apply_snapshot
            5 i                    compact
            6 n <entry>^n          append
            7 i (0 | 1 <cs>)       commit_to_and_set_conf_states
            8                      trigger_snap_unavailable
            9 b                    trigger_log_unavailable
            10                     take_get_entries_context
            11 <list v> <list l>   initialize_with_conf_state((v, l))
            20                     initial_state
            21 lo hi (0 | 1 max) c entries, context Empty(c <> 0)
            22 i                   term
            23                     first_index
            24                     last_index
            25 req to              snapshot
            26                     hard_state
            30                     state dump through the public API (see [dump])
   Output : per op  0 <value>   (Ok)   |  1 code  (storage error)
            and on a panic 999999 site, after which the run stops.
            An undecodable tail yields 888888. *)
From RV Require Import Base.Prelude M.Util M.MemStorage Run.Wire.

Local Open Scope N_scope.

(* ---------- decoding ---------- *)
Definition parse_cs (l : list N) : option (conf_state * list N) :=
  match dec_list l with
  | Some (v, l1) =>
    match dec_list l1 with
    | Some (le, l2) =>
      match dec_list l2 with
      | Some (vo, l3) =>
        match dec_list l3 with
        | Some (ln, b :: l4) => Some (mkCS v le vo ln (negb (b =? 0)), l4)
        | _ => None
        end
      | None => None
      end
    | None => None
    end
  | None => None
  end.

Definition parse_vl (l : list N) : option (conf_state * list N) :=
  match dec_list l with
  | Some (v, l1) =>
    match dec_list l1 with
    | Some (le, l2) => Some (cs_from v le, l2)
    | None => None
    end
  | None => None
  end.

Fixpoint parse_entries (k : nat) (l : list N) : option (list entry * list N) :=
  match k with
  | O => Some ([], l)
  | S k' =>
      match l with
      | ty :: te :: ix :: dl :: fill :: cl :: r =>
          match parse_entries k' r with
          | Some (es, r') =>
              Some (mkEntry ty te ix (repeat fill (N.to_nat dl)) (repeat fill (N.to_nat cl))
                    :: es, r')
          | None => None
          end
      | _ => None
      end
  end.

Inductive cmd := COp (o : op) | CDump.

Definition parse_cmd (l : list N) : option (cmd * list N) :=
  match l with
  | 0 :: t :: v :: c :: r => Some (COp (OSetHardState (mkHS t v c)), r)
  | 1 :: c :: r => Some (COp (OSetCommit c), r)
  | 2 :: i :: r => Some (COp (OCommitTo i), r)
  | 3 :: r => match parse_cs r with
              | Some (c, r') => Some (COp (OSetConfState c), r') | None => None end
  | 4 :: i :: t :: r => match parse_cs r with
                        | Some (c, r') => Some (COp (OApplySnapshot (mkSnap i t c)), r')
                        | None => None end
  | 5 :: i :: r => Some (COp (OCompact i), r)
  | 6 :: n :: r => match parse_entries (N.to_nat n) r with
                   | Some (es, r') => Some (COp (OAppend es), r') | None => None end
  | 7 :: i :: 0 :: r => Some (COp (OCommitToConf i None), r)
  | 7 :: i :: _ :: r => match parse_cs r with
                        | Some (c, r') => Some (COp (OCommitToConf i (Some c)), r')
                        | None => None end
  | 8 :: r => Some (COp OTrigSnap, r)
  | 9 :: b :: r => Some (COp (OTrigLog (negb (b =? 0))), r)
  | 10 :: r => Some (COp OTakeCtx, r)
  | 11 :: r => match parse_vl r with
               | Some (c, r') => Some (COp (OInitConf c), r') | None => None end
  | 20 :: r => Some (COp QInitialState, r)
  | 21 :: lo :: hi :: 0 :: c :: r =>
      Some (COp (QEntries lo hi None (CtxEmpty (negb (c =? 0)))), r)
  | 21 :: lo :: hi :: _ :: mx :: c :: r =>
      Some (COp (QEntries lo hi (Some mx) (CtxEmpty (negb (c =? 0)))), r)
  | 22 :: i :: r => Some (COp (QTerm i), r)
  | 23 :: r => Some (COp QFirstIndex, r)
  | 24 :: r => Some (COp QLastIndex, r)
  | 25 :: q :: t :: r => Some (COp (QSnapshot q t), r)
  | 26 :: r => Some (COp QHardState, r)
  | 30 :: r => Some (CDump, r)
  | _ => None
  end.

(* ---------- encoding ---------- *)
Definition enc_hs (h : hard_state) : list N := [hs_term h; hs_vote h; hs_commit h].

Definition enc_cs (c : conf_state) : list N :=
  enc_list (cs_voters c) ++ enc_list (cs_learners c)
  ++ enc_list (cs_voters_outgoing c) ++ enc_list (cs_learners_next c)
  ++ [enc_bool (cs_auto_leave c)].

Definition sum_bytes (l : list N) : N := fold_right N.add 0 l.

(* compact entry encoding (lengths and byte sums instead of the bytes of Wire.enc_entry,
   to keep exhaustive runs small) *)
Definition enc_entry_c (e : entry) : list N :=
  [e_type e; e_term e; e_index e;
   N.of_nat (length (e_data e)); sum_bytes (e_data e);
   N.of_nat (length (e_context e))].

Definition enc_entries_c (l : list entry) : list N :=
  N.of_nat (length l) :: flat_map enc_entry_c l.

Definition enc_snap (s : snapshot) : list N :=
  [s_index s; s_term s] ++ enc_cs (s_cs s).

Definition enc_ctx (c : option gectx) : list N :=
  match c with
  | None => [0]
  | Some (CtxEmpty b) => [1; enc_bool b]
  | Some (CtxSendAppend to t a) => [2; to; t; enc_bool a]
  | Some CtxGenReady => [3]
  | Some CtxTransferLeader => [4]
  | Some CtxCommitByVote => [5]
  end.

Definition enc_ret (r : ret) : list N :=
  match r with
  | RUnit => []
  | RNum n => [n]
  | REntries l => enc_entries_c l
  | RSnap s => enc_snap s
  | RState h c => enc_hs h ++ enc_cs c
  | RHard h => enc_hs h
  | RCtx c => enc_ctx c
  end.

Definition enc_sres (r : sres ret) : list N :=
  match r with
  | SOk v => 0 :: enc_ret v
  | SErr e => [1; serr_code e]
  end.

Definition PANIC : N := 999999.

(* State dump, composed only of what the harness can read through the public
   API, in the same order: hard_state(), initial_state().conf_state,
   first_index(), last_index(), then entries(first, last+1, NO_LIMIT,
   Empty(false)) when first <= last (else an empty list), then the snapshot
   point (index, term), which the harness finds by probing term(). *)
Definition dump (m : mem) : list N * bool :=
  let pre := enc_hs (hs m) ++ enc_cs (cs m) in
  match first_index m with
  | Panic s => (pre ++ [PANIC; s], false)
  | Ok f =>
      let l := last_index m in
      let pre2 := pre ++ [f; l] in
      if f <=? l then
        match storage_entries m f (l + 1) (Some NO_LIMIT) (CtxEmpty false) with
        | Panic s => (pre2 ++ [PANIC; s], false)
        | Ok (_, SOk es) => (pre2 ++ enc_entries_c es ++ [snap_index m; snap_term m], true)
        | Ok (_, SErr e) => (pre2 ++ [1; serr_code e], false)
        end
      else (pre2 ++ [0] ++ [snap_index m; snap_term m], true)
  end.

Fixpoint run_cmds (fuel : nat) (m : mem) (l : list N) : list N :=
  match fuel with
  | O => []
  | S fuel' =>
      match l with
      | [] => []
      | _ =>
          match parse_cmd l with
          | None => [888888]
          | Some (CDump, r) =>
              let '(out, cont) := dump m in
              if cont then out ++ run_cmds fuel' m r else out
          | Some (COp o, r) =>
              match step m o with
              | Panic s => [PANIC; s]
              | Ok (m', res) => enc_sres res ++ run_cmds fuel' m' r
              end
          end
      end
  end.

Definition run_memstorage (input : list N) : list N :=
  match input with
  | 0 :: r => run_cmds (S (length r)) new r
  | 1 :: r =>
      match parse_vl r with
      | Some (c, r') =>
          match new_with_conf_state c with
          | Ok m => run_cmds (S (length r')) m r'
          | Panic s => [PANIC; s]
          end
      | None => [888888]
      end
  | _ => [888888]
  end.
