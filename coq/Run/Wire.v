(* Shared wire helpers for the Run/*.v codecs: generic decoders that consume
   from the front of a number list and return the rest, and the full-fidelity
   encoding of an entry (all data/context bytes on the wire).  No proofs here.

     <list>  = n x1 .. xn
     <opt>   = 0 | 1 v
     <entry> = type term index <list data> <list context> *)
From RV Require Import Base.Prelude M.Util.

Local Open Scope N_scope.

(* length-prefixed list of numbers *)
Definition dec_list (l : list N) : option (list N * list N) :=
  match l with
  | n :: r =>
      let k := N.to_nat n in
      if (length r <? k)%nat then None else Some (firstn k r, skipn k r)
  | [] => None
  end.

(* option: 0 | 1 v *)
Definition dec_opt (l : list N) : option (option N * list N) :=
  match l with
  | 0 :: r => Some (None, r)
  | _ :: v :: r => Some (Some v, r)
  | _ => None
  end.

(* [k] items, each decoded by [f] *)
Fixpoint dec_many {A} (f : list N -> option (A * list N)) (k : nat) (l : list N)
  : option (list A * list N) :=
  match k with
  | O => Some ([], l)
  | S k' =>
      match f l with
      | Some (a, r) =>
          match dec_many f k' r with
          | Some (t, r') => Some (a :: t, r')
          | None => None
          end
      | None => None
      end
  end.

(* count-prefixed sequence of items *)
Definition dec_seq {A} (f : list N -> option (A * list N)) (l : list N)
  : option (list A * list N) :=
  match l with
  | n :: r => dec_many f (N.to_nat n) r
  | [] => None
  end.

Definition enc_entry (e : entry) : list N :=
  [e_type e; e_term e; e_index e] ++ enc_list (e_data e) ++ enc_list (e_context e).

Definition dec_entry (l : list N) : option (entry * list N) :=
  match l with
  | ty :: te :: ix :: r =>
      match dec_list r with
      | Some (d, r1) =>
          match dec_list r1 with
          | Some (c, r2) => Some (mkEntry ty te ix d c, r2)
          | None => None
          end
      | None => None
      end
  | _ => None
  end.

Definition enc_entries (l : list entry) : list N :=
  N.of_nat (length l) :: flat_map enc_entry l.

Definition dec_entries : list N -> option (list entry * list N) :=
  dec_seq dec_entry.
