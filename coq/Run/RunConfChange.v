(* Numeric wire format for the ConfChange correspondence check.

   Input  : boot ops*
     boot := 0                      start from the empty tracker (ProgressTracker::new)
           | 1 cs                   Raft::new on a storage holding ConfState cs
     cs   := list(voters) list(learners) list(voters_outgoing) list(learners_next) auto_leave
     list := n x1 .. xn
     ccs  := n (type id)*           type: 0 AddNode, 1 RemoveNode, 2 AddLearnerNode
     op   := 1 ccs                  Changer::simple, then apply_conf
           | 2 auto ccs             Changer::enter_joint(auto, ..), then apply_conf
           | 3                      Changer::leave_joint, then apply_conf
           | 4                      query: Raft::new on conf().to_conf_state(); state unchanged
           | 5 id                   drop the Progress of id, configuration unchanged
                                    (builds trackers that fail check_invariants)
           | 6 trans ccs            Raft::apply_conf_change(ConfChangeV2{transition, changes})
                                    trans: 0 Auto, 1 Implicit, 2 Explicit
           | 7 type id              Raft::apply_conf_change(ConfChange{type,id}.as_v2())
   Output : per boot/op a record
     boot 0        : nothing
     boot 1, op 4  : res tracker?   res = 0 | error code | 999999 site
     op 1,2,3      : res (tracker changes)?
     op 5          : tracker
     op 6,7        : leave enter_opt res tracker?     (classification first)
     tracker := list(incoming) list(outgoing) list(learners) list(learners_next) auto list(progress ids)
     changes := n (id kind)*        kind: 0 Add, 1 Remove; in push order (leave_joint: increasing id)
   A failed op leaves the tracker unchanged and the run continues; a failed boot
   ends the run.  Malformed input: 888888 and the run ends. *)
From RV Require Import Base.Prelude Base.IdSet M.ConfChange.

Definition dump_tracker (t : tracker) : list N :=
  let c := fst t in
  enc_list (incoming c) ++ enc_list (outgoing c) ++ enc_list (learners c)
  ++ enc_list (learners_next c) ++ [enc_bool (auto_leave c)] ++ enc_list (snd t).

Definition enc_mct (k : mct) : N := match k with MAdd => 0%N | MRemove => 1%N end.

Definition dump_changes (chs : changes) : list N :=
  N.of_nat (length chs) :: flat_map (fun ch => [fst ch; enc_mct (snd ch)]) chs.

Definition malformed : list N := [888888%N].

(* n x1..xn *)
Definition take_list (l : list N) : option (list N * list N) :=
  match l with
  | n :: rest =>
      let k := N.to_nat n in
      if (length rest <? k)%nat then None else Some (firstn k rest, skipn k rest)
  | [] => None
  end.

Definition dec_type (n : N) : option cctype :=
  match n with
  | 0%N => Some AddNode
  | 1%N => Some RemoveNode
  | 2%N => Some AddLearnerNode
  | _ => None
  end.

Definition dec_trans (n : N) : option transition :=
  match n with
  | 0%N => Some Auto
  | 1%N => Some Implicit
  | 2%N => Some Explicit
  | _ => None
  end.

Fixpoint take_pairs (k : nat) (l : list N) : option (list ccsingle * list N) :=
  match k with
  | O => Some ([], l)
  | S k' =>
      match l with
      | ty :: id :: rest =>
          match dec_type ty, take_pairs k' rest with
          | Some t, Some (ps, rest') => Some ((t, id) :: ps, rest')
          | _, _ => None
          end
      | _ => None
      end
  end.

Definition take_ccs (l : list N) : option (list ccsingle * list N) :=
  match l with
  | n :: rest => take_pairs (N.to_nat n) rest
  | [] => None
  end.

Definition take_cs (l : list N) : option (conf_state * list N) :=
  match take_list l with
  | Some (v, l1) =>
    match take_list l1 with
    | Some (lr, l2) =>
      match take_list l2 with
      | Some (o, l3) =>
        match take_list l3 with
        | Some (ln, al :: l4) => Some (mkCS v lr o ln (negb (al =? 0)%N), l4)
        | _ => None
        end
      | None => None
      end
    | None => None
    end
  | None => None
  end.

Definition enc_restore (r : Res (R tracker)) : list N :=
  match r with
  | Ok (ROk t) => 0%N :: dump_tracker t
  | Ok (RErr e) => [e]
  | Panic s => [999999%N; s]
  end.

(* result of a changer op + apply_conf: new tracker and output *)
Definition changer_step (t : tracker) (r : R (conf * changes)) : tracker * list N :=
  match r with
  | ROk (c', chs) =>
      let t' := (c', apply_conf (snd t) chs) in
      (t', 0%N :: dump_tracker t' ++ dump_changes chs)
  | RErr e => (t, [e])
  end.

Definition v2_step (t : tracker) (cc : ccv2) : tracker * list N :=
  let cls := enc_bool (v2_leave_joint cc) :: enc_opt (option_map enc_bool (v2_enter_joint cc)) in
  match apply_conf_change t cc with
  | ROk t' => (t', cls ++ 0%N :: dump_tracker t')
  | RErr e => (t, cls ++ [e])
  end.

Fixpoint run_ops (fuel : nat) (t : tracker) (l : list N) : list N :=
  match fuel with
  | O => []
  | S fuel' =>
      match l with
      | [] => []
      | 1%N :: rest =>
          match take_ccs rest with
          | Some (ccs, rest') =>
              let '(t', out) := changer_step t (simple (fst t) (snd t) ccs) in
              out ++ run_ops fuel' t' rest'
          | None => malformed
          end
      | 2%N :: al :: rest =>
          match take_ccs rest with
          | Some (ccs, rest') =>
              let '(t', out) :=
                changer_step t (enter_joint (negb (al =? 0)%N) (fst t) (snd t) ccs) in
              out ++ run_ops fuel' t' rest'
          | None => malformed
          end
      | 3%N :: rest =>
          let '(t', out) := changer_step t (leave_joint (fst t) (snd t)) in
          out ++ run_ops fuel' t' rest
      | 4%N :: rest =>
          enc_restore (raft_new_restore (to_conf_state (fst t))) ++ run_ops fuel' t rest
      | 5%N :: id :: rest =>
          let t' := (fst t, remove id (snd t)) in
          dump_tracker t' ++ run_ops fuel' t' rest
      | 6%N :: tr :: rest =>
          match dec_trans tr, take_ccs rest with
          | Some tr', Some (ccs, rest') =>
              let '(t', out) := v2_step t (mkV2 tr' ccs) in
              out ++ run_ops fuel' t' rest'
          | _, _ => malformed
          end
      | 7%N :: ty :: id :: rest =>
          match dec_type ty with
          | Some ty' =>
              let '(t', out) := v2_step t (v1_into_v2 ty' id) in
              out ++ run_ops fuel' t' rest
          | None => malformed
          end
      | _ => malformed
      end
  end.

Definition run_confchange (input : list N) : list N :=
  match input with
  | 0%N :: ops => run_ops (length ops) empty_tracker ops
  | 1%N :: rest =>
      match take_cs rest with
      | Some (cs, ops) =>
          let r := raft_new_restore cs in
          enc_restore r ++
          match r with
          | Ok (ROk t) => run_ops (length ops) t ops
          | _ => []
          end
      | None => malformed
      end
  | _ => malformed
  end.
