(* Wire codec for the election-layer acceptor (tie B).
   Input : <inc list> <out list> <events>   events: count then
             1 n t v r t' v' r' <opt gfrom> | 2 n | 3 n t v | 4 kind from to t | 5 n | 6 n t v
   Output: 1 <number of events>                     every event accepted: the trace is a P execution
           0 <index> <reason> <event code>          first rejected event (reason: 1 pre, 2 guard, 3 post) *)
From RV Require Import Base.Prelude M.Quorum P.Election P.ElectionAccept Run.Wire.

Local Open Scope N_scope.

Definition dec_event (l : list N) : option (event * list N) :=
  match l with
  | 1 :: n :: t :: v :: r :: t' :: v' :: r' :: rest =>
      match dec_opt rest with
      | Some (g, rest') => Some (ECall n t v r t' v' r' g, rest')
      | None => None
      end
  | 2 :: n :: rest => Some (EReady n, rest)
  | 3 :: n :: t :: v :: rest => Some (EFsync n t v, rest)
  | 4 :: k :: f :: o :: t :: rest => Some (ESend k f o t, rest)
  | 5 :: n :: rest => Some (ECrash n, rest)
  | 6 :: n :: t :: v :: rest => Some (ERestart n t v, rest)
  | _ => None
  end.

Definition event_code (e : event) : N :=
  match e with
  | ECall _ _ _ _ _ _ _ _ => 1 | EReady _ => 2 | EFsync _ _ _ => 3
  | ESend k _ _ _ => 40 + k | ECrash _ => 5 | ERestart _ _ _ => 6
  end.

Definition run_pelection (input : list N) : list N :=
  match dec_list input with
  | Some (inc, r1) =>
      match dec_list r1 with
      | Some (out, r2) =>
          match dec_seq dec_event r2 with
          | Some (es, []) =>
              match accept_trace inc out pinit es 0 with
              | (_, None) => [1; N.of_nat (length es)]
              | (_, Some (i, why)) => [0; i; why; event_code (nth (N.to_nat i) es (EReady 0))]
              end
          | _ => [888888; 3]
          end
      | None => [888888; 2]
      end
  | None => [888888; 1]
  end.
