(* Wire codec for the log-layer acceptor (tie B for C05/C04/C03/C01).
   Input : <inc list> <out list> <events>   events: count then
             1..6  election events as in Run/RunPElection.v
             7 n <log> commit <acks list>      log = count (term id)*
             8 n <log>
             9 q t i
   Output: 1 <number of events> | 0 <index> <reason> <event code> *)
From RV Require Import Base.Prelude M.Quorum P.Election P.ElectionAccept P.Log P.LogAccept
  Run.Wire Run.RunPElection.

Local Open Scope N_scope.

Definition dec_ent (l : list N) : option (ent * list N) :=
  match l with t :: i :: r => Some ((t, i), r) | _ => None end.

Definition dec_levent (l : list N) : option (levent * list N) :=
  match l with
  | 7 :: n :: rest =>
      match dec_seq dec_ent rest with
      | Some (lg, c :: r1) =>
          match dec_list r1 with
          | Some (acks, r2) => Some (LvLog n lg (N.to_nat c) (map N.to_nat acks), r2)
          | None => None
          end
      | _ => None
      end
  | 8 :: n :: rest =>
      match dec_seq dec_ent rest with
      | Some (lg, r1) => Some (LvDurable n lg, r1)
      | None => None
      end
  | 9 :: q :: t :: i :: rest => Some (LvRelAck q t (N.to_nat i), rest)
  | _ => match dec_event l with
         | Some (e, r) => Some (LvEl e, r)
         | None => None
         end
  end.

Definition levent_code (e : levent) : N :=
  match e with
  | LvEl ev => event_code ev
  | LvLog _ _ _ _ => 7 | LvDurable _ _ => 8 | LvRelAck _ _ _ => 9
  end.

Definition run_plog (input : list N) : list N :=
  match dec_list input with
  | Some (inc, r1) =>
      match dec_list r1 with
      | Some (out, r2) =>
          match dec_seq dec_levent r2 with
          | Some (es, []) =>
              match laccept_trace inc out linit es 0 with
              | (_, None) => [1; N.of_nat (length es)]
              | (_, Some (i, why)) => [0; i; why; levent_code (nth (N.to_nat i) es (LvRelAck 0 0 0))]
              end
          | _ => [888888; 3]
          end
      | None => [888888; 2]
      end
  | None => [888888; 1]
  end.
