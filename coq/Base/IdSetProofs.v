(* Lemmas about Base/IdSet.v: membership laws (no well-formedness needed),
   preservation of [sorted], extensionality of sorted sets, counting. *)
From RV Require Import Base.Prelude Base.IdSet.

Local Open Scope N_scope.

(* ---------- membership ---------- *)

Lemma mem_nil : forall x, mem x [] = false.
Proof. reflexivity. Qed.

Lemma mem_In : forall x s, mem x s = true <-> In x s.
Proof.
  induction s as [|y t IH]; cbn [mem In].
  - split; [discriminate | tauto].
  - rewrite orb_true_iff, IH, N.eqb_eq. split; intros [H|H]; auto.
Qed.

Lemma mem_false_In : forall x s, mem x s = false <-> ~ In x s.
Proof.
  intros x s. rewrite <- mem_In. destruct (mem x s); split; congruence.
Qed.

Lemma mem_insert : forall y x s, mem y (insert x s) = (y =? x) || mem y s.
Proof.
  induction s as [|z t IH]; cbn [insert mem].
  - reflexivity.
  - destruct (x <? z) eqn:Hlt; cbn [mem]; [reflexivity|].
    destruct (x =? z) eqn:Heq; cbn [mem].
    + apply N.eqb_eq in Heq. subst z. destruct (y =? x); reflexivity.
    + rewrite IH. destruct (y =? z), (y =? x); reflexivity.
Qed.

Lemma mem_remove : forall y x s, mem y (remove x s) = negb (y =? x) && mem y s.
Proof.
  induction s as [|z t IH]; cbn [remove mem].
  - destruct (y =? x); reflexivity.
  - destruct (x =? z) eqn:Heq; cbn [mem]; rewrite IH.
    + apply N.eqb_eq in Heq. subst z. destruct (y =? x); reflexivity.
    + destruct (y =? x) eqn:E1; cbn [negb andb]; [|reflexivity].
      apply N.eqb_eq in E1. subst y. rewrite Heq. reflexivity.
Qed.

Lemma mem_union : forall y a b, mem y (union a b) = mem y a || mem y b.
Proof.
  intros y a b. unfold union. induction b as [|z t IH]; cbn [fold_right mem].
  - rewrite orb_false_r. reflexivity.
  - rewrite mem_insert, IH. destruct (y =? z), (mem y a), (mem y t); reflexivity.
Qed.

Lemma mem_of_list : forall y l, mem y (of_list l) = mem y l.
Proof.
  intros y l. unfold of_list. induction l as [|z t IH]; cbn [fold_right mem].
  - reflexivity.
  - rewrite mem_insert, IH. reflexivity.
Qed.

Lemma mem_filter : forall y f s, mem y (filter f s) = mem y s && f y.
Proof.
  induction s as [|z t IH]; cbn [filter mem].
  - reflexivity.
  - destruct (f z) eqn:Hf; cbn [mem]; rewrite IH.
    + destruct (y =? z) eqn:E; cbn [orb]; [|reflexivity].
      apply N.eqb_eq in E. subst. rewrite Hf. reflexivity.
    + destruct (y =? z) eqn:E; cbn [orb]; [|reflexivity].
      apply N.eqb_eq in E. subst. rewrite Hf. destruct (mem z t); reflexivity.
Qed.

Lemma mem_app : forall y a b, mem y (a ++ b) = mem y a || mem y b.
Proof.
  induction a as [|z t IH]; intros b; cbn [app mem].
  - reflexivity.
  - rewrite IH. rewrite orb_assoc. reflexivity.
Qed.

Lemma is_empty_mem : forall s, is_empty s = true <-> (forall x, mem x s = false).
Proof.
  destruct s as [|y t]; cbn [is_empty mem]; split; intros H; try reflexivity; try discriminate.
  specialize (H y). rewrite N.eqb_refl in H. discriminate.
Qed.

Lemma is_empty_nil : forall s, is_empty s = true <-> s = [].
Proof. destruct s; cbn; split; congruence. Qed.

Lemma forallb_mem : forall (f : N -> bool) s,
  forallb f s = true <-> (forall x, mem x s = true -> f x = true).
Proof.
  intros f s. rewrite forallb_forall. split; intros H x Hx; apply H; apply mem_In; assumption.
Qed.

Lemma subset_spec : forall a b,
  subset a b = true <-> (forall x, mem x a = true -> mem x b = true).
Proof. intros. unfold subset. apply forallb_mem. Qed.

(* ---------- sortedness ---------- *)

Lemma sorted_tail : forall x t, sorted (x :: t) = true -> sorted t = true.
Proof.
  intros x [|y t] H; [reflexivity|]. cbn [sorted] in H.
  apply andb_true_iff in H. tauto.
Qed.

Lemma sorted_head_lt : forall x t, sorted (x :: t) = true ->
  forall y, mem y t = true -> x < y.
Proof.
  intros x t. revert x. induction t as [|z t IH]; intros x H y Hy.
  - discriminate.
  - cbn [sorted] in H. apply andb_true_iff in H. destruct H as [Hxz Hs].
    apply N.ltb_lt in Hxz. cbn [mem] in Hy. apply orb_true_iff in Hy. destruct Hy as [E|Hy].
    + apply N.eqb_eq in E. subst. assumption.
    + specialize (IH z Hs y Hy). lia.
Qed.

Lemma sorted_cons : forall x t, sorted t = true ->
  (forall y, mem y t = true -> x < y) -> sorted (x :: t) = true.
Proof.
  intros x [|z t] Hs H; [reflexivity|]. cbn [sorted]. apply andb_true_iff. split; [|assumption].
  apply N.ltb_lt. apply H. cbn [mem]. rewrite N.eqb_refl. reflexivity.
Qed.

Lemma sorted_head_notin : forall x t, sorted (x :: t) = true -> mem x t = false.
Proof.
  intros x t H. destruct (mem x t) eqn:E; [|reflexivity].
  pose proof (sorted_head_lt x t H x E). lia.
Qed.

Lemma sorted_insert : forall x s, sorted s = true -> sorted (insert x s) = true.
Proof.
  induction s as [|z t IH]; intros Hs; cbn [insert].
  - reflexivity.
  - destruct (x <? z) eqn:Hlt.
    + cbn [sorted]. rewrite Hlt. exact Hs.
    + destruct (x =? z) eqn:Heq; [exact Hs|].
      apply sorted_cons.
      * apply IH. eapply sorted_tail; eassumption.
      * intros y Hy. rewrite mem_insert in Hy. apply orb_true_iff in Hy.
        apply N.ltb_ge in Hlt. apply N.eqb_neq in Heq. destruct Hy as [E|Hy].
        -- apply N.eqb_eq in E. lia.
        -- eapply sorted_head_lt; eassumption.
Qed.

Lemma sorted_remove : forall x s, sorted s = true -> sorted (remove x s) = true.
Proof.
  induction s as [|z t IH]; intros Hs; cbn [remove].
  - reflexivity.
  - pose proof (sorted_tail _ _ Hs) as Ht.
    destruct (x =? z); [auto|].
    apply sorted_cons; [auto|].
    intros y Hy. rewrite mem_remove in Hy. apply andb_true_iff in Hy.
    eapply sorted_head_lt; [eassumption|tauto].
Qed.

Lemma sorted_union : forall a b, sorted a = true -> sorted (union a b) = true.
Proof.
  intros a b Ha. unfold union. induction b as [|z t IH]; cbn [fold_right]; [assumption|].
  apply sorted_insert. assumption.
Qed.

Lemma sorted_of_list : forall l, sorted (of_list l) = true.
Proof.
  unfold of_list. induction l as [|z t IH]; cbn [fold_right]; [reflexivity|].
  apply sorted_insert. assumption.
Qed.

Lemma sorted_filter : forall f s, sorted s = true -> sorted (filter f s) = true.
Proof.
  induction s as [|z t IH]; intros Hs; cbn [filter]; [reflexivity|].
  pose proof (sorted_tail _ _ Hs) as Ht.
  destruct (f z); [|auto].
  apply sorted_cons; [auto|].
  intros y Hy. rewrite mem_filter in Hy. apply andb_true_iff in Hy.
  eapply sorted_head_lt; [eassumption|tauto].
Qed.

(* two sorted lists with the same members are equal *)
Lemma sorted_ext : forall a b, sorted a = true -> sorted b = true ->
  (forall x, mem x a = mem x b) -> a = b.
Proof.
  induction a as [|x a IH]; intros b Ha Hb H.
  - destruct b as [|y b]; [reflexivity|].
    specialize (H y). cbn [mem] in H. rewrite N.eqb_refl in H. discriminate.
  - destruct b as [|y b].
    + specialize (H x). cbn [mem] in H. rewrite N.eqb_refl in H. discriminate.
    + assert (x = y) as ->.
      { pose proof (H x) as Hx. pose proof (H y) as Hy. cbn [mem] in Hx, Hy.
        rewrite N.eqb_refl in Hx, Hy. cbn [orb] in Hx, Hy.
        destruct (x =? y) eqn:E; [apply N.eqb_eq; assumption|].
        rewrite N.eqb_sym in E. rewrite E in Hy. cbn [orb] in Hx, Hy.
        symmetry in Hx.
        pose proof (sorted_head_lt _ _ Hb x Hx). pose proof (sorted_head_lt _ _ Ha y Hy). lia. }
      f_equal. apply IH; try (eapply sorted_tail; eassumption).
      intros z. pose proof (H z) as Hz. cbn [mem] in Hz.
      destruct (z =? y) eqn:E; [|exact Hz].
      apply N.eqb_eq in E. subst z.
      rewrite (sorted_head_notin _ _ Ha), (sorted_head_notin _ _ Hb). reflexivity.
Qed.

Lemma remove_notin : forall x s, mem x s = false -> remove x s = s.
Proof.
  induction s as [|z t IH]; intros H; cbn [remove]; [reflexivity|].
  cbn [mem] in H. apply orb_false_iff in H. destruct H as [E H].
  rewrite E. f_equal. auto.
Qed.

Lemma insert_in : forall x s, sorted s = true -> mem x s = true -> insert x s = s.
Proof.
  intros x s Hs Hx. apply sorted_ext; [apply sorted_insert; assumption|assumption|].
  intros y. rewrite mem_insert. destruct (y =? x) eqn:E; [|reflexivity].
  apply N.eqb_eq in E. subst. rewrite Hx. reflexivity.
Qed.

Lemma union_nil_l : forall b, sorted b = true -> union [] b = b.
Proof.
  intros b Hb. apply sorted_ext; [apply sorted_union; reflexivity|assumption|].
  intros x. rewrite mem_union. reflexivity.
Qed.

Lemma union_nil_r : forall a, union a [] = a.
Proof. reflexivity. Qed.

Lemma of_list_sorted : forall s, sorted s = true -> of_list s = s.
Proof.
  intros s Hs. apply sorted_ext; [apply sorted_of_list|assumption|].
  intros x. apply mem_of_list.
Qed.

Lemma sorted_NoDup : forall s, sorted s = true -> NoDup s.
Proof.
  induction s as [|x t IH]; intros Hs; constructor.
  - apply mem_false_In. apply sorted_head_notin. assumption.
  - apply IH. eapply sorted_tail; eassumption.
Qed.

(* ---------- counting ---------- *)

(* pigeonhole on one list: two predicates whose counts exceed the length share
   an element *)
Lemma filter_pigeonhole : forall (p q : N -> bool) (u : list N),
  (length u < length (filter p u) + length (filter q u))%nat ->
  exists x, In x u /\ p x = true /\ q x = true.
Proof.
  induction u as [|z u IH]; cbn [filter length]; intros H.
  - lia.
  - destruct (p z) eqn:Hp, (q z) eqn:Hq; cbn [length] in H.
    + exists z. cbn [In]. auto.
    + destruct IH as [x [Hx Hpq]]; [lia|]. exists x. cbn [In]. auto.
    + destruct IH as [x [Hx Hpq]]; [lia|]. exists x. cbn [In]. auto.
    + destruct IH as [x [Hx Hpq]]; [lia|]. exists x. cbn [In]. auto.
Qed.

Lemma filter_length_le : forall (p : N -> bool) u, (length (filter p u) <= length u)%nat.
Proof.
  induction u as [|z u IH]; cbn [filter length]; [lia|].
  destruct (p z); cbn [length]; lia.
Qed.

(* length of a NoDup list included in another list *)
Lemma NoDup_incl_len : forall (l u : list N),
  NoDup l -> (forall x, In x l -> In x u) -> (length l <= length u)%nat.
Proof. intros l u Hl H. apply NoDup_incl_length; assumption. Qed.

(* partition of a list by a predicate *)
Lemma filter_partition_length : forall (p : N -> bool) u,
  (length (filter p u) + length (filter (fun x => negb (p x)) u) = length u)%nat.
Proof.
  induction u as [|z u IH]; cbn [filter length]; [reflexivity|].
  destruct (p z); cbn [negb length]; lia.
Qed.
