(* Finite sets of node ids as duplicate-free, strictly increasing [list N].
   Only executable definitions here; lemmas are in Base/IdSetProofs.v.
   The Rust code uses HashSet<u64>; iteration order of a HashSet is not part of
   the model: every model function that iterates a set does so in increasing
   order and every compared output is canonicalised (sorted) on both sides. *)
From RV Require Import Base.Prelude.

Definition idset := list N.

(* membership; also used on raw (unsorted, possibly duplicated) vectors *)
Fixpoint mem (x : N) (s : list N) : bool :=
  match s with
  | [] => false
  | y :: t => (x =? y)%N || mem x t
  end.

(* HashSet::insert *)
Fixpoint insert (x : N) (s : idset) : idset :=
  match s with
  | [] => [x]
  | y :: t =>
      if (x <? y)%N then x :: s
      else if (x =? y)%N then s
      else y :: insert x t
  end.

(* HashSet::remove (all occurrences, so that the membership law needs no
   well-formedness hypothesis) *)
Fixpoint remove (x : N) (s : idset) : idset :=
  match s with
  | [] => []
  | y :: t => if (x =? y)%N then remove x t else y :: remove x t
  end.

(* a.extend(b) : [union a b] inserts the elements of [b] into [a] *)
Definition union (a b : idset) : idset := fold_right insert a b.

(* collect() of an arbitrary vector *)
Definition of_list (l : list N) : idset := fold_right insert [] l.

Definition is_empty (s : idset) : bool :=
  match s with [] => true | _ => false end.

Definition subset (a b : idset) : bool := forallb (fun x => mem x b) a.

Definition set_eqb (a b : idset) : bool := subset a b && subset b a.

(* elements of [a] that are not in [b] *)
Definition diff (a b : idset) : idset := filter (fun x => negb (mem x b)) a.

(* |a Δ b| for duplicate-free a, b *)
Definition symdiff_count (a b : idset) : nat :=
  length (diff a b) + length (diff b a).

(* strictly increasing *)
Fixpoint sorted (s : list N) : bool :=
  match s with
  | [] => true
  | x :: t =>
      match t with
      | [] => true
      | y :: _ => (x <? y)%N && sorted t
      end
  end.

(* structural equality of vectors (Vec<u64> == Vec<u64>) *)
Fixpoint list_eqb (a b : list N) : bool :=
  match a, b with
  | [], [] => true
  | x :: a', y :: b' => (x =? y)%N && list_eqb a' b'
  | _, _ => false
  end.
