(* Common definitions for all model files: result monad with panics as values,
   list helpers over N / nat indexes, arithmetic tactic setup.
   No axioms; stdlib only. *)
From Coq Require Export List Arith NArith ZArith Bool Lia.
From Coq Require Export ZifyBool ZifyNat ZifyN.
Export ListNotations.

Global Arguments N.add : simpl never.
Global Arguments N.sub : simpl never.
Global Arguments N.mul : simpl never.
Global Arguments N.div : simpl never.
Global Arguments N.modulo : simpl never.
Global Arguments N.eqb : simpl never.
Global Arguments N.ltb : simpl never.
Global Arguments N.leb : simpl never.
Global Arguments N.min : simpl never.
Global Arguments N.max : simpl never.

(* A panic site is a number; every model file names its own sites. *)
Definition site := N.

Inductive Res (A : Type) : Type :=
| Ok (a : A)
| Panic (s : site).
Arguments Ok {A} a.
Arguments Panic {A} s.

Definition bind {A B} (r : Res A) (f : A -> Res B) : Res B :=
  match r with Ok a => f a | Panic s => Panic s end.

Notation "x <- r ;; k" := (bind r (fun x => k))
  (at level 61, r at next level, right associativity).

Definition is_ok {A} (r : Res A) : bool :=
  match r with Ok _ => true | Panic _ => false end.

(* checked list access: the Rust index expression `v[i]` *)
Definition idx {A} (l : list A) (i : nat) (s : site) : Res A :=
  match nth_error l i with Some a => Ok a | None => Panic s end.

Fixpoint upd {A} (l : list A) (i : nat) (a : A) : list A :=
  match l, i with
  | [], _ => []
  | _ :: t, O => a :: t
  | h :: t, S j => h :: upd t j a
  end.

Definition u64_max : N := 18446744073709551615%N.

(* option encoded as a list of numbers for traces: None = [0], Some v = [1;v] *)
Definition enc_opt (o : option N) : list N :=
  match o with None => [0%N] | Some v => [1%N; v] end.
Definition enc_bool (b : bool) : N := if b then 1%N else 0%N.
Definition enc_list (l : list N) : list N := N.of_nat (length l) :: l.
