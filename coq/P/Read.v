(* P, read layer: ReadIndex in Safe (quorum-checked) mode, superposed on the log
   layer (P/Log.v): every log / election rule is a rule here too (label [RLog]).

   A leader that has committed an entry of its own term records a read request
   (context id, its commit index, and -- ghost -- the commit points that exist at
   that moment); a follower whose term is the request's term acknowledges a
   heartbeat that carries the context of a request ALREADY recorded; the leader
   answers a recorded request, with the recorded index, once a quorum (itself
   included) has acknowledged that request or a LATER request of the same leader
   and term (ReadOnly::advance answers the whole prefix of its queue).  A crash
   or a term change needs no rule: answering requires the leader role at the
   term of the request.

   Whether the implementation's transitions satisfy these guards is what the
   acceptor (P/ReadAccept.v) checks.  Executable definitions only; theorems in
   P/ReadProofs.v (C08, cluster level). *)
From RV Require Import Base.Prelude M.Quorum P.Election P.Log.

Local Open Scope N_scope.

(* a recorded request: leader, term, context id, recorded index, ghost snapshot of
   the commit points at request time *)
Definition rreq := (N * N * N * nat * list (N * nat))%type.
Definition rq_c (r : rreq) : N := fst (fst (fst (fst r))).
Definition rq_t (r : rreq) : N := snd (fst (fst (fst r))).
Definition rq_ctx (r : rreq) : N := snd (fst (fst r)).
Definition rq_idx (r : rreq) : nat := snd (fst r).
Definition rq_snap (r : rreq) : list (N * nat) := snd r.

Record rst := mkRS {
  pr_lg : lst;                           (* log layer *)
  pr_reqs : list rreq;                   (* recorded requests, in issue order (oldest first) *)
  pr_hacks : list (N * N * N * N);       (* heartbeat acknowledgements created: q, c, t, ctx *)
  pr_served : list (N * N * N * nat)     (* answers: c, t, ctx, index *)
}.

Definition rinit : rst := mkRS linit [] [] [].

Inductive rlabel :=
| RLog (l : llabel)               (* a log / election rule *)
| RReadReq (c ctx : N)            (* leader c records a read request *)
| RHbAck (q c t ctx : N)          (* q creates the acknowledgement of a heartbeat of c, term t, carrying ctx *)
| RReadServe (c ctx : N).         (* leader c answers the request *)

Definition req_is (c t ctx : N) (r : rreq) : bool :=
  (rq_c r =? c) && (rq_t r =? t) && (rq_ctx r =? ctx).

(* the requests recorded at or after the request (c, t, ctx), that request first *)
Fixpoint req_from (c t ctx : N) (l : list rreq) : list rreq :=
  match l with
  | [] => []
  | r :: rest => if req_is c t ctx r then r :: rest else req_from c t ctx rest
  end.

Definition hack_is (c t ctx : N) (h : N * N * N * N) : bool :=
  (snd (fst (fst h)) =? c) && (snd (fst h) =? t) && (snd h =? ctx).

Definition ackers (hs : list (N * N * N * N)) (c t ctx : N) : list N :=
  map (fun h => fst (fst (fst h))) (filter (hack_is c t ctx) hs).

Section Rules.
  Variables (inc out : list N).

  Definition is_up_leader (s : rst) (c : N) : bool :=
    let p := nodes (el (pr_lg s)) c in
    p_up p && match p_role p with PL => true | _ => false end.

  Definition rrule (l : rlabel) (s : rst) : option rst :=
    match l with
    | RLog ll =>
        match lrule inc out ll (pr_lg s) with
        | Some g => Some (mkRS g (pr_reqs s) (pr_hacks s) (pr_served s))
        | None => None
        end
    | RReadReq c ctx =>
        let t := p_term (nodes (el (pr_lg s)) c) in
        let x := ln (pr_lg s) c in
        if is_up_leader s c
           && (1 <=? l_commit x)%nat
           && (term_at (l_log x) (l_commit x) =? t)            (* committed in its own term *)
           && negb (existsb (req_is c t ctx) (pr_reqs s))      (* unique context *)
        then Some (mkRS (pr_lg s) (pr_reqs s ++ [(c, t, ctx, l_commit x, cpts (pr_lg s))])
                        (pr_hacks s) (pr_served s))
        else None
    | RHbAck q c t ctx =>
        let p := nodes (el (pr_lg s)) q in
        if p_up p && (p_term p =? t) && negb (q =? c)
           && existsb (req_is c t ctx) (pr_reqs s)             (* the request exists already *)
        then Some (mkRS (pr_lg s) (pr_reqs s) ((q, c, t, ctx) :: pr_hacks s) (pr_served s))
        else None
    | RReadServe c ctx =>
        let t := p_term (nodes (el (pr_lg s)) c) in
        match req_from c t ctx (pr_reqs s) with
        | r :: later =>
            if is_up_leader s c
               && existsb (fun r' => (rq_c r' =? c) && (rq_t r' =? t)
                                     && quorum inc out (c :: ackers (pr_hacks s) c t (rq_ctx r')))
                          (r :: later)
            then Some (mkRS (pr_lg s) (pr_reqs s) (pr_hacks s) ((c, t, ctx, rq_idx r) :: pr_served s))
            else None
        | [] => None
        end
    end.

  Fixpoint rrun (ls : list rlabel) (s : rst) : option rst :=
    match ls with
    | [] => Some s
    | l :: rest => match rrule l s with Some s' => rrun rest s' | None => None end
    end.

  Inductive rreachable : rst -> Prop :=
  | rreach_init : rreachable rinit
  | rreach_step : forall s l s', rreachable s -> rrule l s = Some s' -> rreachable s'.

  (* zero or more steps *)
  Inductive rsteps : rst -> rst -> Prop :=
  | rsteps_refl : forall s, rsteps s s
  | rsteps_step : forall s s1 l s2, rsteps s s1 -> rrule l s1 = Some s2 -> rsteps s s2.
End Rules.
