(* P, log layer: the abstract protocol for log replication and commitment,
   superposed on the election layer (P/Election.v): every election rule is a
   rule here too (label [LEl]), with the log-related side effects and guards
   added (a campaign fixes the candidate's log, a grant obeys the election
   restriction, a new leader appends its no-op, a crash falls back to the
   durable log).  Logs are plain lists of (term, payload) from index 1; there
   is no compaction in this layer (the full log is ghost state; compaction and
   snapshots only forget a committed prefix).

   Rules are semantic: a follower's log may only move to a prefix of the log of
   a leader of its current term ([llog], history of every leader's log), an
   acknowledgement may only be created for a prefix the follower's log shares
   with that leader log and released once the durable log covers it, a leader
   commits only own-term entries acknowledged (released) by a quorum with its
   own log counted by what is durable (recorded, in the ghost [acked] only, as an
   implicit acknowledgement of the leader), and a log image becomes durable only if
   none of its entries has a term above the durable term (the hard state of a Ready
   is durable no later than its entries: without this guard state-machine safety is
   false, P/LogSafety.v unguarded_fsync_unsafe).  Whether the implementation's
   transitions satisfy these guards is what the acceptor (P/LogAccept.v) checks on
   every observed transition.  Executable definitions only; theorems in
   P/LogProofs.v (C05) and P/LogSafety.v (C01, C03, C04). *)
From RV Require Import Base.Prelude M.Quorum P.Election.

Local Open Scope N_scope.

Definition ent := (N * N)%type.          (* (term, payload id) *)
Definition eterm (e : ent) : N := fst e.

Definition ent_eqb (a b : ent) : bool := (fst a =? fst b) && (snd a =? snd b).

Fixpoint log_eqb (a b : list ent) : bool :=
  match a, b with
  | [], [] => true
  | x :: a', y :: b' => ent_eqb x y && log_eqb a' b'
  | _, _ => false
  end.

(* [a] is a prefix of [b] *)
Fixpoint is_prefix (a b : list ent) : bool :=
  match a, b with
  | [], _ => true
  | x :: a', y :: b' => ent_eqb x y && is_prefix a' b'
  | _ :: _, [] => false
  end.

Definition last_term (l : list ent) : N := eterm (last l (0, 0)).

(* term of the entry at (1-based) index k; 0 when there is none *)
Definition term_at (l : list ent) (k : nat) : N :=
  match k with
  | O => 0
  | S j => match nth_error l j with Some e => eterm e | None => 0 end
  end.

(* RaftLog::is_up_to_date: candidate log [c] against voter log [v] *)
Definition up_to_date (c v : list ent) : bool :=
  (last_term v <? last_term c) ||
  ((last_term c =? last_term v) && (length v <=? length c)%nat).

Record lnode := mkLN {
  l_log : list ent;
  l_dlog : list ent;                (* durable log *)
  l_imgs : list (list ent);         (* log images handed out for persistence, oldest first *)
  l_commit : nat;
  l_acks : list (N * nat)           (* acknowledgements created in this incarnation: (term, index) *)
}.

Definition ln0 : lnode := mkLN [] [] [] 0 [].

Record lst := mkLS {
  el : pst;                          (* election layer *)
  ln : N -> lnode;
  llog : N -> list ent;              (* ghost: log of the leader of a term (latest) *)
  clog : N -> N -> list ent;         (* ghost: log a candidate campaigned with: node -> term -> log *)
  acked : N -> N -> nat;             (* ghost: highest index node q acknowledged (released) in term t *)
  cpts : list (N * nat)              (* ghost: commit points (term, index) decided by leaders *)
}.

Definition linit : lst := mkLS pinit (fun _ => ln0) (fun _ => []) (fun _ _ => []) (fun _ _ => O) [].

Definition set_ln (s : lst) (n : N) (x : lnode) : lst :=
  mkLS (el s) (fun k => if k =? n then x else ln s k) (llog s) (clog s) (acked s) (cpts s).
Definition set_el (s : lst) (e : pst) : lst :=
  mkLS e (ln s) (llog s) (clog s) (acked s) (cpts s).
Definition set_llog (s : lst) (t : N) (l : list ent) : lst :=
  mkLS (el s) (ln s) (fun t' => if t' =? t then l else llog s t') (clog s) (acked s) (cpts s).
Definition set_clog (s : lst) (c t : N) (l : list ent) : lst :=
  mkLS (el s) (ln s) (llog s)
       (fun c' t' => if (c' =? c) && (t' =? t) then l else clog s c' t') (acked s) (cpts s).
Definition set_acked (s : lst) (q t : N) (i : nat) : lst :=
  mkLS (el s) (ln s) (llog s) (clog s)
       (fun q' t' => if (q' =? q) && (t' =? t) then i else acked s q' t') (cpts s).
Definition add_cpt (s : lst) (t : N) (k : nat) : lst :=
  mkLS (el s) (ln s) (llog s) (clog s) (acked s) ((t, k) :: cpts s).

Definition with_log (x : lnode) (l : list ent) : lnode :=
  mkLN l (l_dlog x) (l_imgs x) (l_commit x) (l_acks x).

Inductive llabel :=
| LEl (l : label)                (* an election-layer rule, with its log-layer side effects *)
| LPropose (c x : N)             (* leader c appends a new entry with payload x *)
| LAdopt (n : N) (m : nat)       (* follower n replaces its log by the first m entries of its term's leader log *)
| LMkAck (q : N) (i : nat)       (* q creates an acknowledgement of index i in its current term *)
| LRelAck (q t : N) (i : nat)    (* q releases it once its durable log covers it *)
| LCommitL (c : N) (k : nat)     (* leader commit *)
| LCommitF (n : N) (k : nat)     (* non-leader commit, up to a commit point its log agrees with *)
| LLogImage (n : N)              (* hand the current log out for persistence *)
| LLogFsync (n : N).             (* the oldest handed-out log image becomes durable *)

Section Rules.
  Variables (inc out : list N).

  Definition universe : list N := inc ++ out.

  Definition own_term_leader (s : lst) (c : N) : bool :=
    match p_role (nodes (el s) c) with PL => p_up (nodes (el s) c) | _ => false end.

  (* the log-layer part of an election rule, applied after the election rule itself *)
  Definition el_effect (l : label) (s0 s : lst) : option lst :=
    match l with
    | LCampaign n =>
        (* the candidate campaigns with its current log *)
        Some (set_clog s n (p_term (nodes (el s) n)) (l_log (ln s n)))
    | LGrant n c t =>
        (* the election restriction, against the log the candidate campaigned with *)
        if up_to_date (clog s c t) (l_log (ln s n)) then Some s else None
    | LBecomeLeader c =>
        let t := p_term (nodes (el s) c) in
        (* a candidate's log is the one it campaigned with *)
        if log_eqb (l_log (ln s c)) (clog s c t) then
          let l' := l_log (ln s c) ++ [(t, 0)] in
          Some (set_llog (set_ln s c (with_log (ln s c) l')) t l')
        else None
    | LCrash n =>
        let x := ln s n in
        Some (set_ln s n (mkLN (l_dlog x) (l_dlog x) [] 0 []))
    | _ => Some s
    end.

  Definition lrule (l : llabel) (s : lst) : option lst :=
    match l with
    | LEl e =>
        match prule inc out e (el s) with
        | Some e' => el_effect e s (set_el s e')
        | None => None
        end
    | LPropose c x =>
        if own_term_leader s c then
          let t := p_term (nodes (el s) c) in
          let l' := l_log (ln s c) ++ [(t, x)] in
          Some (set_llog (set_ln s c (with_log (ln s c) l')) t l')
        else None
    | LAdopt n m =>
        let p := nodes (el s) n in
        let x := ln s n in
        let t := p_term p in
        let new := firstn m (llog s t) in
        if p_up p
           && negb (match p_role p with PL => true | _ => false end)
           && (m <=? length (llog s t))%nat
           && negb (is_prefix new (l_log x))                       (* it changes the log *)
           && is_prefix (firstn (l_commit x) (l_log x)) new          (* never below the commit index *)
           && (l_commit x <=? m)%nat
        then Some (set_ln s n (with_log x new))
        else None
    | LMkAck q i =>
        let p := nodes (el s) q in
        let x := ln s q in
        let t := p_term p in
        if p_up p
           && negb (match p_role p with PL => true | _ => false end)
           && (i <=? length (llog s t))%nat
           && is_prefix (firstn i (llog s t)) (l_log x)
        then Some (set_ln s q (mkLN (l_log x) (l_dlog x) (l_imgs x) (l_commit x) ((t, i) :: l_acks x)))
        else None
    | LRelAck q t i =>
        let x := ln s q in
        if existsb (fun a => (fst a =? t) && (snd a =? i)%nat) (l_acks x)
           && is_prefix (firstn i (llog s t)) (l_dlog x)
           && (i <=? length (llog s t))%nat
        then Some (if (acked s q t <? i)%nat then set_acked s q t i else s)
        else None
    | LCommitL c k =>
        let x := ln s c in
        let t := p_term (nodes (el s) c) in
        let supporters :=
          filter (fun q => if q =? c then is_prefix (firstn k (l_log x)) (l_dlog x)
                           else (k <=? acked s q t)%nat) universe in
        if own_term_leader s c
           && (k <=? length (l_log x))%nat && (l_commit x <? k)%nat
           && (term_at (l_log x) k =? t)
           && quorum inc out supporters
        then
          let s1 := set_ln s c (mkLN (l_log x) (l_dlog x) (l_imgs x) k (l_acks x)) in
          (* ghost only: the leader's own support is recorded as an implicit acknowledgement *)
          let s2 := if is_prefix (firstn k (l_log x)) (l_dlog x) && (acked s c t <? k)%nat
                    then set_acked s1 c t k else s1 in
          Some (add_cpt s2 t k)
        else None
    | LCommitF n k =>
        let x := ln s n in
        if p_up (nodes (el s) n)
           && (k <=? length (l_log x))%nat && (l_commit x <? k)%nat
           && existsb (fun tk => (k <=? snd tk)%nat
                                 && is_prefix (firstn k (l_log x)) (llog s (fst tk))) (cpts s)
        then Some (set_ln s n (mkLN (l_log x) (l_dlog x) (l_imgs x) k (l_acks x)))
        else None
    | LLogImage n =>
        let x := ln s n in
        if p_up (nodes (el s) n)
        then Some (set_ln s n (mkLN (l_log x) (l_dlog x) (l_imgs x ++ [l_log x]) (l_commit x) (l_acks x)))
        else None
    | LLogFsync n =>
        let x := ln s n in
        match l_imgs x with
        | img :: rest =>
            (* the durable log is never ahead of the durable term: the hard state of a
               Ready is durable no later than its entries *)
            if p_up (nodes (el s) n)
               && forallb (fun e => eterm e <=? p_dterm (nodes (el s) n)) img
            then Some (set_ln s n (mkLN (l_log x) img rest (l_commit x) (l_acks x)))
            else None
        | [] => None
        end
    end.

  Fixpoint lrun (ls : list llabel) (s : lst) : option lst :=
    match ls with
    | [] => Some s
    | l :: rest => match lrule l s with Some s' => lrun rest s' | None => None end
    end.

  Inductive lreachable : lst -> Prop :=
  | lreach_init : lreachable linit
  | lreach_step : forall s l s', lreachable s -> lrule l s = Some s' -> lreachable s'.
End Rules.
