(* Stage L2 of the log-layer proofs (property C05): log matching, leader
   append-only, committed prefix immutable, for the abstract protocol P/Log.v. *)
From RV Require Import Base.Prelude M.Quorum M.QuorumProofs P.Election P.ElectionProofs P.Log.

Local Open Scope N_scope.

(* ------------------------------------------------------------------ *)
(** * Lists of entries *)

Lemma ent_eqb_eq a b : ent_eqb a b = true <-> a = b.
Proof.
  unfold ent_eqb. destruct a as [a1 a2], b as [b1 b2]. cbn. split.
  - intros H. apply andb_prop in H. destruct H as [H1 H2]. apply N.eqb_eq in H1, H2. congruence.
  - intros H. inversion H; subst. rewrite !N.eqb_refl. reflexivity.
Qed.

Lemma log_eqb_eq a b : log_eqb a b = true <-> a = b.
Proof.
  revert b. induction a as [|x a IH]; intros [|y b]; cbn; split; intros H; try congruence; try discriminate.
  - apply andb_prop in H. destruct H as [H1 H2]. apply ent_eqb_eq in H1. apply IH in H2. congruence.
  - inversion H; subst. apply andb_true_intro. split; [apply ent_eqb_eq; reflexivity|apply IH; reflexivity].
Qed.

Lemma is_prefix_spec a b : is_prefix a b = true <-> exists s, b = a ++ s.
Proof.
  revert b. induction a as [|x a IH]; intros b; cbn.
  - split; [intros _; exists b; reflexivity|reflexivity].
  - destruct b as [|y b].
    + split; [discriminate|intros [s Hs]; discriminate].
    + split.
      * intros H. apply andb_prop in H. destruct H as [H1 H2]. apply ent_eqb_eq in H1. apply IH in H2.
        destruct H2 as [s Hs]. exists s. cbn. congruence.
      * intros [s Hs]. cbn in Hs. inversion Hs; subst. apply andb_true_intro.
        split; [apply ent_eqb_eq; reflexivity|apply IH; exists s; reflexivity].
Qed.

Lemma is_prefix_false a b : is_prefix a b = false <-> ~ exists s, b = a ++ s.
Proof.
  rewrite <- is_prefix_spec. destruct (is_prefix a b); split; intros; congruence.
Qed.

Lemma firstn_app_le {A} (j : nat) (L X : list A) : (j <= length L)%nat -> firstn j (L ++ X) = firstn j L.
Proof.
  intros H. rewrite firstn_app. replace (j - length L)%nat with 0%nat by lia. cbn. apply app_nil_r.
Qed.

Lemma firstn_firstn_le {A} (j m : nat) (L : list A) : (j <= m)%nat -> firstn j (firstn m L) = firstn j L.
Proof. intros H. rewrite firstn_firstn. f_equal. lia. Qed.

Lemma prefix_firstn {A} (a b s : list A) : b = a ++ s -> firstn (length a) b = a.
Proof. intros ->. rewrite firstn_app_le by lia. apply firstn_all. Qed.

Lemma firstn_prefix {A} (n : nat) (b : list A) : exists s, b = firstn n b ++ s.
Proof. exists (skipn n b). symmetry. apply firstn_skipn. Qed.

(* agreement up to k transfers to shorter prefixes *)
Lemma firstn_eq_le {A} (j k : nat) (a b : list A) : (j <= k)%nat -> firstn k a = firstn k b -> firstn j a = firstn j b.
Proof.
  intros Hjk H. rewrite <- (firstn_firstn_le j k a Hjk), <- (firstn_firstn_le j k b Hjk). congruence.
Qed.

Lemma nth_error_firstn_lt {A} (m j : nat) (L : list A) : (j < m)%nat -> nth_error (firstn m L) j = nth_error L j.
Proof.
  revert j L. induction m as [|m IH]; intros j L H; [lia|].
  destruct L as [|x L]; [reflexivity|]. destruct j as [|j]; [reflexivity|]. cbn. apply IH. lia.
Qed.

Lemma term_at_firstn L m j : (j <= m)%nat -> term_at (firstn m L) j = term_at L j.
Proof.
  intros H. destruct j as [|j]; [reflexivity|]. cbn. rewrite nth_error_firstn_lt by lia. reflexivity.
Qed.

Lemma term_at_app_l L X j : (j <= length L)%nat -> term_at (L ++ X) j = term_at L j.
Proof.
  intros H. destruct j as [|j]; [reflexivity|]. cbn. rewrite nth_error_app1 by lia. reflexivity.
Qed.

Lemma term_at_app_last L e : term_at (L ++ [e]) (S (length L)) = eterm e.
Proof. cbn. rewrite nth_error_app2 by lia. rewrite Nat.sub_diag. reflexivity. Qed.

(* the term at j only depends on the first j entries *)
Lemma term_at_firstn_eq a b j : firstn j a = firstn j b -> term_at a j = term_at b j.
Proof.
  intros H. rewrite <- (term_at_firstn a j j), <- (term_at_firstn b j j) by lia. congruence.
Qed.

Lemma nth_error_firstn_eq {A} (a b : list A) k j : (j < k)%nat -> firstn k a = firstn k b -> nth_error a j = nth_error b j.
Proof.
  intros Hj H. rewrite <- (nth_error_firstn_lt k j a Hj), <- (nth_error_firstn_lt k j b Hj). congruence.
Qed.

(* ------------------------------------------------------------------ *)
(** * Election layer: shape of a step, leaders' votes are durable *)

Section ElectionFacts.
  Variables (inc out : list N).
  Hypothesis inc_nonempty : inc <> [].
  Hypothesis Hmulti : no_single_quorum inc out.

  Notation prule := (prule inc out).
  Notation reachable := (reachable inc out).

  (* how the acting node's role / term / liveness can change in one step *)
  Inductive node_change (p p' : pnode) : Prop :=
  | nc_same : p_role p' = p_role p -> p_term p' = p_term p -> p_up p' = p_up p -> node_change p p'
  | nc_pf : p_role p' = PF -> (p_up p = true -> p_up p' = true -> p_term p <= p_term p') -> node_change p p'
  | nc_camp : p_role p' = PC -> p_term p' = p_term p + 1 -> node_change p p'.

  Lemma prule_shape l s s' : prule l s = Some s' ->
    exists k p', (forall x, nodes s' x = if x =? k then p' else nodes s x) /\
      ((leaders s' = leaders s /\ node_change (nodes s k) p') \/
       (p_role (nodes s k) = PC /\ p_role p' = PL /\ p_term p' = p_term (nodes s k) /\ p_up p' = true /\
        l = LBecomeLeader k /\
        forall t, leaders s' t = if t =? p_term (nodes s k) then k :: leaders s t else leaders s t)).
  Proof.
    intros H.
    assert (Hid : forall k x, nodes s x = if x =? k then nodes s k else nodes s x).
    { intros k x. destruct (N.eqb_spec x k) as [->|]; reflexivity. }
    destruct l as [k|k|k|k t|k c t|k t|k t|c k|c|k t|k|k|k]; cbn [Election.prule] in H.
    - destruct (p_up (nodes s k) && negb (k =? 0)); [|discriminate]. inversion H; subst; clear H.
      eexists k, _. split; [reflexivity|]. left. split; [reflexivity|]. apply nc_camp; reflexivity.
    - destruct (p_up (nodes s k)) eqn:Hup; [|discriminate]. inversion H; subst; clear H.
      eexists k, _. split; [reflexivity|]. left. split; [reflexivity|]. apply nc_same; cbn; auto.
    - destruct (p_imgs (nodes s k)) as [|[t c] rest]; [discriminate|].
      destruct (p_up (nodes s k)) eqn:Hup; [|discriminate]. inversion H; subst; clear H.
      eexists k, _. split; [intros x; destruct (c =? 0); reflexivity|]. left.
      split; [destruct (c =? 0); reflexivity|]. apply nc_same; cbn; auto.
    - destruct (voted s k t) as [c|]; [|discriminate]. destruct (c =? k); [|discriminate].
      inversion H; subst; clear H. exists k, (nodes s k). split; [apply Hid|]. left.
      split; [reflexivity|]. apply nc_same; reflexivity.
    - destruct (p_up (nodes s k) && negb (c =? 0) && in_net (VoteReq c t) (net s)) eqn:Hg; [|discriminate].
      apply andb_prop in Hg. destruct Hg as [Hg _]. apply andb_prop in Hg. destruct Hg as [Hup _].
      destruct (p_term (nodes s k) <? t) eqn:Hlt.
      + inversion H; subst; clear H. apply N.ltb_lt in Hlt.
        eexists k, _. split; [reflexivity|]. left. split; [reflexivity|]. apply nc_pf; cbn; [reflexivity|lia].
      + destruct ((p_term (nodes s k) =? t) && ((p_vote (nodes s k) =? 0) || (p_vote (nodes s k) =? c))) eqn:E;
          [|discriminate].
        inversion H; subst; clear H. apply andb_prop in E. destruct E as [E _]. apply N.eqb_eq in E.
        eexists k, _. split; [reflexivity|]. left. split; [reflexivity|]. apply nc_same; cbn; auto.
    - destruct (voted s k t) as [c|]; [|discriminate]. destruct (c =? k); [discriminate|].
      inversion H; subst; clear H. exists k, (nodes s k). split; [apply Hid|]. left.
      split; [reflexivity|]. apply nc_same; reflexivity.
    - destruct (voted s k t) as [c|]; [|discriminate].
      destruct ((c =? k) && existsb (N.eqb k) (leaders s t)); [|discriminate].
      inversion H; subst; clear H. exists k, (nodes s k). split; [apply Hid|]. left.
      split; [reflexivity|]. apply nc_same; reflexivity.
    - destruct (p_role (nodes s c)) eqn:Er; try discriminate.
      destruct (p_up (nodes s c) && in_net (Grant k c (p_term (nodes s c))) (net s)) eqn:Hg; [|discriminate].
      apply andb_prop in Hg. destruct Hg as [Hup _].
      inversion H; subst; clear H. eexists c, _. split; [reflexivity|]. left. split; [reflexivity|].
      apply nc_same; cbn; auto.
    - destruct (p_role (nodes s c)) eqn:Er; try discriminate.
      destruct (p_up (nodes s c) && quorum inc out (p_granted (nodes s c))); [|discriminate].
      inversion H; subst; clear H. eexists c, _. split; [reflexivity|]. right. cbn. auto 10.
    - destruct (p_up (nodes s k) && (p_term (nodes s k) <? t)) eqn:Hg; [|discriminate].
      apply andb_prop in Hg. destruct Hg as [_ Hlt]. apply N.ltb_lt in Hlt.
      inversion H; subst; clear H.
      eexists k, _. split; [reflexivity|]. left. split; [reflexivity|]. apply nc_pf; cbn; [reflexivity|lia].
    - destruct (p_up (nodes s k)); [|discriminate]. inversion H; subst; clear H.
      eexists k, _. split; [reflexivity|]. left. split; [reflexivity|]. apply nc_pf; cbn; [reflexivity|lia].
    - destruct (p_up (nodes s k)); [|discriminate]. inversion H; subst; clear H.
      eexists k, _. split; [reflexivity|]. left. split; [reflexivity|]. apply nc_pf; cbn; [reflexivity|discriminate].
    - destruct (p_up (nodes s k)); [discriminate|]. inversion H; subst; clear H.
      eexists k, _. split; [reflexivity|]. left. split; [reflexivity|]. apply nc_pf; cbn; [reflexivity|lia].
  Qed.

  (* the assertion D1 inside the proof of election_safety *)
  Lemma leader_vote_durable s t c : reachable s -> In c (leaders s t) -> voted s c t = Some c.
  Proof.
    intros Hr Hin. pose proof (reachable_Inv inc out s Hr) as HI.
    destruct (inv_leader _ _ _ HI _ _ Hin) as (Q & HQ & HV).
    destruct (Hmulti Q c HQ) as (y & Hy & Hne). destruct (HV y Hy) as [E|E]; [congruence|].
    eapply (inv_other _ _ _ HI); eassumption.
  Qed.

  Lemma leader_term_le s t c : reachable s -> In c (leaders s t) -> t <= p_term (nodes s c).
  Proof.
    intros Hr Hin. pose proof (leader_vote_durable s t c Hr Hin) as Hv.
    pose proof (reachable_Inv inc out s Hr) as HI.
    destruct (inv_voted_dur _ _ _ HI _ _ _ Hv) as [_ Hd].
    pose proof (chain_ends _ _ _ (inv_chain _ _ _ HI c)) as Hle. unfold le_tv, dur, vol in Hle. cbn in Hle. lia.
  Qed.

  (* a node that led term t is never again a candidate of term t *)
  Lemma leader_not_candidate s : reachable s ->
    forall t c, In c (leaders s t) -> p_term (nodes s c) = t -> p_role (nodes s c) <> PC.
  Proof.
    induction 1 as [|s l s' Hr IH Hstep]; [intros t c []|].
    intros t c Hin Ht.
    destruct (prule_shape _ _ _ Hstep) as (k & p' & Hn & [[Hl Hc]|(Hpc & Hpl & Hpt & _ & _ & Hl)]).
    - rewrite Hl in Hin. rewrite Hn in *. destruct (N.eqb_spec c k) as [->|Hne]; [|apply IH with t; assumption].
      destruct Hc as [Hc1 Hc2 _|Hc1 _|Hc1 Hc2].
      + rewrite Hc1. rewrite Hc2 in Ht. apply IH with t; assumption.
      + congruence.
      + pose proof (leader_term_le s t k Hr Hin). lia.
    - rewrite Hn in *. destruct (N.eqb_spec c k) as [->|Hne]; [congruence|].
      rewrite Hl in Hin. destruct (t =? p_term (nodes s k)).
      + destruct Hin as [E|Hin]; [congruence|]. apply IH with t; assumption.
      + apply IH with t; assumption.
  Qed.

  Lemma leader_up s : reachable s -> forall c, p_role (nodes s c) = PL -> p_up (nodes s c) = true.
  Proof.
    induction 1 as [|s l s' Hr IH Hstep]; [discriminate|].
    intros c Hc.
    destruct (prule_shape _ _ _ Hstep) as (k & p' & Hn & [[Hl Hch]|(Hpc & Hpl & Hpt & Hup & _ & Hl)]).
    - rewrite Hn in *. destruct (N.eqb_spec c k) as [->|Hne]; [|apply IH; assumption].
      destruct Hch as [Hc1 Hc2 Hc3|Hc1 _|Hc1 Hc2]; try congruence.
      rewrite Hc3. apply IH. congruence.
    - rewrite Hn in *. destruct (N.eqb_spec c k) as [->|Hne]; [exact Hup|apply IH; assumption].
  Qed.
End ElectionFacts.

(* ------------------------------------------------------------------ *)
(** * Log layer: inversion of every rule *)

Definition not_leader (p : pnode) : Prop := p_role p <> PL.

Lemma not_leader_spec p : negb (match p_role p with PL => true | _ => false end) = true <-> not_leader p.
Proof. unfold not_leader. destruct (p_role p); cbn; split; intros; congruence. Qed.

Section LogRules.
  Variables (inc out : list N).
  Notation lrule := (lrule inc out).

  Lemma lel_inv l0 s s' : lrule (LEl l0) s = Some s' ->
    exists e', prule inc out l0 (el s) = Some e' /\ el s' = e' /\
      match l0 with
      | LCampaign n => s' = set_clog (set_el s e') n (p_term (nodes e' n)) (l_log (ln s n))
      | LGrant n c t => s' = set_el s e' /\ up_to_date (clog s c t) (l_log (ln s n)) = true
      | LBecomeLeader c =>
          l_log (ln s c) = clog s c (p_term (nodes e' c)) /\
          s' = set_llog (set_ln (set_el s e') c
                           (with_log (ln s c) (l_log (ln s c) ++ [(p_term (nodes e' c), 0)])))
                        (p_term (nodes e' c)) (l_log (ln s c) ++ [(p_term (nodes e' c), 0)])
      | LCrash n => s' = set_ln (set_el s e') n (mkLN (l_dlog (ln s n)) (l_dlog (ln s n)) [] 0 [])
      | _ => s' = set_el s e'
      end.
  Proof.
    cbn [Log.lrule]. intros H. destruct (prule inc out l0 (el s)) as [e'|] eqn:He; [|discriminate].
    exists e'. split; [reflexivity|].
    destruct l0; cbn [el_effect] in H; cbn [set_el el ln clog] in H;
      try (inversion H; subst; clear H; cbn; split; reflexivity).
    - destruct (up_to_date (clog s c t) (l_log (ln s n))) eqn:Hu; [|discriminate].
      inversion H; subst; clear H. cbn. auto.
    - destruct (log_eqb (l_log (ln s c)) (clog s c (p_term (nodes e' c)))) eqn:Hl; [|discriminate].
      apply log_eqb_eq in Hl. inversion H; subst; clear H. cbn. auto.
  Qed.

  Lemma lpropose_inv c x s s' : lrule (LPropose c x) s = Some s' ->
    own_term_leader s c = true /\
    s' = set_llog (set_ln s c (with_log (ln s c) (l_log (ln s c) ++ [(p_term (nodes (el s) c), x)])))
                  (p_term (nodes (el s) c)) (l_log (ln s c) ++ [(p_term (nodes (el s) c), x)]).
  Proof.
    cbn [Log.lrule]. intros H. destruct (own_term_leader s c); [|discriminate].
    inversion H; subst; clear H. auto.
  Qed.

  Lemma ladopt_inv n m s s' : lrule (LAdopt n m) s = Some s' ->
    let t := p_term (nodes (el s) n) in
    let new := firstn m (llog s t) in
    p_up (nodes (el s) n) = true /\ not_leader (nodes (el s) n) /\
    (m <= length (llog s t))%nat /\
    is_prefix new (l_log (ln s n)) = false /\
    (exists suf, new = firstn (l_commit (ln s n)) (l_log (ln s n)) ++ suf) /\
    (l_commit (ln s n) <= m)%nat /\
    s' = set_ln s n (with_log (ln s n) new).
  Proof.
    cbn [Log.lrule]. intros H. cbv zeta in H.
    match type of H with (if ?g then _ else _) = _ => destruct g eqn:Hg; [|discriminate] end.
    inversion H; subst; clear H.
    apply andb_prop in Hg. destruct Hg as [Hg H6]. apply andb_prop in Hg. destruct Hg as [Hg H5].
    apply andb_prop in Hg. destruct Hg as [Hg H4]. apply andb_prop in Hg. destruct Hg as [Hg H3].
    apply andb_prop in Hg. destruct Hg as [H1 H2].
    apply not_leader_spec in H2. apply Nat.leb_le in H3, H6. apply negb_true_iff in H4.
    apply is_prefix_spec in H5. cbv zeta. auto 10.
  Qed.

  Lemma lmkack_inv q i s s' : lrule (LMkAck q i) s = Some s' ->
    let t := p_term (nodes (el s) q) in
    p_up (nodes (el s) q) = true /\ not_leader (nodes (el s) q) /\
    (i <= length (llog s t))%nat /\
    (exists suf, l_log (ln s q) = firstn i (llog s t) ++ suf) /\
    s' = set_ln s q (mkLN (l_log (ln s q)) (l_dlog (ln s q)) (l_imgs (ln s q)) (l_commit (ln s q))
                          ((t, i) :: l_acks (ln s q))).
  Proof.
    cbn [Log.lrule]. intros H. cbv zeta in H.
    match type of H with (if ?g then _ else _) = _ => destruct g eqn:Hg; [|discriminate] end.
    inversion H; subst; clear H.
    apply andb_prop in Hg. destruct Hg as [Hg H4]. apply andb_prop in Hg. destruct Hg as [Hg H3].
    apply andb_prop in Hg. destruct Hg as [H1 H2].
    apply not_leader_spec in H2. apply Nat.leb_le in H3. apply is_prefix_spec in H4. cbv zeta. auto 10.
  Qed.

  Lemma lrelack_inv q t i s s' : lrule (LRelAck q t i) s = Some s' ->
    In (t, i) (l_acks (ln s q)) /\
    (exists suf, l_dlog (ln s q) = firstn i (llog s t) ++ suf) /\
    (i <= length (llog s t))%nat /\
    s' = (if (acked s q t <? i)%nat then set_acked s q t i else s).
  Proof.
    cbn [Log.lrule]. intros H. cbv zeta in H.
    match type of H with (if ?g then _ else _) = _ => destruct g eqn:Hg; [|discriminate] end.
    inversion H; subst; clear H.
    apply andb_prop in Hg. destruct Hg as [Hg H3]. apply andb_prop in Hg. destruct Hg as [H1 H2].
    apply Nat.leb_le in H3. apply is_prefix_spec in H2.
    apply existsb_exists in H1. destruct H1 as ([t0 i0] & Hin & He). cbn in He.
    apply andb_prop in He. destruct He as [E1 E2]. apply N.eqb_eq in E1. apply Nat.eqb_eq in E2. subst.
    auto.
  Qed.

  Definition supporters (s : lst) (c : N) (k : nat) : list N :=
    filter (fun q => if q =? c then is_prefix (firstn k (l_log (ln s c))) (l_dlog (ln s c))
                     else (k <=? acked s q (p_term (nodes (el s) c)))%nat) (universe inc out).

  Lemma lcommitl_inv c k s s' : lrule (LCommitL c k) s = Some s' ->
    let t := p_term (nodes (el s) c) in
    own_term_leader s c = true /\ (k <= length (l_log (ln s c)))%nat /\ (l_commit (ln s c) < k)%nat /\
    term_at (l_log (ln s c)) k = t /\ quorum inc out (supporters s c k) = true /\
    s' = add_cpt (set_ln s c (mkLN (l_log (ln s c)) (l_dlog (ln s c)) (l_imgs (ln s c)) k (l_acks (ln s c)))) t k.
  Proof.
    cbn [Log.lrule]. intros H. cbv zeta in H.
    match type of H with (if ?g then _ else _) = _ => destruct g eqn:Hg; [|discriminate] end.
    inversion H; subst; clear H.
    apply andb_prop in Hg. destruct Hg as [Hg H5]. apply andb_prop in Hg. destruct Hg as [Hg H4].
    apply andb_prop in Hg. destruct Hg as [Hg H3]. apply andb_prop in Hg. destruct Hg as [H1 H2].
    apply Nat.leb_le in H2. apply Nat.ltb_lt in H3. apply N.eqb_eq in H4. cbv zeta. auto 10.
  Qed.

  Lemma lcommitf_inv n k s s' : lrule (LCommitF n k) s = Some s' ->
    p_up (nodes (el s) n) = true /\ (k <= length (l_log (ln s n)))%nat /\ (l_commit (ln s n) < k)%nat /\
    (exists T k0, In (T, k0) (cpts s) /\ (k <= k0)%nat /\
                  exists suf, llog s T = firstn k (l_log (ln s n)) ++ suf) /\
    s' = set_ln s n (mkLN (l_log (ln s n)) (l_dlog (ln s n)) (l_imgs (ln s n)) k (l_acks (ln s n))).
  Proof.
    cbn [Log.lrule]. intros H. cbv zeta in H.
    match type of H with (if ?g then _ else _) = _ => destruct g eqn:Hg; [|discriminate] end.
    inversion H; subst; clear H.
    apply andb_prop in Hg. destruct Hg as [Hg H4]. apply andb_prop in Hg. destruct Hg as [Hg H3].
    apply andb_prop in Hg. destruct Hg as [H1 H2].
    apply Nat.leb_le in H2. apply Nat.ltb_lt in H3.
    apply existsb_exists in H4. destruct H4 as ([T k0] & Hin & He). cbn in He.
    apply andb_prop in He. destruct He as [E1 E2]. apply Nat.leb_le in E1. apply is_prefix_spec in E2.
    repeat split; auto. exists T, k0. auto.
  Qed.

  Lemma llogimage_inv n s s' : lrule (LLogImage n) s = Some s' ->
    p_up (nodes (el s) n) = true /\
    s' = set_ln s n (mkLN (l_log (ln s n)) (l_dlog (ln s n)) (l_imgs (ln s n) ++ [l_log (ln s n)])
                          (l_commit (ln s n)) (l_acks (ln s n))).
  Proof.
    cbn [Log.lrule]. intros H. cbv zeta in H. destruct (p_up (nodes (el s) n)); [|discriminate].
    inversion H; subst; clear H. auto.
  Qed.

  Lemma llogfsync_inv n s s' : lrule (LLogFsync n) s = Some s' ->
    exists img rest, l_imgs (ln s n) = img :: rest /\ p_up (nodes (el s) n) = true /\
    s' = set_ln s n (mkLN (l_log (ln s n)) img rest (l_commit (ln s n)) (l_acks (ln s n))).
  Proof.
    cbn [Log.lrule]. intros H. cbv zeta in H. destruct (l_imgs (ln s n)) as [|img rest]; [discriminate|].
    destruct (p_up (nodes (el s) n)); [|discriminate].
    inversion H; subst; clear H. eauto.
  Qed.

  (* Stage 0: projection onto the election layer *)
  Lemma lstep_el l s s' : lrule l s = Some s' ->
    el s' = el s \/ exists l0, l = LEl l0 /\ prule inc out l0 (el s) = Some (el s').
  Proof.
    intros H. destruct l as [l0|c x|n m|q i|q t i|c k|n k|n|n].
    - right. exists l0. split; [reflexivity|]. destruct (lel_inv _ _ _ H) as (e' & He & <- & _). exact He.
    - left. apply lpropose_inv in H. destruct H as (_ & ->). reflexivity.
    - left. apply ladopt_inv in H. cbv zeta in H. destruct H as (_ & _ & _ & _ & _ & _ & ->). reflexivity.
    - left. apply lmkack_inv in H. cbv zeta in H. destruct H as (_ & _ & _ & _ & ->). reflexivity.
    - left. apply lrelack_inv in H. destruct H as (_ & _ & _ & ->). destruct (acked s q t <? i)%nat; reflexivity.
    - left. apply lcommitl_inv in H. cbv zeta in H. destruct H as (_ & _ & _ & _ & _ & ->). reflexivity.
    - left. apply lcommitf_inv in H. destruct H as (_ & _ & _ & _ & ->). reflexivity.
    - left. apply llogimage_inv in H. destruct H as (_ & ->). reflexivity.
    - left. apply llogfsync_inv in H. destruct H as (img & rest & _ & _ & ->). reflexivity.
  Qed.

  Theorem lreachable_el s : lreachable inc out s -> reachable inc out (el s).
  Proof.
    induction 1 as [|s l s' Hr IH Hstep]; [apply reach_init|].
    destruct (lstep_el _ _ _ Hstep) as [E|(l0 & _ & Hp)]; [rewrite E; exact IH|].
    eapply reach_step; eassumption.
  Qed.
End LogRules.
